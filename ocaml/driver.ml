(* driver.ml — line protocol around the extracted Coq oracle.
   Reads one request per line on stdin, writes one answer line on stdout.
   All parsing, computing and printing happens in extracted code
   (Model.handle); this file only converts between OCaml strings and Coq
   [list byte]. *)

let rec pos_of_int (n : int) : Model.positive =
  if n = 1 then Model.XH
  else if n land 1 = 0 then Model.XO (pos_of_int (n lsr 1))
  else Model.XI (pos_of_int (n lsr 1))

let n_of_int (n : int) : Model.n = if n = 0 then Model.N0 else Model.Npos (pos_of_int n)

let rec int_of_pos (p : Model.positive) : int =
  match p with Model.XH -> 1 | Model.XO q -> 2 * int_of_pos q | Model.XI q -> 2 * int_of_pos q + 1

let int_of_n (x : Model.n) : int = match x with Model.N0 -> 0 | Model.Npos p -> int_of_pos p

let byte_tab : Model.byte array =
  Array.init 256 (fun i -> match Model.of_N (n_of_int i) with Some b -> b | None -> assert false)

let bytes_of_string (s : string) : Model.byte list =
  let l = ref [] in
  for i = String.length s - 1 downto 0 do
    l := byte_tab.(Char.code s.[i]) :: !l
  done;
  !l

let string_of_bytes (l : Model.byte list) : string =
  let b = Buffer.create 256 in
  List.iter (fun x -> Buffer.add_char b (Char.chr (int_of_n (Model.to_N x)))) l;
  Buffer.contents b

let () =
  try
    while true do
      let line = input_line stdin in
      let ans =
        try string_of_bytes (Model.handle_all4 (bytes_of_string line))
        with Stack_overflow -> "stackoverflow" | Out_of_memory -> "oom" in
      print_string ans;
      print_char '\n';
      flush stdout
    done
  with End_of_file -> ()
