module verif/harness

go 1.22

require (
	github.com/klauspost/compress v1.18.0
	github.com/minio/simdjson-go v0.0.0
)

require github.com/klauspost/cpuid/v2 v2.2.10 // indirect

replace github.com/minio/simdjson-go => /repo
