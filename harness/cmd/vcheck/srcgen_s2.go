package main

// srcgen, part 2: TRANSLATE the body of unifiedMachine
// (stage2_build_tape_amd64.go) into a term of the Coq syntax Model/S2Ast.v.
//
// The translation is statement by statement and purely syntactic: each Go
// statement of the small vocabulary the function is written in maps to one
// constructor; anything else becomes GUnknown "<source text>" (which makes the
// Coq obligation fail rather than being silently dropped).  The only
// non-local step is making fall-through between labelled blocks explicit
// (a block that does not end in goto/return gets `GGoto <next label>`).

import (
	"bytes"
	"fmt"
	"go/ast"
	"go/parser"
	"go/printer"
	"go/token"
	"path/filepath"
	"strconv"
	"strings"
)

type s2tr struct {
	fset   *token.FileSet
	consts map[string]uint64
	site   int
}

func (t *s2tr) src(n ast.Node) string {
	var b bytes.Buffer
	printer.Fprint(&b, t.fset, n)
	return b.String()
}

func coqStr(s string) string {
	s = strings.ReplaceAll(s, "\"", "\"\"")
	s = strings.ReplaceAll(s, "\n", " ")
	s = strings.ReplaceAll(s, "\t", " ")
	return "\"" + s + "\"%string"
}

// a byte literal 'x' -> its value
func (t *s2tr) charLit(e ast.Expr) (uint64, bool) {
	bl, ok := e.(*ast.BasicLit)
	if !ok || bl.Kind != token.CHAR {
		return 0, false
	}
	s, err := strconv.Unquote(bl.Value)
	if err != nil || len(s) != 1 {
		return 0, false
	}
	return uint64(s[0]), true
}

func (t *s2tr) isBufIdx(e ast.Expr) bool { return t.src(e) == "buf[idx]" }

func (t *s2tr) cond(e ast.Expr) string {
	s := t.src(e)
	switch s {
	case "!parseString(&pj.ParsedJson, idx, peekSize(pj), pj.copyStrings)":
		return "CNotString"
	case "!isValidTrueAtom(buf[idx:])":
		return "(CNotAtom AkTrue)"
	case "!isValidFalseAtom(buf[idx:])":
		return "(CNotAtom AkFalse)"
	case "!isValidNullAtom(buf[idx:])":
		return "(CNotAtom AkNull)"
	case "!addNumber(buf[idx:], &pj.ParsedJson)":
		return "CNotNumber"
	case "len(pj.containingScopeOffset) != 0":
		return "CStackNonEmpty"
	}
	if be, ok := e.(*ast.BinaryExpr); ok {
		if (be.Op == token.EQL || be.Op == token.NEQ) && t.isBufIdx(be.X) {
			if c, ok := t.charLit(be.Y); ok {
				if be.Op == token.EQL {
					return fmt.Sprintf("(CCharEq %d)", c)
				}
				return fmt.Sprintf("(CCharNe %d)", c)
			}
		}
		if be.Op == token.LAND {
			l, lok := be.X.(*ast.BinaryExpr)
			r, rok := be.Y.(*ast.BinaryExpr)
			if lok && rok && l.Op == token.GEQ && r.Op == token.LEQ && t.isBufIdx(l.X) && t.isBufIdx(r.X) {
				lo, ok1 := t.charLit(l.Y)
				hi, ok2 := t.charLit(r.Y)
				if ok1 && ok2 {
					return fmt.Sprintf("(CCharRange %d %d)", lo, hi)
				}
			}
		}
	}
	return "(CUnknown " + coqStr(s) + ")"
}

// `if done, idx = updateChar(pj, idx); done { goto L } [else {...}]`
func (t *s2tr) isUpdate(s *ast.IfStmt) (string, bool) {
	if s.Init == nil || t.src(s.Init) != "done, idx = updateChar(pj, idx)" || t.src(s.Cond) != "done" {
		return "", false
	}
	if len(s.Body.List) != 1 {
		return "", false
	}
	br, ok := s.Body.List[0].(*ast.BranchStmt)
	if !ok || br.Tok != token.GOTO {
		return "", false
	}
	return br.Label.Name, true
}

func (t *s2tr) list(ss []string) string {
	if len(ss) == 0 {
		return "[]"
	}
	return "[" + strings.Join(ss, ";\n      ") + "]"
}

func (t *s2tr) retConst(name string) (uint64, bool) {
	v, ok := t.consts[name]
	return v, ok
}

func (t *s2tr) stmts(l []ast.Stmt) []string {
	var out []string
	for _, s := range l {
		out = append(out, t.stmt(s)...)
	}
	return out
}

func (t *s2tr) stmt(s ast.Stmt) []string {
	unknown := func() []string { return []string{"GUnknown " + coqStr(t.src(s))} }
	switch x := s.(type) {
	case *ast.EmptyStmt:
		return nil
	case *ast.LabeledStmt:
		// labels are handled by the block splitter; a nested label is not expected
		return unknown()
	case *ast.BranchStmt:
		switch x.Tok {
		case token.GOTO:
			return []string{"GGoto " + coqStr(x.Label.Name)}
		case token.BREAK:
			if x.Label == nil {
				return []string{"GBreak"}
			}
		}
		return unknown()
	case *ast.ReturnStmt:
		switch t.src(x) {
		case "return false, done":
			return []string{"GReturn false"}
		case "return true, done":
			return []string{"GReturn true"}
		}
		return unknown()
	case *ast.IfStmt:
		if l, ok := t.isUpdate(x); ok {
			k := t.site
			t.site++
			out := []string{fmt.Sprintf("GUpdate %d %s", k, coqStr(l))}
			if x.Else != nil {
				eb, ok := x.Else.(*ast.BlockStmt)
				if !ok {
					return unknown()
				}
				// the then-branch is a goto, so the else-branch is what follows
				out = append(out, t.stmts(eb.List)...)
			}
			return out
		}
		if x.Init != nil {
			return unknown()
		}
		var els []string
		if x.Else != nil {
			eb, ok := x.Else.(*ast.BlockStmt)
			if !ok {
				return unknown()
			}
			els = t.stmts(eb.List)
		}
		return []string{fmt.Sprintf("GIf %s\n      %s\n      %s", t.cond(x.Cond), t.list(t.stmts(x.Body.List)), t.list(els))}
	case *ast.ForStmt:
		if x.Init != nil || x.Post != nil || x.Cond == nil {
			return unknown()
		}
		return []string{fmt.Sprintf("GWhile %s\n      %s", t.cond(x.Cond), t.list(t.stmts(x.Body.List)))}
	case *ast.SwitchStmt:
		if x.Init != nil || x.Tag == nil {
			return unknown()
		}
		tag := t.src(x.Tag)
		var cases []string
		dflt := []string{}
		hasD := false
		for _, cc := range x.Body.List {
			c := cc.(*ast.CaseClause)
			body := t.stmts(c.Body)
			if c.List == nil {
				dflt, hasD = body, true
				continue
			}
			switch tag {
			case "buf[idx]":
				var vals []string
				for _, e := range c.List {
					v, ok := t.charLit(e)
					if !ok {
						return unknown()
					}
					vals = append(vals, fmt.Sprint(v))
				}
				cases = append(cases, fmt.Sprintf("([%s], %s)", strings.Join(vals, "; "), t.list(body)))
			case "offset & ((1 << retAddressShift) - 1)":
				if len(c.List) != 1 {
					return unknown()
				}
				v, ok := t.retConst(t.src(c.List[0]))
				if !ok {
					return unknown()
				}
				cases = append(cases, fmt.Sprintf("(%d, %s)", v, t.list(body)))
			default:
				return unknown()
			}
		}
		_ = hasD
		if tag == "buf[idx]" {
			return []string{fmt.Sprintf("GSwitchChar\n      %s\n      %s", t.list(cases), t.list(dflt))}
		}
		return []string{fmt.Sprintf("GSwitchRet\n      %s\n      %s", t.list(cases), t.list(dflt))}
	case *ast.ExprStmt, *ast.AssignStmt:
		src := t.src(s)
		switch src {
		case "offset = pj.containingScopeOffset[len(pj.containingScopeOffset)-1]":
			return []string{"GLoadOffset"}
		case "pj.containingScopeOffset = pj.containingScopeOffset[:len(pj.containingScopeOffset)-1]":
			return []string{"GDropScope"}
		case "pj.annotate_previousloc(offset>>retAddressShift, pj.get_current_loc())":
			return []string{"GAnnotate false"}
		case "pj.annotate_previousloc(offset>>retAddressShift, pj.get_current_loc()+addOneForRoot)":
			return []string{"GAnnotate true"}
		case "pj.write_tape(offset>>retAddressShift, buf[idx])":
			return []string{"GWriteOffCur"}
		case "pj.isvalid = true":
			return []string{"GSetValid"}
		}
		const pushPre = "pj.containingScopeOffset = append(pj.containingScopeOffset, (pj.get_current_loc()<<retAddressShift)|"
		if strings.HasPrefix(src, pushPre) && strings.HasSuffix(src, ")") {
			if v, ok := t.retConst(src[len(pushPre) : len(src)-1]); ok {
				return []string{fmt.Sprintf("GPush %d", v)}
			}
		}
		if es, ok := s.(*ast.ExprStmt); ok {
			if call, ok := es.X.(*ast.CallExpr); ok && t.src(call.Fun) == "pj.write_tape" && len(call.Args) == 2 {
				if c, ok := t.charLit(call.Args[1]); ok {
					switch strings.ReplaceAll(t.src(call.Args[0]), " ", "") {
					case "0":
						return []string{fmt.Sprintf("GWrite0 %d", c)}
					case "offset>>retAddressShift":
						return []string{fmt.Sprintf("GWriteOff %d", c)}
					}
				}
			}
		}
		return unknown()
	}
	return unknown()
}

func endsInJump(ss []string) bool {
	if len(ss) == 0 {
		return false
	}
	last := ss[len(ss)-1]
	return strings.HasPrefix(last, "GGoto ") || strings.HasPrefix(last, "GReturn ")
}

// translateStage2 returns the text of gen/S2Prog.v
func translateStage2(repo string, consts map[string]uint64) ([]byte, error) {
	fset := token.NewFileSet()
	f, err := parser.ParseFile(fset, filepath.Join(repo, "stage2_build_tape_amd64.go"), nil, 0)
	if err != nil {
		return nil, err
	}
	var fn *ast.FuncDecl
	for _, d := range f.Decls {
		if fd, ok := d.(*ast.FuncDecl); ok && fd.Name.Name == "unifiedMachine" {
			fn = fd
		}
	}
	var b bytes.Buffer
	b.WriteString("(* GENERATED by `vcheck srcgen` from /repo's working tree (stage2_build_tape_amd64.go, unifiedMachine) — do not edit. *)\n")
	b.WriteString("From Coq Require Import NArith List String.\nImport ListNotations.\nFrom SJ Require Import Model.S2Ast.\nOpen Scope N_scope.\n\n")
	if fn == nil || fn.Body == nil {
		b.WriteString("Definition gen_unifiedMachine : prog := [(\"\"%string, [GUnknown \"unifiedMachine not found\"%string])].\n")
		return b.Bytes(), nil
	}
	t := &s2tr{fset: fset, consts: consts}
	// split the body into labelled blocks
	type block struct {
		name  string
		stmts []ast.Stmt
	}
	blocks := []block{{name: ""}}
	for _, s := range fn.Body.List {
		for {
			ls, ok := s.(*ast.LabeledStmt)
			if !ok {
				break
			}
			blocks = append(blocks, block{name: ls.Label.Name})
			s = ls.Stmt
		}
		blocks[len(blocks)-1].stmts = append(blocks[len(blocks)-1].stmts, s)
	}
	var outBlocks []string
	for i, bl := range blocks {
		var ss []string
		list := bl.stmts
		if i == 0 {
			// the four declarations that open the function
			want := []string{"buf := pj.Message", "const addOneForRoot = 1", "idx := ^uint64(0)", "offset := uint64(0)"}
			okp := len(list) >= 4
			for j := 0; okp && j < 4; j++ {
				if t.src(list[j]) != want[j] {
					okp = false
				}
			}
			if okp {
				ss = append(ss, "GPrologue")
				list = list[4:]
			}
		}
		ss = append(ss, t.stmts(list)...)
		if !endsInJump(ss) {
			if i+1 < len(blocks) {
				ss = append(ss, "GGoto "+coqStr(blocks[i+1].name))
			} else {
				ss = append(ss, "GUnknown "+coqStr("function falls off its end"))
			}
		}
		outBlocks = append(outBlocks, fmt.Sprintf("  (%s,\n     %s)", coqStr(bl.name), t.list(ss)))
	}
	fmt.Fprintf(&b, "Definition gen_unifiedMachine : prog :=\n [\n%s\n ].\n\nDefinition gen_unifiedMachine_sites : nat := %d.\n", strings.Join(outBlocks, ";\n"), t.site)
	return b.Bytes(), nil
}
