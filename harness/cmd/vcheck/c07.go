package main

import (
	"bytes"
	"fmt"
	"runtime"
	"strings"
	"sync"
	"time"

	simdjson "github.com/minio/simdjson-go"
)

func init() { checks["C07"] = checkC07 }

type evRec struct {
	kind int
	arg  uint64
}

// recorder installs itself as the pipeline event hook; mode decides where
// goroutines are held back.
type recorder struct {
	mu      sync.Mutex
	evs     []evRec
	mode    int // 0 free, 1 lagging consumer, 2 lagging producer, 3 random stop/go, 4 consumer holds a just-received buffer
	rng     *Rng
	attempt int // sends started (about-to-send events)
	sent    int
	recvd   int
	waiting bool
}

func (rc *recorder) hook(id uintptr, kind int, arg uint64) {
	rc.mu.Lock()
	rc.evs = append(rc.evs, evRec{kind, arg})
	switch kind {
	case simdjson.VerifEvSend, simdjson.VerifEvSendTerm:
		rc.attempt++
	case simdjson.VerifEvSent, simdjson.VerifEvSentTerm:
		rc.sent++
	case simdjson.VerifEvRecv:
		rc.recvd++
		rc.waiting = false
	case simdjson.VerifEvRecvWait:
		rc.waiting = true
	}
	mode := rc.mode
	var d time.Duration
	if mode == 3 {
		switch rc.rng.Intn(6) {
		case 0:
			d = time.Duration(rc.rng.Intn(300)) * time.Microsecond
		case 1:
			d = -1 // yield
		}
	}
	rc.mu.Unlock()
	switch {
	case mode == 1 && kind == simdjson.VerifEvRecvWait:
		// consumer lags: wait until the producer is far ahead (it will block on the
		// full channel) or 2ms have passed
		deadline := time.Now().Add(2 * time.Millisecond)
		for time.Now().Before(deadline) {
			rc.mu.Lock()
			ahead := rc.sent - rc.recvd
			rc.mu.Unlock()
			if ahead >= 15 {
				break
			}
			runtime.Gosched()
		}
	case mode == 4 && kind == simdjson.VerifEvRecv && arg != 0:
		// the consumer has received buffer c and has not read its first entry yet: hold
		// it until the producer has filled the channel behind it AND finished one more
		// buffer (it is then blocked in the send of buffer c+15, the farthest the ring
		// lets it run), or 3 ms have passed.  Anything the producer writes into a slot
		// that is still live shows up as a wrong first index of buffer c.
		deadline := time.Now().Add(3 * time.Millisecond)
		for time.Now().Before(deadline) {
			rc.mu.Lock()
			ahead := rc.attempt - rc.recvd
			rc.mu.Unlock()
			if ahead >= 15 {
				break
			}
			runtime.Gosched()
		}
	case mode == 2 && kind == simdjson.VerifEvAcquire:
		// producer lags: wait until the consumer is blocked in receive
		deadline := time.Now().Add(500 * time.Microsecond)
		for time.Now().Before(deadline) {
			rc.mu.Lock()
			w := rc.waiting
			rc.mu.Unlock()
			if w {
				break
			}
			runtime.Gosched()
		}
	case d > 0:
		time.Sleep(d)
	case d < 0:
		runtime.Gosched()
	}
}

// linearize turns the recorded hook events into model events. A channel
// operation takes effect somewhere between its "about to" and its "done"
// hook, so when the other side's "done" is recorded first the pending
// operation is moved in front of it. When stage 2 has failed, its drain loop
// receives without hooks: receives are inserted where the producer could not
// otherwise proceed.
func linearize(evs []evRec, capN int, consumerFailed bool) (string, int) {
	var out strings.Builder
	qlen := 0
	pendingSend := 0 // 0 none, 1 buffer, 2 terminator
	pendingRecv := false
	nbuf := 0
	lastConsumer := -1
	for i, e := range evs {
		if e.kind == simdjson.VerifEvRecvWait || e.kind == simdjson.VerifEvRecv {
			lastConsumer = i
		}
	}
	doSend := func() {
		if pendingSend == 1 {
			out.WriteByte('S')
		} else {
			out.WriteByte('T')
		}
		pendingSend = 0
		qlen++
	}
	failedMarked := false
	for i, e := range evs {
		if consumerFailed && !failedMarked && i > lastConsumer {
			out.WriteByte('F')
			failedMarked = true
		}
		switch e.kind {
		case simdjson.VerifEvAcquire:
			out.WriteByte('A')
			nbuf++
		case simdjson.VerifEvSend:
			pendingSend = 1
		case simdjson.VerifEvSendTerm:
			pendingSend = 2
		case simdjson.VerifEvSent, simdjson.VerifEvSentTerm:
			if pendingSend != 0 {
				if qlen >= capN {
					if pendingRecv {
						out.WriteByte('R')
						pendingRecv = false
						qlen--
					} else if failedMarked {
						out.WriteString("WR")
						qlen--
					}
				}
				doSend()
			}
		case simdjson.VerifEvRecvWait:
			out.WriteByte('W')
			pendingRecv = true
		case simdjson.VerifEvRecv:
			if pendingRecv {
				if qlen == 0 && pendingSend != 0 {
					doSend()
				}
				out.WriteByte('R')
				pendingRecv = false
				qlen--
			}
		}
	}
	if consumerFailed && !failedMarked {
		out.WriteByte('F')
		failedMarked = true
	}
	// drain what is left after a failure so that the model can reach its final state
	if failedMarked {
		if pendingRecv {
			if qlen > 0 {
				out.WriteByte('R')
				qlen--
			}
			pendingRecv = false
		}
		for qlen > 0 {
			out.WriteString("WR")
			qlen--
		}
	}
	return out.String(), nbuf
}

// bigDoc builds a document above the async threshold needing about nbuf index buffers.
func bigDoc(r *Rng, nbuf int, bad int) []byte {
	var b bytes.Buffer
	b.WriteString("[")
	target := nbuf * T_INDEX
	n := 0
	elems := []string{"1", `"s"`, "true", `{"a":null}`, "[1,2]", `"with \"esc\""`, "12.5e3", "null", `"` + strings.Repeat("y", 100) + `"`}
	for n < target || b.Len() < THR_SYNC+100 {
		if n > 0 {
			b.WriteString(",")
		}
		e := elems[r.Intn(len(elems))]
		if bad > 0 && n >= bad && bad < 1<<30 {
			if r.Bool() {
				e = "tru" // stage-2 failure
			} else {
				e = "\"ctl\x01\"" // stage-1 failure (control character in string)
			}
			bad = 1 << 30
		}
		b.WriteString(e)
		if r.Chance(1, 10) {
			b.WriteString(strings.Repeat(" ", r.Intn(80)))
		}
		n += 2 + strings.Count(e, ",") + strings.Count(e, ":") + strings.Count(e, "{") + strings.Count(e, "[")
	}
	b.WriteString("]")
	return b.Bytes()
}

// ringModelHasAbandon: the ring transition system knows the producer's failure path
// (terminator sent while an acquired buffer is withheld); set once Model/Ring.v has it
const ringModelHasAbandon = true

func checkC07(c *Ctx) {
	r := c.Rng
	c.Ev.Coverage.Rule = "documents above the 8 KiB threshold needing 2..200 index buffers (valid, stage-1-invalid and stage-2-invalid at a chosen point, big objects truncated inside a member, maximally dense documents whose last index buffer is over-full because the padded tail call added to it) parsed (every second run into the ParsedJson an earlier run returned, whose own index channel and capacity are then the ones replayed) under forced schedules through the verif event hooks: free running, lagging consumer (producer driven into the full channel), lagging producer (consumer blocked in receive), random stop/go at every event, consumer holding each just-received buffer until the producer is 15 buffers ahead; GOMAXPROCS 1/2/4/16. Each recorded event trace is linearised and replayed through the Coq transition system (extracted Ring.run): every event must be enabled, every visited state Safe, consumed in order; the outcome must equal the schedule-free model/spec outcome. plus: parsing into a clone leaves the original untouched, and an original and its clone are parsed into at the same time (> 16 buffers each). non-trivial = trace with >= 2 buffers accepted by the model; distinct = by (document, mode, trace)"
	capN, slots := 14, 16
	if pj, err := simdjson.Parse([]byte(`{"a":1}`), nil); err == nil {
		cc, _, _ := simdjson.VerifChanState(pj)
		if cc > 0 {
			capN = cc
		}
	}
	slots = int(simdjson.VerifConsts()["indexSlots"])
	ncase := c.N(260, 6000)
	type job struct {
		doc   []byte
		capN  int
		reuse bool
		mode  int
		procs int
		trace string
		nbuf  int
		out   ParseOut
		dump  string
	}
	var jobs []*job
	var prev *simdjson.ParsedJson // destination of an earlier parse, handed back in every second run
	g0 := runtime.NumGoroutine()
	oldProcs := runtime.GOMAXPROCS(0)
	// maximally dense documents above 8 KiB whose LAST index buffer is over-full: the buffer
	// reaches its fill limit with at most 64 bytes of input left, and the padded tail call
	// adds its indexes to the same buffer (up to 1535 entries; found by running stage 1 alone
	// over one period of alignments)
	fullTail := overfullLastBufferDocs()
	// a gap of more than 64 KiB between two structurals (one long string), then enough dense
	// content for the 16-slot ring to come round: every index word a slot held before must be
	// overwritten in full (the deltas written into it later are small)
	for _, gap := range []int{70000, 200000} {
		fullTail = append(fullTail, []byte(`["`+strings.Repeat("g", gap)+`",`+strings.Repeat("1,", 14000)+`"`+strings.Repeat("h", gap/2)+`",`+strings.Repeat("[],", 6000)+`1]`))
	}
	c.Ev.Note(fmt.Sprintf("%d dense documents with an over-full last index buffer", len(fullTail)))
	ncase += len(fullTail)
	for i := 0; i < ncase; i++ {
		nb := 2 + r.Intn(8)
		if i%9 == 0 {
			nb = 17 + r.Intn(30)
		}
		if i%41 == 0 {
			nb = 100 + r.Intn(100)
		}
		bad := 0
		if i%3 == 1 {
			bad = 1 + r.Intn(nb*T_INDEX)
		}
		if i%5 == 4 {
			// schedule 4 needs more buffers than the ring has slots, mostly valid documents
			nb = 18 + r.Intn(40)
			if i%10 == 4 {
				bad = 0
			}
		}
		if i%7 == 2 {
			// an early failure in a document that still needs far more buffers than
			// the ring has slots: the failing stage must keep the other one moving
			nb = 20 + r.Intn(60)
			bad = 1 + r.Intn(3*T_INDEX)
		}
		doc := bigDoc(r, nb, bad)
		if i%11 == 5 {
			// a big object cut inside a member: stage 1 rejects it at its very end, after
			// stage 2 has consumed everything it was handed (also: exactly after a colon)
			doc = truncatedObjects(r, 1)[0]
		}
		if k := ncase - 1 - i; k < len(fullTail) {
			doc = fullTail[k]
		}
		mode := i % 5
		procs := []int{1, 2, 4, 16}[(i/5)%4]
		runtime.GOMAXPROCS(procs)
		rc := &recorder{mode: mode, rng: r.Fork()}
		simdjson.VerifEventHook = rc.hook
		setKernel(hwAVX512 && i%2 == 0)
		done := make(chan ParseOut, 1)
		var reuse *simdjson.ParsedJson
		if i%2 == 1 {
			reuse = prev
		}
		go func() { done <- implParse(doc, false, i%3 != 0, reuse) }()
		var out ParseOut
		select {
		case out = <-done:
		case <-time.After(180 * time.Second):
			simdjson.VerifEventHook = nil
			runtime.GOMAXPROCS(oldProcs)
			c.Violate("deadlock", "Parse did not return within 180 s under a forced schedule", "deadlock",
				map[string]interface{}{"doc_hex": fmt.Sprintf("%x", doc), "mode": mode, "gomaxprocs": procs})
			return
		}
		simdjson.VerifEventHook = nil
		j := &job{doc: doc, mode: mode, procs: procs, out: out, capN: capN, reuse: reuse != nil}
		// the channel this run actually used (a reused parser keeps its own)
		if used := out.PJ; used != nil || reuse != nil {
			if used == nil {
				used = reuse
			}
			if cc, _, has := simdjson.VerifChanState(used); has && cc > 0 {
				j.capN = cc
			}
		}
		if !out.Err {
			prev = out.PJ
		}
		rc.mu.Lock()
		evs := append([]evRec{}, rc.evs...)
		rc.mu.Unlock()
		// did stage 2 fail before the end? (then its drain loop ran without hooks)
		consumerFailed := false
		if out.Err {
			// the consumer failed iff it did not record the receipt of the terminator
			last := -1
			for k, e := range evs {
				if e.kind == simdjson.VerifEvRecv {
					last = k
				}
			}
			nrecv, nsent := 0, 0
			for _, e := range evs {
				if e.kind == simdjson.VerifEvRecv {
					nrecv++
				}
				if e.kind == simdjson.VerifEvSent || e.kind == simdjson.VerifEvSentTerm {
					nsent++
				}
			}
			_ = last
			consumerFailed = nrecv < nsent
		}
		j.trace, j.nbuf = linearize(evs, j.capN, consumerFailed)
		if !ringModelHasAbandon {
			// producer failure path: the last acquired buffer is withheld and the terminator
			// sent instead (A ... T with no S in between).  Until the transition system has
			// that event the withheld acquire is left out of the replayed trace (its write
			// into the ring slot is an ordinary acquire for the safety argument); outcome,
			// termination and everything else of the run are still checked.
			if k := strings.LastIndexByte(j.trace, 'A'); k >= 0 {
				rest := j.trace[k+1:]
				if strings.IndexByte(rest, 'T') >= 0 && strings.IndexByte(rest[:strings.IndexByte(rest, 'T')], 'S') < 0 {
					j.trace = j.trace[:k] + rest
					j.nbuf--
					c.Ev.Dist("producer-withheld-last-buffer")
				}
			}
		}
		if !out.Err {
			j.dump, _ = dumpDoc(out.PJ)
		}
		jobs = append(jobs, j)
	}
	runtime.GOMAXPROCS(oldProcs)
	time.Sleep(50 * time.Millisecond)
	if g := runtime.NumGoroutine(); g > g0+2 {
		c.Violate("goroutine-leak", fmt.Sprintf("goroutines before %d after %d", g0, g), "goroutine-leak", map[string]interface{}{})
	}
	var reqs []string
	for _, j := range jobs {
		reqs = append(reqs, fmt.Sprintf("ring %d %d %d %s", slots, j.capN, j.nbuf, j.trace))
		reqs = append(reqs, "spec "+hexOrDash(j.doc))
	}
	ans := c.Or.Ask(reqs)
	capReported := false
	for k, j := range jobs {
		ring, spec := ans[2*k], ans[2*k+1]
		cs := map[string]interface{}{"doc_hex": fmt.Sprintf("%x", j.doc), "mode": j.mode, "gomaxprocs": j.procs, "trace": trunc(j.trace, 2000),
			"buffers": j.nbuf, "channel_capacity": j.capN, "reused_parser": j.reuse, "ring": ring, "spec": trunc(spec, 100), "impl_err": j.out.Err}
		c.Ev.Dist(fmt.Sprintf("mode:%d", j.mode))
		c.Ev.Dist(fmt.Sprintf("gomaxprocs:%d", j.procs))
		c.Ev.Dist(fmt.Sprintf("reused-parser:%v", j.reuse))
		if j.capN+2 > slots && !capReported {
			capReported = true
			c.Violate("ring-capacity", fmt.Sprintf("this run's index channel has capacity %d with %d ring slots: the ring theorems need capacity+2 <= slots (one slot being written, one being read)", j.capN, slots), "ring-capacity", cs)
			c.ringRefutationProbe(slots, j.capN)
		}
		if j.nbuf > slots {
			c.Ev.Dist("buffers:>slots")
		} else {
			c.Ev.Dist("buffers:<=slots")
		}
		okTrace := strings.HasPrefix(ring, "ok safe=1") && strings.Contains(ring, "inorder=1")
		c.Ev.Count(fmt.Sprintf("forced-mode%d", j.mode), []byte(fmt.Sprintf("%x|%d|%s", j.doc[:64], j.mode, j.trace)), okTrace && j.nbuf >= 2)
		if !okTrace {
			c.Violate("trace", "recorded pipeline trace is not a safe trace of the ring transition system", "trace", cs)
			continue
		}
		if !j.out.Err && !strings.Contains(ring, "final=1") {
			c.Violate("trace", "successful parse but the replayed trace does not reach the final state", "trace-final", cs)
		}
		specOK := strings.HasPrefix(spec, "ok ")
		if spec != "out" && specOK == j.out.Err {
			c.Violate("outcome", "outcome under this schedule differs from what the content dictates", "outcome", cs)
		} else if specOK && "ok "+j.dump != spec+"|" {
			c.Violate("outcome", "document under this schedule differs from the specification's", "outcome-doc", cs)
		}
		if k%37 == 0 {
			c.Ev.Sample(map[string]interface{}{"mode": j.mode, "gomaxprocs": j.procs, "buffers": j.nbuf, "trace_prefix": trunc(j.trace, 160), "ring": ring, "impl_err": j.out.Err})
		}
	}
	c.ringRefutationProbe(slots, capN)
	c.c07ClonesDoNotShareTheRing(r)
}

// c07ClonesDoNotShareTheRing: a clone is an independent object — parsing into the clone must not
// touch the original, and the original and its clone can be parsed into at the same time
// (documents above 8 KiB needing more buffers than the ring has slots): each outcome and
// document is the one its own content dictates.
func (c *Ctx) c07ClonesDoNotShareTheRing(r *Rng) {
	for round := 0; round < c.N(6, 40); round++ {
		docA := bigDoc(r, 2+r.Intn(3), 0)
		a := implParse(docA, false, true, nil)
		if a.Err {
			continue
		}
		wantA, _ := dumpDoc(a.PJ)
		cl := a.PJ.Clone(nil)
		docB, docC := bigDoc(r, 18+r.Intn(8), 0), bigDoc(r, 18+r.Intn(8), 0)
		wb, wc := implParse(docB, false, true, nil), implParse(docC, false, true, nil)
		if wb.Err || wc.Err {
			continue
		}
		wantB, _ := dumpDoc(wb.PJ)
		wantC, _ := dumpDoc(wc.PJ)
		info := map[string]interface{}{"round": round, "doc_a_len": len(docA), "doc_b_len": len(docB), "doc_c_len": len(docC)}
		c.Ev.Count("clone-then-parse", []byte(fmt.Sprint(round)), true)
		// sequential: parse into the clone, the original is untouched
		ob := implParse(docB, false, true, cl)
		if ob.Err {
			c.Violate("outcome", "a valid document parsed into a clone of an earlier result was rejected", "clone-parse-outcome", info)
			return
		}
		if d, _ := dumpDoc(a.PJ); d != wantA {
			c.Violate("outcome", "parsing into a clone changed the original document", "clone-parse-original", info)
			return
		}
		if d, _ := dumpDoc(ob.PJ); d != wantB {
			c.Violate("outcome-doc", "a document parsed into a clone differs from the same document parsed afresh", "clone-parse-doc", info)
			return
		}
		// concurrent: original and a fresh clone parsed into at the same time
		cl2 := a.PJ.Clone(nil)
		var o1, o2 ParseOut
		done := make(chan struct{}, 2)
		go func() { o1 = implParse(docB, false, true, a.PJ); done <- struct{}{} }()
		go func() { o2 = implParse(docC, false, true, cl2); done <- struct{}{} }()
		for k := 0; k < 2; k++ {
			select {
			case <-done:
			case <-time.After(180 * time.Second):
				c.Violate("deadlock", "parsing into an original and into its clone at the same time did not return within 180 s", "clone-parse-hang", info)
				return
			}
		}
		if o1.Err || o2.Err {
			c.Violate("outcome", "a valid document was rejected when an original and its clone were parsed into at the same time", "clone-parse-concurrent-outcome", info)
			return
		}
		d1, _ := dumpDoc(o1.PJ)
		d2, _ := dumpDoc(o2.PJ)
		if d1 != wantB || d2 != wantC {
			c.Violate("outcome-doc", "documents parsed into an original and its clone at the same time differ from what their content dictates", "clone-parse-concurrent-doc", info)
			return
		}
	}
}

// ringRefutationProbe: if the source's constants no longer satisfy CAP+2 <= S
// (the tie obligation then fails), run the model's refutation schedule to show
// the concrete overwrite on the transition system.
func (c *Ctx) ringRefutationProbe(slots, capN int) {
	if capN+2 <= slots {
		return
	}
	var sb strings.Builder
	sb.WriteString("ASWR")
	for i := 0; i < slots-1; i++ {
		sb.WriteString("AS")
	}
	sb.WriteString("A")
	ans := c.Or.Ask1(fmt.Sprintf("ring %d %d %d %s", slots, capN, capN+2, sb.String()))
	if strings.Contains(ans, "safe=0") {
		c.Violate("ring-refuted", "with the source's slot count and channel capacity the lagging-consumer schedule overwrites a buffer the consumer still holds", "ring-refuted",
			map[string]interface{}{"slots": slots, "cap": capN, "schedule": sb.String(), "ring": ans})
	}
}
