package main

import (
	"fmt"
	"strings"
)

func init() { checks["C17"] = checkC17 }

// C17: the extracted wf_check runs on the implementation's real tapes.
func checkC17(c *Ctx) {
	r := c.Rng
	c.Ev.Coverage.Rule = "the Coq-extracted executable wf_check (root pairs, mutual container pointers, proper nesting, string flag/offset/length in range, number payload words, no other tags; NOP runs pointing at their end) is run on the implementation's real Tape/Strings/Message for every document Parse/ParseND reports as accepted in the G1/G7/deep/wide/NDJSON streams and in streams of documents above the 8 KiB threshold (valid, unbalanced, stage-2-invalid at a chosen point, truncated) in both string modes, on both kernels (tapes are also compared word for word with the model's), and on every tape obtained by deserializing a serialized (possibly edited) tape, also from a reused Serializer on 120 k (short, short+suffix) string pairs. non-trivial = accepted document; distinct = by input bytes"
	flags := ChkModel | ChkKernels | ChkNoPanic
	var batch []PCase
	nwf := 0
	flush := func() {
		var reqs []string
		var idx []int
		c.CompareParse(batch, flags, 40000, func(pc *PCase, outs []cfgOut, spec string) {
			for _, o := range outs {
				if o.out.Err || o.avx512 != hwAVX512 {
					continue
				}
				reqs = append(reqs, "reads "+stateArgs(o.out.PJ))
				idx = append(idx, 0)
			}
		})
		// wf only: ask in one batch
		ans := c.Or.Ask(reqs)
		for i, a := range ans {
			nwf++
			if !strings.Contains(a, " wf=1") || !strings.Contains(a, " wfnop=1") {
				c.Violate("tape-format", "tape produced by Parse/ParseND is not well-formed as documented", "wf", map[string]interface{}{"state": trunc(reqs[i], 3000), "answer": trunc(a, 300)})
			}
		}
		batch = batch[:0]
	}
	add := func(stream string, doc []byte, nd bool) {
		batch = append(batch, PCase{Doc: doc, Stream: stream, ND: nd})
		if len(batch) >= 2000 {
			flush()
		}
	}
	n := c.N(4000, 50000)
	for i := 0; i < n; i++ {
		o := smallOpts(r)
		if i%40 == 0 {
			o = &GenOpts{MaxDepth: 5, MaxFan: 5, TopFan: 30 + r.Intn(100), WS: r.Intn(9)}
		}
		add("G1-valid", genDoc(r, o), false)
		if i%4 == 0 {
			var sb strings.Builder
			for l := 0; l < 1+r.Intn(6); l++ {
				sb.Write(genDoc(r, &GenOpts{MaxDepth: 3, MaxFan: 3, TopFan: 4, WS: 0}))
				sb.WriteString([]string{"\n", "\r\n", "\n\n", "\n \n"}[r.Intn(4)])
			}
			add("NDJSON", []byte(sb.String()), true)
		}
	}
	for _, d := range []int{1, 2, 64, 128, 129, 1000} {
		add("deep", []byte(strings.Repeat("[", d)+strings.Repeat("]", d)), false)
		add("deep", []byte(strings.Repeat(`{"a":`, d)+"1"+strings.Repeat("}", d)), false)
	}
	for _, w := range []int{T_INDEX / 2, T_INDEX, 3 * T_INDEX} {
		add("wide", []byte("["+strings.Repeat(`"s",`, w)+"0]"), false)
	}
	// documents above the 8 KiB threshold (stage 1 and stage 2 run concurrently there): valid
	// ones, and ones only stage 2 can reject — whatever Parse reports as a success must
	// carry a well-formed tape
	for i := 0; i < c.N(24, 200); i++ {
		add("big-valid", bigDoc(r, 1+r.Intn(3), 0), false)
		add("big-stage2-invalid", bigDoc(r, 2+r.Intn(3), 1+r.Intn(2*T_INDEX)), false)
	}
	for _, d := range bigUnbalanced(r, c.N(24, 200)) {
		add("big-unbalanced", d, false)
	}
	for _, d := range truncatedObjects(r, c.N(6, 40)) {
		add("big-truncated", d, false)
	}
	flush()
	c.Ev.Note(fmt.Sprintf("wf_check evaluated on %d real tapes", nwf))
	if deserWFProbe != nil {
		deserWFProbe(c)
	}
	// string entries of a deserialized tape must lie inside its buffers also when the
	// Serializer that wrote the bytes was used before (its string table and buffer are
	// reused): the same stream as in C11, every string read back
	c.c11StaleStrings(c.N(120000, 600000))
}

// deserWFProbe is installed by the serializer part of the harness.
var deserWFProbe func(c *Ctx)
