package main

import (
	"encoding/json"
	"fmt"
	"math"
	"strconv"

	simdjson "github.com/minio/simdjson-go"
)

func init() { checks["C18"] = checkC18 }

// safeAppendFloat: appendFloat under recover (a panic is reported as an error text)
func safeAppendFloat(f float64) (out []byte, err error) {
	defer func() {
		if r := recover(); r != nil {
			out, err = nil, fmt.Errorf("PANIC: %v", r)
		}
	}()
	return simdjson.VerifAppendFloat(nil, f)
}

func checkC18(c *Ctx) {
	r := c.Rng
	c.Ev.Coverage.Rule = "finite float64 bit patterns printed by appendFloat (through Iter.MarshalJSON after SetFloat, StringCvt, and directly) compared with (1) the Coq model: shortest round-tripping digits BY SPECIFICATION (search over digit counts with exact integer arithmetic and the correctly rounding parser) + the ES6 format layer, (2) encoding/json byte for byte, (3) ParseFloat(output) == input. Streams: uniformly random patterns; every binade (min, max, random); all subnormal exponents; every power of ten 1e-323..1e308 with both neighbours; integers < 2^63 times powers of ten; values at and next to 1e-6 and 1e21; for every row of the 696-row powers-of-ten table floats whose shortest conversion uses that decimal exponent. non-trivial = finite pattern; distinct = by bit pattern"
	var bits []uint64
	add := func(f float64) {
		if math.IsInf(f, 0) || math.IsNaN(f) {
			return
		}
		bits = append(bits, math.Float64bits(f))
	}
	for i := 0; i < c.N(12000, 400000); i++ {
		add(math.Float64frombits(r.U64()))
	}
	for e := 0; e < 2047; e++ {
		if !c.Thorough() && e%3 != 0 {
			continue
		}
		base := uint64(e) << 52
		add(math.Float64frombits(base))
		add(math.Float64frombits(base | (1<<52 - 1)))
		for k := 0; k < c.N(2, 20); k++ {
			add(math.Float64frombits(base | r.U64()&(1<<52-1)))
		}
	}
	for s := uint(0); s < 52; s++ {
		add(math.Float64frombits(1 << s))
		add(math.Float64frombits(1<<s | 1))
		add(math.Float64frombits(1<<(s+1) - 1))
	}
	for p := -323; p <= 308; p++ {
		f, _ := strconv.ParseFloat(fmt.Sprintf("1e%d", p), 64)
		add(f)
		add(math.Nextafter(f, 0))
		add(math.Nextafter(f, math.Inf(1)))
		add(-f)
		// floats that use this decimal exponent with random digits
		for k := 0; k < c.N(3, 50); k++ {
			g, _ := strconv.ParseFloat(fmt.Sprintf("%d.%de%d", 1+r.Intn(9), r.Intn(1000000), p), 64)
			add(g)
		}
	}
	for i := 0; i < c.N(1500, 30000); i++ {
		v := float64(int64(r.U64() >> 1))
		add(v * math.Pow10(r.Intn(40)-20))
		add(float64(r.Intn(1000000)))
		add(float64(r.Intn(1000)) / 8)
	}
	for _, f := range []float64{1e-6, 1e21, 0, math.Copysign(0, -1), 1, 0.1, 0.5, 123456789, 1e20, 1e22, 9.999999999999999e20, 1.0000000000000001e21, 9.999999999999999e-7, 1.0000000000000002e-6,
		5e-324, math.MaxFloat64, 2.2250738585072014e-308, 2.225073858507201e-308, 4.9406564584124654e-324, 8.41e21, 2.0, 4.35, 0.000001, 0.0000001, 100, 1e2, 12345.678} {
		add(f)
		add(-f)
		add(math.Nextafter(f, 0))
		add(math.Nextafter(f, math.Inf(1)))
	}
	// dense, oracle-free stream: every binade with many mantissas, compared with
	// encoding/json byte for byte and re-parsed (both clauses of the property
	// that need no model); the Ryu code has per-exponent-range paths
	perBinade := c.N(150, 3000)
	ndense := 0
	for e := uint64(0); e < 2047; e++ {
		for k := 0; k < perBinade; k++ {
			m := r.U64() & (1<<52 - 1)
			switch k % 8 {
			case 0:
				m |= 1 // odd mantissas
			case 1:
				m &^= 0xfff
			case 2:
				m = uint64(k) // tiny mantissas
			}
			b := e<<52 | m
			if k%2 == 1 {
				b |= 1 << 63
			}
			f := math.Float64frombits(b)
			got, err := safeAppendFloat(f)
			ej, _ := json.Marshal(f)
			ndense++
			if err != nil || string(got) != string(ej) {
				c.Violate("float", "output differs from encoding/json", "float-stdlib", map[string]interface{}{"lit": fmt.Sprintf("bits=%016x value=%v", b, f), "impl": string(got), "encoding_json": string(ej)})
				continue
			}
			if back, perr := strconv.ParseFloat(string(got), 64); perr != nil || math.Float64bits(back) != b {
				c.Violate("float", "printed text does not parse back to the identical float64", "float-roundtrip", map[string]interface{}{"lit": fmt.Sprintf("bits=%016x value=%v", b, f), "impl": string(got)})
			}
		}
	}
	// short decimals: 1..17 significant digits (the last one non-zero, biased to 1 and 9, so
	// that the shortest output has exactly that many digits) at every scale 1e-25..1e25 — the
	// digit-generation code takes its "few digits" exits here, which random patterns
	// (always 15..17 digits) never reach
	nshort := 0
	for nd := 1; nd <= 17; nd++ {
		for sc := -25; sc <= 25; sc++ {
			for k := 0; k < c.N(40, 600); k++ {
				ds := make([]byte, nd)
				for i := range ds {
					ds[i] = byte('0' + r.Intn(10))
				}
				ds[0] = byte('1' + r.Intn(9))
				ds[nd-1] = "1199123456789"[r.Intn(13)]
				if k%5 == 0 && nd > 3 {
					for i := 1 + r.Intn(nd-2); i < nd-1; i++ {
						ds[i] = '0' // long zero runs before the last digit: 2.5000001
					}
				}
				f, perr := strconv.ParseFloat(fmt.Sprintf("%se%d", ds, sc-nd+1+r.Intn(3)), 64)
				if perr != nil || math.IsInf(f, 0) {
					continue
				}
				if k%2 == 1 {
					f = -f
				}
				b := math.Float64bits(f)
				got, err := safeAppendFloat(f)
				ej, _ := json.Marshal(f)
				nshort++
				if k < 1 {
					add(f) // a share of them also goes through the model comparison below
				}
				if err != nil || string(got) != string(ej) {
					c.Violate("float", "output differs from encoding/json", "float-stdlib", map[string]interface{}{"lit": fmt.Sprintf("bits=%016x value=%v", b, f), "impl": string(got), "encoding_json": string(ej)})
					continue
				}
				if back, perr := strconv.ParseFloat(string(got), 64); perr != nil || math.Float64bits(back) != b {
					c.Violate("float", "printed text does not parse back to the identical float64", "float-roundtrip", map[string]interface{}{"lit": fmt.Sprintf("bits=%016x value=%v", b, f), "impl": string(got)})
				}
			}
		}
	}
	c.Ev.Coverage.Streams["short-decimals-vs-encoding/json"] = nshort
	c.Ev.Coverage.Evaluations += ndense + nshort
	c.Ev.Coverage.Streams["dense-vs-encoding/json"] = ndense
	c.Ev.Note(fmt.Sprintf("dense stream: %d floats (every binade x %d mantissas) and %d short decimals (1..17 digits x scales 1e-25..1e25) compared with encoding/json and re-parsed; not counted in distinct_nontrivial", ndense, perBinade, nshort))
	reqs := make([]string, len(bits))
	for i, b := range bits {
		reqs[i] = fmt.Sprintf("float %016x", b)
	}
	ans := c.Or.Ask(reqs)
	doc := []byte("[0.5]")
	out := implParse(doc, false, true, nil)
	if out.Err {
		c.Violate("setup", "cannot parse the carrier document", "setup", map[string]interface{}{})
		return
	}
	for i, b := range bits {
		f := math.Float64frombits(b)
		direct, derr := safeAppendFloat(f)
		ai := iterAt(out.PJ, 2)
		arr, _ := ai.Array(nil)
		ait := arr.Iter()
		var it simdjson.Iter
		ait.AdvanceIter(&it)
		it.SetFloat(f)
		var mj []byte
		var sc string
		var merr, serr error
		func() {
			defer func() {
				if r := recover(); r != nil {
					merr = fmt.Errorf("PANIC: %v", r)
				}
			}()
			mj, merr = it.MarshalJSON()
			sc, serr = it.StringCvt()
		}()
		ej, _ := json.Marshal(f)
		info := map[string]interface{}{"lit": fmt.Sprintf("bits=%016x value=%v", b, f), "impl": string(direct), "marshal": string(mj), "stringcvt": sc, "encoding_json": string(ej), "model": ans[i]}
		c.Ev.Count("float", []byte(reqs[i]), true)
		e := (b >> 52) & 0x7ff
		switch {
		case e == 0:
			c.Ev.Dist("subnormal-or-zero")
		case e < 1003:
			c.Ev.Dist("tiny(<1e-6)")
		case e > 1092:
			c.Ev.Dist("huge(>=1e21)")
		default:
			c.Ev.Dist("plain-range")
		}
		if derr != nil || merr != nil || serr != nil {
			c.Violate("float", "a finite float was refused by the printer", "float-err", info)
			continue
		}
		if string(mj) != string(direct) || sc != string(direct) {
			c.Violate("float", "MarshalJSON / StringCvt / appendFloat disagree with each other", "float-paths", info)
			continue
		}
		if string(direct) != string(ej) {
			c.Violate("float", "output differs from encoding/json", "float-stdlib", info)
			continue
		}
		back, perr := strconv.ParseFloat(string(direct), 64)
		if perr != nil || math.Float64bits(back) != b {
			c.Violate("float", "printed text does not parse back to the identical float64", "float-roundtrip", info)
			continue
		}
		if "ok "+string(direct) != ans[i] {
			c.Ev.Coverage.ModelDisagreements++
			c.Violate("float", "output differs from the model (shortest digits by specification + ES6 format)", "float-model", info)
		}
		if i%2000 == 0 {
			c.Ev.Sample(map[string]interface{}{"bits": fmt.Sprintf("%016x", b), "text": string(direct)})
		}
	}
}
