package main

import (
	"fmt"
	"math"
	"math/big"
	"strings"

	simdjson "github.com/minio/simdjson-go"
)

func init() { checks["C03"] = checkC03 }

// exact decimal expansion of the midpoint between x and the next double up
func midpointDecimal(x float64) string {
	nx := math.Nextafter(x, math.Inf(1))
	if math.IsInf(nx, 0) || math.IsNaN(x) {
		return ""
	}
	a := new(big.Float).SetPrec(2200).SetFloat64(x)
	b := new(big.Float).SetPrec(2200).SetFloat64(nx)
	m := new(big.Float).SetPrec(2200).Add(a, b)
	m.Quo(m, big.NewFloat(2))
	s := m.Text('e', 780)
	// trim trailing zeros of the mantissa
	if i := strings.IndexByte(s, 'e'); i > 0 {
		mant, exp := s[:i], s[i:]
		mant = strings.TrimRight(mant, "0")
		mant = strings.TrimSuffix(mant, ".")
		s = mant + exp
	}
	return s
}

// bump the last mantissa digit of a decimal literal by delta (+1/-1), crude but exact enough
func bumpLast(s string, up bool) string {
	i := strings.IndexByte(s, 'e')
	mant, exp := s, ""
	if i >= 0 {
		mant, exp = s[:i], s[i:]
	}
	if up {
		return mant + "1" + exp
	}
	// slightly below: decrement via appending nothing but replacing last digit
	bs := []byte(mant)
	for j := len(bs) - 1; j >= 0; j-- {
		if bs[j] >= '1' && bs[j] <= '9' {
			bs[j]--
			return string(bs) + "9" + exp
		}
		if bs[j] == '0' {
			bs[j] = '9'
		}
	}
	return s
}

// c03InterfaceRoute: the number as exposed by Interface() (the route Object.Map,
// Array.Interface and the root Interface take) has the Go type the tag documents
// and the very value the typed accessor returns.
func (c *Ctx) c03InterfaceRoute(pj *simdjson.ParsedJson, pc *PCase) {
	pos, err := flatPositions(pj, 64)
	if err != nil {
		return
	}
	for _, p := range pos {
		if !p.IsValue || (p.Tag != simdjson.TagInteger && p.Tag != simdjson.TagUint && p.Tag != simdjson.TagFloat) {
			continue
		}
		it := iterAt(pj, p.K)
		v, ierr := it.Interface()
		got, want := fmt.Sprintf("%T:%v", v, v), ""
		if ierr != nil {
			got = "ERR " + ierr.Error()
		}
		it = iterAt(pj, p.K)
		switch p.Tag {
		case simdjson.TagInteger:
			x, _ := it.Int()
			want = fmt.Sprintf("int64:%v", x)
		case simdjson.TagUint:
			x, _ := it.Uint()
			want = fmt.Sprintf("uint64:%v", x)
		default:
			x, _ := it.Float()
			want = fmt.Sprintf("float64:%v", x)
			if f, ok := v.(float64); ok && math.Float64bits(f) != math.Float64bits(x) {
				got = fmt.Sprintf("float64 bits %016x", math.Float64bits(f))
				want = fmt.Sprintf("float64 bits %016x", math.Float64bits(x))
			}
		}
		c.Ev.Dist("interface-route")
		// the same position through an iterator cut to the element (Object.Parse / NextElementBytes /
		// AdvanceIter): type, value and float flags as through the walking iterator
		if er, ok := iterByPathMode(pj, p.Path, c.Rng.Intn(1<<10), true); ok {
			w := iterAt(pj, p.K)
			describe := func(x simdjson.Iter) string {
				a, b := x, x
				f, fl, e1 := a.FloatFlags()
				v, e2 := b.Interface()
				return fmt.Sprintf("%v|%016x|%v|%v|%T:%v|%v", x.Type(), math.Float64bits(f), fl, e1 != nil, v, v, e2 != nil)
			}
			if g, wnt := describe(er), describe(w); g != wnt {
				c.Violate("document", "a number read through an iterator cut to the element (Object.Parse / NextElementBytes / AdvanceIter) differs from the same position read through the walking iterator", "element-route-number",
					map[string]interface{}{"doc_hex": fmt.Sprintf("%x", pc.Doc), "doc_text": printable(pc.Doc), "stream": pc.Stream, "element_route": g, "walking": wnt})
			}
		}
		if got != want {
			c.Violate("document", "Interface() exposes the number with another type or value than the typed accessor of the same position", "iface-number",
				map[string]interface{}{"doc_hex": fmt.Sprintf("%x", pc.Doc), "doc_text": printable(pc.Doc), "stream": pc.Stream, "interface": got, "typed": want})
		}
	}
}

func checkC03(c *Ctx) {
	r := c.Rng
	c.Ev.Coverage.Rule = "number literals as array element and as object value; type tag, payload word and float flags read through the API (Type/Int/Uint/FloatFlags, and the same positions through Interface(), with the cross-type accessors Int/Uint/Float judged by exact arithmetic) vs the Coq specification num_spec (type cascade + correctly rounded binary64 built on Flocq's division/rounding core), and parseNumber directly vs the model. Streams: N1 exhaustive small grammar; N2 integer boundaries (2^63, 2^64 and neighbours, 19..22-character integers); N3 exact decimal midpoints between adjacent doubles (up to ~770 digits) and their two neighbours, for structured and random doubles; N4 exponent spellings, long fractions, underflow/overflow. non-trivial = literal accepted by the spec; distinct = by literal text"
	flags := ChkVerdict | ChkDump | ChkModel | ChkNoPanic | ChkCopyModes
	// known finding K3: Go's strconv (decimal.set) keeps 800 digits and loses the
	// position of the decimal point when the integer part is longer than that
	c.SigHook = func(doc []byte, sig string) string {
		run, best := 0, 0
		for _, ch := range doc {
			if ch >= '0' && ch <= '9' {
				run++
				if run > best {
					best = run
				}
			} else {
				run = 0
			}
		}
		if best > 800 {
			return sig + ":intpart>800digits"
		}
		return sig
	}
	var batch []PCase
	var lits []string
	flush := func() {
		c.CompareParse(batch, flags, 1<<16, func(pc *PCase, outs []cfgOut, spec string) {
			for _, o := range outs {
				if !o.out.Err && o.copy && o.avx512 == hwAVX512 {
					c.c03InterfaceRoute(o.out.PJ, pc)
					// Int()/Uint()/Float() on the position, judged by exact arithmetic on the value its
					// own accessor returns (a uint64 read through Float() is that number, not its
					// two's-complement twin)
					c.convJudgeAll(o.out.PJ, pc.Doc, 3)
				}
			}
		})
		batch = batch[:0]
	}
	add := func(stream, lit string) {
		if lit == "" {
			return
		}
		lits = append(lits, lit)
		var doc string
		if len(lits)%2 == 0 {
			doc = "[" + lit + "]"
		} else {
			doc = `{"v":` + lit + `}`
		}
		if r.Chance(1, 8) {
			doc = "[0," + lit + " ,1]"
		}
		batch = append(batch, PCase{Doc: []byte(doc), Stream: stream})
		if len(batch) >= 4000 {
			flush()
		}
	}
	// N1 exhaustive small grammar
	ints := []string{"0", "1", "9", "10", "12", "99", "100", "123", "999"}
	fracs := []string{"", ".0", ".5", ".9", ".00", ".25", ".99", ".01"}
	exps := []string{""}
	for _, e := range []string{"e", "E"} {
		for _, sg := range []string{"", "+", "-"} {
			for _, d := range []string{"0", "1", "5", "9", "00", "10", "22", "99", "07"} {
				exps = append(exps, e+sg+d)
			}
		}
	}
	for _, sign := range []string{"", "-"} {
		for _, ip := range ints {
			for _, fp := range fracs {
				for _, ep := range exps {
					add("N1-grammar", sign+ip+fp+ep)
				}
			}
		}
	}
	// N2 integer boundaries
	two63 := new(big.Int).Lsh(big.NewInt(1), 63)
	two64 := new(big.Int).Lsh(big.NewInt(1), 64)
	for _, base := range []*big.Int{two63, two64, new(big.Int).Exp(big.NewInt(10), big.NewInt(18), nil), new(big.Int).Exp(big.NewInt(10), big.NewInt(19), nil),
		new(big.Int).Exp(big.NewInt(10), big.NewInt(20), nil), new(big.Int).Exp(big.NewInt(10), big.NewInt(21), nil)} {
		for d := int64(-3); d <= 3; d++ {
			v := new(big.Int).Add(base, big.NewInt(d))
			add("N2-intbound", v.String())
			add("N2-intbound", "-"+v.String())
			add("N2-intbound", v.String()+".0")
			add("N2-intbound", v.String()+"e0")
		}
	}
	for n := 17; n <= 24; n++ {
		for k := 0; k < c.N(40, 400); k++ {
			var sb strings.Builder
			sb.WriteByte(byte('1' + r.Intn(9)))
			for i := 1; i < n; i++ {
				sb.WriteByte(byte('0' + r.Intn(10)))
			}
			add("N2-longint", sb.String())
			add("N2-longint", "-"+sb.String())
		}
	}
	// N3 halfway cases
	var xs []float64
	for e := -1074; e <= 1023; e += c.N(7, 1) {
		xs = append(xs, math.Ldexp(1, e))
		xs = append(xs, math.Nextafter(math.Ldexp(1, e), 0))
	}
	xs = append(xs, math.MaxFloat64, math.Nextafter(math.MaxFloat64, 0), math.SmallestNonzeroFloat64, 2.2250738585072014e-308, 2.225073858507201e-308, 1e23, 8.5e22, 9007199254740992, 9007199254740993)
	for i := 0; i < c.N(1500, 40000); i++ {
		f := math.Float64frombits(r.U64() & 0x7fffffffffffffff)
		if math.IsInf(f, 0) || math.IsNaN(f) {
			continue
		}
		xs = append(xs, f)
	}
	for _, x := range xs {
		m := midpointDecimal(x)
		if m == "" {
			continue
		}
		add("N3-midpoint", m)
		add("N3-midpoint-up", bumpLast(m, true))
		add("N3-midpoint-down", bumpLast(m, false))
		add("N3-shortest", fmt.Sprintf("%v", x))
		add("N3-17digits", fmt.Sprintf("%.17g", x))
		if r.Chance(1, 4) {
			add("N3-midpoint-neg", "-"+m)
		}
	}
	// N4 spellings, long fractions, underflow/overflow
	for _, s := range []string{"1e007", "1E+0", "1e-0", "0e999", "0.0e-999", "-0e5", "-0.0", "0.000000000000000000000000000001", "1e308", "1e309", "-1e309", "1.7976931348623157e308",
		"1.7976931348623158e308", "1.7976931348623159e308", "1.797693134862315807e308", "1.797693134862315808e308", "2e308", "4.9e-324", "2.4e-324", "2.5e-324", "2.47e-324", "2.48e-324",
		"1e-323", "1e-324", "1e-325", "1e-400", "1e400", "123456789012345678901234567890e-20", "0.1e1", "10e-1", "1e1000", "1e-1000", "1e9999", "1e-9999"} {
		add("N4-spelling", s)
		add("N4-spelling", "-"+s)
	}
	for _, n := range []int{30, 100, 400, 1000} {
		add("N4-longfrac", "0."+strings.Repeat("3", n))
		add("N4-longfrac", "1."+strings.Repeat("0", n)+"1")
		add("N4-longfrac", strings.Repeat("9", n)+"e-"+fmt.Sprint(n))
		add("N4-longfrac", "0."+strings.Repeat("0", n)+"1e"+fmt.Sprint(n))
	}
	for i := 0; i < c.N(4000, 60000); i++ {
		add("N4-random", genNumber(r))
	}
	// N5: plain decimals with 14..20 significant digits and the point anywhere (no exponent):
	// the band where a "digits as integer, divide by a power of ten" shortcut rounds twice
	// (10^15 < 2^53 < 10^16), half of them with a leading 9 so that the digits exceed 2^53
	for i := 0; i < c.N(6000, 80000); i++ {
		nd := 14 + r.Intn(7)
		ds := make([]byte, nd)
		for j := range ds {
			ds[j] = byte('0' + r.Intn(10))
		}
		if i%2 == 0 {
			ds[0] = '9'
		} else if ds[0] == '0' {
			ds[0] = '1'
		}
		ds[nd-1] = byte('1' + 2*r.Intn(5)) // odd last digit
		pt := r.Intn(nd + 1)
		lit := string(ds[:pt]) + "." + string(ds[pt:])
		if pt == 0 {
			lit = "0" + lit
		}
		if pt == nd {
			lit = string(ds) + ".0"
		}
		if r.Chance(1, 4) {
			lit = "-" + lit
		}
		add("N5-plain-decimal-15to20-digits", lit)
		// and the same digits with an exponent instead of the point
		if i%3 == 0 {
			add("N5-digits-exponent", string(ds)+"e-"+fmt.Sprint(nd-pt))
		}
	}
	flush()

	// parseNumber directly vs the model's num operation (delimiters included)
	delims := []string{",", "}", "]", " ", "\t", "\r", "\n", ":", "x", "\x00", "\"", "e", "+", ".", ""}
	var reqs []string
	var bufs [][]byte
	step := c.N(7, 1)
	for i := 0; i < len(lits); i += step {
		d := delims[r.Intn(len(delims))]
		buf := []byte(lits[i] + d + "zz")
		if d == "" {
			buf = []byte(lits[i])
		}
		bufs = append(bufs, buf)
		reqs = append(reqs, "num "+hexOrDash(buf))
	}
	ans := c.Or.Ask(reqs)
	for i, buf := range bufs {
		tag, val := simdjson.VerifParseNumber(buf)
		impl := "none"
		if tag != 0 {
			impl = fmt.Sprintf("ok %016x %016x", tag, val)
		}
		c.Ev.Count("parseNumber-direct", buf, tag != 0)
		if impl != ans[i] {
			c.Ev.Coverage.ModelDisagreements++
			sigD := "num-direct"
			if c.SigHook(buf, "document") == "document:intpart>800digits" {
				// the same strconv behaviour reached through parseNumber directly: known finding K3
				sigD = "document:intpart>800digits"
			}
			c.Violate("parseNumber", "parseNumber differs from the number model (which is proved equal to the specification)", sigD,
				map[string]interface{}{"lit": string(buf), "impl": impl, "model": ans[i]})
		}
	}
}
