package main

import (
	"bytes"
	"fmt"
	"strings"

	simdjson "github.com/minio/simdjson-go"
)

var hwAVX512 bool

func init() { hwAVX512 = simdjson.VerifHasAVX512() }

func families() []bool {
	if hwAVX512 {
		return []bool{true, false}
	}
	return []bool{false}
}

type PCase struct {
	Doc    []byte
	ND     bool
	Stream string
	Note   string
}

const (
	ChkVerdict   = 1 << iota // impl accept/reject vs spec (in claim)
	ChkDump                  // impl document (through the API) vs spec document
	ChkModel                 // impl tape/strings/verdict vs extracted model
	ChkKernels               // AVX2 vs AVX-512 tape/strings/verdict
	ChkCopyModes             // copy vs no-copy document
	ChkNoPanic               // any panic
)

type cfgOut struct {
	avx512, copy bool
	out          ParseOut
	dump         string
	dumpErr      string
}

func kname(avx512 bool) string {
	if avx512 {
		return "avx512"
	}
	return "avx2"
}

// CompareParse runs every case through the implementation in all available
// configurations and through the Coq-extracted model and specification.
// extra(case, outs, specAns) lets a property look at more projections.
func (c *Ctx) CompareParse(cases []PCase, flags int, modelMax int, extra func(pc *PCase, outs []cfgOut, spec string)) {
	if len(cases) == 0 {
		return
	}
	fams := families()
	all := make([][]cfgOut, len(cases))
	for _, f := range fams {
		setKernel(f)
		for i := range cases {
			for _, cp := range []bool{true, false} {
				o := implParse(cases[i].Doc, cases[i].ND, cp, nil)
				co := cfgOut{avx512: f, copy: cp, out: o}
				if !o.Err && (flags&(ChkDump|ChkCopyModes) != 0) {
					d, err := dumpDoc(o.PJ)
					co.dump = d
					if err != nil {
						co.dumpErr = err.Error()
					}
				}
				all[i] = append(all[i], co)
			}
		}
	}
	// oracle requests
	var reqs []string
	type slot struct{ spec, m1, m0 int }
	slots := make([]slot, len(cases))
	for i := range cases {
		h := hexOrDash(cases[i].Doc)
		s := slot{-1, -1, -1}
		if flags&(ChkVerdict|ChkDump) != 0 {
			s.spec = len(reqs)
			if cases[i].ND {
				reqs = append(reqs, "specnd "+h)
			} else {
				reqs = append(reqs, "spec "+h)
			}
		}
		if flags&ChkModel != 0 && len(cases[i].Doc) <= modelMax {
			nd := "0"
			if cases[i].ND {
				nd = "1"
			}
			s.m1 = len(reqs)
			reqs = append(reqs, "parse "+nd+" 1 "+h)
			s.m0 = len(reqs)
			reqs = append(reqs, "parse "+nd+" 0 "+h)
		}
		slots[i] = s
	}
	ans := c.Or.Ask(reqs)
	for i := range cases {
		pc := &cases[i]
		outs := all[i]
		spec := ""
		if slots[i].spec >= 0 {
			spec = ans[slots[i].spec]
		}
		nontrivial := false
		key := append([]byte{}, pc.Doc...)
		if pc.ND {
			key = append(key, 1)
		}
		sig := func(x string) string {
			if c.SigHook != nil {
				return c.SigHook(pc.Doc, x)
			}
			return x
		}
		cs := func(more map[string]interface{}) map[string]interface{} {
			m := map[string]interface{}{"doc_hex": fmt.Sprintf("%x", pc.Doc), "nd": pc.ND, "stream": pc.Stream, "note": pc.Note,
				"doc_text": printable(pc.Doc)}
			for k, v := range more {
				m[k] = v
			}
			return m
		}
		// panics
		for _, o := range outs {
			if o.out.Panic != "" && flags&ChkNoPanic != 0 {
				c.Violate("panic", "Parse panicked", "panic:parse", cs(map[string]interface{}{"panic": o.out.Panic, "kernel": kname(o.avx512), "copy": o.copy}))
			}
		}
		// spec vs impl
		if spec != "" && spec != "out" && spec != "fuel" && !strings.HasPrefix(spec, "ORACLE") && spec != "stackoverflow" {
			specOK := strings.HasPrefix(spec, "ok ")
			for _, o := range outs {
				if flags&ChkVerdict != 0 && specOK == o.out.Err {
					c.Violate("verdict", fmt.Sprintf("spec says %v, implementation accepted=%v", specOK, !o.out.Err), sig("verdict"),
						cs(map[string]interface{}{"kernel": kname(o.avx512), "copy": o.copy, "spec": trunc(spec, 200)}))
					break
				}
				if flags&ChkDump != 0 && specOK && !o.out.Err {
					if o.dumpErr != "" || "ok "+o.dump != specDumpNorm(spec, pc.ND) {
						c.Violate("document", "document exposed by the API differs from the specification's", sig("document"),
							cs(map[string]interface{}{"kernel": kname(o.avx512), "copy": o.copy, "spec": trunc(spec, 400), "impl": trunc(o.dump, 400), "err": o.dumpErr}))
						break
					}
				}
			}
			if specOK {
				nontrivial = true
				c.Ev.Dist("spec:accept")
			} else {
				c.Ev.Dist("spec:reject")
			}
		} else if spec != "" {
			c.Ev.Dist("spec:" + spec)
		}
		// model vs impl
		if slots[i].m1 >= 0 {
			for _, o := range outs {
				m := ans[slots[i].m1]
				if !o.copy {
					m = ans[slots[i].m0]
				}
				if m == "fuel" || strings.HasPrefix(m, "ORACLE") || m == "stackoverflow" {
					c.Ev.Dist("model:" + m)
					continue
				}
				impl := "err"
				if !o.out.Err {
					impl = "ok " + tapeHex(o.out.Tape) + " " + hexOrDash(o.out.Strings)
				}
				mm := m
				if strings.HasPrefix(m, "ok ") {
					// drop the model's own denotation (third field)
					f := strings.SplitN(m, " ", 4)
					mm = strings.Join(f[:3], " ")
					if spec != "" && strings.HasPrefix(spec, "ok ") && len(f) == 4 && "ok "+f[3] != specDumpNorm(spec, pc.ND) {
						c.Violate("model-denote", "model tape does not denote the specification's document (theorem C02 would be false)", "model-denote",
							cs(map[string]interface{}{"model": trunc(f[3], 300), "spec": trunc(spec, 300)}))
					}
				}
				if m == "crash" {
					c.Violate("model-crash", "the model reaches a Crash outcome on this input", "model-crash", cs(nil))
					continue
				}
				if impl != mm {
					c.Ev.Coverage.ModelDisagreements++
					c.modelDisagree(pc, o, impl, mm, spec, cs)
				}
			}
			nontrivial = true
		}
		// kernels
		if flags&ChkKernels != 0 && len(fams) == 2 {
			for _, cp := range []bool{true, false} {
				var a, b *cfgOut
				for k := range outs {
					if outs[k].copy == cp {
						if outs[k].avx512 {
							a = &outs[k]
						} else {
							b = &outs[k]
						}
					}
				}
				if a != nil && b != nil {
					if a.out.Err != b.out.Err || !eqU64(a.out.Tape, b.out.Tape) || !bytes.Equal(a.out.Strings, b.out.Strings) {
						c.Violate("kernels", "AVX2 and AVX-512 kernels disagree", "kernels", cs(map[string]interface{}{"copy": cp,
							"avx512_err": a.out.Err, "avx2_err": b.out.Err}))
					}
				}
			}
		}
		if flags&ChkCopyModes != 0 {
			var ref *cfgOut
			for k := range outs {
				if outs[k].out.Err {
					continue
				}
				if ref == nil {
					ref = &outs[k]
				} else if outs[k].dump != ref.dump {
					c.Violate("copymodes", "copy and no-copy parses expose different documents", "copymodes", cs(nil))
					break
				}
			}
			for k := range outs {
				if outs[k].out.Err != outs[0].out.Err {
					c.Violate("copymodes", "configurations disagree on acceptance", "copymodes-verdict", cs(nil))
					break
				}
			}
		}
		if extra != nil {
			extra(pc, outs, spec)
		}
		c.Ev.Count(pc.Stream, key, nontrivial)
		c.Ev.Dist(sizeBucket(len(pc.Doc)))
		if c.Ev.Coverage.Evaluations%997 == 1 {
			c.Ev.Sample(map[string]interface{}{"stream": pc.Stream, "doc": printable(trunc(string(pc.Doc), 120)), "nd": pc.ND, "spec": trunc(spec, 80)})
		}
	}
}

// modelDisagree: the correspondence between model and implementation broke on
// this case. Judge with the specification: if the implementation also departs
// from the spec it is a concrete failing input; otherwise the property is
// merely no longer shown (the model no longer describes the code).
func (c *Ctx) modelDisagree(pc *PCase, o cfgOut, impl, model, spec string, cs func(map[string]interface{}) map[string]interface{}) {
	concrete := false
	if spec != "" && spec != "out" {
		specOK := strings.HasPrefix(spec, "ok ")
		if specOK == o.out.Err {
			concrete = true
		} else if specOK && !o.out.Err {
			d, err := dumpDoc(o.out.PJ)
			if err != nil || "ok "+d != specDumpNorm(spec, pc.ND) {
				concrete = true
			}
		}
	}
	info := cs(map[string]interface{}{"kernel": kname(o.avx512), "copy": o.copy, "impl": trunc(impl, 600), "model": trunc(model, 600), "spec": trunc(spec, 200)})
	if concrete {
		sg := "document"
		if c.SigHook != nil {
			sg = c.SigHook(pc.Doc, sg)
		}
		if sg == "document" {
			sg = "model-impl-concrete"
		}
		c.Violate("model-vs-impl", "implementation departs from model and from the specification", sg, info)
		return
	}
	for _, k := range c.Known {
		if k.Match == "model-impl" {
			c.KnownHit[k.ID] = "id=" + k.ID + " " + k.Text
			return
		}
	}
	if len(c.Viol) < 5 {
		c.writeReplay("correspondence", "model/implementation correspondence broken (tape or verdict differ); the implementation's document still satisfies the specification on this input",
			"correspondence parse_model ~ simdjson.Parse", info, true)
	}
}

func specDumpNorm(spec string, nd bool) string {
	// spec answers "ok <doc>" for a single document, "ok <doc>|<doc>|" for ND;
	// the API dump always terminates each root with '|'.
	if nd {
		return spec
	}
	return spec + "|"
}

func eqU64(a, b []uint64) bool {
	if len(a) != len(b) {
		return false
	}
	for i := range a {
		if a[i] != b[i] {
			return false
		}
	}
	return true
}

func trunc(s string, n int) string {
	if len(s) <= n {
		return s
	}
	return s[:n] + fmt.Sprintf("...(%d bytes)", len(s))
}

func printable(b interface{}) string {
	var bs []byte
	switch x := b.(type) {
	case []byte:
		bs = x
	case string:
		bs = []byte(x)
	}
	if len(bs) > 300 {
		bs = bs[:300]
	}
	var sb strings.Builder
	for _, ch := range bs {
		if ch >= 0x20 && ch < 0x7f && ch != '\\' {
			sb.WriteByte(ch)
		} else {
			fmt.Fprintf(&sb, "\\x%02x", ch)
		}
	}
	return sb.String()
}

func sizeBucket(n int) string {
	switch {
	case n < 16:
		return "size:<16"
	case n < 64:
		return "size:16-63"
	case n < 512:
		return "size:64-511"
	case n < 8192:
		return "size:512-8191"
	case n < 65536:
		return "size:8192-65535"
	default:
		return "size:>=65536"
	}
}
