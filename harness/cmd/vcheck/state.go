package main

import (
	"fmt"
	"math"
	"sort"
	"strings"

	simdjson "github.com/minio/simdjson-go"
)

// stateArgs renders (tape, strings, message) for the oracle's state operations.
func stateArgs(pj *simdjson.ParsedJson) string {
	return tapeHex(pj.Tape) + " " + hexOrDash(pj.Strings.B) + " " + hexOrDash(pj.Message)
}

// ---- Interface() dump, canonical (map keys sorted bytewise) ----

func dumpIface(b *strings.Builder, v interface{}) {
	switch x := v.(type) {
	case nil:
		b.WriteByte('n')
	case bool:
		if x {
			b.WriteByte('t')
		} else {
			b.WriteByte('f')
		}
	case int64:
		fmt.Fprintf(b, "i%d;", x)
	case uint64:
		fmt.Fprintf(b, "u%d;", x)
	case float64:
		fmt.Fprintf(b, "d%016x;", math.Float64bits(x))
	case string:
		fmt.Fprintf(b, "s%x;", x)
	case []interface{}:
		b.WriteByte('[')
		for _, e := range x {
			dumpIface(b, e)
		}
		b.WriteByte(']')
	case map[string]interface{}:
		keys := make([]string, 0, len(x))
		for k := range x {
			keys = append(keys, k)
		}
		sort.Strings(keys)
		b.WriteByte('{')
		for _, k := range keys {
			fmt.Fprintf(b, "k%x;", k)
			dumpIface(b, x[k])
		}
		b.WriteByte('}')
	default:
		fmt.Fprintf(b, "?%T", v)
	}
}

func ifaceDump(pj *simdjson.ParsedJson) (s string, err error) {
	defer func() {
		if r := recover(); r != nil {
			err = fmt.Errorf("panic: %v", r)
		}
	}()
	it := pj.Iter()
	v, err := it.Interface()
	if err != nil {
		return "", err
	}
	roots, ok := v.([]interface{})
	if !ok {
		return "", fmt.Errorf("Interface() returned %T", v)
	}
	var b strings.Builder
	for _, r := range roots {
		dumpIface(&b, r)
		b.WriteByte('|')
	}
	return b.String(), nil
}

// ---- ForEach-based walk: ParsedJson.ForEach, Array.ForEach, Object.ForEach ----

func foreachValue(b *strings.Builder, i simdjson.Iter, depth int) error {
	switch i.Type() {
	case simdjson.TypeArray:
		arr, err := i.Array(nil)
		if err != nil {
			return err
		}
		b.WriteByte('[')
		var ferr error
		arr.ForEach(func(e simdjson.Iter) {
			if ferr == nil {
				ferr = foreachValue(b, e, depth+1)
			}
		})
		if ferr != nil {
			return ferr
		}
		b.WriteByte(']')
	case simdjson.TypeObject:
		obj, err := i.Object(nil)
		if err != nil {
			return err
		}
		b.WriteByte('{')
		var ferr error
		err = obj.ForEach(func(key []byte, e simdjson.Iter) {
			if ferr == nil {
				fmt.Fprintf(b, "k%x;", key)
				ferr = foreachValue(b, e, depth+1)
			}
		}, nil)
		if err != nil {
			return err
		}
		if ferr != nil {
			return ferr
		}
		b.WriteByte('}')
	default:
		return dumpValue(b, &i, depth)
	}
	return nil
}

func foreachDump(pj *simdjson.ParsedJson) (s string, err error) {
	defer func() {
		if r := recover(); r != nil {
			err = fmt.Errorf("panic: %v", r)
		}
	}()
	var b strings.Builder
	err = pj.ForEach(func(i simdjson.Iter) error {
		if e := foreachValue(&b, i, 0); e != nil {
			return e
		}
		b.WriteByte('|')
		return nil
	})
	return b.String(), err
}

// ---- AdvanceIter-based walk ----

func advIterValue(b *strings.Builder, t simdjson.Type, el *simdjson.Iter, depth int) error {
	switch t {
	case simdjson.TypeArray:
		arr, err := el.Array(nil)
		if err != nil {
			return err
		}
		it := arr.Iter()
		b.WriteByte('[')
		var sub simdjson.Iter
		for {
			tt, err := it.AdvanceIter(&sub)
			if err != nil {
				return err
			}
			if tt == simdjson.TypeNone {
				break
			}
			if err := advIterValue(b, tt, &sub, depth+1); err != nil {
				return err
			}
		}
		b.WriteByte(']')
	case simdjson.TypeObject:
		obj, err := el.Object(nil)
		if err != nil {
			return err
		}
		elems, err := obj.Parse(nil)
		if err != nil {
			return err
		}
		b.WriteByte('{')
		for _, e := range elems.Elements {
			fmt.Fprintf(b, "k%x;", e.Name)
			ei := e.Iter
			if err := advIterValue(b, e.Type, &ei, depth+1); err != nil {
				return err
			}
		}
		b.WriteByte('}')
	default:
		return dumpValue(b, el, depth)
	}
	return nil
}

func advIterDump(pj *simdjson.ParsedJson) (s string, err error) {
	defer func() {
		if r := recover(); r != nil {
			err = fmt.Errorf("panic: %v", r)
		}
	}()
	var b strings.Builder
	it := pj.Iter()
	var root, el simdjson.Iter
	for {
		t, err := it.AdvanceIter(&root)
		if err != nil {
			return "", err
		}
		if t == simdjson.TypeNone {
			break
		}
		if t != simdjson.TypeRoot {
			return "", fmt.Errorf("top-level %v", t)
		}
		tt, err := root.AdvanceIter(&el)
		if err != nil {
			return "", err
		}
		if err := advIterValue(&b, tt, &el, 0); err != nil {
			return "", err
		}
		b.WriteByte('|')
	}
	return b.String(), nil
}

// ---- flat positions through AdvanceInto, with abstract paths ----

type position struct {
	K       int    // number of AdvanceInto calls from pj.Iter()
	Tag     simdjson.Tag
	Path    []int  // abstract path of the value at this position (nil for keys and closing tags)
	IsValue bool
	Keys    []string // for object starts: keys of its live members, in order
	NElems  int      // for array/object starts: number of live members
}

func pathStr(p []int) string {
	if len(p) == 0 {
		return "-"
	}
	s := make([]string, len(p))
	for i, x := range p {
		s[i] = fmt.Sprint(x)
	}
	return strings.Join(s, ".")
}

// flatPositions enumerates what AdvanceInto visits. Container bookkeeping:
// inside an object, positions alternate key / value.
func flatPositions(pj *simdjson.ParsedJson, limit int) (out []position, err error) {
	defer func() {
		if r := recover(); r != nil {
			err = fmt.Errorf("panic: %v", r)
		}
	}()
	type frame struct {
		obj     bool
		child   int
		wantKey bool
		path    []int
		startAt int
	}
	var stack []frame
	it := pj.Iter()
	rootIdx := -1
	inRoot := false
	for k := 1; k <= limit; k++ {
		tag := it.AdvanceInto()
		if tag == simdjson.TagEnd {
			break
		}
		p := position{K: k, Tag: tag}
		switch tag {
		case simdjson.TagRoot:
			if !inRoot {
				rootIdx++
				inRoot = true
				stack = []frame{{obj: false, child: 0, path: []int{rootIdx}, startAt: -1}}
				// the root frame has exactly one child whose path is [rootIdx]
			} else {
				inRoot = false
				stack = nil
			}
			out = append(out, p)
			continue
		case simdjson.TagObjectEnd, simdjson.TagArrayEnd:
			if len(stack) > 0 {
				f := stack[len(stack)-1]
				if f.startAt >= 0 {
					out[f.startAt].NElems = f.child
				}
				stack = stack[:len(stack)-1]
			}
			out = append(out, p)
			continue
		}
		if len(stack) == 0 {
			out = append(out, p)
			continue
		}
		top := &stack[len(stack)-1]
		if top.obj && top.wantKey {
			// a key
			if tag == simdjson.TagString {
				if s, e := it.StringBytes(); e == nil && top.startAt >= 0 {
					out[top.startAt].Keys = append(out[top.startAt].Keys, string(s))
				}
			}
			top.wantKey = false
			out = append(out, p)
			continue
		}
		// a value
		var vp []int
		if len(stack) == 1 && top.startAt == -1 {
			vp = append([]int{}, top.path...)
		} else {
			vp = append(append([]int{}, top.path...), top.child)
		}
		top.child++
		if top.obj {
			top.wantKey = true
		}
		p.Path = vp
		p.IsValue = true
		out = append(out, p)
		if tag == simdjson.TagObjectStart {
			stack = append(stack, frame{obj: true, wantKey: true, path: vp, startAt: len(out) - 1})
		} else if tag == simdjson.TagArrayStart {
			stack = append(stack, frame{obj: false, path: vp, startAt: len(out) - 1})
		}
	}
	return out, nil
}

// iterAt returns the iterator after k AdvanceInto calls.
func iterAt(pj *simdjson.ParsedJson, k int) simdjson.Iter {
	it := pj.Iter()
	for i := 0; i < k; i++ {
		it.AdvanceInto()
	}
	return it
}

// rootReuseDump: the documented allocation-free pattern — ONE destination
// iterator reused for every Root(dst) call, and moreover one that was used for
// something else before and abandoned mid-walk (stepped onto scalars and a
// container).  Must expose exactly what plain traversal exposes.
func rootReuseDump(pj *simdjson.ParsedJson) (s string, err error) {
	defer func() {
		if r := recover(); r != nil {
			err = fmt.Errorf("panic: %v", r)
		}
	}()
	var b strings.Builder
	// three ways a destination is left behind by earlier use: standing on a root with
	// the skip over it still queued; standing on the first scalar inside (its value word
	// queued); standing on an inner container
	dirty := func(k int) simdjson.Iter {
		d := pj.Iter()
		switch k % 3 {
		case 0:
			d.Advance()
		case 1:
			d.AdvanceInto()
			d.AdvanceInto()
			for j := 0; j < 6; j++ {
				if t := d.AdvanceInto(); t == simdjson.TagString || t == simdjson.TagInteger || t == simdjson.TagFloat || t == simdjson.TagUint || t == simdjson.TagEnd {
					break
				}
			}
		default:
			d.AdvanceInto()
			d.AdvanceInto()
			d.Advance()
		}
		return d
	}
	round := 0
	dst := dirty(round)
	it := pj.Iter()
	var obj simdjson.Object
	var arr simdjson.Array
	for {
		t := it.Advance()
		if t == simdjson.TypeNone {
			break
		}
		if t != simdjson.TypeRoot {
			return "", fmt.Errorf("top-level type %v", t)
		}
		_, r, err := it.Root(&dst)
		if err != nil {
			return "", err
		}
		// reused Object / Array destinations as well
		switch r.Type() {
		case simdjson.TypeObject:
			if _, err := r.Object(&obj); err != nil {
				return "", err
			}
		case simdjson.TypeArray:
			if _, err := r.Array(&arr); err != nil {
				return "", err
			}
		}
		if err := dumpValue(&b, r, 0); err != nil {
			return "", err
		}
		b.WriteByte('|')
		// the destination for the next root is again one that was used for something else
		round++
		dst = dirty(round)
	}
	return b.String(), nil
}

// iterByPath reaches the value with the given abstract path through the element-handing
// APIs instead of AdvanceInto: Root, then per level Object.Parse / NextElementBytes /
// Object.ForEach's callback, or Array.Iter+AdvanceIter / Array.ForEach's callback.  Those
// iterators see a tape view that ENDS with the element (AdvanceInto's sees the whole tape).
func iterByPath(pj *simdjson.ParsedJson, path []int, route int) (res simdjson.Iter, ok bool) {
	return iterByPathMode(pj, path, route, false)
}

// iterByPathMode: with restrictedOnly, only the routes whose iterators are cut to the element
// (Parse, NextElementBytes, AdvanceIter); the ForEach callbacks pass a copy of the walking
// iterator, whose scope is the rest of the container.
func iterByPathMode(pj *simdjson.ParsedJson, path []int, route int, restrictedOnly bool) (res simdjson.Iter, ok bool) {
	defer func() {
		if r := recover(); r != nil {
			ok = false
		}
	}()
	if len(path) == 0 {
		return res, false
	}
	top := pj.Iter()
	for r := 0; r <= path[0]; r++ {
		if top.Advance() != simdjson.TypeRoot {
			return res, false
		}
	}
	_, p, err := top.Root(nil)
	if err != nil {
		return res, false
	}
	cur := *p
	for lvl, idx := range path[1:] {
		rt := route >> uint(lvl%8)
		found := false
		switch cur.Type() {
		case simdjson.TypeObject:
			obj, err := cur.Object(nil)
			if err != nil {
				return res, false
			}
			k3 := rt % 3
			if restrictedOnly {
				k3 = rt % 2
			}
			switch k3 {
			case 0:
				els, err := obj.Parse(nil)
				if err != nil || idx >= len(els.Elements) {
					return res, false
				}
				cur, found = els.Elements[idx].Iter, true
			case 1:
				var e simdjson.Iter
				for j := 0; j <= idx; j++ {
					_, t, err := obj.NextElementBytes(&e)
					if err != nil || t == simdjson.TypeNone {
						return res, false
					}
				}
				cur, found = e, true
			default:
				n := 0
				obj.ForEach(func(_ []byte, it simdjson.Iter) {
					if n == idx {
						cur, found = it, true
					}
					n++
				}, nil)
			}
		case simdjson.TypeArray:
			arr, err := cur.Array(nil)
			if err != nil {
				return res, false
			}
			if rt%2 == 0 || restrictedOnly {
				ai := arr.Iter()
				var d simdjson.Iter
				for j := 0; j <= idx; j++ {
					t, err := ai.AdvanceIter(&d)
					if err != nil || t == simdjson.TypeNone {
						return res, false
					}
				}
				cur, found = d, true
			} else {
				n := 0
				arr.ForEach(func(it simdjson.Iter) {
					if n == idx {
						cur, found = it, true
					}
					n++
				})
			}
		}
		if !found {
			return res, false
		}
	}
	return cur, true
}

// editIter: the iterator an edit is applied through — AdvanceInto's in one case out of four,
// otherwise one handed out by the element APIs (iterByPath) when that reaches the same value.
func editIter(pj *simdjson.ParsedJson, k int, path []int, r *Rng) simdjson.Iter {
	it := iterAt(pj, k)
	if rt := r.Intn(1 << 12); rt%4 != 0 {
		if it2, ok := iterByPath(pj, path, rt>>2); ok && it2.Type() == it.Type() {
			return it2
		}
	}
	return it
}
