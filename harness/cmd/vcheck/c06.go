package main

import (
	"fmt"
	"strings"

	simdjson "github.com/minio/simdjson-go"
)

func init() { checks["C06"] = checkC06 }

func checkC06(c *Ctx) {
	r := c.Rng
	c.Ev.Coverage.Rule = "AVX2 vs AVX-512: (a) kernel level — the four per-block mask kernels of both families on the same 64-byte block and carried state (structured blocks placing 1..3 special bytes among filler for all carried-state combinations, plus random blocks); (b) slice level — findStructuralIndices of both families on the same message (every tail length 0..63, fill levels of the index buffer around 1408), compared with each other and with the Coq stage-1 model's buffers; (c) end to end — Parse and ParseND on valid, mutated and random inputs: same error-ness, identical tape and string buffer. non-trivial = both families ran; distinct = by input"
	if !hwAVX512 {
		c.Ev.Note("this machine has no AVX-512: only the AVX2 family could run; kernel comparison skipped")
	}
	// (c) end to end
	flags := ChkKernels | ChkModel | ChkNoPanic
	var batch []PCase
	flush := func() {
		c.CompareParse(batch, flags, 30000, nil)
		batch = batch[:0]
	}
	addDoc := func(stream string, doc []byte, nd bool) {
		batch = append(batch, PCase{Doc: doc, Stream: stream, ND: nd})
		if len(batch) >= 3000 {
			flush()
		}
	}
	genParseStreams(c, func(s string, d []byte) { addDoc(s, d, false) }, 2)
	// values and escapes laid across the block boundary at which a full index buffer is handed
	// over (the Go driver around the kernels carries their state there), both input modes
	for _, nd := range []bool{false, true} {
		for _, d := range handoverStraddleDocs(nd, []int{0, 29}) {
			addDoc("value-across-index-handover", d, nd)
		}
		for _, d := range handoverEscapeDocs(nd, []int{0, 13}) {
			addDoc("escape-across-index-handover", d, nd)
		}
	}
	// messages whose last block is partial, with a value starting / an escape straddling the
	// last 64-byte boundary (the padded tail call of the driver)
	for n := 1; n <= 3; n++ {
		for _, pl := range []string{"true", "-1.5", `"ab\"cd"`, `"x\\"`, "null", `""`} {
			for cut := 0; cut <= len(pl); cut++ {
				for _, pre := range []string{",", " "} {
					b := []byte("[0")
					for len(b) < 64*n-cut-1 {
						b = append(b, ",1"...)
					}
					for len(b) < 64*n-cut-1 {
						b = append(b, ' ')
					}
					if len(b) > 64*n-cut-1 {
						b = b[:64*n-cut-1]
						if b[len(b)-1] == ',' {
							b[len(b)-1] = ' '
						}
					}
					if pre == "," || b[len(b)-1] == '1' || b[len(b)-1] == '0' {
						b = append(b, ',')
					} else {
						b = append(b, ' ')
					}
					b = append(b, pl...)
					b = append(b, "]"...)
					addDoc("value-across-last-block", b, false)
				}
			}
		}
	}
	for i := 0; i < c.N(3000, 40000); i++ {
		n := r.Intn(200)
		b := make([]byte, n)
		alphabet := []byte(`{}[],:"\ ` + "\n\t\x00\x1f" + `0123456789truefalsn-+.eEaé`)
		for j := range b {
			if r.Chance(1, 10) {
				b[j] = byte(r.Intn(256))
			} else {
				b[j] = alphabet[r.Intn(len(alphabet))]
			}
		}
		addDoc("random-bytes", b, i%2 == 0)
	}
	flush()
	if !hwAVX512 {
		return
	}
	// (a) kernel level
	var mreqs, mimpl, mblk []string
	flushMask := func() {
		if len(mreqs) == 0 {
			return
		}
		ans := c.Or.Ask(mreqs)
		for i := range ans {
			c.Ev.Count("kernel-vs-mask-model", []byte(mblk[i]), true)
			if ans[i] != mimpl[i] {
				c.Ev.Coverage.ModelDisagreements++
				c.Violate("kernels", "a kernel's masks (odd_ends quote_mask quote_bits whitespace structurals_in structurals next-odd next-inquote next-pred error) differ from the mask-level model", "kernel-mask-model",
					map[string]interface{}{"block_state_family": mblk[i], "impl": mimpl[i], "model": ans[i]})
			}
		}
		mreqs, mimpl, mblk = mreqs[:0], mimpl[:0], mblk[:0]
	}
	special := []byte{'\\', '"', '{', ',', ' ', '\n', 0x1f, ':', ']', 0x80, 'a'}
	nk := c.N(60000, 600000)
	for i := 0; i < nk; i++ {
		blk := make([]byte, 64)
		for j := range blk {
			blk[j] = 'x'
		}
		switch i % 3 {
		case 0:
			for k := 0; k < 1+r.Intn(3); k++ {
				blk[r.Intn(64)] = special[r.Intn(len(special))]
			}
			if r.Chance(1, 3) { // at the block edges
				blk[[]int{0, 1, 31, 32, 62, 63}[r.Intn(6)]] = special[r.Intn(4)]
			}
		case 1:
			for j := range blk {
				blk[j] = special[r.Intn(len(special))]
			}
		default:
			for j := range blk {
				blk[j] = byte(r.Intn(256))
			}
		}
		st := simdjson.VerifKernelState{OddBackslash: uint64(r.Intn(2)), PseudoPred: uint64(r.Intn(2))}
		if r.Bool() {
			st.InsideQuote = ^uint64(0)
		}
		// the carried error mask stays 0 here: the per-block entry points of the
		// AVX-512 family are test-only wrappers that overwrite (or, for
		// _find_structural_bits_avx512, inherit a stale K4) instead of OR-ing;
		// Parse only uses the in-slice kernels, compared in (b) and (c)
		a := fmt.Sprint(simdjson.VerifSubKernels(blk, st, true))
		b := fmt.Sprint(simdjson.VerifSubKernels(blk, st, false))
		s1, s2 := st, st
		fa := simdjson.VerifFindStructuralBits(blk, &s1, true)
		fb := simdjson.VerifFindStructuralBits(blk, &s2, false)
		c.Ev.Count("kernel-block", append(blk, byte(st.OddBackslash), byte(st.PseudoPred), byte(st.InsideQuote)), true)
		s1.ErrorMask, s2.ErrorMask = 0, 0
		if a != b || fa != fb || s1 != s2 {
			c.Violate("kernels", "per-block kernels of the two families disagree", "kernel-block",
				map[string]interface{}{"input_hex": fmt.Sprintf("%x", blk), "state": fmt.Sprint(st), "avx512": a + fmt.Sprint(fa, s1), "avx2": b + fmt.Sprint(fb, s2)})
		}
		// every intermediate mask of both families against the Coq mask-level model
		// (Proofs/MaskModel.v, proved equal to the scalar model) on a sample of the blocks
		if i%4 == 0 {
			for fam := 0; fam < 2; fam++ {
				oe, qm, qb, em, ws, si, _, _ := simdjson.VerifSubKernels(blk, st, fam == 0)
				sx := st
				f := simdjson.VerifFindStructuralBits(blk, &sx, fam == 0)
				impl := fmt.Sprintf("%d %d %d %d %d %d %d %d %d %d", oe, qm, qb, ws, si, f, sx.OddBackslash, sx.InsideQuote, sx.PseudoPred, em)
				mreqs = append(mreqs, fmt.Sprintf("maskblock 0 %d %d %d %d 0 %x", fam, st.OddBackslash, st.InsideQuote, st.PseudoPred, blk))
				mimpl = append(mimpl, impl)
				mblk = append(mblk, fmt.Sprintf("%x state=%v family=%d", blk, st, fam))
			}
			if len(mreqs) >= 4000 {
				flushMask()
			}
		}
	}
	flushMask()
	// (b) slice level vs each other and vs the model
	var reqs []string
	var msgs [][]byte
	var nds []bool
	addMsg := func(m []byte, nd bool) {
		msgs = append(msgs, m)
		nds = append(nds, nd)
		ndS := "0"
		if nd {
			ndS = "1"
		}
		reqs = append(reqs, "s1 "+ndS+" "+hexOrDash(m))
	}
	for tail := 0; tail < 64; tail++ {
		for _, pre := range []int{0, 64, 128} {
			body := "[" + strings.Repeat(`"a\"b",1, `, (pre+tail)/10+1)
			body = body[:pre+tail+1]
			addMsg([]byte(body+"]"), false)
			addMsg([]byte(body+"\n]"), true)
		}
	}
	for d := -4; d <= 4; d++ {
		for _, unit := range []string{"1,", `"s",`, "[],", "{},"} {
			per := strings.Count(unit, ",") + strings.Count(unit, "[") + strings.Count(unit, "]") + strings.Count(unit, "{") + strings.Count(unit, "}") + strings.Count(unit, `"`)/2 + strings.Count(unit, "1")
			k := (T_INDEX+d)/per + 1
			addMsg([]byte("["+strings.Repeat(unit, k)+"0]"), false)
			addMsg([]byte("["+strings.Repeat(unit, 3*k)+"\"tail"), false)
		}
	}
	for i := 0; i < c.N(1500, 20000); i++ {
		doc := genDoc(r, smallOpts(r))
		if r.Chance(1, 3) {
			doc = mutate(r, doc)
		}
		addMsg(doc, r.Chance(1, 4))
	}
	// the in-slice kernels (mask kernels + flatten_bits_incremental over a whole message, as
	// one call) against the mask-level slice model: increments, carried, position, state
	{
		var sreqs, simpl, sinfo []string
		for i, m := range msgs {
			if len(m) == 0 || len(m) > 600 || i%2 == 1 {
				continue
			}
			ndv := uint64(0)
			ndS := "0"
			if nds[i] {
				ndv, ndS = 1, "1"
			}
			for fam := 0; fam < 2; fam++ {
				st := simdjson.VerifKernelState{PseudoPred: 1}
				idx := make([]uint32, int(simdjson.VerifConsts()["indexSize"]))
				n := 0
				carried, position := uint64(0), ^uint64(0)
				simdjson.VerifSliceKernel(m, &st, idx, &n, &carried, &position, ndv, fam == 0)
				parts := make([]string, n)
				for k := 0; k < n; k++ {
					parts[k] = fmt.Sprint(idx[k])
				}
				simpl = append(simpl, fmt.Sprintf("%s %d %d %d %d %d %d", strings.Join(parts, ","), carried, position, st.OddBackslash, st.InsideQuote, st.PseudoPred, st.ErrorMask))
				sreqs = append(sreqs, "maskslice "+ndS+" "+hexOrDash(m))
				sinfo = append(sinfo, fmt.Sprintf("%x nd=%v family=%d", m, nds[i], fam))
			}
		}
		sans := c.Or.Ask(sreqs)
		for i := range sans {
			c.Ev.Count("slice-vs-mask-model", []byte(sinfo[i]), true)
			if sans[i] != simpl[i] {
				c.Ev.Coverage.ModelDisagreements++
				c.Violate("kernels", "the in-slice kernel's output (increments, carried, position, carried state) differs from the mask-level slice model", "slice-mask-model",
					map[string]interface{}{"input_nd_family": sinfo[i], "impl": trunc(simpl[i], 500), "model": trunc(sans[i], 500)})
			}
		}
	}
	ans := c.Or.Ask(reqs)
	for i, m := range msgs {
		show := func(bufs [][]uint32, ok bool) string {
			var sb strings.Builder
			if ok {
				sb.WriteString("1 ")
			} else {
				sb.WriteString("0 ")
			}
			if len(bufs) == 0 {
				sb.WriteString("-")
			}
			for bi, b := range bufs {
				if bi > 0 {
					sb.WriteByte('/')
				}
				for j, x := range b {
					if j > 0 {
						sb.WriteByte(',')
					}
					fmt.Fprint(&sb, x)
				}
			}
			return sb.String()
		}
		setKernel(true)
		ba, oa := simdjson.VerifStage1(m, nds[i])
		setKernel(false)
		bb, ob := simdjson.VerifStage1(m, nds[i])
		sa, sb2 := show(ba, oa), show(bb, ob)
		c.Ev.Count("stage1-slice", append([]byte{byte(len(m))}, m...), true)
		info := map[string]interface{}{"input_hex": fmt.Sprintf("%x", m), "input": printable(m), "nd": nds[i], "avx512": trunc(sa, 600), "avx2": trunc(sb2, 600), "model": trunc(ans[i], 600)}
		if sa != sb2 {
			c.Violate("kernels", "findStructuralIndices differs between the kernel families", "stage1-families", info)
		} else if sa != ans[i] && len(c.Viol) < 5 {
			c.Ev.Coverage.ModelDisagreements++
			c.writeReplay("correspondence", "stage-1 index buffers differ from the model's (both families agree with each other)", "correspondence s1_buffers ~ findStructuralIndices", info, true)
		}
	}
}
