package main

import (
	"time"
	"io"
	"bytes"
	"unsafe"
	"fmt"
	"strings"

	simdjson "github.com/minio/simdjson-go"
)

func init() { checks["C16"] = checkC16 }

func allViews(pj *simdjson.ParsedJson) string {
	w, e1 := dumpDoc(pj)
	i, e2 := ifaceDump(pj)
	f, e3 := foreachDump(pj)
	m, e4, p := safeMarshal(pj.Iter())
	s := simdjson.NewSerializer()
	blob, pan := safeSerialize(s, pj)
	rt := ""
	if pan == "" {
		if pj2, err, pan2 := safeDeserialize(s, blob, nil); err == nil && pan2 == "" {
			rt, _ = dumpDoc(pj2)
		} else {
			rt = fmt.Sprint("deser-failed ", err, pan2)
		}
	}
	return fmt.Sprintf("walk=%s|%v iface=%s|%v foreach=%s|%v marshal=%x|%v%s roundtrip=%s%s", w, e1, i, e2, f, e3, m, e4 != nil, p, rt, pan)
}

func checkC16(c *Ctx) {
	r := c.Rng
	c.Ev.Coverage.Rule = "(0) every value ParseNDStream delivers is kept and read only after the stream ended (one line per Read and other fragmentations, nothing handed back for reuse); (i) with string copying (default, explicit, or the last of several WithCopyStrings options), after Parse/ParseND returns the caller's buffer is overwritten (zeros, 0xff, random, shifted copy of itself) and every read path (traversal, Interface, ForEach), MarshalJSON and a serialize round trip must be unchanged; (ii) copy and no-copy parses expose the same document while the input is intact; (iii) Clone(nil), Clone(reused destination) and Clone(&zero value): random edit histories applied alternately to the original and to the clone, each compared after every step against its own expected document, the other must not move; buffers of original and clone must not alias; (iv) one Object/Array destination value reused across documents that share buffers (Parse with reuse in no-copy mode, Clone into an earlier clone, Deserialize into an earlier result) reads the current document. non-trivial = document with at least one string; distinct = by (document, overwrite kind / edit history)"
	n := c.N(1200, 15000)
	var cloneDst *simdjson.ParsedJson
	for i := 0; i < n; i++ {
		nd := i%6 == 0
		var doc []byte
		if nd {
			var sb strings.Builder
			for l := 0; l < 1+r.Intn(4); l++ {
				sb.Write(genDoc(r, &GenOpts{MaxDepth: 3, MaxFan: 3, TopFan: 4}))
				sb.WriteString("\n")
			}
			doc = []byte(sb.String())
		} else {
			o := smallOpts(r)
			o.NoDupKey = true
			doc = genDoc(r, o)
			if i%40 == 0 {
				doc = bigDoc(r, 2, 0) // above the async threshold
			}
			if i%7 == 3 {
				// a long escape-free string as (nearly) the last value: parseString's
				// padded-copy path (string reaching into the last 64 bytes of the input
				// with more than 448 bytes between its opening quote and the end)
				L := []int{300, 385, 449, 600, 1000, 5000}[r.Intn(6)]
				pad := strings.Repeat(" ", r.Intn(70))
				long := strings.Repeat("abcdefghij", L/10+1)[:L]
				switch r.Intn(3) {
				case 0:
					doc = []byte(`{"a":1,"s":"` + long + `"` + pad + `}`)
				case 1:
					doc = []byte(`["x",[2,"` + long + `"]` + pad + `]`)
				default:
					doc = []byte(`{"` + long + `":"v","t":"` + long[:L/2] + `"}` + pad)
				}
			}
		}
		info := map[string]interface{}{"doc_hex": fmt.Sprintf("%x", trunc(string(doc), 3000)), "doc_text": printable(doc), "nd": nd}
		// (i) overwrite after a copying parse; one time in two the parse uses the
		// default options on an object previously used without copying
		buf := append([]byte{}, doc...)
		var out ParseOut
		if i%2 == 0 {
			prev := implParse([]byte(`{"earlier":"call without copying","n":[1,"two"]}`), false, false, nil)
			if prev.Err || nd {
				out = implParseDefault(buf, nd, nil)
			} else {
				out = implParseDefault(buf, nd, prev.PJ)
			}
		} else if i%6 == 5 {
			// an option list: options apply in order, the last WithCopyStrings decides
			out = implParseOpts(buf, nd, nil, simdjson.WithCopyStrings(false), simdjson.WithCopyStrings(true))
			info["options"] = "WithCopyStrings(false), WithCopyStrings(true)"
		} else {
			out = implParse(buf, nd, true, nil)
		}
		if out.Err {
			continue
		}
		before := allViews(out.PJ)
		kind := i % 4
		switch kind {
		case 0:
			for j := range buf {
				buf[j] = 0
			}
		case 1:
			for j := range buf {
				buf[j] = 0xff
			}
		case 2:
			for j := range buf {
				buf[j] = byte(r.Intn(256))
			}
		default:
			copy(buf, append(append([]byte{}, doc[1:]...), '"'))
		}
		after := allViews(out.PJ)
		c.Ev.Count("overwrite", append([]byte{byte(kind)}, doc...), strings.Contains(string(doc), `"`))
		if before != after {
			info["overwrite"] = kind
			info["before"], info["after"] = trunc(before, 500), trunc(after, 500)
			c.Violate("aliasing", "with copied strings, overwriting the input buffer changed what the result exposes", "copy-alias", info)
			continue
		}
		// (ii) no-copy equals copy while intact
		nc := implParse(doc, nd, false, nil)
		cp := implParse(doc, nd, true, nil)
		if nc.Err != cp.Err {
			c.Violate("copymode", "copy and no-copy disagree on acceptance", "copymode-verdict", info)
			continue
		}
		if !nc.Err {
			a, b := allViews(nc.PJ), allViews(cp.PJ)
			if a != b {
				info["nocopy"], info["copy"] = trunc(a, 500), trunc(b, 500)
				c.Violate("copymode", "no-copy parse exposes a different document than the copying parse", "copymode-doc", info)
				continue
			}
		}
		// (ii') two results deserialized from the same bytes are independent objects
		if !nc.Err && i%3 == 0 {
			sr := simdjson.NewSerializer()
			if blob, pan := safeSerialize(sr, cp.PJ); pan == "" {
				a1, e1, _ := safeDeserialize(sr, blob, nil)
				a2, e2, _ := safeDeserialize(simdjson.NewSerializer(), blob, nil)
				if e1 == nil && e2 == nil {
					before := allViews(a2)
					if pos, perr := flatPositions(a1, 400); perr == nil {
						for _, p := range pos {
							if p.IsValue && (p.Tag == simdjson.TagString || p.Tag == simdjson.TagInteger || p.Tag == simdjson.TagFloat) {
								it := iterAt(a1, p.K)
								it.SetString("changed in the first copy only")
								break
							}
						}
					}
					a3, e3, _ := safeDeserialize(sr, blob, a1) // reuse the first as destination
					_ = a3
					if after := allViews(a2); e3 == nil && after != before {
						info["before"], info["after"] = trunc(before, 400), trunc(after, 400)
						c.Violate("aliasing", "editing / reusing one deserialized result changed another one", "deser-alias", info)
						continue
					}
				}
			}
		}
		// (iii) clone independence
		if nd || i%2 == 1 {
			continue
		}
		orig := cp.PJ
		var clone *simdjson.ParsedJson
		if i%4 == 0 && cloneDst != nil {
			clone = orig.Clone(cloneDst)
		} else if i%6 == 2 {
			var fresh simdjson.ParsedJson // a destination that has never held anything
			clone = orig.Clone(&fresh)
		} else {
			clone = orig.Clone(nil)
		}
		cloneDst = clone
		if dumpOf(orig) != dumpOf(clone) {
			c.Violate("clone", "a fresh clone differs from its original", "clone-differs", info)
			continue
		}
		if len(orig.Tape) > 0 && len(clone.Tape) > 0 && &orig.Tape[0] == &clone.Tape[0] {
			c.Violate("clone", "clone shares the tape's backing array with the original", "clone-shares-tape", info)
			continue
		}
		// backing arrays (up to their capacity: appends land there) must be disjoint
		if ov := overlapping(orig, clone); ov != "" {
			info["shared"] = ov
			c.Violate("clone", "clone shares a backing array with the original: "+ov, "clone-shares-buffer", info)
			continue
		}
		// directed: a string edit on each side, then both must show their own value
		if pos, perr := flatPositions(orig, 400); perr == nil {
			for _, p := range pos {
				if p.IsValue && (p.Tag == simdjson.TagString || p.Tag == simdjson.TagInteger || p.Tag == simdjson.TagFloat || p.Tag == simdjson.TagUint) {
					io, ic := iterAt(orig, p.K), iterAt(clone, p.K)
					e1 := io.SetString("ORIGINAL-side")
					e2 := ic.SetStringBytes([]byte("clone-SIDE-value"))
					io, ic = iterAt(orig, p.K), iterAt(clone, p.K)
					so, _ := io.String()
					sc, _ := ic.String()
					c.Ev.Count("clone-string-both-sides", []byte(fmt.Sprintf("%x|%d", doc, p.K)), true)
					if e1 != nil || e2 != nil || so != "ORIGINAL-side" || sc != "clone-SIDE-value" {
						info["orig_reads"], info["clone_reads"] = so, sc
						c.Violate("clone", "after SetString on the original and on the clone one side reads the other's bytes", "clone-string-alias", info)
					}
					break
				}
			}
		}
		var ops []string
		ho := &history{doc: doc, pj: orig}
		hc := &history{doc: doc, pj: clone}
		for s := 0; s < 1+r.Intn(8); s++ {
			target, other := ho, hc
			name := "orig"
			if r.Bool() {
				target, other = hc, ho
				name = "clone"
			}
			otherBefore := allViews(other.pj)
			op := c.pickEdit(r, target, r.Bool())
			if op == nil {
				break
			}
			it := editIter(target.pj, op.K, op.Path, r)
			safeApply(op, &it)
			ops = append(ops, name+":"+op.Desc)
			if otherAfter := allViews(other.pj); otherAfter != otherBefore {
				info["history"] = strings.Join(ops, " ; ")
				info["before"], info["after"] = trunc(otherBefore, 400), trunc(otherAfter, 400)
				c.Violate("clone", "an edit to one object changed the other", "clone-alias", info)
				break
			}
		}
		c.Ev.Count("clone-history", []byte(fmt.Sprintf("%x|%v", doc, ops)), len(ops) > 0)
		if i%101 == 0 {
			c.Ev.Sample(map[string]interface{}{"doc": printable(trunc(string(doc), 100)), "ops": ops})
		}
	}
	c.c16StreamValuesKept()
	c.c16ReusedDestinations(c.N(300, 4000))
}

func dumpOf(pj *simdjson.ParsedJson) string {
	d, err := dumpDoc(pj)
	if err != nil {
		return "ERR " + err.Error()
	}
	return d
}

// overlapping reports which buffers of two results share memory (compared over
// their full capacity, since appends write there)
func overlapping(a, b *simdjson.ParsedJson) string {
	rng := func(x []byte) (uintptr, uintptr) {
		x = x[:cap(x)]
		if len(x) == 0 {
			return 0, 0
		}
		p := uintptr(unsafe.Pointer(&x[0]))
		return p, p + uintptr(len(x))
	}
	rngT := func(x []uint64) (uintptr, uintptr) {
		x = x[:cap(x)]
		if len(x) == 0 {
			return 0, 0
		}
		p := uintptr(unsafe.Pointer(&x[0]))
		return p, p + 8*uintptr(len(x))
	}
	ov := func(a0, a1, b0, b1 uintptr) bool { return a0 != a1 && b0 != b1 && a0 < b1 && b0 < a1 }
	var out []string
	a0, a1 := rngT(a.Tape)
	b0, b1 := rngT(b.Tape)
	if ov(a0, a1, b0, b1) {
		out = append(out, "Tape")
	}
	if a.Strings != nil && b.Strings != nil {
		a0, a1 = rng(a.Strings.B)
		b0, b1 = rng(b.Strings.B)
		if ov(a0, a1, b0, b1) {
			out = append(out, "Strings.B")
		}
		if a.Strings == b.Strings {
			out = append(out, "Strings(pointer)")
		}
	}
	a0, a1 = rng(a.Message)
	b0, b1 = rng(b.Message)
	if ov(a0, a1, b0, b1) {
		out = append(out, "Message")
	}
	return strings.Join(out, ",")
}

// c16ReusedDestinations: ONE Object / Array / Iter destination value reused
// across different documents that share internal buffers (a ParsedJson reused
// by Parse in no-copy mode, Clone into an earlier clone, Deserialize into an
// earlier result): what is read through the reused destination must be the
// CURRENT document, exactly what a fresh destination reads.
// c16StreamValuesKept: every value ParseNDStream delivers is kept and read only after the
// stream has ended (nothing is handed back through the reuse channel): what was delivered
// must not be overwritten by the chunks parsed later.
func (c *Ctx) c16StreamValuesKept() {
	r := c.Rng
	for round := 0; round < c.N(6, 40); round++ {
		var sb strings.Builder
		var want []string
		n := 200 + r.Intn(600)
		for l := 0; l < n; l++ {
			d := genDoc(r, &GenOpts{MaxDepth: 3, MaxFan: 3, TopFan: 4})
			if bytes.IndexByte(d, '\n') >= 0 {
				continue
			}
			out := implParse(d, false, true, nil)
			if out.Err {
				continue
			}
			dd, err := dumpDoc(out.PJ)
			if err != nil {
				continue
			}
			sb.Write(d)
			sb.WriteByte('\n')
			want = append(want, dd)
		}
		data := []byte(sb.String())
		sizes := [][]int{{1}, {37}, {200, 3, 1000}}[round%3]
		if round%3 == 0 {
			// one line per Read
			sizes = nil
		}
		var rd io.Reader = &fragReader{data: data, sizes: sizes, failAt: -1}
		if sizes == nil {
			rd = &lineReader{data: data}
		}
		res := make(chan simdjson.Stream, 4)
		simdjson.ParseNDStream(rd, res, nil)
		var kept []*simdjson.ParsedJson
		var finalErr error
		deadline := time.After(180 * time.Second)
	loop:
		for {
			select {
			case v, ok := <-res:
				if !ok {
					break loop
				}
				if v.Error != nil {
					finalErr = v.Error
					continue
				}
				kept = append(kept, v.Value)
			case <-deadline:
				c.Violate("stream", "ParseNDStream did not finish", "c16-stream-hang", map[string]interface{}{"round": round})
				return
			}
		}
		var got strings.Builder
		for _, pj := range kept {
			d, err := dumpDoc(pj)
			if err != nil {
				got.WriteString("DUMPERR")
			}
			got.WriteString(d)
		}
		c.Ev.Count("stream-values-kept", append([]byte{byte(round)}, data...), len(kept) >= 2)
		if finalErr != io.EOF || got.String() != strings.Join(want, "") {
			g, w := got.String(), strings.Join(want, "")
			k := 0
			for k < len(g) && k < len(w) && g[k] == w[k] {
				k++
			}
			c.Violate("aliasing", "values delivered by ParseNDStream and read after the stream had ended differ from the stream's documents (overwritten by later chunks?)", "stream-values-kept",
				map[string]interface{}{"lines": len(want), "values": len(kept), "final_error": fmt.Sprint(finalErr), "first_difference_at": k, "delivered_there": trunc(g[k:], 200), "expected_there": trunc(w[k:], 200), "fragment_sizes": fmt.Sprint(sizes)})
			return
		}
	}
}

// lineReader hands out one line per Read.
type lineReader struct {
	data []byte
	pos  int
}

func (l *lineReader) Read(p []byte) (int, error) {
	if l.pos >= len(l.data) {
		return 0, io.EOF
	}
	e := bytes.IndexByte(l.data[l.pos:], '\n')
	n := len(l.data) - l.pos
	if e >= 0 {
		n = e + 1
	}
	if n > len(p) {
		n = len(p)
	}
	copy(p, l.data[l.pos:l.pos+n])
	l.pos += n
	return n, nil
}

func (c *Ctx) c16ReusedDestinations(n int) {
	r := c.Rng
	// one destination PER ROUTE: a destination must meet the same internal buffers again,
	// with other contents, for stale state in it to matter
	var objs [3]simdjson.Object
	var arrs [3]simdjson.Array
	var iterDsts [3]simdjson.Iter
	var elemDsts [3]simdjson.Element
	var reusePJ, cloneDst, deserDst *simdjson.ParsedJson
	ser := simdjson.NewSerializer()
	view := func(pj *simdjson.ParsedJson, reused bool, ri int) string {
		var b strings.Builder
		defer func() {
			if rr := recover(); rr != nil {
				fmt.Fprintf(&b, "PANIC %v", rr)
			}
		}()
		it := pj.Iter()
		it.AdvanceInto()
		_, root, err := it.Root(nil)
		if err != nil {
			return "ERR root"
		}
		switch root.Type() {
		case simdjson.TypeObject:
			var o *simdjson.Object
			if reused {
				o, err = root.Object(&objs[ri])
			} else {
				o, err = root.Object(nil)
			}
			if err != nil {
				return "ERR object"
			}
			m, err := o.Map(nil)
			if err != nil {
				return "ERR map " + err.Error()
			}
			dumpIface(&b, m)
		case simdjson.TypeArray:
			var a *simdjson.Array
			if reused {
				a, err = root.Array(&arrs[ri])
			} else {
				a, err = root.Array(nil)
			}
			if err != nil {
				return "ERR array"
			}
			v, err := a.Interface()
			if err != nil {
				return "ERR iface " + err.Error()
			}
			dumpIface(&b, v)
		}
		// the same document through AdvanceIter / FindElement with destination iterators and
		// elements kept from the documents before
		{
			x := pj.Iter()
			var d *simdjson.Iter
			if reused {
				d = &iterDsts[ri]
			} else {
				d = &simdjson.Iter{}
			}
			if t, err := x.AdvanceIter(d); err == nil && t == simdjson.TypeRoot {
				el := *d
				el.AdvanceInto()
				if v, err := el.Interface(); err == nil {
					b.WriteString(" adviter:")
					dumpIface(&b, v)
				} else {
					b.WriteString(" adviter:ERR")
				}
				if el.Type() == simdjson.TypeObject {
					if o, err := el.Object(nil); err == nil {
						var first simdjson.Iter
						if name, _, err := o.NextElementBytes(&first); err == nil && name != nil {
							y := pj.Iter()
							var ed *simdjson.Element
							if reused {
								ed = &elemDsts[ri]
							}
							if e, err := y.FindElement(ed, string(name)); err == nil && e != nil {
								if v, err := e.Iter.Interface(); err == nil {
									b.WriteString(" find:")
									dumpIface(&b, v)
								}
							}
						}
					}
				}
			}
		}
		return b.String()
	}
	for i := 0; i < n; i++ {
		o := smallOpts(r)
		o.NoDupKey = true
		doc := genDoc(r, o)
		if i%3 == 0 {
			doc = []byte(fmt.Sprintf(`{"name":"%s","kind":"doc%d","list":["%s",%d]}`, strPool[r.Intn(4)], i, strPool[r.Intn(4)], i))
		}
		out := implParse(doc, false, false, reusePJ) // no-copy: strings live in Message
		if out.Err {
			continue
		}
		reusePJ = out.PJ
		info := map[string]interface{}{"doc_text": printable(doc), "step": i}
		c.Ev.Count("reused-destination", []byte(fmt.Sprint(i)+string(doc)), true)
		for ri, route := range []string{"parse-reuse", "clone-into-earlier-clone", "deserialize-into-earlier-result"} {
			pj := out.PJ
			switch route {
			case "clone-into-earlier-clone":
				pj = out.PJ.Clone(cloneDst)
				cloneDst = pj
			case "deserialize-into-earlier-result":
				blob, pan := safeSerialize(ser, out.PJ)
				if pan != "" {
					continue
				}
				d, err, pan2 := safeDeserialize(ser, blob, deserDst)
				if err != nil || pan2 != "" {
					continue
				}
				pj, deserDst = d, d
			}
			want := view(pj, false, ri)
			got := view(pj, true, ri)
			if got != want {
				info["route"], info["reused_dst_reads"], info["fresh_dst_reads"] = route, trunc(got, 300), trunc(want, 300)
				c.Violate("aliasing", "reading through a reused Object/Array destination shows another document's bytes", "reused-dst-stale", info)
				return
			}
		}
	}
}
