package main

// srcgen: regenerate coq/gen/*.v from /repo's current working tree.
//   - Go tables and package-level constants: their run-time values, read through
//     the verif-tagged accessors of the package the harness is linked against
//     (this binary is rebuilt from /repo whenever the tree changes);
//   - assembly DATA tables: parsed from the .s files (little-endian expansion,
//     zero fill up to the GLOBL size);
//   - literals inside function bodies (maxIntLen, the sync/async threshold, the
//     channel capacity expression, paddings, flush sizes, ES6 thresholds): read
//     from the Go AST.

import (
	"bytes"
	"fmt"
	"go/ast"
	"go/parser"
	"go/token"
	"math/big"
	"os"
	"path/filepath"
	"regexp"
	"sort"
	"strconv"
	"strings"

	simdjson "github.com/minio/simdjson-go"
)

func coqList(v []uint64) string {
	var b strings.Builder
	b.WriteString("[")
	for i, x := range v {
		if i > 0 {
			b.WriteString("; ")
		}
		if i%16 == 0 && i > 0 {
			b.WriteString("\n   ")
		}
		fmt.Fprintf(&b, "%d", x)
	}
	b.WriteString("]")
	return b.String()
}

var reData = regexp.MustCompile(`^DATA\s+([A-Za-z0-9_]+)<>\+0x([0-9a-fA-F]+)\(SB\)/(\d+),\s*\$(0x[0-9a-fA-F]+|\d+)`)
var reGlobl = regexp.MustCompile(`^GLOBL\s+([A-Za-z0-9_]+)<>\(SB\),\s*\d+,\s*\$(\d+)`)

type asmSym struct {
	data map[int]byte
	size int
}

func parseAsm(path string) (map[string]*asmSym, error) {
	src, err := os.ReadFile(path)
	if err != nil {
		return nil, err
	}
	syms := map[string]*asmSym{}
	get := func(n string) *asmSym {
		if syms[n] == nil {
			syms[n] = &asmSym{data: map[int]byte{}}
		}
		return syms[n]
	}
	for _, line := range strings.Split(string(src), "\n") {
		line = strings.TrimSpace(line)
		if m := reData.FindStringSubmatch(line); m != nil {
			off, _ := strconv.ParseInt(m[2], 16, 64)
			w, _ := strconv.Atoi(m[3])
			val := new(big.Int)
			if strings.HasPrefix(m[4], "0x") {
				val.SetString(m[4][2:], 16)
			} else {
				val.SetString(m[4], 10)
			}
			s := get(m[1])
			for i := 0; i < w; i++ {
				b := new(big.Int).Rsh(val, uint(8*i))
				s.data[int(off)+i] = byte(b.Uint64() & 0xff)
			}
		} else if m := reGlobl.FindStringSubmatch(line); m != nil {
			get(m[1]).size, _ = strconv.Atoi(m[2])
		}
	}
	return syms, nil
}

// evalConst evaluates the tiny constant-expression language used by the
// literals we extract.
func evalConst(e ast.Expr, env map[string]uint64) (uint64, bool) {
	switch x := e.(type) {
	case *ast.BasicLit:
		if x.Kind == token.INT {
			v, err := strconv.ParseUint(strings.ReplaceAll(x.Value, "_", ""), 0, 64)
			return v, err == nil
		}
	case *ast.Ident:
		v, ok := env[x.Name]
		return v, ok
	case *ast.ParenExpr:
		return evalConst(x.X, env)
	case *ast.BinaryExpr:
		a, ok1 := evalConst(x.X, env)
		b, ok2 := evalConst(x.Y, env)
		if !ok1 || !ok2 {
			return 0, false
		}
		switch x.Op {
		case token.SHL:
			return a << b, true
		case token.SHR:
			return a >> b, true
		case token.ADD:
			return a + b, true
		case token.SUB:
			return a - b, true
		case token.MUL:
			return a * b, true
		}
	}
	return 0, false
}

func findFunc(files []*ast.File, name string) *ast.FuncDecl {
	for _, f := range files {
		for _, d := range f.Decls {
			if fd, ok := d.(*ast.FuncDecl); ok && fd.Name.Name == name && fd.Body != nil {
				return fd
			}
		}
	}
	return nil
}

func exprString(fset *token.FileSet, e ast.Expr) string {
	var b bytes.Buffer
	ast.Fprint(&b, fset, e, nil)
	return b.String()
}

// srcLiterals digs the function-local literals out of the AST. Anything whose
// expected shape is not found is reported in missing (the tie obligations that
// need it then fail to compile, which is the intended signal).
func srcLiterals(repo string, env map[string]uint64) (map[string]uint64, map[string]string, []string) {
	out := map[string]uint64{}
	strs := map[string]string{}
	var missing []string
	fset := token.NewFileSet()
	var files []*ast.File
	matches, _ := filepath.Glob(filepath.Join(repo, "*.go"))
	for _, m := range matches {
		if strings.HasSuffix(m, "_test.go") || strings.HasPrefix(filepath.Base(m), "verif_") {
			continue
		}
		f, err := parser.ParseFile(fset, m, nil, 0)
		if err == nil {
			files = append(files, f)
		}
	}
	localConst := func(fn, cname string) {
		fd := findFunc(files, fn)
		found := false
		if fd != nil {
			ast.Inspect(fd.Body, func(n ast.Node) bool {
				if vs, ok := n.(*ast.ValueSpec); ok {
					for i, nm := range vs.Names {
						if nm.Name == cname && i < len(vs.Values) {
							if v, ok := evalConst(vs.Values[i], env); ok {
								out[cname] = v
								found = true
							}
						}
					}
				}
				return true
			})
		}
		if !found {
			missing = append(missing, fn+"."+cname)
		}
	}
	localConst("parseNumber", "maxIntLen")
	localConst("Serialize", "tagBufSize")
	localConst("Serialize", "valBufSize")
	localConst("ParseNDStream", "tmpSize")
	localConst("unifiedMachine", "addOneForRoot")

	// parseMessage: if len(pj.Message) > THR  and  make(chan indexChan, CAP)
	if fd := findFunc(files, "parseMessage"); fd != nil {
		okT, okC := false, false
		ast.Inspect(fd.Body, func(n ast.Node) bool {
			switch x := n.(type) {
			case *ast.IfStmt:
				if be, ok := x.Cond.(*ast.BinaryExpr); ok && be.Op == token.GTR {
					if ce, ok := be.X.(*ast.CallExpr); ok {
						if id, ok := ce.Fun.(*ast.Ident); ok && id.Name == "len" {
							if v, ok := evalConst(be.Y, env); ok && !okT {
								out["syncThreshold"] = v
								okT = true
							}
						}
					}
				}
			case *ast.CallExpr:
				if id, ok := x.Fun.(*ast.Ident); ok && id.Name == "make" && len(x.Args) == 2 {
					if _, ok := x.Args[0].(*ast.ChanType); ok {
						if v, ok := evalConst(x.Args[1], env); ok {
							out["chanCapExpr"] = v
							okC = true
						}
					}
				}
			}
			return true
		})
		if !okT {
			missing = append(missing, "parseMessage.syncThreshold")
		}
		if !okC {
			missing = append(missing, "parseMessage.chanCapExpr")
		}
	} else {
		missing = append(missing, "parseMessage")
	}

	// parseString: paddings  len(buf)-int(max) < A ; len(buf) > B ; make(len(buf)+C) ; size + D
	if fd := findFunc(files, "parseString"); fd != nil {
		var lits []uint64
		ast.Inspect(fd.Body, func(n ast.Node) bool {
			if be, ok := n.(*ast.BinaryExpr); ok {
				switch be.Op {
				case token.LSS, token.GTR, token.ADD:
					if v, ok := evalConst(be.Y, env); ok {
						lits = append(lits, v)
					}
				}
			}
			return true
		})
		for i, v := range lits {
			out[fmt.Sprintf("parseString_lit%d", i)] = v
		}
		out["parseString_nlits"] = uint64(len(lits))
	} else {
		missing = append(missing, "parseString")
	}

	// the index-buffer fill limit each in-slice kernel wrapper hands to the assembly: the
	// argument that follows unsafe.Pointer(index) in the call of _find_structural_bits_in_slice*
	for _, w := range []struct{ fn, callee, name string }{
		{"find_structural_bits_in_slice", "_find_structural_bits_in_slice", "sliceLimitAVX2"},
		{"find_structural_bits_in_slice_avx512", "_find_structural_bits_in_slice_avx512", "sliceLimitAVX512"},
	} {
		okL := false
		if fd := findFunc(files, w.fn); fd != nil {
			ast.Inspect(fd.Body, func(n ast.Node) bool {
				ce, ok := n.(*ast.CallExpr)
				if !ok {
					return true
				}
				id, ok := ce.Fun.(*ast.Ident)
				if !ok || id.Name != w.callee {
					return true
				}
				for k := 0; k+1 < len(ce.Args); k++ {
					if c2, ok := ce.Args[k].(*ast.CallExpr); ok && len(c2.Args) == 1 {
						if a, ok := c2.Args[0].(*ast.Ident); ok && a.Name == "index" {
							if v, ok := evalConst(ce.Args[k+1], env); ok {
								out[w.name] = v
								okL = true
							}
						}
					}
				}
				return true
			})
		}
		if !okL {
			missing = append(missing, w.fn+".limit")
		}
	}

	// appendFloat: the two ES6 thresholds, as written
	if fd := findFunc(files, "appendFloat"); fd != nil {
		var fl []string
		ast.Inspect(fd.Body, func(n ast.Node) bool {
			if bl, ok := n.(*ast.BasicLit); ok && bl.Kind == token.FLOAT {
				fl = append(fl, bl.Value)
			}
			return true
		})
		strs["es6_floats"] = strings.Join(fl, ",")
	} else {
		missing = append(missing, "appendFloat")
	}
	return out, strs, missing
}

// ratOfFloatLit turns a decimal float literal such as 1e-6 into num/den.
func ratOfFloatLit(s string) (num, den string, ok bool) {
	r, ok := new(big.Rat).SetString(s)
	if !ok {
		return "", "", false
	}
	return r.Num().String(), r.Denom().String(), true
}

func writeIfChanged(path string, content []byte) error {
	old, err := os.ReadFile(path)
	if err == nil && bytes.Equal(old, content) {
		return nil
	}
	return os.WriteFile(path, content, 0o644)
}

func cmdSrcgen(repo, outdir string) error {
	var t bytes.Buffer
	t.WriteString("(* GENERATED by `vcheck srcgen` from /repo's working tree — do not edit. *)\n")
	t.WriteString("From Coq Require Import NArith List.\nImport ListNotations.\nOpen Scope N_scope.\n\n")
	tabs := simdjson.VerifTables()
	names := make([]string, 0, len(tabs))
	for n := range tabs {
		names = append(names, n)
	}
	sort.Strings(names)
	for _, n := range names {
		fmt.Fprintf(&t, "Definition gen_%s : list N :=\n  %s.\n\n", n, coqList(tabs[n]))
	}
	// assembly tables
	asmFiles, _ := filepath.Glob(filepath.Join(repo, "*.s"))
	sort.Strings(asmFiles)
	for _, af := range asmFiles {
		syms, err := parseAsm(af)
		if err != nil {
			return err
		}
		base := strings.TrimSuffix(filepath.Base(af), ".s")
		snames := make([]string, 0, len(syms))
		for n := range syms {
			snames = append(snames, n)
		}
		sort.Strings(snames)
		for _, sn := range snames {
			s := syms[sn]
			size := s.size
			for off := range s.data {
				if off+1 > size {
					size = off + 1
				}
			}
			v := make([]uint64, size)
			for off, b := range s.data {
				v[off] = uint64(b)
			}
			fmt.Fprintf(&t, "Definition gen_asm_%s_%s : list N :=\n  %s.\n\n", base, sn, coqList(v))
		}
	}
	// where the string kernel's code addresses its two tables inside LCDATA1
	ps, _ := os.ReadFile(filepath.Join(repo, "parse_string_amd64.s"))
	leaDigit := regexp.MustCompile(`LONG \$0x([0-9a-f]{2})4d8d4c\s`)               // lea r9, disp8[rbp]
	leaEsc := regexp.MustCompile(`LONG \$0x([0-9a-f]{2})958d4c; WORD \$0x([0-9a-f]{4}); BYTE \$0x([0-9a-f]{2})`) // lea r10, disp32[rbp]
	if m := leaDigit.FindSubmatch(ps); m != nil {
		v, _ := strconv.ParseUint(string(m[1]), 16, 64)
		fmt.Fprintf(&t, "Definition gen_digittoval_off : N := %d.\n", v)
	}
	if m := leaEsc.FindSubmatch(ps); m != nil {
		b0, _ := strconv.ParseUint(string(m[1]), 16, 64)
		w, _ := strconv.ParseUint(string(m[2]), 16, 64)
		b3, _ := strconv.ParseUint(string(m[3]), 16, 64)
		fmt.Fprintf(&t, "Definition gen_escape_map_off : N := %d.\n", b0|w<<8|b3<<24)
	}
	if err := writeIfChanged(filepath.Join(outdir, "Tables.v"), t.Bytes()); err != nil {
		return err
	}

	var c bytes.Buffer
	c.WriteString("(* GENERATED by `vcheck srcgen` from /repo's working tree — do not edit. *)\n")
	c.WriteString("From Coq Require Import NArith ZArith.\nOpen Scope N_scope.\n\n")
	consts := simdjson.VerifConsts()
	cn := make([]string, 0, len(consts))
	for n := range consts {
		cn = append(cn, n)
	}
	sort.Strings(cn)
	for _, n := range cn {
		fmt.Fprintf(&c, "Definition gen_%s : N := %d.\n", n, consts[n])
	}
	lits, strs, missing := srcLiterals(repo, consts)
	ln := make([]string, 0, len(lits))
	for n := range lits {
		ln = append(ln, n)
	}
	sort.Strings(ln)
	for _, n := range ln {
		fmt.Fprintf(&c, "Definition gen_%s : N := %d.\n", n, lits[n])
	}
	// run-time channel capacity (make(chan indexChan, ...)) observed on a real parse
	if pj, err := simdjson.Parse([]byte(`{"a":1}`), nil); err == nil {
		capc, _, _ := simdjson.VerifChanState(pj)
		fmt.Fprintf(&c, "Definition gen_chanCapRuntime : N := %d.\n", capc)
	}
	if fl, ok := strs["es6_floats"]; ok {
		parts := strings.Split(fl, ",")
		for i, p := range parts {
			if num, den, ok := ratOfFloatLit(p); ok {
				fmt.Fprintf(&c, "Definition gen_es6_lit%d_num : Z := %s%%Z.\nDefinition gen_es6_lit%d_den : Z := %s%%Z.\n", i, num, i, den)
			}
		}
		fmt.Fprintf(&c, "Definition gen_es6_nlits : N := %d.\n", len(parts))
	}
	for _, m := range missing {
		fmt.Fprintf(&c, "(* MISSING: %s — expected source shape not found *)\n", m)
	}
	if err := writeIfChanged(filepath.Join(outdir, "Consts.v"), c.Bytes()); err != nil {
		return err
	}
	// translation of unifiedMachine into the syntax of Model/S2Ast.v
	s2, err := translateStage2(repo, consts)
	if err != nil {
		return err
	}
	return writeIfChanged(filepath.Join(outdir, "S2Prog.v"), s2)
}
