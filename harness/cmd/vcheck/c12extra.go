package main

// C12, bulk accessors judged directly against plain traversal (no model
// involved): Object.Parse / Elements.Lookup / Object.Map / Elements.MarshalJSON,
// Array.AsString / AsStringCvt / FirstType / Interface.

import (
	"strconv"
	"fmt"
	"math"
	"strings"

	simdjson "github.com/minio/simdjson-go"
)

type member struct {
	key  string
	dump string
	json string
}

// plain traversal of an object's members with NextElementBytes
func travMembers(o *simdjson.Object) (ms []member, err error) {
	var tmp simdjson.Iter
	for {
		name, t, e := o.NextElementBytes(&tmp)
		if e != nil {
			return nil, e
		}
		if t == simdjson.TypeNone {
			return ms, nil
		}
		var b strings.Builder
		if e := dumpValue(&b, &tmp, 0); e != nil {
			return nil, e
		}
		cp := tmp
		js, e := cp.MarshalJSON()
		if e != nil {
			return nil, e
		}
		ms = append(ms, member{string(name), b.String(), string(js)})
	}
}

func dumpElem(e *simdjson.Element) string {
	if e == nil {
		return "nil"
	}
	var b strings.Builder
	it := e.Iter
	fmt.Fprintf(&b, "k%x;t%d;", e.Name, int(e.Type))
	if err := dumpValue(&b, &it, 0); err != nil {
		return "ERR"
	}
	return b.String()
}

// reusedElems carries an Elements value from one object to the next so that a
// stale index entry (Parse with a non-nil destination) would show
var reusedElems *simdjson.Elements

func (c *Ctx) c12ObjectBulk(doc []byte, pj *simdjson.ParsedJson, p position, dup bool) {
	objAt := func() *simdjson.Object {
		it := iterAt(pj, p.K)
		o, _ := it.Object(nil)
		return o
	}
	info := func(q string, got, want string) map[string]interface{} {
		return map[string]interface{}{"doc_hex": fmt.Sprintf("%x", doc), "doc_text": printable(doc), "query": q + " at " + pathStr(p.Path), "bulk": trunc(got, 400), "traversal": trunc(want, 400)}
	}
	ms, err := travMembers(objAt())
	if err != nil {
		return
	}
	c.Ev.Count("object-bulk-vs-traversal", []byte(fmt.Sprint(p.K)+string(doc)), len(ms) > 0)
	var want strings.Builder
	for _, m := range ms {
		fmt.Fprintf(&want, "k%x;%s|", m.key, m.dump)
	}
	prevElems := reusedElems // filled by the PREVIOUS object this check looked at
	for round := 0; round < 2; round++ {
		// round 0: fresh destination; round 1: destination reused from an earlier object
		var dst *simdjson.Elements
		if round == 1 {
			dst = prevElems
			if dst == nil {
				continue
			}
		}
		var stale []string
		if dst != nil {
			for k := range dst.Index {
				stale = append(stale, k)
			}
		}
		got := safeStr(func() string {
			el, err := objAt().Parse(dst)
			if err != nil {
				return "ERR"
			}
			var b strings.Builder
			for i := range el.Elements {
				e := &el.Elements[i]
				it := e.Iter
				fmt.Fprintf(&b, "k%x;", e.Name)
				if it.Type() != e.Type {
					b.WriteString("TYPE-MISMATCH")
				}
				if err := dumpValue(&b, &it, 0); err != nil {
					return "ERR"
				}
				b.WriteByte('|')
			}
			// Lookup: every key (unique keys: its own member), absent keys and keys of the
			// object the destination served before: nil
			if !dup {
				for _, m := range ms {
					le := el.Lookup(m.key)
					if le == nil || le.Name != m.key {
						return b.String() + " LOOKUP-MISS " + m.key
					}
					var lb strings.Builder
					it := le.Iter
					if err := dumpValue(&lb, &it, 0); err != nil || lb.String() != m.dump {
						return b.String() + " LOOKUP-WRONG " + m.key
					}
				}
			}
			present := map[string]bool{}
			for _, m := range ms {
				present[m.key] = true
			}
			for _, k := range append(stale, "absent", "zz") {
				if !present[k] && el.Lookup(k) != nil {
					return b.String() + " LOOKUP-STALE " + k
				}
			}
			if len(el.Index) > len(ms) {
				return b.String() + " INDEX-TOO-LARGE"
			}
			// Elements.MarshalJSON = { "key":value,... } of the members in order
			js, err := el.MarshalJSON()
			if err != nil {
				return b.String() + " MARSHAL-ERR"
			}
			var wj strings.Builder
			wj.WriteByte('{')
			for i, m := range ms {
				if i > 0 {
					wj.WriteByte(',')
				}
				kj, _ := marshalKey(m.key)
				wj.WriteString(kj + ":" + m.json)
			}
			wj.WriteByte('}')
			if string(js) != wj.String() {
				return b.String() + " ELEMENTS-MARSHAL " + string(js) + " WANT " + wj.String()
			}
			if round == 0 {
				reusedElems = el
			}
			return b.String()
		})
		if got != want.String() {
			c.Violate("bulk", "Object.Parse / Elements.Lookup / Elements.MarshalJSON differ from plain traversal", "c12-object-bulk", info(fmt.Sprintf("Object.Parse(reused=%v)+Lookup", round == 1), got, want.String()))
		}
	}
	// Object.Map = map built by traversal (Go assignment: last duplicate wins)
	gotM := safeStr(func() string {
		m, err := objAt().Map(nil)
		if err != nil {
			return "ERR"
		}
		var b strings.Builder
		dumpIface(&b, m)
		return b.String()
	})
	wantM := safeStr(func() string {
		wm := map[string]interface{}{}
		o := objAt()
		var tmp simdjson.Iter
		for {
			name, t, e := o.NextElementBytes(&tmp)
			if e != nil {
				return "ERR"
			}
			if t == simdjson.TypeNone {
				break
			}
			v, e := tmp.Interface()
			if e != nil {
				return "ERR"
			}
			wm[string(name)] = v
		}
		var b strings.Builder
		dumpIface(&b, wm)
		return b.String()
	})
	if gotM != wantM {
		c.Violate("bulk", "Object.Map differs from the map plain traversal builds", "c12-object-map", info("Object.Map", gotM, wantM))
	}
}

// marshalKey: the JSON text of a key as the library prints strings
func marshalKey(k string) (string, error) {
	return "\"" + string(simdjson.VerifEscapeBytes(nil, []byte(k))) + "\"", nil
}

func (c *Ctx) c12ArrayBulk(doc []byte, pj *simdjson.ParsedJson, p position) {
	arrAt := func() *simdjson.Array {
		it := iterAt(pj, p.K)
		a, _ := it.Array(nil)
		return a
	}
	info := func(q string, got, want string) map[string]interface{} {
		return map[string]interface{}{"doc_hex": fmt.Sprintf("%x", doc), "doc_text": printable(doc), "query": q + " at " + pathStr(p.Path), "bulk": trunc(got, 400), "traversal": trunc(want, 400)}
	}
	c.Ev.Count("array-bulk-vs-traversal", []byte(fmt.Sprint(p.K)+string(doc)), p.NElems > 0)
	trav := func(f func(it *simdjson.Iter) (string, error)) string {
		it := arrAt().Iter()
		var parts []string
		for {
			t := it.Advance()
			if t == simdjson.TypeNone {
				break
			}
			s, err := f(&it)
			if err != nil {
				return "ERR"
			}
			parts = append(parts, fmt.Sprintf("%x", s))
		}
		return "ok " + strings.Join(parts, ",")
	}
	fmtS := func(v []string, err error) string {
		if err != nil {
			return "ERR"
		}
		parts := make([]string, len(v))
		for i, s := range v {
			parts[i] = fmt.Sprintf("%x", s)
		}
		return "ok " + strings.Join(parts, ",")
	}
	got := safeStr(func() string { return fmtS(arrAt().AsString()) })
	want := safeStr(func() string {
		return trav(func(it *simdjson.Iter) (string, error) {
			if it.Type() != simdjson.TypeString {
				return "", fmt.Errorf("not a string")
			}
			return it.String()
		})
	})
	if got != want {
		c.Violate("bulk", "Array.AsString differs from plain traversal with String()", "c12-asstring", info("AsString", got, want))
	}
	got = safeStr(func() string { return fmtS(arrAt().AsStringCvt()) })
	want = safeStr(func() string { return trav(func(it *simdjson.Iter) (string, error) { return it.StringCvt() }) })
	if got != want {
		c.Violate("bulk", "Array.AsStringCvt differs from plain traversal with StringCvt()", "c12-asstringcvt", info("AsStringCvt", got, want))
	}
	// FirstType = type of the first element plain traversal yields
	gotT := safeStr(func() string { return fmt.Sprint(int(arrAt().FirstType())) })
	wantT := safeStr(func() string {
		it := arrAt().Iter()
		return fmt.Sprint(int(it.Advance()))
	})
	if gotT != wantT {
		c.Violate("bulk", "Array.FirstType differs from the first element's type", "c12-firsttype", info("FirstType", gotT, wantT))
	}
	// Array.MarshalJSON = MarshalJSON of the element iterator standing on this array
	gotJ := safeStr(func() string {
		b, err := arrAt().MarshalJSON()
		if err != nil {
			return "ERR"
		}
		return string(b)
	})
	wantJ := safeStr(func() string {
		it := iterAt(pj, p.K-1)
		var el simdjson.Iter
		if _, err := it.AdvanceIter(&el); err != nil {
			return "ERR"
		}
		b, err := el.MarshalJSON()
		if err != nil {
			return "ERR"
		}
		return string(b)
	})
	if gotJ != wantJ {
		c.Violate("bulk", "Array.MarshalJSON differs from MarshalJSON of the iterator on the same array", "c12-array-marshal", info("Array.MarshalJSON", gotJ, wantJ))
	}
	// Array.Interface = Interface() of each element
	gotI := safeStr(func() string {
		v, err := arrAt().Interface()
		if err != nil {
			return "ERR"
		}
		var b strings.Builder
		dumpIface(&b, v)
		return b.String()
	})
	wantI := safeStr(func() string {
		it := arrAt().Iter()
		vs := []interface{}{}
		for {
			t := it.Advance()
			if t == simdjson.TypeNone {
				break
			}
			v, err := it.Interface()
			if err != nil {
				return "ERR"
			}
			vs = append(vs, v)
		}
		var b strings.Builder
		dumpIface(&b, vs)
		return b.String()
	})
	if gotI != wantI {
		c.Violate("bulk", "Array.Interface differs from Interface() of each element", "c12-array-interface", info("Array.Interface", gotI, wantI))
	}
}

// numeric bulk accessors vs plain traversal with the typed accessor
func (c *Ctx) c12NumBulk(doc []byte, pj *simdjson.ParsedJson, p position) {
	arrAt := func() *simdjson.Array {
		it := iterAt(pj, p.K)
		a, _ := it.Array(nil)
		return a
	}
	trav := func(kind string) string {
		it := arrAt().Iter()
		var parts []string
		for {
			t := it.Advance()
			if t == simdjson.TypeNone {
				break
			}
			switch kind {
			case "float":
				v, err := it.Float()
				if err != nil {
					return "ERR"
				}
				parts = append(parts, fmt.Sprint(math.Float64bits(v)))
			case "int":
				v, err := it.Int()
				if err != nil {
					return "ERR"
				}
				parts = append(parts, fmt.Sprint(v))
			case "uint":
				v, err := it.Uint()
				if err != nil {
					return "ERR"
				}
				parts = append(parts, fmt.Sprint(v))
			}
		}
		return "ok " + strings.Join(parts, ",")
	}
	bulk := func(kind string) string {
		switch kind {
		case "float":
			v, err := arrAt().AsFloat()
			if err != nil {
				return "ERR"
			}
			parts := make([]string, len(v))
			for i, x := range v {
				parts[i] = fmt.Sprint(math.Float64bits(x))
			}
			return "ok " + strings.Join(parts, ",")
		case "int":
			v, err := arrAt().AsInteger()
			if err != nil {
				return "ERR"
			}
			parts := make([]string, len(v))
			for i, x := range v {
				parts[i] = fmt.Sprint(x)
			}
			return "ok " + strings.Join(parts, ",")
		default:
			v, err := arrAt().AsUint64()
			if err != nil {
				return "ERR"
			}
			parts := make([]string, len(v))
			for i, x := range v {
				parts[i] = fmt.Sprint(x)
			}
			return "ok " + strings.Join(parts, ",")
		}
	}
	for _, kind := range []string{"float", "int", "uint"} {
		k := kind
		got := safeStr(func() string { return bulk(k) })
		want := safeStr(func() string { return trav(k) })
		c.Ev.Count("bulk-vs-traversal", []byte(kind+fmt.Sprint(p.K)+string(doc)), true)
		if got != want {
			c.Violate("bulk", "bulk numeric accessor differs from plain traversal with the typed accessor", "c12-bulk-traversal",
				map[string]interface{}{"doc_hex": fmt.Sprintf("%x", doc), "doc_text": printable(doc), "query": "As" + kind + " at " + pathStr(p.Path), "bulk": trunc(got, 300), "traversal": trunc(want, 300), "tape": trunc(tapeHex(pj.Tape), 600)})
		}
	}
}

// bulkVsTraversal: every bulk accessor on (up to max) containers of the current
// tape — possibly edited, with NOP gaps — against plain traversal of the same tape
func (c *Ctx) bulkVsTraversal(pj *simdjson.ParsedJson, doc []byte, max int) {
	pos, err := flatPositions(pj, 5000)
	if err != nil {
		return
	}
	n := 0
	for _, p := range pos {
		if !p.IsValue || n >= max {
			continue
		}
		switch p.Tag {
		case simdjson.TagArrayStart:
			n++
			c.c12ArrayBulk(doc, pj, p)
			c.c12NumBulk(doc, pj, p)
		case simdjson.TagObjectStart:
			n++
			seen := map[string]bool{}
			dup := false
			for _, k := range p.Keys {
				if seen[k] {
					dup = true
				}
				seen[k] = true
			}
			c.c12ObjectBulk(doc, pj, p, dup)
		}
	}
}

// convJudgeAll: for (up to max) number positions of the current tape, the
// cross-type accessors Int/Uint/Float judged by exact arithmetic on the value
// the position's OWN accessor returns: convert exactly when the value lies in
// the target's range (truncating toward zero), error otherwise.
func (c *Ctx) convJudgeAll(pj *simdjson.ParsedJson, doc []byte, max int) {
	pos, err := flatPositions(pj, 5000)
	if err != nil {
		return
	}
	n := 0
	two63, two64 := math.Ldexp(1, 63), math.Ldexp(1, 64)
	for _, p := range pos {
		if !p.IsValue || n >= max {
			continue
		}
		if p.Tag != simdjson.TagInteger && p.Tag != simdjson.TagUint && p.Tag != simdjson.TagFloat {
			continue
		}
		n++
		it := iterAt(pj, p.K)
		iv, e1 := it.Int()
		uv, e2 := it.Uint()
		fv, e3 := it.Float()
		var wantI, wantU, wantF string
		switch p.Tag {
		case simdjson.TagInteger:
			if e1 != nil {
				continue
			}
			wantI = fmt.Sprint(iv)
			wantU = "ERR"
			if iv >= 0 {
				wantU = fmt.Sprint(uint64(iv))
			}
			wantF = fmt.Sprintf("%016x", math.Float64bits(float64(iv)))
		case simdjson.TagUint:
			if e2 != nil {
				continue
			}
			wantU = fmt.Sprint(uv)
			wantI = "ERR"
			if uv <= math.MaxInt64 {
				wantI = fmt.Sprint(int64(uv))
			}
			wantF = fmt.Sprintf("%016x", math.Float64bits(float64(uv)))
		default:
			if e3 != nil || math.IsNaN(fv) || math.IsInf(fv, 0) {
				continue
			}
			wantF = fmt.Sprintf("%016x", math.Float64bits(fv))
			wantI, wantU = "ERR", "ERR"
			if fv >= -two63 && fv < two63 {
				wantI = fmt.Sprint(int64(fv))
			}
			if fv >= 0 && fv < two64 {
				wantU = fmt.Sprint(uint64(fv))
			}
			if fv == 0 {
				wantU = "0" // -0.0 included
			}
		}
		show := func(v string, e error) string {
			if e != nil {
				return "ERR"
			}
			return v
		}
		gotI, gotU, gotF := show(fmt.Sprint(iv), e1), show(fmt.Sprint(uv), e2), show(fmt.Sprintf("%016x", math.Float64bits(fv)), e3)
		// StringCvt: the decimal text of the position's own value (integers exactly; floats as
		// the float printer prints them)
		{
			it2 := iterAt(pj, p.K)
			sc, e4 := it2.StringCvt()
			wantS := ""
			switch p.Tag {
			case simdjson.TagInteger:
				wantS = strconv.FormatInt(iv, 10)
			case simdjson.TagUint:
				wantS = strconv.FormatUint(uv, 10)
			default:
				if b, err := simdjson.VerifAppendFloat(nil, fv); err == nil {
					wantS = string(b)
				} else {
					wantS = sc
				}
			}
			if e4 != nil || sc != wantS {
				c.Violate("conversion", "StringCvt of a number position is not the decimal text of the position's own value", "c12-stringcvt-judge",
					map[string]interface{}{"doc_text": printable(doc), "position": pathStr(p.Path), "tag": string([]byte{byte(p.Tag)}), "got": sc, "want": wantS, "error": fmt.Sprint(e4)})
			}
		}
		c.Ev.Count("conv-judge", []byte(fmt.Sprint(p.K)+string(doc)), true)
		if gotI != wantI || gotU != wantU || gotF != wantF {
			c.Violate("conversion", "Int/Uint/Float of a number position: wrong range decision or value (judged by exact arithmetic on the position's own value)", "c12-conv-judge",
				map[string]interface{}{"doc_text": printable(doc), "position": pathStr(p.Path), "tag": string([]byte{byte(p.Tag)}),
					"got": fmt.Sprintf("int=%s uint=%s float=%s", gotI, gotU, gotF), "want": fmt.Sprintf("int=%s uint=%s float=%s", wantI, wantU, wantF)})
		}
	}
}

// numBoundary: number literals at the edges of int64 / uint64 / float64 conversions
var numBoundary = []string{"9223372036854775807", "9223372036854775808", "-9223372036854775808", "-9223372036854775809", "18446744073709551615", "18446744073709551616",
	"9223372036854775807.0", "9223372036854775808.0", "9223372036854774784.0", "9223372036854777856.0", "-9223372036854775808.0", "-9223372036854777856.0",
	"18446744073709551616.0", "18446744073709549568.0", "18446744073709555712.0", "9.3e18", "1e19", "1.8446744073709552e19", "0.5", "-0.5", "-0.0", "0.0", "-1", "1", "0",
	"1e300", "-1e300", "4.9e-324", "0.9999999999999999", "-0.9999999999999999", "-1.0", "4503599627370496.5", "123.999", "-123.999", "2.5", "1e18", "123456789012345678"}
