package main

import (
	"sync/atomic"
	"sync"
	"errors"
	"fmt"
	"math"
	"strings"

	simdjson "github.com/minio/simdjson-go"
)

// ParseOut is the projected observable of one Parse/ParseND call.
type ParseOut struct {
	Err     bool
	Panic   string
	PJ      *simdjson.ParsedJson
	Tape    []uint64
	Strings []byte
}

func implParse(doc []byte, nd, copyStrings bool, reuse *simdjson.ParsedJson) (out ParseOut) {
	defer func() {
		if r := recover(); r != nil {
			out = ParseOut{Err: true, Panic: fmt.Sprint(r)}
		}
	}()
	var pj *simdjson.ParsedJson
	var err error
	if nd {
		pj, err = simdjson.ParseND(doc, reuse, simdjson.WithCopyStrings(copyStrings))
	} else {
		pj, err = simdjson.Parse(doc, reuse, simdjson.WithCopyStrings(copyStrings))
	}
	if err != nil {
		return ParseOut{Err: true}
	}
	return ParseOut{PJ: pj, Tape: pj.Tape, Strings: pj.Strings.B}
}

// implParseOpts calls Parse/ParseND with an explicit option list (options apply in order).
func implParseOpts(doc []byte, nd bool, reuse *simdjson.ParsedJson, opts ...simdjson.ParserOption) (out ParseOut) {
	defer func() {
		if r := recover(); r != nil {
			out = ParseOut{Err: true, Panic: fmt.Sprint(r)}
		}
	}()
	var pj *simdjson.ParsedJson
	var err error
	if nd {
		pj, err = simdjson.ParseND(doc, reuse, opts...)
	} else {
		pj, err = simdjson.Parse(doc, reuse, opts...)
	}
	if err != nil {
		return ParseOut{Err: true}
	}
	return ParseOut{PJ: pj, Tape: pj.Tape, Strings: pj.Strings.B}
}

// implParseDefault calls Parse/ParseND without any option (string copying is
// the documented default).
func implParseDefault(doc []byte, nd bool, reuse *simdjson.ParsedJson) (out ParseOut) {
	defer func() {
		if r := recover(); r != nil {
			out = ParseOut{Err: true, Panic: fmt.Sprint(r)}
		}
	}()
	var pj *simdjson.ParsedJson
	var err error
	if nd {
		pj, err = simdjson.ParseND(doc, reuse)
	} else {
		pj, err = simdjson.Parse(doc, reuse)
	}
	if err != nil {
		return ParseOut{Err: true}
	}
	return ParseOut{PJ: pj, Tape: pj.Tape, Strings: pj.Strings.B}
}

func tapeHex(t []uint64) string {
	if len(t) == 0 {
		return "-"
	}
	var b strings.Builder
	for _, w := range t {
		fmt.Fprintf(&b, "%016x", w)
	}
	return b.String()
}

// ---- canonical dump through the iterator API (matches Coq's show_docs) ----

func dumpNum(b *strings.Builder, i *simdjson.Iter) error {
	switch i.Type() {
	case simdjson.TypeInt:
		v, err := i.Int()
		if err != nil {
			return err
		}
		fmt.Fprintf(b, "i%d;", v)
	case simdjson.TypeUint:
		v, err := i.Uint()
		if err != nil {
			return err
		}
		fmt.Fprintf(b, "u%d;", v)
	case simdjson.TypeFloat:
		v, fl, err := i.FloatFlags()
		if err != nil {
			return err
		}
		fmt.Fprintf(b, "d%016x:%d;", math.Float64bits(v), uint64(fl))
	}
	return nil
}

// dumpValue prints the value the iterator is positioned on (after Advance).
// dumpDsts: destination Objects and Arrays that every dump re-uses, one per nesting level and
// kept across documents (through a pool, so that concurrent dumps never share one): what
// Iter.Object(dst) / Iter.Array(dst) return must not depend on what dst held before — another
// document's tape, message and string buffer.
type dumpDsts struct {
	objs [48]simdjson.Object
	arrs [48]simdjson.Array
}

func (d *dumpDsts) obj(depth int) *simdjson.Object {
	if d == nil || depth >= len(d.objs) {
		return nil
	}
	return &d.objs[depth]
}
func (d *dumpDsts) arr(depth int) *simdjson.Array {
	if d == nil || depth >= len(d.arrs) {
		return nil
	}
	return &d.arrs[depth]
}

var dumpDstPool = sync.Pool{New: func() interface{} { return &dumpDsts{} }}

var dumpCalls uint64

func dumpValue(b *strings.Builder, i *simdjson.Iter, depth int) error {
	// one dump in four passes nil destinations (the allocating path of Object()/Array())
	if atomic.AddUint64(&dumpCalls, 1)%4 == 0 {
		return dumpValueD(b, i, depth, nil)
	}
	ds := dumpDstPool.Get().(*dumpDsts)
	defer dumpDstPool.Put(ds)
	return dumpValueD(b, i, depth, ds)
}

func dumpValueD(b *strings.Builder, i *simdjson.Iter, depth int, ds *dumpDsts) error {
	if depth > 100000 {
		return errors.New("too deep")
	}
	switch i.Type() {
	case simdjson.TypeNull:
		b.WriteByte('n')
	case simdjson.TypeBool:
		v, err := i.Bool()
		if err != nil {
			return err
		}
		if v {
			b.WriteByte('t')
		} else {
			b.WriteByte('f')
		}
	case simdjson.TypeInt, simdjson.TypeUint, simdjson.TypeFloat:
		return dumpNum(b, i)
	case simdjson.TypeString:
		s, err := i.StringBytes()
		if err != nil {
			return err
		}
		fmt.Fprintf(b, "s%x;", s)
	case simdjson.TypeArray:
		arr, err := i.Array(ds.arr(depth))
		if err != nil {
			return err
		}
		b.WriteByte('[')
		it := arr.Iter()
		for {
			t := it.Advance()
			if t == simdjson.TypeNone {
				break
			}
			if err := dumpValueD(b, &it, depth+1, ds); err != nil {
				return err
			}
		}
		b.WriteByte(']')
	case simdjson.TypeObject:
		obj, err := i.Object(ds.obj(depth))
		if err != nil {
			return err
		}
		b.WriteByte('{')
		var el simdjson.Iter
		for {
			name, t, err := obj.NextElementBytes(&el)
			if err != nil {
				return err
			}
			if t == simdjson.TypeNone {
				break
			}
			fmt.Fprintf(b, "k%x;", name)
			if err := dumpValueD(b, &el, depth+1, ds); err != nil {
				return err
			}
		}
		b.WriteByte('}')
	default:
		return fmt.Errorf("unexpected type %v", i.Type())
	}
	return nil
}

// dumpDoc walks all roots: Advance on the top iterator, Root(), then the value.
func dumpDoc(pj *simdjson.ParsedJson) (s string, err error) {
	defer func() {
		if r := recover(); r != nil {
			err = fmt.Errorf("panic: %v", r)
		}
	}()
	var b strings.Builder
	it := pj.Iter()
	for {
		t := it.Advance()
		if t == simdjson.TypeNone {
			break
		}
		if t != simdjson.TypeRoot {
			return "", fmt.Errorf("top-level type %v", t)
		}
		var tmp simdjson.Iter
		_, r, err := it.Root(&tmp)
		if err != nil {
			return "", err
		}
		if err := dumpValue(&b, r, 0); err != nil {
			return "", err
		}
		b.WriteByte('|')
	}
	return b.String(), nil
}


func setKernel(avx512 bool) { simdjson.VerifSetAVX512(avx512) }
