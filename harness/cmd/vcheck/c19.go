package main

import (
	"bytes"
	"encoding/binary"
	"encoding/hex"
	"os"
	"os/exec"
	"fmt"
	"strings"
	"time"

	simdjson "github.com/minio/simdjson-go"
)

func init() { checks["C19"] = checkC19 }

const maxDeclaredSize = 4 << 20

// declaredTooBig pre-parses the framing like Deserialize does and says whether
// any declared size exceeds 4 MiB ("small enough to allocate" in the property).
func declaredTooBig(b []byte) bool {
	f, _ := parseBlob(b)
	if f == nil {
		return false
	}
	return f.maxDeclared() > maxDeclaredSize
}

func (c *Ctx) tryBlob(stream string, blob []byte, model bool, reqs *[]string, pends *[]func(ans string)) {
	if c.Aborted {
		return
	}
	if declaredTooBig(blob) {
		c.Ev.Dist("skipped:declared>4MiB")
		return
	}
	s := simdjson.NewSerializer()
	var pj *simdjson.ParsedJson
	var err error
	var pan string
	ok := withDeadline(120*time.Second, func() { pj, err, pan = safeDeserialize(s, blob, nil) })
	info := map[string]interface{}{"blob_hex": fmt.Sprintf("%x", trunc(string(blob), 3000)), "stream": stream, "blob_len": len(blob)}
	c.Ev.Count(stream, blob, true)
	if !ok {
		c.Violate("hang", "Deserialize did not return within 120 s", "deser-hang", info)
		c.Aborted = true
		return
	}
	if pan != "" {
		info["panic"] = pan
		c.Violate("panic", "Deserialize panicked: "+pan, "deser-panic", info)
		return
	}
	if err == nil && pj != nil {
		c.Ev.Dist("deser:ok")
		var rp string
		okr := withDeadline(120*time.Second, func() { rp = exerciseReads(pj, 80, len(pj.Tape) < 20000) })
		if !okr {
			c.Violate("hang", "a read method did not return within 120 s on a deserialized result", "deser-read-hang", info)
			c.Aborted = true
			return
		}
		if rp != "" {
			info["panic"] = rp
			c.Violate("panic", "read API panicked on a deserialized result: "+rp, "deser-read-panic", info)
			return
		}
	} else {
		c.Ev.Dist("deser:err")
	}
	if model && len(blob) < 20000 {
		impl := "err"
		if err == nil && pj != nil {
			impl = "ok " + tapeHex(pj.Tape) + " " + hexOrDash(pj.Strings.B) + " " + hexOrDash(pj.Message)
		}
		*reqs = append(*reqs, "deser "+hexOrDash(blob))
		*pends = append(*pends, func(ans string) {
			if ans == "needscodec" || ans == "toobig" {
				return
			}
			if ans == "crash" || ans == "fuel" {
				info["model"] = ans
				c.Violate("model", "the Deserialize model reaches a Crash outcome on this blob (theorem C19_deser_no_crash would be false)", "deser-model-crash", info)
				return
			}
			if ans != impl {
				c.Ev.Coverage.ModelDisagreements++
				info["model"], info["impl"] = trunc(ans, 500), trunc(impl, 500)
				if len(c.Viol) < 5 {
					c.writeReplay("correspondence", "Deserialize on this blob differs from the model (no panic observed)", "correspondence deser_blob ~ Serializer.Deserialize", info, true)
				}
			}
		})
	}
}

// probeInChild deserializes and exercises a blob in a child process, so that
// an unrecoverable failure (fatal stack overflow) becomes a reported violation
// instead of killing the harness.
func (c *Ctx) probeInChild(stream string, blob []byte) bool {
	if c.Aborted {
		return false
	}
	exe, err := os.Executable()
	if err != nil {
		return true
	}
	cmd := exec.Command(exe, "c19probe", fmt.Sprintf("%x", blob))
	var out bytes.Buffer
	cmd.Stdout = &out
	cmd.Stderr = &out
	done := make(chan error, 1)
	go func() { done <- cmd.Run() }()
	info := map[string]interface{}{"blob_hex": fmt.Sprintf("%x", blob), "stream": stream}
	select {
	case err = <-done:
	case <-time.After(180 * time.Second):
		cmd.Process.Kill()
		c.Violate("hang", "Deserialize + read API did not finish within 180 s (child process)", "deser-child-hang", info)
		c.Aborted = true
		return false
	}
	if err != nil {
		info["output"] = trunc(out.String(), 400)
		c.Violate("fatal", "Deserialize + read API killed the process (child process)", "deser-child-fatal", info)
		return false
	}
	return true
}

func init() {
	if len(os.Args) >= 3 && os.Args[1] == "c19probe" {
		blob, _ := hex.DecodeString(os.Args[2])
		s := simdjson.NewSerializer()
		pj, err, pan := safeDeserialize(s, blob, nil)
		if pan != "" {
			fmt.Println("panic", pan)
			os.Exit(3)
		}
		if err == nil && pj != nil {
			if rp := exerciseReads(pj, 80, true); rp != "" {
				fmt.Println("read panic", rp)
				os.Exit(3)
			}
		}
		os.Exit(0)
	}
}

func checkC19(c *Ctx) {
	r := c.Rng
	c.Ev.Coverage.Rule = "Deserialize under recover and a deadline, then every read method on each returned result; blobs whose declared section sizes exceed 4 MiB are skipped (the property's 'small enough to allocate'). Streams: structure-aware mutation of valid blobs in all four modes (the framing is parsed, then tag bytes — each position x the 15 meaningful tags and others —, value words (0, +-1, -off, > len, random), declared sizes and block types are changed inside the sections and the blob is re-framed uncompressed); an open tag (r/{/[) put into each one-word value slot pointing at every position up to just past itself; every size varint of the frame (total, tape size, declared and block size of each section) replaced by boundary values up to 2^64-1 and by an overlong varint; exhaustive tag strings up to length 4 (5 thorough) over the tag alphabet with tape sizes 0..6 and zero/one/max value words; truncation at every length; byte mutations and splices of compressed blobs; random bytes. Uncompressed blobs are also run through the Coq model of the framing and reconstruction (same verdict, same tape; never Crash). non-trivial = blob that passes the framing; distinct = by blob bytes"
	var reqs []string
	var pends []func(string)
	// seeds
	type seed struct {
		blob []byte
		fr   *blobFrame
		tags []byte
		vals []byte
		msg  []byte
	}
	var seeds []seed
	for i := 0; i < c.N(40, 300); i++ {
		pj, _ := c.randomTape(r, 0)
		if pj == nil || len(pj.Tape) > 400 {
			continue
		}
		for _, m := range compModes {
			s := simdjson.NewSerializer()
			s.CompressMode(m)
			blob, pan := safeSerialize(s, pj)
			if pan != "" {
				continue
			}
			fr, err := parseBlob(blob)
			if err != nil {
				continue
			}
			tg, e1 := fr.Tags.decode()
			vl, e2 := fr.Vals.decode()
			ms, e3 := fr.Msg.decode()
			if e1 != nil || e2 != nil || e3 != nil {
				continue
			}
			seeds = append(seeds, seed{blob, fr, tg, vl, ms})
		}
	}
	tagAlphabet := []byte{'"', 'l', 'u', 'd', 'e', 'n', 't', 'f', '{', '}', '[', ']', 'r', 'N', 0}
	rebuild := func(ts uint64, tags, vals, msg []byte) []byte {
		f := &blobFrame{Version: 3, Ts: ts, Msg: rawSection(msg), Tags: rawSection(tags), Vals: rawSection(vals)}
		return f.build()
	}
	for si, sd := range seeds {
		nmut := c.N(40, 300)
		for k := 0; k < nmut; k++ {
			tags := append([]byte{}, sd.tags...)
			vals := append([]byte{}, sd.vals...)
			ts := sd.fr.Ts
			switch r.Intn(7) {
			case 0: // tag substitution
				if len(tags) > 0 {
					p := r.Intn(len(tags))
					if r.Chance(4, 5) {
						tags[p] = tagAlphabet[r.Intn(len(tagAlphabet))]
					} else {
						tags[p] = byte(r.Intn(256))
					}
				}
			case 1: // value word mutation
				if len(vals) >= 8 {
					p := r.Intn(len(vals)/8) * 8
					choices := []uint64{0, 1, uint64(r.Intn(len(tags) + 2)), uint64(r.Intn(len(tags) + 2)), ^uint64(0), ^uint64(0) - 1, uint64(len(tags)), ts, ts + 1, uint64(-int64(p / 8)), 1 << 55, 1 << 56, 1 << 63, r.U64(),
						uint64(tagAlphabet[r.Intn(len(tagAlphabet))])<<56 | uint64(r.Intn(4)), uint64('N')<<56, uint64('N')<<56 | 1}
					binary.LittleEndian.PutUint64(vals[p:], choices[r.Intn(len(choices))])
				}
			case 2: // tape size
				ts = []uint64{0, 1, ts - 1, ts + 1, ts * 2, 2}[r.Intn(6)]
			case 3: // drop or duplicate a tag
				if len(tags) > 0 {
					p := r.Intn(len(tags))
					if r.Bool() {
						tags = append(tags[:p], tags[p+1:]...)
					} else {
						tags = append(tags[:p+1], tags[p:]...)
					}
				}
			case 4: // truncate values / add partial word
				if len(vals) > 0 {
					vals = vals[:r.Intn(len(vals))]
				}
			case 5: // append tags
				for j := 0; j < 1+r.Intn(3); j++ {
					tags = append(tags, tagAlphabet[r.Intn(len(tagAlphabet))])
				}
			default: // NOP runs
				for j := 0; j < 1+r.Intn(4); j++ {
					if len(tags) > 0 {
						tags[r.Intn(len(tags))] = 'N'
					}
				}
			}
			c.tryBlob("structured", rebuild(ts, tags, vals, sd.msg), true, &reqs, &pends)
		}
		// an open tag (root / object / array start) in a value slot pointing at every tape position
		// up to just past itself — backwards onto its own key, onto itself, onto an enclosing
		// start (the blob stores the distance, so backwards = a "negative" value word)
		if len(sd.tags) <= 48 && si < 60 {
			vi, tp := 0, 0 // index of the tag's first value word; its tape position
			for p, t := range sd.tags {
				nv, nw := 0, 1
				switch t {
				case '"', 'e':
					nv, nw = 2, 2
				case 'l', 'u', 'd':
					nv, nw = 1, 2
				case '{', '[', 'r':
					nv = 1
				}
				if nv == 1 && nw == 2 && p > 0 && 8*(vi+1) <= len(sd.vals) {
					// a number (two tape words, one value word) becomes the open tag followed by a
					// null, so that every other offset of the blob stays consistent
					for _, nt := range []byte{'r', '{', '['} {
						for tgt := 0; tgt <= tp+2; tgt++ {
							tags := append(append(append([]byte{}, sd.tags[:p]...), nt, 'n'), sd.tags[p+1:]...)
							vals := append([]byte{}, sd.vals...)
							binary.LittleEndian.PutUint64(vals[8*vi:], uint64(int64(tgt)-int64(tp)))
							c.tryBlob("backward-open-tag", rebuild(sd.fr.Ts, tags, vals, sd.msg), true, &reqs, &pends)
						}
					}
				}
				vi += nv
				tp += nw
			}
		}
		// framing: every size varint of the frame (total, tape size, declared and block sizes of the four
		// sections) replaced by boundary values, including 10-byte varints >= 2^63 and an overlong varint
		for idx := 0; idx < 10; idx++ {
			orig := sd.fr.field(idx)
			for _, v := range []uint64{0, 1, orig - 1, orig + 1, 0x7f, 0x80, 1 << 31, 1 << 32, 1 << 62, 1 << 63, 1<<63 + orig, ^uint64(0) - orig, ^uint64(0)} {
				c.tryBlob("framing", sd.fr.buildWith(idx, v, false), int(sd.fr.Tags.Typ)|int(sd.fr.Vals.Typ)|int(sd.fr.Msg.Typ)|int(sd.fr.Strings.Typ) == 0, &reqs, &pends)
			}
			c.tryBlob("framing", sd.fr.buildWith(idx, 0, true), false, &reqs, &pends)
		}
		// truncation at every length, byte flips, splices on the original blob (any mode)
		if si%3 == 0 {
			for cut := 0; cut < len(sd.blob); cut++ {
				c.tryBlob("truncate", sd.blob[:cut], int(sd.fr.Tags.Typ)|int(sd.fr.Vals.Typ)|int(sd.fr.Msg.Typ) == 0, &reqs, &pends)
			}
		}
		for k := 0; k < c.N(30, 300); k++ {
			b := append([]byte{}, sd.blob...)
			for j := 0; j < 1+r.Intn(3); j++ {
				p := r.Intn(len(b))
				if r.Bool() {
					b[p] ^= 1 << uint(r.Intn(8))
				} else {
					b[p] = byte(r.Intn(256))
				}
			}
			c.tryBlob("bitflip", b, true, &reqs, &pends)
		}
		if len(seeds) > 1 {
			o := seeds[r.Intn(len(seeds))].blob
			a, b := r.Intn(len(sd.blob)), r.Intn(len(o))
			c.tryBlob("splice", append(append([]byte{}, sd.blob[:a]...), o[b:]...), true, &reqs, &pends)
		}
	}
	// exhaustive small scope
	maxL := c.N(4, 5)
	var rec func(tags []byte)
	rec = func(tags []byte) {
		if len(tags) > 0 {
			for ts := uint64(0); ts <= 6; ts++ {
				if int(ts) < len(tags)-1 || int(ts) > 2*len(tags) {
					continue
				}
				for rep := 0; rep < 3; rep++ {
					// as many value words as the tags need (sometimes one more or fewer),
					// drawn from small offsets, their negatives and extremes
					need := 0
					for _, t := range tags {
						switch t {
						case '"', 'e':
							need += 2
						case 'l', 'u', 'd', '{', '[', 'r':
							need++
						}
					}
					nv := need
					if rep == 2 {
						nv = r.Intn(need + 2)
					}
					var vals []byte
					for j := 0; j < nv; j++ {
						var v uint64
						switch r.Intn(5) {
						case 0, 1, 2:
							v = uint64(r.Intn(8))
						case 3:
							v = ^uint64(0) - uint64(r.Intn(6))
						default:
							v = []uint64{1 << 55, 1 << 56, uint64('d') << 56, uint64('N') << 56, 1 << 63}[r.Intn(5)]
						}
						var t8 [8]byte
						binary.LittleEndian.PutUint64(t8[:], v)
						vals = append(vals, t8[:]...)
					}
					c.tryBlob("exhaustive-tags", rebuild(ts, tags, vals, []byte("abc")), true, &reqs, &pends)
				}
			}
		}
		if len(tags) == maxL {
			return
		}
		for _, t := range tagAlphabet {
			rec(append(append([]byte{}, tags...), t))
		}
	}
	rec(nil)
	// hand-built regressions of the three F9 shapes and the injected-word shape
	c.tryBlob("regress", rebuild(1, []byte{'l'}, make([]byte, 8), nil), true, &reqs, &pends)
	c.tryBlob("regress", rebuild(1, []byte{'N', 'N', 'N'}, nil, nil), true, &reqs, &pends)
	c.tryBlob("regress", rebuild(4, []byte{'n', '{'}, []byte{255, 255, 255, 255, 255, 255, 255, 255}, nil), true, &reqs, &pends)
	nopInject := make([]byte, 16)
	binary.LittleEndian.PutUint64(nopInject, uint64('N')<<56)
	// [ d n : the number's payload word overwrites the array's closing tag
	{
		var v [16]byte
		binary.LittleEndian.PutUint64(v[:8], 3)
		binary.LittleEndian.PutUint64(v[8:], 0x4000000000000000)
		c.tryBlob("regress-overwritten-close", rebuild(4, []byte{'[', 'd', 'n'}, v[:], nil), true, &reqs, &pends)
		c.tryBlob("regress-overwritten-close", rebuild(4, []byte{'{', '"', 'n'}, append(v[:8:8], append(make([]byte, 8), make([]byte, 8)...)...), []byte("abc")), true, &reqs, &pends)
	}
	le := func(vs ...uint64) []byte {
		var b []byte
		for _, v := range vs {
			var t [8]byte
			binary.LittleEndian.PutUint64(t[:], v)
			b = append(b, t[:]...)
		}
		return b
	}
	// r { e } r  where the 'e' (float with flags) words are an arbitrary tape word: NOP|0 in key position
	inject := func(b []byte) {
		if c.probeInChild("regress-inject", b) {
			c.tryBlob("regress-inject", b, true, &reqs, &pends)
		}
	}
	inject(rebuild(6, []byte{'r', '{', 'e', '}', 'r'}, le(6, 4, uint64('N')<<56, 0, ^uint64(0)-4), nil))
	// the blobs found while proving API totality (F17/F18): a string whose OFFSET word
	// carries tag bits (turning the entry into null, so that its length word N|0 is read
	// as an entry in key position), and a nested root whose jump lands on a number's
	// payload word N|0
	for _, hx := range []string{
		"03520900000000070800727b225b227d7240410009000000000000000700000000000000000000000000000000000000000000000200000000000000000000000000006e000000000000004ef8ffffffffffffff",
		"034a0900000000070800727b2272757d7238390009000000000000000700000000000000000000000000000000000000000000000200000000000000000000000000004ef8ffffffffffffff",
		"032f0500000000040500725b647220210005000000000000000200000000000000000000000000f03ffcffffffffffffff",
		"03290600000000060700725b6e6e5d7218190004000000000000000400000000000000fbffffffffffffff",
		"03400700000000050600727b22757230310007000000000000000400000000000000000000000000000000000000000000000700000000000000faffffffffffffff",
	} {
		if b, err := hex.DecodeString(hx); err == nil {
			inject(b)
		}
	}
	// F19: a member whose value slot holds a root tag pointing back at the member's key
	// (Object.Parse / Map / ForEach used to step back onto the key for ever)
	if b, err := hex.DecodeString("035f0c00000203006162090a00727b227200226c7d724849000c000000000000000a0000000000000000000000000000000100000000000000feffffffffffffff010000000000000001000000000000000300000000000000f5ffffffffffffff"); err == nil {
		c.tryBlob("regress-F19", b, true, &reqs, &pends)
	}
	// the family around them: a string entry (as key and as value) whose offset / length
	// words are tag-shaped, for every pair of tags
	for _, t1 := range tagAlphabet {
		for _, t2 := range tagAlphabet {
			for _, k := range []uint64{0, 1} {
				w1, w2 := uint64(t1)<<56, uint64(t2)<<56|k
				inject(rebuild(9, []byte{'r', '{', '"', '[', '"', '}', 'r'}, le(9, 7, 0, 0, 2, w1, w2, ^uint64(0)-7), []byte("ab")))
				if k == 0 {
					inject(rebuild(8, []byte{'r', '{', '"', 'r', 'u', '}', 'r'}, le(8, 6, 0, 1, 2, w2, ^uint64(0)-6), []byte("ab")))
				}
			}
		}
	}
	// the same with an object-start word pointing backwards, a root word, a string word
	for _, w := range []uint64{uint64('{')<<56 | 1, uint64('[')<<56 | 0, uint64('r')<<56 | 0, uint64('"')<<56 | 1<<55, uint64('N')<<56 | 1, uint64('N')<<56 | 1<<40} {
		inject(rebuild(6, []byte{'r', '[', 'e', ']', 'r'}, le(6, 4, w, ^uint64(0), ^uint64(0)-4), nil))
		inject(rebuild(6, []byte{'r', '{', 'e', '}', 'r'}, le(6, 4, w, 3, ^uint64(0)-4), nil))
	}
	for i := 0; i < c.N(3000, 60000); i++ {
		n := r.Intn(60)
		b := make([]byte, n)
		for j := range b {
			b[j] = byte(r.Intn(256))
		}
		if n > 0 && r.Chance(3, 4) {
			b[0] = byte(r.Intn(4))
		}
		c.tryBlob("random", b, true, &reqs, &pends)
	}
	ans := c.Or.Ask(reqs)
	for i, a := range ans {
		pends[i](a)
	}
	_ = strings.Repeat
}
