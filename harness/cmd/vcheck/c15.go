package main

import (
	"bytes"
	"fmt"
	"strings"
	"time"

	simdjson "github.com/minio/simdjson-go"
)

func init() { checks["C15"] = checkC15 }

func checkC15(c *Ctx) {
	r := c.Rng
	c.Ev.Coverage.Rule = "histories of 2..30 calls sharing one reused ParsedJson (kept across failures: the object handed in is reused again after a failed call), one Serializer switching modes (and, in a separate stream, one Serializer fed 120 k string pairs whose second document's strings are prefixes of what the first call left in its string buffer) and one Deserialize destination (also fed damaged blobs — a block of size 0 for a non-empty section, changed declared sizes, emptied sections, byte damage — whose verdict and document must be those a fresh Serializer and destination give) (the blob, taken after the in-place edits so that it carries deleted runs, is also deserialized into a fresh destination: same tape word for word, same strings, same re-serialization): Parse/ParseND of valid documents, stage-1 failures (unterminated string, control character, no closing bracket) and stage-2 failures, below and above the 8 KiB threshold (also failing in a late index buffer, and at the very start of a dense <= 8 KiB document with several index buffers queued); half of the histories use by-value handles, both string modes, in-place edits of the returned object in between; every call's outcome and canonical document are compared with the same call on fresh objects; the index channel of the reused state must be empty after every call. non-trivial = history with at least one failure followed by a success on the reused object; distinct = by call sequence"
	mkDoc := func() (doc []byte, nd bool, kind string) {
		size := r.Intn(4)
		var base string
		switch size {
		case 0, 1:
			base = string(genDoc(r, smallOpts(r)))
		case 2:
			base = string(bigDoc(r, 1+r.Intn(3), 0))
		default:
			base = string(bigDoc(r, 16+r.Intn(6), 0))
		}
		switch r.Intn(9) {
		case 8: // stage-2 failure at the very start of a dense document that stays on the
			// synchronous path (<= 8 KiB): stage 1 has queued several index buffers by then
			n := 1000 + r.Intn(1600)
			return []byte("[tru" + strings.Repeat(",[]", n) + "]"), false, "stage2-early-dense-sync"
		case 0: // stage-2 failure early
			return []byte("[1,," + base + "]"), false, "stage2-early"
		case 1: // stage-2 failure late
			return []byte("[" + base + ",tru]"), false, "stage2-late"
		case 2: // stage-1 failure: control character in a late string
			return []byte("[" + base + ",\"a\x01b\"]"), false, "stage1-ctl"
		case 3: // stage-1 failure: unterminated
			return []byte("[" + base + ",\"open"), false, "stage1-unterminated"
		case 4:
			return []byte("[" + base), false, "stage1-noclose"
		case 5:
			var sb strings.Builder
			for l := 0; l < 1+r.Intn(4); l++ {
				sb.Write(genDoc(r, &GenOpts{MaxDepth: 3, MaxFan: 3, TopFan: 4}))
				sb.WriteString("\n")
			}
			return []byte(sb.String()), true, "nd-valid"
		default:
			return []byte(base), false, "valid"
		}
	}
	nh := c.N(400, 6000)
	for h := 0; h < nh; h++ {
		var reuse *simdjson.ParsedJson
		ser := simdjson.NewSerializer()
		var dst *simdjson.ParsedJson
		var calls []string
		sawFailThenOK := false
		lastFailed := false
		ncalls := 2 + r.Intn(29)
		// half of the histories hand in a by-value copy of the last result (h := *pj; Parse(b, &h)):
		// such a handle keeps the parser's internal state across FAILED calls too, which plain
		// pointer chaining (pj, err = Parse(b, pj)) never does
		byValue := h%2 == 1
		for k := 0; k < ncalls; k++ {
			doc, nd, kind := mkDoc()
			cp := r.Bool()
			setKernel(hwAVX512 && r.Bool())
			calls = append(calls, fmt.Sprintf("%s(len=%d,copy=%v,nd=%v,byvalue-handle=%v)", kind, len(doc), cp, nd, byValue))
			var got, want ParseOut
			// one call in three passes no option at all: the documented default
			// (copy strings) must apply whatever the reused object was used for before
			noOpt := r.Chance(1, 3)
			if noOpt {
				cp = true
				calls[len(calls)-1] += "[no-option]"
			}
			ok := withDeadline(120*time.Second, func() {
				if noOpt {
					got = implParseDefault(doc, nd, reuse)
				} else {
					got = implParse(doc, nd, cp, reuse)
				}
			})
			info := map[string]interface{}{"history": strings.Join(calls, " ; "), "doc_hex": fmt.Sprintf("%x", trunc(string(doc), 2000)), "doc_len": len(doc)}
			if !ok {
				c.Violate("hang", "Parse with a reused object did not return within 120 s", "reuse-hang", info)
				return
			}
			want = implParse(doc, nd, cp, nil)
			if got.Panic != "" {
				info["panic"] = got.Panic
				c.Violate("panic", "Parse with a reused object panicked", "reuse-panic", info)
				break
			}
			if got.Err != want.Err {
				info["reused_err"], info["fresh_err"] = got.Err, want.Err
				c.Violate("reuse", "outcome with a reused ParsedJson differs from the outcome without reuse", "reuse-outcome", info)
				break
			}
			if !got.Err {
				if lastFailed {
					sawFailThenOK = true
				}
				lastFailed = false
				a, e1 := dumpDoc(got.PJ)
				b, e2 := dumpDoc(want.PJ)
				if !eqU64(got.Tape, want.Tape) || string(got.Strings) != string(want.Strings) {
					info["reused_tape"], info["fresh_tape"] = trunc(tapeHex(got.Tape), 400), trunc(tapeHex(want.Tape), 400)
					c.Violate("reuse", "tape or string buffer produced with a reused ParsedJson differs from a fresh parse", "reuse-tape", info)
					break
				}
				if e1 != nil || e2 != nil || a != b {
					info["reused"], info["fresh"] = trunc(a, 300), trunc(b, 300)
					c.Violate("reuse", "document parsed into a reused ParsedJson differs from a fresh parse", "reuse-doc", info)
					break
				}
				if _, n, has := simdjson.VerifChanState(got.PJ); has && n != 0 {
					info["chan_len"] = n
					c.Violate("reuse", "index channel not empty after a successful call", "reuse-chan", info)
					break
				}
				reuse = got.PJ
				if byValue {
					hv := *got.PJ
					reuse = &hv
				}
				// in-place edits on the object that will be reused
				if r.Chance(1, 3) {
					hh := &history{doc: doc, pj: got.PJ}
					for e := 0; e < 1+r.Intn(3); e++ {
						if op := c.pickEdit(r, hh, r.Bool()); op != nil {
							it := editIter(hh.pj, op.K, op.Path, r)
							safeApply(op, &it)
						}
					}
				}
				// serializer / destination reuse
				if r.Chance(1, 2) {
					m := compModes[r.Intn(4)]
					ser.CompressMode(m)
					blob, pan := safeSerialize(ser, got.PJ)
					if pan == "" {
						ser.CompressMode(compModes[r.Intn(4)])
						pj2, err, pan2 := safeDeserialize(ser, blob, dst)
						if pan2 != "" || err != nil {
							info["error"] = fmt.Sprint(err, pan2)
							c.Violate("reuse", "Serialize/Deserialize with a reused Serializer and destination failed", "reuse-ser", info)
							break
						}
						// the same blob into a fresh destination: same tape word for word (the words
						// inside deleted runs included), same strings, and it serializes the same
						fresh, errF, panF := safeDeserialize(simdjson.NewSerializer(), blob, nil)
						if errF == nil && panF == "" {
							if !eqU64(pj2.Tape, fresh.Tape) || string(pj2.Strings.B) != string(fresh.Strings.B) {
								info["reused_tape"], info["fresh_tape"] = trunc(tapeHex(pj2.Tape), 600), trunc(tapeHex(fresh.Tape), 600)
								c.Violate("reuse", "Deserialize into a reused destination leaves a tape or string buffer that differs from Deserialize into a fresh one", "reuse-deser-tape", info)
								break
							}
							s1, s2 := simdjson.NewSerializer(), simdjson.NewSerializer()
							s1.CompressMode(simdjson.CompressNone)
							s2.CompressMode(simdjson.CompressNone)
							b1, p1 := safeSerialize(s1, pj2)
							b2, p2 := safeSerialize(s2, fresh)
							if p1 != p2 || !bytes.Equal(b1, b2) {
								c.Violate("reuse", "a result deserialized into a reused destination serializes differently from the same blob deserialized into a fresh one", "reuse-deser-reser", info)
								break
							}
						}
						a, _ = dumpDoc(got.PJ) // after the edits, if any
						d2, e3 := dumpDoc(pj2)
						if e3 != nil || d2 != a {
							info["deser"], info["want"] = trunc(d2, 300), trunc(a, 300)
							c.Violate("reuse", "Deserialize into a reused destination yields a different document", "reuse-deser-doc", info)
							break
						}
						dst = pj2
					}
				}
			} else {
				lastFailed = true
				if reuse != nil {
					if _, n, has := simdjson.VerifChanState(reuse); has && n != 0 {
						info["chan_len"] = n
						c.Violate("reuse", "index channel of the reused state not empty after a failed call", "reuse-chan-fail", info)
						break
					}
				}
			}
		}
		c.Ev.Count("history", []byte(strings.Join(calls, ";")+fmt.Sprint(h)), sawFailThenOK)
		c.Ev.Dist(fmt.Sprintf("calls:%d", len(calls)/10*10))
		if h%53 == 0 {
			c.Ev.Sample(map[string]interface{}{"calls": calls})
		}
	}
	// damaged blobs: Deserialize with a Serializer and a destination that were used before must
	// give what a fresh Serializer and a fresh destination give — the same verdict, and on
	// success the same document (a block that is skipped or cut short must not let the previous
	// call's bytes through)
	{
		ser := simdjson.NewSerializer()
		var dst *simdjson.ParsedJson
		for i := 0; i < c.N(300, 3000); i++ {
			// prime the reused pair with another document
			pa := implParse(genDoc(r, &GenOpts{MaxDepth: 3, MaxFan: 4, TopFan: 6 + r.Intn(10)}), false, true, nil)
			pb := implParse(genDoc(r, &GenOpts{MaxDepth: 3, MaxFan: 4, TopFan: 3 + r.Intn(8)}), false, true, nil)
			if pa.Err || pb.Err {
				continue
			}
			mode := compModes[r.Intn(4)]
			ser.CompressMode(mode)
			blobA, panA := safeSerialize(ser, pa.PJ)
			if panA != "" {
				continue
			}
			if d2, err, pan := safeDeserialize(ser, blobA, dst); err == nil && pan == "" {
				dst = d2
			}
			ws := simdjson.NewSerializer()
			ws.CompressMode(mode)
			blobB, panB := safeSerialize(ws, pb.PJ)
			fr, ferr := parseBlob(blobB)
			if panB != "" || ferr != nil {
				continue
			}
			var bad []byte
			switch r.Intn(4) {
			case 0: // a block stored with size 0 although its section is declared non-empty
				bad = fr.buildWith(3+2*r.Intn(4), 0, false)
			case 1: // a declared size changed
				idx := 2 + 2*r.Intn(4)
				bad = fr.buildWith(idx, fr.field(idx)+uint64(1+r.Intn(3)), false)
			case 2: // a section emptied altogether
				k := r.Intn(4)
				f2 := *fr
				switch k {
				case 0:
					f2.Strings = section{}
				case 1:
					f2.Msg = section{}
				case 2:
					f2.Tags = section{}
				default:
					f2.Vals = section{}
				}
				bad = f2.build()
			default: // byte damage
				bad = append([]byte{}, blobB...)
				bad[r.Intn(len(bad))] ^= byte(1 + r.Intn(255))
			}
			if declaredTooBig(bad) {
				continue
			}
			gotR, errR, panR := safeDeserialize(ser, bad, dst)
			gotF, errF, panF := safeDeserialize(simdjson.NewSerializer(), bad, nil)
			c.Ev.Count("damaged-blob-reuse", bad, errF == nil)
			info := map[string]interface{}{"blob_hex": fmt.Sprintf("%x", trunc(string(bad), 3000)), "mode": fmt.Sprint(mode), "reused_err": fmt.Sprint(errR, panR), "fresh_err": fmt.Sprint(errF, panF)}
			if panR != "" || panF != "" {
				continue // C19's business
			}
			if (errR == nil) != (errF == nil) {
				c.Violate("reuse", "Deserialize of a damaged blob with a reused Serializer/destination has another verdict than with fresh ones", "reuse-deser-damaged-verdict", info)
				break
			}
			if errR == nil {
				a, e1 := dumpDoc(gotR)
				b, e2 := dumpDoc(gotF)
				if (e1 == nil) != (e2 == nil) || a != b {
					info["reused"], info["fresh"] = trunc(a, 300), trunc(b, 300)
					c.Violate("reuse", "Deserialize of a damaged blob into a reused destination exposes another document than into a fresh one", "reuse-deser-damaged-doc", info)
					break
				}
				dst = gotR
			}
		}
	}
	// a Serializer used before must give what a fresh one gives: 120 k (short, short+suffix)
	// string pairs, the earlier call having left the longer string right behind the live part
	// of the string buffer (the de-duplication table is hashed with a per-process seed)
	c.c11StaleStrings(c.N(120000, 600000))
}
