package main

// vcheck — correspondence harness for the Coq model of minio/simdjson-go.
//   vcheck srcgen <repo> <outdir>
//   vcheck check <Cxx> [--tier quick|thorough] [--seed n] [--obl file] [--oracle path] [--replay file]

import (
	"encoding/json"
	"flag"
	"fmt"
	"os"
	"path/filepath"
	"runtime"
	"sort"
	"strconv"
	"time"
)

type Ctx struct {
	Prop    string
	Tier    string
	Seed    uint64
	Rng     *Rng
	Or      *Oracle
	Verif   string // /verif
	Repo    string
	Ev      *Evidence
	Replay  string
	Start   time.Time
	Viol    []Violation
	Known   []KnownFinding
	KnownHit map[string]string
	seenViol map[string]bool
	SigHook  func(doc []byte, sig string) string
	Aborted  bool // a call hung: its goroutine still spins or blocks; stop exploring
}

type checkFn func(c *Ctx)

var checks = map[string]checkFn{}

func main() {
	if len(os.Args) < 2 {
		fmt.Fprintln(os.Stderr, "usage: vcheck srcgen|check ...")
		os.Exit(2)
	}
	switch os.Args[1] {
	case "srcgen":
		if len(os.Args) != 4 {
			fmt.Fprintln(os.Stderr, "usage: vcheck srcgen <repo> <outdir>")
			os.Exit(2)
		}
		if err := cmdSrcgen(os.Args[2], os.Args[3]); err != nil {
			fmt.Fprintln(os.Stderr, "srcgen:", err)
			os.Exit(2)
		}
	case "check":
		os.Exit(cmdCheck(os.Args[2:]))
	case "list":
		names := []string{}
		for n := range checks {
			names = append(names, n)
		}
		sort.Strings(names)
		for _, n := range names {
			fmt.Println(n)
		}
	default:
		fmt.Fprintln(os.Stderr, "unknown subcommand", os.Args[1])
		os.Exit(2)
	}
}

func cmdCheck(args []string) int {
	if len(args) < 1 {
		fmt.Fprintln(os.Stderr, "usage: vcheck check <Cxx> ...")
		return 2
	}
	prop := args[0]
	fs := flag.NewFlagSet("check", flag.ExitOnError)
	tier := fs.String("tier", "quick", "quick|thorough")
	seedS := fs.String("seed", "", "seed (default VERIF_SEED or 1)")
	obl := fs.String("obl", "", "proof obligations status (json)")
	oraclePath := fs.String("oracle", "", "path to bin/oracle")
	replay := fs.String("replay", "", "replay file")
	verif := fs.String("verif", "/verif", "verif dir")
	repo := fs.String("repo", "/repo", "repo dir")
	fs.Parse(args[1:])
	if t := os.Getenv("VERIF_TIER"); t != "" && !flagSet(fs, "tier") {
		*tier = t
	}
	seed := uint64(1)
	if *seedS != "" {
		seed, _ = strconv.ParseUint(*seedS, 10, 64)
	} else if s := os.Getenv("VERIF_SEED"); s != "" {
		if v, err := strconv.ParseInt(s, 10, 64); err == nil {
			seed = uint64(v)
		}
	}
	fn, ok := checks[prop]
	if !ok {
		fmt.Fprintln(os.Stderr, "no check for", prop)
		return 2
	}
	if *oraclePath == "" {
		*oraclePath = filepath.Join(*verif, "bin", "oracle")
	}
	or, err := startOracle(*oraclePath, runtime.NumCPU())
	if err != nil {
		fmt.Fprintln(os.Stderr, "cannot start oracle:", err)
		return 2
	}
	defer or.Close()
	c := &Ctx{Prop: prop, Tier: *tier, Seed: seed, Rng: NewRng(seed), Or: or, Verif: *verif, Repo: *repo,
		Replay: *replay, Start: time.Now(), KnownHit: map[string]string{}}
	c.Ev = newEvidence(prop, *tier, seed)
	c.Known = loadKnownFindings(filepath.Join(*verif, "known_findings.txt"), prop)
	if *obl != "" {
		c.Ev.loadObligations(*obl, prop)
	}
	if c.Replay != "" {
		runReplay(c, fn)
	} else {
		fn(c)
	}
	return c.finish()
}

func flagSet(fs *flag.FlagSet, name string) bool {
	found := false
	fs.Visit(func(f *flag.Flag) {
		if f.Name == name {
			found = true
		}
	})
	return found
}

func (c *Ctx) Thorough() bool { return c.Tier == "thorough" }

// N scales a case count by tier.
func (c *Ctx) N(quick, thorough int) int {
	if c.Thorough() {
		return thorough
	}
	return quick
}

func (c *Ctx) finish() int {
	ev := c.Ev
	ev.WallS = time.Since(c.Start).Seconds()
	// proof obligations that did not check are violations of their own
	for _, o := range ev.oblFailed {
		c.reportObligation(o)
	}
	ev.Violations = len(c.Viol)
	ids := make([]string, 0, len(c.KnownHit))
	for id := range c.KnownHit {
		ids = append(ids, id)
	}
	sort.Strings(ids)
	for _, id := range ids {
		fmt.Printf("KNOWN-FINDING: property=%s %s\n", c.Prop, c.KnownHit[id])
	}
	ev.finalize()
	out := filepath.Join(c.Verif, "evidence", c.Prop+".json")
	os.MkdirAll(filepath.Dir(out), 0o755)
	b, _ := json.MarshalIndent(ev, "", " ")
	os.WriteFile(out, b, 0o644)
	if len(c.Viol) > 0 {
		for _, v := range c.Viol {
			suffix := ""
			if v.NoInput {
				suffix = " no-failing-input-found"
			}
			fmt.Printf("VIOLATION property=%s replay=%s%s\n", c.Prop, v.Path, suffix)
		}
		return 1
	}
	fmt.Printf("OK property=%s tier=%s seed=%d evaluations=%d distinct_nontrivial=%d obligations=%d/%d wall=%.1fs\n",
		c.Prop, c.Tier, c.Seed, ev.Coverage.Evaluations, ev.Coverage.DistinctNontrivial, ev.Coverage.Discharged, ev.Coverage.Obligations, ev.WallS)
	return 0
}
