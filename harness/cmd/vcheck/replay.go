package main

import (
	"encoding/hex"
	"encoding/json"
	"fmt"
	"os"
)

// runReplay re-executes the case stored in a replay file: a document goes
// through the full parse comparison (all projections) and the read-path
// comparison, a serialized blob through the C19 path; other kinds of case
// (histories, schedules, streams) are reproduced by re-running the check with
// the recorded seed, which regenerates the same case sequence.
func runReplay(c *Ctx, fn checkFn) {
	b, err := os.ReadFile(c.Replay)
	if err != nil {
		fmt.Fprintln(os.Stderr, "cannot read replay file:", err)
		os.Exit(2)
	}
	var rf replayFile
	if err := json.Unmarshal(b, &rf); err != nil {
		fmt.Fprintln(os.Stderr, "bad replay file:", err)
		os.Exit(2)
	}
	fmt.Printf("replay: property=%s kind=%s what=%s\n", rf.Property, rf.Kind, rf.What)
	if rf.Broken != "" {
		fmt.Printf("replay: broken obligation/correspondence: %s\n", trunc(rf.Broken, 500))
	}
	if h, ok := rf.Case["doc_hex"].(string); ok && rf.Case["history"] == nil {
		doc, err := hex.DecodeString(h)
		if err == nil {
			nd, _ := rf.Case["nd"].(bool)
			c.CompareParse([]PCase{{Doc: doc, ND: nd, Stream: "replay"}}, ChkVerdict|ChkDump|ChkModel|ChkKernels|ChkCopyModes|ChkNoPanic, 1<<20, func(pc *PCase, outs []cfgOut, spec string) {
				for _, o := range outs {
					if !o.out.Err {
						c.compareReads(o.out.PJ, "", map[string]interface{}{"doc_hex": h}, "")
						break
					}
				}
			})
			return
		}
	}
	if h, ok := rf.Case["blob_hex"].(string); ok {
		if blob, err := hex.DecodeString(h); err == nil {
			var reqs []string
			var pends []func(string)
			if c.probeInChild("replay", blob) {
				c.tryBlob("replay", blob, true, &reqs, &pends)
			}
			for i, a := range c.Or.Ask(reqs) {
				pends[i](a)
			}
			return
		}
	}
	c.Seed = rf.Seed
	c.Rng = NewRng(rf.Seed)
	c.Tier = rf.Tier
	fmt.Printf("replay: re-running the check with seed %d tier %s (the case is regenerated deterministically)\n", rf.Seed, rf.Tier)
	fn(c)
}
