package main

import (
	"crypto/sha1"
	"encoding/json"
	"fmt"
	"os"
	"path/filepath"
	"sort"
	"strings"
)

type Coverage struct {
	Evaluations        int            `json:"evaluations"`
	DistinctNontrivial int            `json:"distinct_nontrivial"`
	Rule               string         `json:"rule"`
	Samples            []interface{}  `json:"samples"`
	Obligations        int            `json:"obligations"`
	Discharged         int            `json:"discharged"`
	CheckerCmd         string         `json:"checker_cmd"`
	TrustedBase        []string       `json:"trusted_base"`
	Theorems           []string       `json:"theorems,omitempty"`
	Axioms             []string       `json:"axioms_print_assumptions,omitempty"`
	Distribution       map[string]int `json:"input_distribution,omitempty"`
	Streams            map[string]int `json:"streams,omitempty"`
	OblFailed          []string       `json:"obligations_failed,omitempty"`
	ModelDisagreements int            `json:"model_impl_disagreements"`
	Notes              []string       `json:"notes,omitempty"`
}

type Evidence struct {
	PropertyID  string   `json:"property_id"`
	Tier        string   `json:"tier"`
	Seed        int64    `json:"seed"`
	Level       string   `json:"level"`
	Coverage    Coverage `json:"coverage"`
	Assumptions []string `json:"assumptions"`
	WallS       float64  `json:"wall_s"`
	Violations  int      `json:"violations"`

	distinct  map[[8]byte]struct{}
	oblFailed []string
}

func newEvidence(prop, tier string, seed uint64) *Evidence {
	return &Evidence{PropertyID: prop, Tier: tier, Seed: int64(seed & 0x7fffffffffffffff), Level: "proof", Assumptions: []string{},
		Coverage: Coverage{Distribution: map[string]int{}, Streams: map[string]int{}, Samples: []interface{}{}, TrustedBase: []string{},
			CheckerCmd: "(run through bin/check to build and collect the Coq obligations)"},
		distinct: map[[8]byte]struct{}{}}
}

// Count records one evaluated case. key identifies it for distinctness;
// nontrivial says whether it counts under the check's rule.
func (e *Evidence) Count(stream string, key []byte, nontrivial bool) {
	e.Coverage.Evaluations++
	e.Coverage.Streams[stream]++
	if nontrivial {
		h := sha1.Sum(key)
		var k [8]byte
		copy(k[:], h[:8])
		e.distinct[k] = struct{}{}
	}
}

func (e *Evidence) Dist(bucket string) { e.Coverage.Distribution[bucket]++ }

func (e *Evidence) Sample(s interface{}) {
	if len(e.Coverage.Samples) < 12 {
		e.Coverage.Samples = append(e.Coverage.Samples, s)
	}
}

func (e *Evidence) Note(s string) { e.Coverage.Notes = append(e.Coverage.Notes, s) }

func (e *Evidence) finalize() {
	e.Coverage.DistinctNontrivial = len(e.distinct)
	sort.Strings(e.Coverage.OblFailed)
}

// obligations file written by bin/check:
// { "C04": { "files": [{"file":"Tie/StrTie.v","ok":true,"theorems":["a","b"],"axioms":["..."]}], "checker_cmd": "...", "trusted_base":[...] } }
type oblFile struct {
	File     string   `json:"file"`
	OK       bool     `json:"ok"`
	Theorems []string `json:"theorems"`
	Axioms   []string `json:"axioms"`
	Log      string   `json:"log"`
}
type oblProp struct {
	Files       []oblFile `json:"files"`
	CheckerCmd  string    `json:"checker_cmd"`
	TrustedBase []string  `json:"trusted_base"`
	Assumptions []string  `json:"assumptions"`
}

func (e *Evidence) loadObligations(path, prop string) {
	b, err := os.ReadFile(path)
	if err != nil {
		e.oblFailed = append(e.oblFailed, "obligations-file-missing:"+path)
		e.Coverage.OblFailed = append(e.Coverage.OblFailed, "obligations-file-missing")
		return
	}
	var all map[string]oblProp
	if err := json.Unmarshal(b, &all); err != nil {
		e.oblFailed = append(e.oblFailed, "obligations-file-bad")
		return
	}
	p := all[prop]
	e.Coverage.CheckerCmd = p.CheckerCmd
	if p.TrustedBase != nil {
		e.Coverage.TrustedBase = p.TrustedBase
	}
	if p.Assumptions != nil {
		e.Assumptions = p.Assumptions
	}
	ax := map[string]struct{}{}
	for _, f := range p.Files {
		n := len(f.Theorems)
		if n == 0 {
			n = 1
		}
		e.Coverage.Obligations += n
		if f.OK {
			e.Coverage.Discharged += n
			for _, t := range f.Theorems {
				e.Coverage.Theorems = append(e.Coverage.Theorems, filepath.Base(f.File)+":"+t)
			}
		} else {
			e.oblFailed = append(e.oblFailed, f.File+"\n"+f.Log)
			e.Coverage.OblFailed = append(e.Coverage.OblFailed, f.File)
		}
		for _, a := range f.Axioms {
			ax[a] = struct{}{}
		}
	}
	for a := range ax {
		e.Coverage.Axioms = append(e.Coverage.Axioms, a)
	}
	sort.Strings(e.Coverage.Axioms)
}

// ---------------------------------------------------------------------

type Violation struct {
	Path    string
	NoInput bool
}

type replayFile struct {
	Property string                 `json:"property"`
	Seed     uint64                 `json:"seed"`
	Tier     string                 `json:"tier"`
	Kind     string                 `json:"kind"`
	What     string                 `json:"what"`
	Broken   string                 `json:"broken_obligation_or_correspondence,omitempty"`
	Case     map[string]interface{} `json:"case"`
}

type KnownFinding struct {
	ID    string
	Match string
	Text  string
}

func loadKnownFindings(path, prop string) []KnownFinding {
	b, err := os.ReadFile(path)
	if err != nil {
		return nil
	}
	var out []KnownFinding
	for _, line := range strings.Split(string(b), "\n") {
		line = strings.TrimSpace(line)
		if !strings.HasPrefix(line, "known: ") {
			continue
		}
		f := strings.SplitN(line[len("known: "):], " ", 4)
		if len(f) < 4 || f[0] != "property="+prop {
			continue
		}
		out = append(out, KnownFinding{ID: strings.TrimPrefix(f[1], "id="), Match: strings.TrimPrefix(f[2], "match="), Text: f[3]})
	}
	return out
}

// Violate records a violation with a concrete failing case, unless the case
// is one of the listed known findings (matched by its signature).
func (c *Ctx) Violate(kind, what, signature string, cs map[string]interface{}) {
	for _, k := range c.Known {
		if k.Match == signature {
			c.KnownHit[k.ID] = "id=" + k.ID + " " + k.Text
			return
		}
	}
	// one report per distinct failing case
	key := signature
	for _, f := range []string{"doc_hex", "msg_hex", "history", "input_hex", "blob_hex", "lit"} {
		if v, ok := cs[f]; ok {
			key = fmt.Sprint(f, v)
			break
		}
	}
	if c.seenViol == nil {
		c.seenViol = map[string]bool{}
	}
	if c.seenViol[key] || len(c.Viol) >= 8 {
		return
	}
	c.seenViol[key] = true
	c.writeReplay(kind, what, "", cs, false)
}

func (c *Ctx) writeReplay(kind, what, broken string, cs map[string]interface{}, noInput bool) {
	dir := filepath.Join(c.Verif, "replays")
	os.MkdirAll(dir, 0o755)
	path := filepath.Join(dir, fmt.Sprintf("%s-%d-%d.json", c.Prop, c.Seed, len(c.Viol)))
	rf := replayFile{Property: c.Prop, Seed: c.Seed, Tier: c.Tier, Kind: kind, What: what, Broken: broken, Case: cs}
	b, _ := json.MarshalIndent(rf, "", " ")
	os.WriteFile(path, b, 0o644)
	c.Viol = append(c.Viol, Violation{Path: path, NoInput: noInput})
}

// reportObligation: a Coq obligation of this property no longer checks. The
// check has already run its correspondence streams (the search for a concrete
// failing input); if none of them produced a violation, report the broken
// obligation itself with no-failing-input-found.
func (c *Ctx) reportObligation(o string) {
	concrete := false
	for _, v := range c.Viol {
		if !v.NoInput {
			concrete = true
		}
	}
	if concrete {
		return
	}
	name := strings.SplitN(o, "\n", 2)[0]
	c.writeReplay("obligation", "Coq obligation no longer checks: "+name, o, map[string]interface{}{}, true)
}
