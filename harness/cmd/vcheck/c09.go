package main

import (
	"runtime"
	"bytes"
	"errors"
	"fmt"
	"io"
	"strings"
	"time"

	simdjson "github.com/minio/simdjson-go"
)

func init() { checks["C09"] = checkC09 }

var errInjected = errors.New("injected reader failure")

// fragReader hands out the stream in the given fragment sizes, then failAt.
type fragReader struct {
	data   []byte
	sizes  []int
	i      int
	failAt int // -1: never; otherwise fail once this many bytes were delivered
	pos    int
}

func (f *fragReader) Read(p []byte) (int, error) {
	if f.failAt >= 0 && f.pos >= f.failAt {
		return 0, errInjected
	}
	if f.pos >= len(f.data) {
		return 0, io.EOF
	}
	n := 1
	if len(f.sizes) > 0 {
		n = f.sizes[f.i%len(f.sizes)]
		f.i++
	}
	if n > len(p) {
		n = len(p)
	}
	if f.pos+n > len(f.data) {
		n = len(f.data) - f.pos
	}
	if f.failAt >= 0 && f.pos+n > f.failAt {
		n = f.failAt - f.pos
		if n == 0 {
			return 0, errInjected
		}
	}
	copy(p, f.data[f.pos:f.pos+n])
	f.pos += n
	return n, nil
}

type streamOutcome struct {
	docs     string
	finalErr error
	closed   bool
	extra    string // anything delivered after the first error
	timeout  bool
	nvalues  int
}

func runStream(rd io.Reader, reuseMode int, r *Rng) streamOutcome {
	res := make(chan simdjson.Stream, 2)
	reuse := make(chan *simdjson.ParsedJson, 16)
	simdjson.ParseNDStream(rd, res, reuse)
	var out streamOutcome
	var sb strings.Builder
	deadline := time.After(180 * time.Second)
	// modes 3..5: the same reuse behaviour with a consumer that lags behind the reader (the
	// reader reaches end of stream / its error while the forwarding queue is full)
	slow := reuseMode >= 3
	reuseMode %= 3
	if slow {
		time.Sleep(15 * time.Millisecond)
	}
	for {
		if slow {
			time.Sleep(150 * time.Microsecond)
		}
		select {
		case v, ok := <-res:
			if !ok {
				out.closed = true
				out.docs = sb.String()
				return out
			}
			if out.finalErr != nil {
				out.extra += fmt.Sprintf("[value after error: %v %v]", v.Error, v.Value != nil)
				continue
			}
			if v.Error != nil {
				out.finalErr = v.Error
				continue
			}
			out.nvalues++
			d, err := dumpDoc(v.Value)
			if err != nil {
				sb.WriteString("DUMPERR")
			}
			sb.WriteString(d)
			if reuseMode == 2 || (reuseMode == 1 && r.Bool()) {
				select {
				case reuse <- v.Value:
				default:
				}
			}
		case <-deadline:
			out.timeout = true
			out.docs = sb.String()
			return out
		}
	}
}

func checkC09(c *Ctx) {
	r := c.Rng
	c.Ev.Coverage.Rule = "NDJSON streams of 1..400 documents of very different sizes (a share with white space between tokens, and lines whose last scalar — every kind — sits 1..8 bytes before the end of the line with white space before the closer) with blank lines anywhere (also only blank lines at the end, CRLF), read through a reader that fragments at sizes from {1,2,3,7,64,4095,4096,4097,random,whole} (cuts inside tokens, inside blank runs, right before/after LF), with the reuse channel fed never/sometimes/always, one run in five with a consumer that lags behind the reader (queue full when the reader ends); chunks in which an escape sequence straddles the 64-byte block boundary at which stage 1 hands over a full 1408-entry index buffer (five line shapes, boundary swept); streams longer than the 10 MiB read chunk (a 250 KiB line across the cut, several chunks in flight, buffers coming back through the reuse channel; judged against the per-line dumps); delivered roots in order must equal the Coq specification nd_spec of the stream, followed by io.EOF and close, nothing after the error. With an injected reader error at a sweep of offsets (every offset for small streams): delivered documents must be a prefix of the specification's sequence, the injected error delivered last, then close. non-trivial = stream with >= 2 chunks; distinct = by (stream, fragmentation, failure offset)"
	sizeSets := [][]int{{1}, {2}, {3}, {7}, {64}, {4095}, {4096}, {4097}, {1 << 20}, {1, 64, 3}, {5, 1, 1, 200}, nil}
	type job struct {
		stream []byte
		sizes  []int
		fail   int
		out    streamOutcome
		reuse  int
	}
	var jobs []*job
	mkStream := func() []byte {
		var sb strings.Builder
		n := 1 + r.Intn(12)
		if r.Chance(1, 15) {
			n = 100 + r.Intn(300)
		}
		eol := "\n"
		if r.Chance(1, 5) {
			eol = "\r\n"
		}
		for l := 0; l < n; l++ {
			switch x := r.Intn(12); {
			case x < 2:
				sb.WriteString([]string{"", " ", "\t", "  "}[r.Intn(4)])
			case x == 2:
				sb.Write(genDoc(r, &GenOpts{MaxDepth: 4, MaxFan: 5, TopFan: 30 + r.Intn(60), WS: r.Intn(9)}))
			case x == 3 || x == 4:
				// documents whose last value sits 1..8 bytes before the end of the line (and so,
				// under fragmentation, of the chunk): every scalar kind, white space before the closer
				v := []string{"true", "false", "null", "0", "-1.5e3", `"s"`, `""`, "[]", "{}"}[r.Intn(9)]
				gap := []string{"", " ", "\t", "  ", " \t ", "   "}[r.Intn(6)]
				if r.Bool() {
					sb.WriteString("[" + []string{"", "1,", `"x", `}[r.Intn(3)] + v + gap + "]")
				} else {
					sb.WriteString(`{"k":` + gap + v + gap + "}")
				}
				sb.WriteString([]string{"", "", " ", "\t"}[r.Intn(4)])
			default:
				sb.Write(genDoc(r, &GenOpts{MaxDepth: 3, MaxFan: 3, TopFan: 4, WS: (r.Intn(3) / 2) * r.Intn(9)}))
			}
			sb.WriteString(eol)
		}
		if r.Chance(1, 4) {
			sb.WriteString(strings.Repeat(eol, 1+r.Intn(4))) // trailing blank lines (F8)
		}
		s := sb.String()
		if r.Chance(1, 4) {
			s = strings.TrimRight(s, "\r\n")
		}
		return []byte(s)
	}
	ns := c.N(500, 6000)
	for i := 0; i < ns; i++ {
		st := mkStream()
		sizes := sizeSets[r.Intn(len(sizeSets))]
		if sizes == nil {
			sizes = []int{1 + r.Intn(50), 1 + r.Intn(500), 1 + r.Intn(5)}
		}
		j := &job{stream: st, sizes: sizes, fail: -1, reuse: i%3 + 3*((i/3)%5/4)}
		j.out = runStream(&fragReader{data: st, sizes: sizes, failAt: -1}, j.reuse, r)
		jobs = append(jobs, j)
		// reader failures
		if len(st) < 200 {
			for off := 0; off <= len(st); off++ {
				if !c.Thorough() && off%3 != i%3 {
					continue
				}
				jf := &job{stream: st, sizes: sizes, fail: off, reuse: i%3 + 3*((i/3)%5/4)}
				jf.out = runStream(&fragReader{data: st, sizes: sizes, failAt: off}, jf.reuse, r)
				jobs = append(jobs, jf)
			}
		} else if i%2 == 0 {
			off := r.Intn(len(st))
			jf := &job{stream: st, sizes: sizes, fail: off, reuse: i%3 + 3*((i/3)%5/4)}
			jf.out = runStream(&fragReader{data: st, sizes: sizes, failAt: off}, jf.reuse, r)
			jobs = append(jobs, jf)
		}
	}
	// F8 regression and friends
	for _, frags := range [][]string{{"{}\n", "\n", "\n"}, {"{}\n\n\n"}, {"\n", "{}\n"}, {"{}", "\n", "\n", "[]", "\n"}, {" \n", "\t\n", "[1]\n", " "}} {
		st := []byte(strings.Join(frags, ""))
		var sizes []int
		for _, f := range frags {
			sizes = append(sizes, len(f))
		}
		j := &job{stream: st, sizes: sizes, fail: -1}
		j.out = runStream(&fragReader{data: st, sizes: sizes, failAt: -1}, 0, r)
		jobs = append(jobs, j)
	}
	// chunks in which an escape straddles the block boundary where stage 1 hands over a full
	// index buffer, delivered in one read and in fragments
	for i, st := range handoverEscapeDocs(true, []int{0, 29}) {
		for _, sizes := range [][]int{{1 << 20}, {[]int{4096, 7, 4097, 64}[i%4]}} {
			j := &job{stream: st, sizes: sizes, fail: -1, reuse: i % 3}
			j.out = runStream(&fragReader{data: st, sizes: sizes, failAt: -1}, j.reuse, r)
			jobs = append(jobs, j)
		}
	}
	// maximally dense lines (every byte a structural or a one-digit number) with the first read
	// ending at every length of a window: whichever chunk results, its last index buffer may be
	// filled to the brim by the tail call of stage 1
	{
		var sb strings.Builder
		sb.WriteString("{\"k\":\"\"}\n")
		for l := 0; l < 60; l++ {
			sb.WriteString("[" + strings.Repeat("1,", 28) + "1]\n")
		}
		st := []byte(sb.String())
		for first := 1350; first <= 1750; first += c.N(1, 1) {
			if !c.Thorough() && first%2 == 1 {
				continue
			}
			j := &job{stream: st, sizes: []int{first, 1 << 20}, fail: -1, reuse: first % 3}
			j.out = runStream(&fragReader{data: st, sizes: []int{first, 1 << 20, 1 << 20, 1 << 20}, failAt: -1}, j.reuse, r)
			jobs = append(jobs, j)
		}
	}
	// chunks that begin with more than 1 KiB of blank lines, every result handed back through the
	// reuse channel, many chunks, one P (so that pooled buffers meet again): whatever a recycled
	// result carries back must be fit for the next chunk
	{
		oldp := runtime.GOMAXPROCS(1)
		for k := 0; k < 3; k++ {
			var sb strings.Builder
			for l := 0; l < 40; l++ {
				sb.WriteString(strings.Repeat("\n", 1100+300*k))
				sb.WriteString(fmt.Sprintf("{\"line\":%d,\"s\":\"v%d\"}\n", l, l))
			}
			st := []byte(sb.String())
			sizes := []int{1100 + 300*k + 5, 60}
			j := &job{stream: st, sizes: sizes, fail: -1, reuse: 2}
			j.out = runStream(&fragReader{data: st, sizes: sizes, failAt: -1}, 2, r)
			jobs = append(jobs, j)
		}
		runtime.GOMAXPROCS(oldp)
	}
	c.c09HugeStream(r)
	var reqs []string
	for _, j := range jobs {
		reqs = append(reqs, "specnd "+hexOrDash(j.stream))
	}
	ans := c.Or.Ask(reqs)
	for k, j := range jobs {
		spec := ans[k]
		info := map[string]interface{}{"input_hex": fmt.Sprintf("%x", trunc(string(j.stream), 3000)), "stream": printable(j.stream), "fragment_sizes": fmt.Sprint(j.sizes), "fail_at": j.fail, "reuse_mode": j.reuse,
			"delivered": trunc(j.out.docs, 400), "final_error": fmt.Sprint(j.out.finalErr), "closed": j.out.closed, "spec": trunc(spec, 400)}
		c.Ev.Count(map[bool]string{true: "reader-failure", false: "clean"}[j.fail >= 0], []byte(fmt.Sprint(j.sizes, j.fail, string(j.stream))), j.out.nvalues >= 2)
		c.Ev.Dist(fmt.Sprintf("values:%d", minInt(j.out.nvalues, 10)))
		if j.out.timeout {
			c.Violate("stream", "ParseNDStream did not finish (no close within 180 s)", "stream-hang", info)
			continue
		}
		if !j.out.closed {
			c.Violate("stream", "result channel not closed", "stream-close", info)
			continue
		}
		if !strings.HasPrefix(spec, "ok ") {
			// not a well-formed stream (or no document at all): outside the claim
			c.Ev.Dist("spec:" + spec)
			continue
		}
		if j.out.extra != "" {
			info["extra"] = j.out.extra
			c.Violate("stream", "something was delivered after the final error", "stream-after-error", info)
			continue
		}
		want := spec[3:]
		if j.fail < 0 {
			if j.out.finalErr != io.EOF || j.out.docs != want {
				c.Violate("stream", "delivered documents differ from the stream's documents, or the stream did not end with io.EOF", "stream-docs", info)
			}
		} else {
			if !strings.HasPrefix(want, j.out.docs) || (len(j.out.docs) > 0 && !strings.HasSuffix(j.out.docs, "|")) {
				c.Violate("stream", "after a reader failure the delivered documents are not a prefix of the true sequence", "stream-prefix", info)
			} else if j.fail < len(j.stream) && !errors.Is(j.out.finalErr, errInjected) {
				c.Violate("stream", "the reader's error was not the last thing delivered", "stream-error", info)
			}
		}
		if k%97 == 0 {
			c.Ev.Sample(map[string]interface{}{"stream": printable(trunc(string(j.stream), 120)), "fragments": fmt.Sprint(j.sizes), "fail_at": j.fail, "values": j.out.nvalues})
		}
	}
}

func minInt(a, b int) int {
	if a < b {
		return a
	}
	return b
}

// c09HugeStream: streams longer than ParseNDStream's 10 MiB read chunk, delivered by a reader
// that fills whatever it is given — the chunk is cut at 10 MiB, completed up to the next line
// feed (one line is longer than the 1 KiB head-room of the chunk buffer), several chunks are
// parsed concurrently and forwarded in order, consumed buffers come back through the reuse
// channel.  Too large for the oracle: the expected sequence is the concatenation of the dumps
// of the (64 distinct) lines, each parsed alone.
func (c *Ctx) c09HugeStream(r *Rng) {
	var pool [][]byte
	var dumps []string
	for len(pool) < 64 {
		d := genDoc(r, &GenOpts{MaxDepth: 4, MaxFan: 6, TopFan: 8 + r.Intn(60), WS: r.Intn(4)})
		if bytes.IndexByte(d, '\n') >= 0 || bytes.IndexByte(d, '\r') >= 0 {
			continue
		}
		out := implParse(d, false, true, nil)
		if out.Err {
			continue
		}
		s, err := dumpDoc(out.PJ)
		if err != nil {
			continue
		}
		pool, dumps = append(pool, d), append(dumps, s)
	}
	// one long line (an array of ~40000 numbers, ~250 KiB)
	{
		var sb strings.Builder
		sb.WriteString("[")
		for i := 0; i < 40000; i++ {
			if i > 0 {
				sb.WriteString(",")
			}
			fmt.Fprintf(&sb, "%d", i*7919)
		}
		sb.WriteString("]")
		d := []byte(sb.String())
		if out := implParse(d, false, true, nil); !out.Err {
			if s, err := dumpDoc(out.PJ); err == nil {
				pool, dumps = append(pool, d), append(dumps, s)
			}
		}
	}
	long := len(pool) - 1
	for variant := 0; variant < c.N(2, 6); variant++ {
		target := (10 << 20) + (1+variant%3)*(3<<20)/2 + r.Intn(1<<20)
		var st bytes.Buffer
		var want strings.Builder
		placed := false
		for st.Len() < target {
			k := r.Intn(long)
			// the long line straddles the 10 MiB cut
			if !placed && st.Len() > (10<<20)-len(pool[long])/2 {
				k, placed = long, true
			}
			st.Write(pool[k])
			if variant%2 == 1 {
				st.WriteString("\r\n")
			} else {
				st.WriteString("\n")
			}
			want.WriteString(dumps[k])
		}
		data := st.Bytes()
		sizes := [][]int{{1 << 30}, {1 << 22}, {(10 << 20) - 1, 1, 4096}}[variant%3]
		out := runStream(&fragReader{data: data, sizes: sizes, failAt: -1}, variant%3, r)
		c.Ev.Count("huge-stream", []byte(fmt.Sprint(variant, len(data))), out.nvalues >= 2)
		c.Ev.Dist(fmt.Sprintf("huge-stream-chunks:%d", out.nvalues))
		info := map[string]interface{}{"stream_bytes": len(data), "fragment_sizes": fmt.Sprint(sizes), "reuse_mode": variant % 3, "values": out.nvalues, "final_error": fmt.Sprint(out.finalErr), "closed": out.closed,
			"generator": "c09HugeStream variant " + fmt.Sprint(variant) + " (regenerated from the seed on replay)"}
		switch {
		case out.timeout || !out.closed:
			c.Violate("stream", "ParseNDStream did not finish on a stream longer than its 10 MiB chunk", "stream-huge-hang", info)
		case out.extra != "":
			c.Violate("stream", "something was delivered after the final error", "stream-huge-after-error", info)
		case out.finalErr != io.EOF || out.docs != want.String():
			d := out.docs
			w := want.String()
			n := 0
			for n < len(d) && n < len(w) && d[n] == w[n] {
				n++
			}
			info["first_difference_at_dump_byte"] = n
			info["delivered_there"], info["expected_there"] = trunc(d[n:], 200), trunc(w[n:], 200)
			c.Violate("stream", "documents delivered for a stream longer than the 10 MiB read chunk differ from the stream's lines, or it did not end with io.EOF", "stream-huge-docs", info)
		}
	}
}
