package main

import (
	"bufio"
	"bytes"
	"fmt"
	"os/exec"
	"path/filepath"
	"strings"

	simdjson "github.com/minio/simdjson-go"
)

// after every edit of a C13/C14 history: the serialize round trip reflects the
// edited document
func serializeAfterEdit(c *Ctx, h *history, info map[string]interface{}) {
	if len(h.ops)%2 == 1 && len(h.pj.Tape) > 40 {
		return
	}
	want, werr := dumpDoc(h.pj)
	if werr != nil {
		return
	}
	s := simdjson.NewSerializer()
	s.CompressMode(compModes[len(h.ops)%4])
	blob, pan := safeSerialize(s, h.pj)
	if pan != "" {
		info["panic"] = pan
		c.Violate("panic", "Serialize panicked on an edited tape", "after-edit-ser-panic", info)
		return
	}
	pj2, err, pan2 := safeDeserialize(s, blob, nil)
	if err != nil || pan2 != "" {
		info["error"] = fmt.Sprint(err, pan2)
		c.Violate("roundtrip", "Deserialize failed on the serialized form of an edited tape", "after-edit-roundtrip-fail", info)
		return
	}
	got, gerr := dumpDoc(pj2)
	if gerr != nil || got != want {
		info["want"], info["got"] = trunc(want, 300), trunc(got, 300)
		c.Violate("roundtrip", "serialize round trip of an edited tape denotes a different document", "after-edit-roundtrip-doc", info)
	}
}

// bigDeletionRoundTrip: a tape of > 70 000 words of which the second half (one run of tens
// of thousands of deleted words, crossing the serializer's 64 KiB tag and value flushes) was
// deleted, and one whose large nested container was replaced by null: the serialize round trip
// in every mode still denotes the edited document.
func bigDeletionRoundTrip(c *Ctx) {
	for variant := 0; variant < 2; variant++ {
		var sb strings.Builder
		sb.WriteString(`[{"keep":"head"},[`)
		for i := 0; i < 60000; i++ {
			if i > 0 {
				sb.WriteString(",")
			}
			switch i % 3 {
			case 0:
				fmt.Fprintf(&sb, `"s%d"`, i%700)
			case 1:
				fmt.Fprintf(&sb, "%d", i)
			default:
				sb.WriteString("true")
			}
		}
		sb.WriteString(`],{"keep":"tail"}]`)
		doc := []byte(sb.String())
		out := implParse(doc, false, true, nil)
		if out.Err {
			return
		}
		it := iterAt(out.PJ, 2) // the root array
		arr, err := it.Array(nil)
		if err != nil {
			return
		}
		inner := arr.Iter()
		inner.Advance() // {"keep":"head"}
		inner.Advance() // the big array
		what := ""
		if variant == 0 {
			big, err := inner.Array(nil)
			if err != nil {
				return
			}
			n := 0
			big.DeleteElems(func(simdjson.Iter) bool { n++; return n > 9000 })
			what = "Array.DeleteElems of elements 9000.. of a 60000-element array"
		} else {
			if err := inner.SetNull(); err != nil {
				return
			}
			what = "SetNull on a 60000-element array"
		}
		want, werr := dumpDoc(out.PJ)
		if werr != nil {
			return
		}
		for _, m := range compModes {
			s := simdjson.NewSerializer()
			s.CompressMode(m)
			info := map[string]interface{}{"doc_text": "[{\"keep\":\"head\"},[60000 elements],{\"keep\":\"tail\"}]", "edit": what, "ser_mode": int(m), "tape_words": len(out.PJ.Tape)}
			c.Ev.Count("big-deletion-roundtrip", []byte(fmt.Sprint(variant, m)), true)
			blob, pan := safeSerialize(s, out.PJ)
			if pan != "" {
				info["panic"] = pan
				c.Violate("panic", "Serialize panicked on a tape with a very long deleted run", "big-deletion-ser-panic", info)
				continue
			}
			pj2, err, pan2 := safeDeserialize(simdjson.NewSerializer(), blob, nil)
			if err != nil || pan2 != "" {
				info["error"] = fmt.Sprint(err, pan2)
				c.Violate("roundtrip", "Deserialize failed on the serialized form of a tape with a very long deleted run", "big-deletion-roundtrip-fail", info)
				continue
			}
			if got, gerr := dumpDoc(pj2); gerr != nil || got != want {
				info["want"], info["got"] = trunc(want, 200), trunc(got, 200)
				c.Violate("roundtrip", "serialize round trip of a tape with a very long deleted run denotes a different document", "big-deletion-roundtrip-doc", info)
			}
		}
	}
}

func init() {
	extraAfterEdit = serializeAfterEdit
	checks["C11"] = checkC11
	deserWFProbe = func(c *Ctx) { c.serRoundTrips(c.N(150, 1500), "C17-deser") }
}

var compModes = []simdjson.CompressMode{simdjson.CompressNone, simdjson.CompressFast, simdjson.CompressDefault, simdjson.CompressBest}

func safeSerialize(s *simdjson.Serializer, pj *simdjson.ParsedJson) (blob []byte, pan string) {
	defer func() {
		if r := recover(); r != nil {
			pan = fmt.Sprint(r)
		}
	}()
	return s.Serialize(nil, *pj), ""
}

func safeDeserialize(s *simdjson.Serializer, blob []byte, dst *simdjson.ParsedJson) (pj *simdjson.ParsedJson, err error, pan string) {
	defer func() {
		if r := recover(); r != nil {
			pan = fmt.Sprint(r)
		}
	}()
	pj, err = s.Deserialize(blob, dst)
	return
}

// randomTape: parse a random document and optionally edit it in place.
func (c *Ctx) randomTape(r *Rng, big int) (*simdjson.ParsedJson, []byte) {
	var doc []byte
	nd := false
	numeric := false
	switch {
	case big == 1: // beyond both 64 KiB flush blocks: > 70000 tape words, many distinct strings
		var sb strings.Builder
		sb.WriteString("[")
		for i := 0; i < 24000; i++ {
			if i > 0 {
				sb.WriteString(",")
			}
			switch i % 4 {
			case 0:
				fmt.Fprintf(&sb, `"str%d"`, i)
			case 1:
				fmt.Fprintf(&sb, `{"k%d":%d}`, i%50, i)
			case 2:
				sb.WriteString(`"dup"`)
			default:
				fmt.Fprintf(&sb, "%d.5", i)
			}
		}
		sb.WriteString("]")
		doc = []byte(sb.String())
	case r.Chance(1, 5):
		nd = true
		var sb strings.Builder
		for l := 0; l < 1+r.Intn(5); l++ {
			sb.Write(genDoc(r, &GenOpts{MaxDepth: 3, MaxFan: 3, TopFan: 4, WS: 0}))
			sb.WriteString("\n")
		}
		doc = []byte(sb.String())
	case r.Chance(1, 5):
		// arrays (also as object members) of numbers at the int64/uint64/float64 edges: every
		// number kind — 'u' entries included — gets deleted, replaced and round-tripped
		numeric = true
		mk := func() string {
			var el []string
			for j := 2 + r.Intn(6); j > 0; j-- {
				el = append(el, numBoundary[r.Intn(len(numBoundary))])
			}
			return "[" + strings.Join(el, ",") + "]"
		}
		if r.Bool() {
			doc = []byte(mk())
		} else {
			doc = []byte(`{"a":` + mk() + `,"b":[` + mk() + `,1],"c":18446744073709551615}`)
		}
	default:
		o := smallOpts(r)
		o.NoDupKey = r.Bool()
		doc = genDoc(r, o)
	}
	out := implParse(doc, nd, r.Bool(), nil)
	if out.Err {
		return nil, doc
	}
	// a few in-place edits
	if r.Chance(1, 2) || numeric {
		h := &history{doc: doc, pj: out.PJ}
		for k := 0; k < 1+r.Intn(4); k++ {
			op := c.pickEdit(r, h, r.Bool() || numeric)
			if op == nil {
				break
			}
			it := editIter(h.pj, op.K, op.Path, r)
			safeApply(op, &it)
		}
	}
	return out.PJ, doc
}

func (c *Ctx) serRoundTrips(n int, stream string) {
	r := c.Rng
	bigDeletionRoundTrip(c)
	noasm := startNoasm(filepath.Join(c.Verif, "build", "noasmdeser"))
	defer noasm.close()
	sers := map[simdjson.CompressMode]*simdjson.Serializer{}
	shared := simdjson.NewSerializer()
	var dstReuse *simdjson.ParsedJson
	var reqs []string
	type pend struct {
		what string
		info map[string]interface{}
		want string
	}
	var pends []pend
	for i := 0; i < n; i++ {
		big := 0
		if i == 3 || (c.Thorough() && i%100 == 3) {
			big = 1
		}
		pj, doc := c.randomTape(r, big)
		if pj == nil {
			continue
		}
		want, werr := dumpDoc(pj)
		if werr != nil {
			continue
		}
		for _, sm := range compModes {
			if !c.Thorough() && big == 0 && r.Chance(1, 2) {
				continue
			}
			// serializer: per-mode instance, or one shared instance switching modes
			var s *simdjson.Serializer
			if r.Chance(1, 3) {
				s = shared
				s.CompressMode(sm)
			} else {
				if sers[sm] == nil {
					sers[sm] = simdjson.NewSerializer()
					sers[sm].CompressMode(sm)
				}
				s = sers[sm]
			}
			blob, pan := safeSerialize(s, pj)
			info := map[string]interface{}{"doc_hex": fmt.Sprintf("%x", trunc(string(doc), 3000)), "doc_text": printable(doc), "ser_mode": int(sm), "tape_words": len(pj.Tape)}
			if pan != "" {
				info["panic"] = pan
				c.Violate("panic", "Serialize panicked on a parsed/edited tape", "ser-panic", info)
				continue
			}
			dm := compModes[r.Intn(4)]
			d := simdjson.NewSerializer()
			if r.Bool() {
				d = shared
			}
			d.CompressMode(dm)
			var dst *simdjson.ParsedJson
			if r.Chance(1, 3) {
				dst = dstReuse
			}
			pj2, err, pan := safeDeserialize(d, blob, dst)
			info["deser_mode"] = int(dm)
			info["dst_reused"] = dst != nil
			if pan != "" || err != nil {
				info["error"] = fmt.Sprint(err, pan)
				c.Violate("roundtrip", "Deserialize failed on the bytes Serialize produced", "roundtrip-fail", info)
				continue
			}
			dstReuse = pj2
			got, gerr := dumpDoc(pj2)
			c.Ev.Count(stream, append([]byte(fmt.Sprint(sm, dm)), doc...), true)
			c.Ev.Dist(fmt.Sprintf("ser:%d/deser:%d", sm, dm))
			if gerr != nil || got != want {
				info["want"], info["got"] = trunc(want, 400), trunc(got, 400)
				c.Violate("roundtrip", "deserialized tape denotes a different document (or types/flags differ)", "roundtrip-doc", info)
				continue
			}
			// noasm build reads the same bytes
			if nb := noasm.ask(blob); nb != "" && nb != "ok "+want {
				info["noasm"] = trunc(nb, 300)
				c.Violate("roundtrip", "the noasm build deserializes the same bytes differently", "roundtrip-noasm", info)
			}
			if len(pj.Tape) > 6000 {
				continue
			}
			// model: wf of the result, faithful sections, model reconstruction = implementation's
			reqs = append(reqs, "reads "+stateArgs(pj2))
			pends = append(pends, pend{"wf", info, ""})
			if fr, perr := parseBlob(blob); perr == nil {
				tags, e1 := fr.Tags.decode()
				vals, e2 := fr.Vals.decode()
				msg, e3 := fr.Msg.decode()
				if e1 == nil && e2 == nil && e3 == nil {
					reqs = append(reqs, fmt.Sprintf("sercheck %s %s %s %s", stateArgs(pj), hexOrDash(tags), hexOrDash(vals), hexOrDash(msg)))
					pends = append(pends, pend{"sercheck", info, "1"})
					reqs = append(reqs, fmt.Sprintf("desercore %d %s %s", fr.Ts, hexOrDash(tags), hexOrDash(vals)))
					pends = append(pends, pend{"desercore", info, "ok " + tapeHex(pj2.Tape)})
				}
				if sm == simdjson.CompressNone {
					reqs = append(reqs, "deser "+hexOrDash(blob))
					pends = append(pends, pend{"deser", info, "ok " + tapeHex(pj2.Tape) + " " + hexOrDash(pj2.Strings.B) + " " + hexOrDash(pj2.Message)})
				}
			}
			reqs = append(reqs, "serround "+stateArgs(pj))
			pends = append(pends, pend{"serround", info, ""})
		}
	}
	ans := c.Or.Ask(reqs)
	for i, a := range ans {
		p := pends[i]
		switch p.what {
		case "wf":
			if !strings.Contains(a, " wfnop=1") {
				p.info["answer"] = trunc(a, 300)
				c.Violate("tape-format", "deserialized tape is not well-formed as documented", "deser-wf", p.info)
			}
		case "serround":
			if !strings.HasPrefix(a, "ok same=1 wfnop=1 check=1") {
				p.info["answer"] = a
				c.Violate("model", "model round trip (ser_core, deser_core) does not preserve the denotation: theorem C11_roundtrip would be false", "model-roundtrip", p.info)
			}
		default:
			if a != p.want {
				c.Ev.Coverage.ModelDisagreements++
				p.info["model"], p.info["impl"] = trunc(a, 600), trunc(p.want, 600)
				if len(c.Viol) < 5 {
					c.writeReplay("correspondence", "serializer correspondence broken ("+p.what+"); the round trip itself preserved the document", "correspondence Serialize.v ~ parsed_serialize.go ("+p.what+")", p.info, true)
				}
			}
		}
	}
}

func checkC11(c *Ctx) {
	c.Ev.Coverage.Rule = "tapes from Parse/ParseND, optionally edited in place (Set*, DeleteElems), including one beyond both 64 KiB flush blocks with 24000 strings (distinct + repeated) per run; every serializing CompressMode x a random deserializing mode, per-mode and shared Serializers switching modes, reused destination; checks: Deserialize succeeds, canonical document incl. number types and float flags equal, result passes wf_check, the noasm build reads the same bytes to the same document, the blob's sections are a faithful encoding per the model (ser_check, for any hash), the model's reconstruction of the tape from the sections equals the implementation's, the uncompressed framing model agrees byte for byte, and the model's own round trip (with a collision-rich hash) preserves the denotation; a reused Serializer on 120 k (short, short+suffix) string pairs after a call that left the longer string in its buffer (hash-bucket collisions 1 in 2^14); one tape with > 1 MiB of values and > 1 MiB of distinct strings in every mode, fresh and reused destination. non-trivial = completed round trip; distinct = by (modes, document)"
	c.serRoundTrips(c.N(700, 8000), "roundtrip")
	c.c11StaleStrings(c.N(120000, 1500000))
	c.c11HugeSections()
}

// ---- helper process built with -tags noasm ----
type noasmProc struct {
	cmd *exec.Cmd
	in  *bufio.Writer
	out *bufio.Reader
	ok  bool
}

func startNoasm(path string) *noasmProc {
	p := &noasmProc{}
	cmd := exec.Command(path)
	stdin, err1 := cmd.StdinPipe()
	stdout, err2 := cmd.StdoutPipe()
	if err1 != nil || err2 != nil || cmd.Start() != nil {
		return p
	}
	p.cmd, p.in, p.out, p.ok = cmd, bufio.NewWriterSize(stdin, 1<<20), bufio.NewReaderSize(stdout, 1<<20), true
	return p
}

func (p *noasmProc) ask(blob []byte) string {
	if !p.ok {
		return ""
	}
	fmt.Fprintf(p.in, "%x\n", blob)
	p.in.Flush()
	line, err := p.out.ReadString('\n')
	if err != nil {
		p.ok = false
		return ""
	}
	return strings.TrimRight(line, "\n")
}

func (p *noasmProc) close() {
	if p.cmd != nil {
		p.cmd.Process.Kill()
		p.cmd.Wait()
	}
}

var _ = bytes.Equal

// c11StaleStrings: one Serializer reused across calls; the second document
// indexes a string and then a longer string that starts with it.  The
// serializer's string buffer still holds the longer string from the first
// call right behind the shorter one, so a dedup probe that looked beyond the
// live part of the buffer (or trusted a stale table entry) would report a hit
// whenever the two strings share a hash bucket (1 in 2^14: the hash is seeded
// per process, so the stream simply runs enough pairs).
func (c *Ctx) c11StaleStrings(n int) {
	ser := simdjson.NewSerializer()
	ser.CompressMode(simdjson.CompressNone)
	des := simdjson.NewSerializer()
	var pa, pb, back *simdjson.ParsedJson
	var err error
	for i := 0; i < n; i++ {
		short := fmt.Sprintf("k%dq", i)
		if i%7 == 3 {
			short = ""
		}
		long := short + fmt.Sprintf("_ext%d", i%13)
		docA := []byte(`["` + long + `"]`)
		docB := []byte(`["` + short + `","` + long + `","tail"]`)
		if pa, err = simdjson.Parse(docA, pa); err != nil {
			return
		}
		ser.Serialize(nil, *pa)
		if pb, err = simdjson.Parse(docB, pb); err != nil {
			return
		}
		blob := ser.Serialize(nil, *pb)
		var e2 error
		back, e2 = des.Deserialize(blob, back)
		c.Ev.Count("stale-string-buffer", []byte(docB), true)
		got := ""
		if e2 == nil {
			it := back.Iter()
			if a, err := it.MarshalJSON(); err == nil {
				got = string(a)
			}
		}
		if got != string(docB) {
			c.Violate("roundtrip", "a reused Serializer returned a different document (string dedup probe against a stale part of its string buffer)", "ser-stale-strings",
				map[string]interface{}{"first_doc": string(docA), "doc_text": string(docB), "got": trunc(got, 300), "error": fmt.Sprint(e2)})
			return
		}
	}
}

// c11HugeSections: one document whose values stream and whose string table both
// exceed 1 MiB (more than one block of the S2/zstd framing, far beyond the 64 KiB
// flush blocks), round-tripped in every serializing mode into a fresh and into a
// reused destination.  Judged by the canonical dump only (too large for the oracle).
func (c *Ctx) c11HugeSections() {
	var sb strings.Builder
	sb.WriteString("[")
	for i := 0; i < 150000; i++ {
		if i > 0 {
			sb.WriteString(",")
		}
		if i%5 < 2 {
			fmt.Fprintf(&sb, `"distinct-string-number-%07d"`, i)
		} else {
			fmt.Fprintf(&sb, "%d", int64(i)*7919-350000000)
		}
	}
	sb.WriteString("]")
	doc := []byte(sb.String())
	pj, err := simdjson.Parse(doc, nil)
	if err != nil {
		return
	}
	want, werr := dumpDoc(pj)
	if werr != nil {
		return
	}
	var dst *simdjson.ParsedJson
	for _, m := range compModes {
		s := simdjson.NewSerializer()
		s.CompressMode(m)
		blob, pan := safeSerialize(s, pj)
		c.Ev.Count("huge-sections", []byte(fmt.Sprint("huge", m)), true)
		info := map[string]interface{}{"doc_text": fmt.Sprintf("array of 150000 elements: 60000 distinct 30-byte strings and 90000 integers (%d bytes)", len(doc)), "mode": fmt.Sprint(m), "blob_len": len(blob)}
		if pan != "" {
			info["panic"] = pan
			c.Violate("roundtrip", "Serialize panicked on a large tape", "ser-huge-panic", info)
			continue
		}
		for round := 0; round < 2; round++ {
			back, e2, pan2 := safeDeserialize(simdjson.NewSerializer(), blob, dst)
			got := ""
			if e2 == nil && pan2 == "" {
				got, _ = dumpDoc(back)
				dst = back
			}
			if got != want {
				info["error"] = fmt.Sprint(e2, pan2)
				info["reused_destination"] = round == 1
				for k := 0; k < len(got) && k < len(want); k++ {
					if got[k] != want[k] {
						info["first_difference_at_dump_offset"] = k
						info["got_there"], info["want_there"] = trunc(got[k:], 80), trunc(want[k:], 80)
						break
					}
				}
				c.Violate("roundtrip", "a tape with more than 1 MiB of values and of strings does not round-trip", "ser-huge", info)
				break
			}
		}
	}
}
