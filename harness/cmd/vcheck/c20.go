package main

import (
	"sync/atomic"
	"encoding/hex"
	"bytes"
	"crypto/sha1"
	"fmt"
	"io"
	"os"
	"os/exec"
	"path/filepath"
	"runtime"
	"strconv"
	"strings"
	"sync"
	"time"

	simdjson "github.com/minio/simdjson-go"
)

func init() { checks["C20"] = checkC20 }

// one goroutine's work: a deterministic (seeded) sequence of operations on its
// own objects; returns a digest of everything it observed.
func c20Thread(seed uint64, nops int) string {
	r := NewRng(seed)
	h := sha1.New()
	var reuse *simdjson.ParsedJson
	ser := simdjson.NewSerializer()
	for k := 0; k < nops; k++ {
		switch r.Intn(8) {
		case 0, 1: // Parse small / large
			var doc []byte
			if r.Chance(1, 3) {
				doc = bigDoc(r, 1+r.Intn(3), 0)
				if r.Chance(1, 4) {
					// more index buffers than the ring has slots, into the reused object (whose own
					// index channel is then the one in use)
					doc = bigDoc(r, 18+r.Intn(8), 0)
				}
			} else {
				doc = genDoc(r, smallOpts(r))
			}
			if r.Chance(1, 4) {
				// a large document that stage 1 rejects at its very end (the pipeline's
				// failure hand-shake), parsed into the reused object; the object handed in
				// must be exactly as it was once the call has returned
				doc = bigDoc(r, 16+r.Intn(12), 0)
				if r.Bool() {
					doc = append(doc[:len(doc)-1], []byte(`,"ctl`+"\x01"+`"]`)...)
				} else {
					doc = append(doc, []byte(` "unterminated`)...)
				}
			}
			out := implParse(doc, false, r.Bool(), reuse)
			fmt.Fprintf(h, "P%v", out.Err)
			if !out.Err {
				d, _ := dumpDoc(out.PJ)
				io.WriteString(h, d)
				reuse = out.PJ
			} else if reuse != nil {
				// the object that was handed in is still the caller's once the call has
				// returned: use it as the destination of the next call straight away
				again := implParse(genDoc(r, smallOpts(r)), false, true, reuse)
				fmt.Fprintf(h, "A%v", again.Err)
				if !again.Err {
					d, _ := dumpDoc(again.PJ)
					io.WriteString(h, d)
					reuse = again.PJ
				}
			}
		case 2: // ParseND
			var sb strings.Builder
			for l := 0; l < 1+r.Intn(5); l++ {
				sb.Write(genDoc(r, &GenOpts{MaxDepth: 3, MaxFan: 3, TopFan: 4}))
				sb.WriteString("\n")
			}
			out := implParse([]byte(sb.String()), true, true, nil)
			fmt.Fprintf(h, "N%v", out.Err)
			if !out.Err {
				d, _ := ifaceDump(out.PJ)
				io.WriteString(h, d)
			}
		case 3: // Clone + edit
			if reuse != nil {
				var cl *simdjson.ParsedJson
				if r.Bool() {
					cl = reuse.Clone(nil)
				} else {
					var fresh simdjson.ParsedJson
					cl = reuse.Clone(&fresh)
				}
				hh := &history{pj: cl}
				c := &Ctx{}
				for e := 0; e < 1+r.Intn(4); e++ {
					if op := c.pickEdit(r, hh, r.Bool()); op != nil {
						it := iterAt(cl, op.K)
						safeApply(op, &it)
					}
				}
				d, _ := dumpDoc(cl)
				io.WriteString(h, "C"+d)
				m, _, _ := safeMarshal(cl.Iter())
				h.Write(m)
			}
		case 4, 5: // Serialize / Deserialize in all modes
			if reuse != nil {
				ser.CompressMode(compModes[r.Intn(4)])
				blob, pan := safeSerialize(ser, reuse)
				if pan == "" {
					// the serialized bytes themselves are part of what the goroutine observes: the
					// compressors come from package-level pools, and what another goroutine did with
					// its own Serializer must not change them
					h.Write(blob)
					ser.CompressMode(compModes[r.Intn(4)])
					// a damaged copy of the blob first (a failing decode must not disturb
					// the shared decoder pools other goroutines draw from)
					if r.Chance(1, 2) && len(blob) > 24 {
						bad := append([]byte{}, blob...)
						for f := 0; f < 1+r.Intn(3); f++ {
							bad[12+r.Intn(len(bad)-12)] ^= byte(1 + r.Intn(255))
						}
						if r.Chance(1, 4) {
							bad = bad[:12+r.Intn(len(bad)-12)]
						}
						var pjb *simdjson.ParsedJson
						var errb error = fmt.Errorf("skipped")
						panb := ""
						if !declaredTooBig(bad) {
							pjb, errb, panb = safeDeserialize(ser, bad, nil)
						}
						fmt.Fprintf(h, "X%v%v", errb != nil, panb != "")
						if errb == nil && panb == "" && pjb != nil {
							func() {
								defer func() { recover() }()
								d, _ := dumpDoc(pjb)
								io.WriteString(h, d)
							}()
						}
					}
					pj2, err, _ := safeDeserialize(ser, blob, nil)
					fmt.Fprintf(h, "S%v", err != nil)
					if err == nil {
						d, _ := dumpDoc(pj2)
						io.WriteString(h, d)
						// edit the deserialized document and read it back
						hh := &history{pj: pj2}
						cc := &Ctx{}
						for e := 0; e < 1+r.Intn(3); e++ {
							if op := cc.pickEdit(r, hh, false); op != nil {
								it := iterAt(pj2, op.K)
								safeApply(op, &it)
							}
						}
						if pos, perr := flatPositions(pj2, 400); perr == nil {
							for _, p := range pos {
								if p.IsValue && (p.Tag == simdjson.TagString || p.Tag == simdjson.TagInteger) {
									it := iterAt(pj2, p.K)
									it.SetString(fmt.Sprintf("edited-by-%d-%d", seed, k))
									break
								}
							}
						}
						runtime.Gosched()
						d2, _ := dumpDoc(pj2)
						io.WriteString(h, "E"+d2)
					}
				}
			}
		case 6: // MarshalJSON of strings full of control characters, a different one per goroutine
			ch := byte(1 + seed%6) // 0x01..0x06: none of them has a short escape
			raw := bytes.Repeat([]byte{'x', ch}, 40+r.Intn(40))
			doc := []byte(fmt.Sprintf(`{"k\u00%02x":["%s","plain"]}`, ch, strings.ReplaceAll(string(raw), string([]byte{ch}), fmt.Sprintf("\\u00%02x", ch))))
			out := implParse(doc, false, true, nil)
			fmt.Fprintf(h, "M%v", out.Err)
			if !out.Err {
				m, _, _ := safeMarshal(out.PJ.Iter())
				h.Write(m)
				runtime.Gosched()
				m2, _, _ := safeMarshal(out.PJ.Iter())
				h.Write(m2)
			}
		default: // ParseNDStream
			var sb strings.Builder
			for l := 0; l < 1+r.Intn(20); l++ {
				sb.Write(genDoc(r, &GenOpts{MaxDepth: 3, MaxFan: 3, TopFan: 4}))
				sb.WriteString("\n")
			}
			o := runStream(&fragReader{data: []byte(sb.String()), sizes: []int{1 + r.Intn(100)}, failAt: -1}, r.Intn(3), r)
			io.WriteString(h, "T"+o.docs+fmt.Sprint(o.finalErr))
		}
	}
	return fmt.Sprintf("%x", h.Sum(nil))
}

// c20Handoff: goroutine A parses a document and hands CLONES of it (made in the three
// ways the API offers) to goroutine B; A then goes on using the original (parses new
// documents into it, edits strings) while B edits, reads, marshals the clones and uses
// one as a Deserialize destination.  Original and clones are independent objects: both
// digests must equal the ones obtained when B finishes before A continues.
func c20Handoff(seed uint64, concurrent bool) (string, string) {
	r := NewRng(seed)
	docs := make([][]byte, 6)
	for i := range docs {
		docs[i] = []byte(fmt.Sprintf(`{"name":"%s-%d","list":["%s","b%d"],"n":%d,"s":"%s"}`, strPool[r.Intn(4)], i, strPool[r.Intn(6)], i, i, strings.Repeat("x", r.Intn(40))))
	}
	orig, err := simdjson.Parse(docs[0], nil)
	if err != nil {
		return "parse-error", ""
	}
	var fresh simdjson.ParsedJson
	earlier := orig.Clone(nil)
	clones := []*simdjson.ParsedJson{orig.Clone(nil), orig.Clone(&fresh), orig.Clone(earlier)}
	ser := simdjson.NewSerializer()
	blob := ser.Serialize(nil, *orig)
	bWork := func() string {
		h := sha1.New()
		for k, cl := range clones {
			for e := 0; e < 4; e++ {
				if pos, perr := flatPositions(cl, 200); perr == nil {
					for _, p := range pos {
						if p.IsValue && (p.Tag == simdjson.TagString || p.Tag == simdjson.TagInteger) {
							it := iterAt(cl, p.K)
							it.SetString(fmt.Sprintf("clone-%d-edit-%d-%s", k, e, strings.Repeat("y", 5*e)))
							break
						}
					}
				}
				d, _ := dumpDoc(cl)
				io.WriteString(h, d)
				runtime.Gosched()
			}
			if k == 2 {
				if back, err := simdjson.NewSerializer().Deserialize(blob, cl); err == nil {
					d, _ := dumpDoc(back)
					io.WriteString(h, "D"+d)
				}
			}
		}
		return fmt.Sprintf("%x", h.Sum(nil))
	}
	aWork := func() string {
		h := sha1.New()
		cur := orig
		for i := 1; i < len(docs); i++ {
			if pj, err := simdjson.Parse(docs[i], cur); err == nil {
				cur = pj
				it := iterAt(cur, 4)
				it.SetString(fmt.Sprintf("original-edit-%d", i))
				d, _ := dumpDoc(cur)
				io.WriteString(h, d)
			}
			runtime.Gosched()
		}
		return fmt.Sprintf("%x", h.Sum(nil))
	}
	if !concurrent {
		b := bWork()
		a := aWork()
		return a, b
	}
	var a, b string
	var wg sync.WaitGroup
	wg.Add(2)
	go func() { defer wg.Done(); a = aWork() }()
	go func() { defer wg.Done(); b = bWork() }()
	wg.Wait()
	return a, b
}

// c20first: the very first use of the package in a fresh process, made by many goroutines at
// once (lazily initialised package state — decoder, pools — must be ready for every one of
// them): args = hex blob, its expected dump, a document, goroutines.
func init() {
	if len(os.Args) >= 6 && os.Args[1] == "c20first" {
		blob, _ := hex.DecodeString(os.Args[2])
		want := os.Args[3]
		doc, _ := hex.DecodeString(os.Args[4])
		n, _ := strconv.Atoi(os.Args[5])
		runtime.GOMAXPROCS(16)
		var start sync.WaitGroup
		start.Add(1)
		var wg sync.WaitGroup
		var bad int32
		for i := 0; i < n; i++ {
			wg.Add(1)
			go func(i int) {
				defer wg.Done()
				start.Wait()
				if i%2 == 0 {
					s := simdjson.NewSerializer()
					pj, err := s.Deserialize(blob, nil)
					if err != nil {
						atomic.AddInt32(&bad, 1)
						return
					}
					if d, _ := dumpDoc(pj); d != want {
						atomic.AddInt32(&bad, 1)
					}
				} else {
					pj, err := simdjson.Parse(doc, nil)
					if err != nil {
						atomic.AddInt32(&bad, 1)
						return
					}
					if d, _ := dumpDoc(pj); d != want {
						atomic.AddInt32(&bad, 1)
					}
					s := simdjson.NewSerializer()
					s.CompressMode(simdjson.CompressBest)
					if back, err := s.Deserialize(s.Serialize(nil, *pj), nil); err != nil {
						atomic.AddInt32(&bad, 1)
					} else if d, _ := dumpDoc(back); d != want {
						atomic.AddInt32(&bad, 1)
					}
				}
			}(i)
		}
		start.Done()
		wg.Wait()
		fmt.Printf("DONE goroutines=%d mismatches=%d\n", n, bad)
		os.Exit(0)
	}
}

func init() {
	if len(os.Args) >= 5 && os.Args[1] == "c20work" {
		seed, _ := strconv.ParseUint(os.Args[2], 10, 64)
		n, _ := strconv.Atoi(os.Args[3])
		nops, _ := strconv.Atoi(os.Args[4])
		procs := 0
		if len(os.Args) >= 6 {
			procs, _ = strconv.Atoi(os.Args[5])
		}
		if procs > 0 {
			runtime.GOMAXPROCS(procs)
		}
		// sequential reference first
		want := make([]string, n)
		for i := 0; i < n; i++ {
			want[i] = c20Thread(seed*1000+uint64(i), nops)
		}
		got := make([]string, n)
		var wg sync.WaitGroup
		for i := 0; i < n; i++ {
			wg.Add(1)
			go func(i int) {
				defer wg.Done()
				got[i] = c20Thread(seed*1000+uint64(i), nops)
			}(i)
		}
		wg.Wait()
		bad := 0
		for i := range got {
			if got[i] != want[i] {
				fmt.Printf("MISMATCH goroutine=%d seed=%d\n", i, seed*1000+uint64(i))
				bad++
			}
		}
		// clones handed to another goroutine while the original stays in use
		for k := 0; k < 20; k++ {
			wa, wb := c20Handoff(seed*77+uint64(k), false)
			ga, gb := c20Handoff(seed*77+uint64(k), true)
			if wa != ga || wb != gb {
				fmt.Printf("MISMATCH clone-handoff seed=%d\n", seed*77+uint64(k))
				bad++
			}
		}
		fmt.Printf("DONE goroutines=%d ops=%d mismatches=%d\n", n, nops, bad)
		os.Exit(0)
	}
}

func checkC20(c *Ctx) {
	c.Ev.Coverage.Rule = "a harness binary built with the Go race detector (-race) runs N goroutines (2, 8, 32, 64), each a seeded random sequence (digest of everything observed, serialized bytes included) of Parse (both sides of the 8 KiB threshold, with per-goroutine reuse), ParseND, ParseNDStream, traversal, Clone+edit+marshal, Serialize/Deserialize in all modes on its OWN objects, under GOMAXPROCS 1..16; each goroutine's digest of everything it observed is compared with the same sequence run alone; plus clone hand-offs: clones made with Clone(nil)/Clone(&zero)/Clone(earlier clone) are edited, read and deserialized into by a second goroutine while the first keeps parsing into and editing the original; the first use of the package in a fresh process made by 16 goroutines at once (25 processes); any race-detector report or digest mismatch is a violation. non-trivial = concurrent run completed; distinct = by (seed, N, GOMAXPROCS)"
	race := filepath.Join(c.Verif, "build", "vcheck_race")
	if _, err := os.Stat(race); err != nil {
		c.Ev.Note("race-enabled harness binary missing: " + err.Error())
		c.Violate("infrastructure", "cannot run the race-detector build", "c20-norace", map[string]interface{}{})
		return
	}
	// first use of the package in a fresh process by 16 goroutines at once
	{
		doc := []byte(`{"a":["first","use"],"b":{"c":1.5,"d":[true,null,"` + strings.Repeat("z", 300) + `"]}}`)
		if out := implParse(doc, false, true, nil); !out.Err {
			want, _ := dumpDoc(out.PJ)
			ser := simdjson.NewSerializer()
			ser.CompressMode(simdjson.CompressBest)
			blob := ser.Serialize(nil, *out.PJ)
			for k := 0; k < c.N(25, 200); k++ {
				cmd := exec.Command(race, "c20first", fmt.Sprintf("%x", blob), want, fmt.Sprintf("%x", doc), "16")
				cmd.Env = append(os.Environ(), "GORACE=halt_on_error=0 exitcode=0")
				var ob, eb bytes.Buffer
				cmd.Stdout, cmd.Stderr = &ob, &eb
				err := cmd.Run()
				c.Ev.Count("first-use-concurrently", []byte(fmt.Sprint(k)), true)
				info := map[string]interface{}{"history": "16 goroutines make the first NewSerializer/Deserialize/Parse calls of a fresh process at once", "stdout": trunc(ob.String(), 300), "stderr": trunc(eb.String(), 1500), "error": fmt.Sprint(err)}
				if strings.Contains(eb.String(), "DATA RACE") {
					c.Violate("race", "the race detector reported a data race during the first concurrent use of the package", "c20-first-race", info)
					break
				}
				if err != nil || !strings.Contains(ob.String(), "mismatches=0") {
					c.Violate("crash", "the first concurrent use of the package in a fresh process crashed or gave wrong results", "c20-first-crash", info)
					break
				}
			}
		}
	}
	type cfg struct{ n, nops, procs int }
	cfgs := []cfg{{2, 30, 2}, {8, 20, 4}, {32, 10, 16}, {64, 6, 16}, {8, 20, 1}, {16, 12, 2}}
	rounds := c.N(2, 12)
	for rd := 0; rd < rounds; rd++ {
		for _, cf := range cfgs {
			seed := c.Seed*100 + uint64(rd)
			cmd := exec.Command(race, "c20work", fmt.Sprint(seed), fmt.Sprint(cf.n), fmt.Sprint(cf.nops), fmt.Sprint(cf.procs))
			cmd.Env = append(os.Environ(), "GORACE=halt_on_error=0 exitcode=0")
			var out, errb bytes.Buffer
			cmd.Stdout = &out
			cmd.Stderr = &errb
			done := make(chan error, 1)
			go func() { done <- cmd.Run() }()
			var err error
			select {
			case err = <-done:
			case <-time.After(300 * time.Second):
				cmd.Process.Kill()
				c.Violate("hang", "concurrent workload did not finish within 300 s", "c20-hang", map[string]interface{}{"seed": seed, "goroutines": cf.n, "gomaxprocs": cf.procs})
				continue
			}
			info := map[string]interface{}{"history": fmt.Sprintf("seed=%d goroutines=%d ops=%d gomaxprocs=%d", seed, cf.n, cf.nops, cf.procs), "stdout": trunc(out.String(), 600), "stderr": trunc(errb.String(), 1500)}
			c.Ev.Count("concurrent-run", []byte(fmt.Sprint(seed, cf)), true)
			c.Ev.Dist(fmt.Sprintf("goroutines:%d", cf.n))
			if strings.Contains(errb.String(), "DATA RACE") {
				c.Violate("race", "the race detector reported a data race", "c20-race", info)
				continue
			}
			if err != nil || !strings.Contains(out.String(), "DONE") {
				info["error"] = fmt.Sprint(err)
				c.Violate("crash", "concurrent workload crashed", "c20-crash", info)
				continue
			}
			if !strings.Contains(out.String(), "mismatches=0") {
				c.Violate("interference", "a goroutine observed different results than when running alone", "c20-mismatch", info)
			}
			c.Ev.Sample(map[string]interface{}{"seed": seed, "goroutines": cf.n, "gomaxprocs": cf.procs, "result": strings.TrimSpace(out.String())})
		}
	}
}
