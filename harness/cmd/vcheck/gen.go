package main

import (
	"bytes"
	"fmt"
	"strings"

	simdjson "github.com/minio/simdjson-go"
)

// grammar-directed generator of JSON texts with random insignificant white space

type GenOpts struct {
	MaxDepth int
	MaxFan   int // fan-out below the top level
	TopFan   int // fan-out at the top level
	WS       int // probability (per 16) of white space between tokens
	NoDupKey bool
}

var wsPool = []string{" ", "\n", "\t", "\r\n", "  ", " \n ", "\r", "        "}

func genWS(r *Rng, o *GenOpts) string {
	if o.WS > 0 && r.Intn(16) < o.WS {
		return wsPool[r.Intn(len(wsPool))]
	}
	return ""
}

var numPool = []string{"0", "-0", "1", "-1", "7", "42", "-17", "1234567890", "9223372036854775807", "9223372036854775808",
	"-9223372036854775808", "-9223372036854775809", "18446744073709551615", "18446744073709551616", "99999999999999999999",
	"100000000000000000000", "-100000000000000000000", "0.5", "-0.5", "1.5", "3.141592653589793", "1e10", "1E10", "1e+10", "1e-10",
	"2.5e-3", "-2.5E+3", "0.0", "-0.0", "0e0", "1e308", "1.7976931348623157e308", "4.9e-324", "5e-324", "2.2250738585072014e-308",
	"1e-400", "123456789012345678901234567890", "0.1", "0.2", "0.30000000000000004", "1e21", "1e-7", "123e45", "1.0", "10.01e1",
	"12345678901234567890", "1e0", "-1e-0", "0.000001", "1000000000000000000000"}

func genNumber(r *Rng) string {
	switch r.Intn(6) {
	case 0:
		return fmt.Sprintf("%d", int64(r.U64()))
	case 1:
		return fmt.Sprintf("%d", r.U64())
	case 2:
		return fmt.Sprintf("%d.%d", r.Intn(1000), r.Intn(100000))
	case 3:
		return fmt.Sprintf("%d.%de%d", r.Intn(10), r.Intn(1000000), r.Intn(600)-300)
	default:
		return numPool[r.Intn(len(numPool))]
	}
}

var strPool = []string{``, `a`, `key`, `hello world`, `with \"quotes\"`, `back\\slash`, `tab\there`, `nl\nnl`, `Aé€`, `😀`,
	`é€😀`, `a/b\/c`, `\b\f\r`, `{not:\"json\"}`, `[1,2,3]`, `: , { } [ ]`, `ends with backslash \\`, `\\\"`, `0123456789012345678901234567890123456789`,
	`x`, `yy`, `zzz`, `The quick brown fox jumps over the lazy dog and keeps running for a while longer than sixty-four bytes.`, `\u0000`, `\u001f`, ` `, `  spaces  `, `true`, `null`, `123`}

func genStringBody(r *Rng) string {
	if r.Chance(1, 6) {
		n := r.Intn(200)
		var b strings.Builder
		for b.Len() < n {
			b.WriteString(strPool[r.Intn(len(strPool))])
		}
		return b.String()
	}
	return strPool[r.Intn(len(strPool))]
}

func genKey(r *Rng, i int, o *GenOpts) string {
	if o.NoDupKey {
		return fmt.Sprintf("k%d%s", i, strPool[r.Intn(4)])
	}
	if r.Chance(1, 3) {
		return strPool[r.Intn(len(strPool))]
	}
	return fmt.Sprintf("k%d", r.Intn(6))
}

func genValue(r *Rng, b *strings.Builder, depth int, o *GenOpts) {
	k := r.Intn(10)
	if depth >= o.MaxDepth && k >= 6 {
		k = r.Intn(6)
	}
	switch k {
	case 0:
		b.WriteString("null")
	case 1:
		b.WriteString("true")
	case 2:
		b.WriteString("false")
	case 3, 4:
		b.WriteString(genNumber(r))
	case 5:
		b.WriteByte('"')
		b.WriteString(genStringBody(r))
		b.WriteByte('"')
	case 6, 7:
		genArray(r, b, depth+1, o, o.MaxFan)
	default:
		genObject(r, b, depth+1, o, o.MaxFan)
	}
}

func genArray(r *Rng, b *strings.Builder, depth int, o *GenOpts, fan int) {
	b.WriteByte('[')
	b.WriteString(genWS(r, o))
	n := r.Intn(fan + 1)
	for i := 0; i < n; i++ {
		if i > 0 {
			b.WriteString(genWS(r, o))
			b.WriteByte(',')
			b.WriteString(genWS(r, o))
		}
		genValue(r, b, depth, o)
	}
	b.WriteString(genWS(r, o))
	b.WriteByte(']')
}

func genObject(r *Rng, b *strings.Builder, depth int, o *GenOpts, fan int) {
	b.WriteByte('{')
	b.WriteString(genWS(r, o))
	n := r.Intn(fan + 1)
	for i := 0; i < n; i++ {
		if i > 0 {
			b.WriteString(genWS(r, o))
			b.WriteByte(',')
			b.WriteString(genWS(r, o))
		}
		b.WriteByte('"')
		b.WriteString(genKey(r, i, o))
		b.WriteByte('"')
		b.WriteString(genWS(r, o))
		b.WriteByte(':')
		b.WriteString(genWS(r, o))
		genValue(r, b, depth, o)
	}
	b.WriteString(genWS(r, o))
	b.WriteByte('}')
}

// genDoc returns a valid JSON text with a container at the root.
func genDoc(r *Rng, o *GenOpts) []byte {
	var b strings.Builder
	b.WriteString(genWS(r, o))
	if r.Bool() {
		genArray(r, &b, 1, o, o.TopFan)
	} else {
		genObject(r, &b, 1, o, o.TopFan)
	}
	b.WriteString(genWS(r, o))
	return []byte(b.String())
}

func smallOpts(r *Rng) *GenOpts {
	return &GenOpts{MaxDepth: 1 + r.Intn(5), MaxFan: 1 + r.Intn(5), TopFan: 1 + r.Intn(8), WS: r.Intn(9)}
}

// mutate applies one byte-level mutation at a random position, biased to
// token boundaries (positions next to structural characters and quotes).
func mutate(r *Rng, doc []byte) []byte {
	if len(doc) == 0 {
		return []byte{byte(r.Intn(256))}
	}
	pos := r.Intn(len(doc))
	for tries := 0; tries < 4; tries++ {
		p := r.Intn(len(doc))
		if strings.IndexByte(`{}[],:" tfn-0123456789\`, doc[p]) >= 0 {
			pos = p
			break
		}
	}
	interesting := []byte{'{', '}', '[', ']', ',', ':', '"', '\\', ' ', '\n', 0, 0x1f, 0x7f, 0x80, 0xff, '0', '1', '-', '+', '.', 'e', 'E', 't', 'f', 'n', 'u', 'a', '/'}
	pick := func() byte {
		if r.Chance(3, 4) {
			return interesting[r.Intn(len(interesting))]
		}
		return byte(r.Intn(256))
	}
	out := make([]byte, 0, len(doc)+1)
	switch r.Intn(4) {
	case 0: // substitute
		out = append(out, doc...)
		out[pos] = pick()
	case 1: // insert
		out = append(out, doc[:pos]...)
		out = append(out, pick())
		out = append(out, doc[pos:]...)
	case 2: // delete
		out = append(out, doc[:pos]...)
		out = append(out, doc[pos+1:]...)
	default: // truncate
		out = append(out, doc[:pos]...)
	}
	return out
}

// bigUnbalanced: documents above the sync/async threshold whose only defect is
// a missing / extra bracket (the last structural is still } or ], so stage 1
// lets them through and only the scope bookkeeping of stage 2 can reject them),
// plus a few general mutations of the same big documents.
func bigUnbalanced(r *Rng, n int) [][]byte {
	var out [][]byte
	for i := 0; i < n; i++ {
		doc := bigDoc(r, 1+r.Intn(3), 0)
		s := string(doc)
		switch i % 6 {
		case 0: // outermost closer removed: "[ ... ]]" -> inner value closes last
			out = append(out, []byte("["+s[:len(s)-1]+",[1]"))
		case 1:
			out = append(out, []byte(`{"rows":`+s))
		case 2:
			out = append(out, []byte("[["+s+"]"))
		case 3:
			out = append(out, []byte(s+"]"))
		case 4:
			out = append(out, []byte(`{"a":{"b":`+s+"}"))
		default:
			out = append(out, mutate(r, doc))
		}
	}
	return out
}

// denseThenTail: an index buffer filled exactly at a 64-byte block boundary whose
// last index is not markup (it is stripped and carried), followed by more than
// 64 bytes without any structural character up to the end of the input.
func denseThenTail(r *Rng) [][]byte {
	var out [][]byte
	for _, mult := range []int{1, 2, 3} {
		for d := -2; d <= 2; d++ {
			k := (T_INDEX*mult)/2 - 1 + d // "[" + "1,"*k : 1 + 2k structurals; k=703 -> the next token starts entry 1408
			for _, tl := range []int{63, 65, 100, 129, 300} {
				for _, tail := range []string{"7", "a", " "} {
					body := "[" + strings.Repeat("1,", k) + strings.Repeat(tail, tl)
					out = append(out, []byte(body))
					out = append(out, []byte(body+"]"))
					if tail == " " {
						out = append(out, []byte(body+"1"))
					}
				}
			}
		}
	}
	// the same behind a long prefix, so that the message is above the async threshold
	pre := "[" + strings.Repeat(`"`+strings.Repeat("x", 60)+`",`, 140)
	for d := -1; d <= 1; d++ {
		k := T_INDEX/2 - 1 + d - 140
		if k > 0 {
			out = append(out, []byte(pre+strings.Repeat("1,", k)+strings.Repeat("7", 200)))
		}
	}
	_ = r
	return out
}

// earlyErrorDocs: the only defect is a raw control character inside a string
// that lies in the FIRST (or a middle) index buffer of a message needing
// several; everything after it is valid.  (Stage 2 does not look at string
// bytes below 0x20: stage 1's accumulated error flag is what rejects these.)
func earlyErrorDocs() (single [][]byte, nd [][]byte) {
	for _, ctl := range []byte{0x01, 0x1f, '\n', '\t', 0x00} {
		for _, n := range []int{800, 1500, 3000, 6000} {
			bad := `"a` + string([]byte{ctl}) + `b"`
			single = append(single, []byte("["+bad+strings.Repeat(",1", n)+"]"))
			single = append(single, []byte("["+strings.Repeat("1,", n)+bad+strings.Repeat(",1", n)+"]"))
			single = append(single, []byte(`{"k":`+bad+`,"v":[`+strings.Repeat("[],", n)+`0]}`))
			var b strings.Builder
			b.WriteString(`{"a":"x` + string([]byte{ctl}) + `y"}` + "\n")
			for i := 0; i < n/2; i++ {
				b.WriteString(`{"k":1}` + "\n")
			}
			nd = append(nd, []byte(b.String()))
			var m strings.Builder
			for i := 0; i < n/2; i++ {
				m.WriteString(`{"k":1}` + "\n")
			}
			nd = append(nd, []byte(m.String()+`{"a":"x`+string([]byte{ctl})+`y"}`+"\n"+m.String()))
		}
	}
	return
}

// longStringDocs: documents in which strings and keys are already stored when a
// much longer string arrives (so that the unescaped-string buffer has to grow
// by more than doubling), in copy mode and — through an escape — in no-copy
// mode; the long string first, in the middle and last.
func longStringDocs(r *Rng) [][]byte {
	var out [][]byte
	for _, L := range []int{60, 100, 130, 200, 257, 300, 513, 1000, 2500, 9000} {
		for _, esc := range []string{"", `\n`, `é`} {
			long := strings.Repeat("abcdefghij", L/10+1)[:L] + esc
			pre := `"id":"x` + esc + `y","kind":"` + strPool[r.Intn(8)] + `",`
			out = append(out, []byte(`{`+pre+`"payload":"`+long+`","ok":true}`))
			out = append(out, []byte(`{`+pre+`"payload":"`+long+`","after":"z","n":[1,"two"]}`))
			out = append(out, []byte(`["a`+esc+`","bb",["`+long+`"],"tail"]`))
			out = append(out, []byte(`{"`+long+`":"v","k":"`+long+long+`"}`))
		}
	}
	return out
}

// truncatedObjects: big objects of string / number members cut at every
// alignment inside a member (after the colon, inside the value, after the
// comma): stage 1 rejects them at the very end while stage 2 has consumed
// everything it was given
func truncatedObjects(r *Rng, n int) [][]byte {
	var out [][]byte
	for i := 0; i < n; i++ {
		var b strings.Builder
		b.WriteString(strings.Repeat(" ", 0))
		b.WriteString("{")
		for k := 0; b.Len() < 9000+r.Intn(40000); k++ {
			if k > 0 {
				b.WriteString(",")
			}
			if i%3 == 0 {
				fmt.Fprintf(&b, `"k%05d":%d`, k, r.Intn(100000))
			} else {
				fmt.Fprintf(&b, `"k%05d":"vvvv"`, k)
			}
		}
		s := b.String()
		cut := len(s) - r.Intn(40)
		pad := strings.Repeat(" ", r.Intn(64))
		out = append(out, []byte("{"+pad+s[1:cut]))
	}
	return out
}

// handoverBoundary: the 64-byte block boundary at which stage 1 handed over its nth index
// buffer for msg (found by running stage 1 alone; used to place inputs, never to judge them).
func handoverBoundary(msg []byte, nd bool, nth int) int {
	bufs, _ := simdjson.VerifStage1(append([]byte{}, msg...), nd)
	if len(bufs) <= nth+1 {
		return -1
	}
	pos := -1
	for k := 0; k <= nth; k++ {
		for _, inc := range bufs[k] {
			pos += int(inc)
		}
	}
	return (pos/64 + 1) * 64
}

// handoverEscapeDocs: an escape sequence whose backslash is the last byte of the 64-byte
// block after which stage 1 hands over a full index buffer (first and second hand-over) and
// whose escaped character opens the next block — the carry "previous block ended in an odd
// backslash run" has to survive the hand-over. Prefixes of several structural densities
// and alignments; the escape also one byte early and late. nd = newline-delimited lines.
func handoverEscapeDocs(nd bool, leads []int) [][]byte {
	units := []string{"1,", "12,", "0, ", `"a",`, "[],"}
	head := "["
	if nd {
		units = []string{"{\"a\":1}\n", "[1]\n", "[1,2]\n", "{\"a\":\"b\"}\n", "{\"a\":1} \n"}
		head = ""
	}
	var out [][]byte
	for _, u := range units {
		for _, lead := range leads {
			P := []byte(head + strings.Repeat(" ", lead) + strings.Repeat(u, 3200))
			for nth := 0; nth < 2; nth++ {
				B := handoverBoundary(P, nd, nth)
				if B < 0 {
					continue
				}
				for _, k := range []int{0, 2, 5} {
					q := len(head) + lead
					for q+len(u) <= B-3-k {
						q += len(u)
					}
					pre := append([]byte{}, P[:q]...)
					open := 0
					if nd {
						open = 1 // the string sits in an array: ["...."]
					}
					for len(pre) < B-2-k-open {
						pre = append(pre, ' ')
					}
					if nd {
						pre = append(pre, '[')
					}
					probe := append(append(append([]byte{}, pre...), '"'), bytes.Repeat([]byte{'x'}, k+1)...)
					if nd {
						probe = append(probe, '"', ']', '\n')
					} else {
						probe = append(probe, '"', ',')
					}
					probe = append(probe, P[q:]...)
					if handoverBoundary(probe, nd, nth) != B {
						continue // the string moved the fill into another block
					}
					for _, esc := range []string{`\"z"`, `\\"`, `\n\\\"q"`} {
						for shift := -1; shift <= 1; shift++ {
							b := append([]byte{}, pre...)
							for j := 0; j < shift; j++ {
								b = append(b, ' ')
							}
							b = append(b, '"')
							for len(b) < B-1+shift {
								b = append(b, 'x')
							}
							b = append(b, esc...)
							if nd {
								b = append(b, ']', '\n')
								b = append(b, strings.Repeat(u, 40)...)
								b = append(b, "[\"t\\\"u\"]\n"...)
							} else {
								// more than 64 bytes must follow, or the tail is processed in the same round
								b = append(b, `,"t\"u"`+strings.Repeat(", 0", 50)+"]"...)
							}
							out = append(out, b)
						}
					}
				}
			}
		}
	}
	return out
}

// handoverStraddleDocs: a value laid across the 64-byte block boundary after which stage 1
// hands over a full index buffer, cut at every byte: literals, numbers, strings (plain and
// with escapes), small containers.  Every piece of state stage 1 carries from block to block
// (inside-a-string, odd backslash run, "previous byte was white space or structural", the
// pending distance of the flattener, the stripped last index) has to survive the hand-over.
func handoverStraddleDocs(nd bool, leads []int) [][]byte {
	units := []string{"1,", "0, ", `"a",`, "[],", "12,"}
	head := "["
	if nd {
		units = []string{"{\"a\":1}\n", "[1]\n", "[1,2]\n", "{\"a\":\"b\"}\n", "{\"a\":1} \n"}
		head = ""
	}
	payloads := []string{"true", "false", "null", "-12.5e3", `"abcdefgh"`, `"a\"b\\"`, "[1,2]", `{"k":"v"}`, `""`, "0"}
	var out [][]byte
	for ui, u := range units {
		for li, lead := range leads {
			P := []byte(head + strings.Repeat(" ", lead) + strings.Repeat(u, 3200))
			nth := (ui + li) % 2
			B := handoverBoundary(P, nd, nth)
			if B < 0 {
				continue
			}
			for _, pl := range payloads {
				for cut := 0; cut <= len(pl); cut++ {
					open := 0
					if nd {
						open = 1
					}
					start := B - cut // the payload's byte number cut sits at B
					q := len(head) + lead
					for q+len(u) <= start-open {
						q += len(u)
					}
					b := append([]byte{}, P[:q]...)
					for len(b) < start-open {
						b = append(b, ' ')
					}
					if nd {
						b = append(b, '[')
					}
					b = append(b, pl...)
					if nd {
						b = append(b, ']', '\n')
						b = append(b, strings.Repeat(u, 40)...)
					} else {
						b = append(b, strings.Repeat(", 0", 40)+"]"...)
					}
					// keep it only if the hand-over still happens at B
					if handoverBoundary(append(append([]byte{}, b...), P[:len(P)/2]...), nd, nth) != B && handoverBoundary(b, nd, nth) != B {
						continue
					}
					out = append(out, b)
				}
			}
		}
	}
	return out
}

// overfullLastBufferDocs: maximally dense documents above 8 KiB whose LAST index buffer holds
// more than 1408+64 entries: a string first, so that the dense run's index count is not a
// multiple of 64 at the block boundaries — the fill limit is then overshot by up to 63, and
// with at most 64 bytes of input left the padded tail call adds its indexes to the same
// buffer (up to 1535).  Found by running stage 1 alone over one period of alignments.
func overfullLastBufferDocs() [][]byte {
	var out [][]byte
	for _, pad := range []int{1, 7, 20, 33, 50, 62} {
		got := 0
		for n := 0; n < 760 && got < 7; n++ {
			doc := []byte(`["` + strings.Repeat("a", 8200+pad) + `",` + strings.Repeat("1,", 700+n) + "1]")
			bufs, _ := simdjson.VerifStage1(append([]byte{}, doc...), false)
			if len(bufs) > 0 && len(bufs[len(bufs)-1]) > 1408+64+(got%2)*30 {
				out = append(out, doc)
				got++
			}
		}
	}
	return out
}
