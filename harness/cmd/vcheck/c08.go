package main

import (
	"strings"
)

func init() { checks["C08"] = checkC08 }

func checkC08(c *Ctx) {
	r := c.Rng
	c.Ev.Coverage.Rule = "line sequences drawn from pools {valid documents, invalid documents, blank, blanks with spaces/tabs/CR, two documents on one line, a document split over two lines, scalar-only line}, 1..50 lines (up to 3000 in the boundary sweep so that root boundaries fall on index-buffer boundaries), LF and CRLF endings, with and without final newline; inputs of 2 kB..70 kB whose last line is the bad one (open or over-closed scopes ending in } or ]); the line feed at every offset of a 64-byte block that holds nothing but white space (spaces/tabs/CR), between whole documents and between two halves of one; ParseND in 4 configurations vs the Coq specification nd_spec (split at LF, drop blank lines, every other line must satisfy spec_parse, documents in order, one per root) and vs the extracted model; non-trivial = compared in claim; distinct = by input bytes"
	flags := ChkVerdict | ChkDump | ChkModel | ChkKernels | ChkCopyModes | ChkNoPanic
	var batch []PCase
	flush := func() {
		c.CompareParse(batch, flags, 40000, nil)
		batch = batch[:0]
	}
	add := func(stream string, doc []byte) {
		batch = append(batch, PCase{Doc: doc, Stream: stream, ND: true})
		if len(batch) >= 3000 {
			flush()
		}
	}
	valid := func() string {
		return string(genDoc(r, &GenOpts{MaxDepth: 3, MaxFan: 3, TopFan: 4, WS: 0}))
	}
	invalid := []string{`{"a":}`, `[1,]`, `{"a" 1}`, `tru`, `[1 2]`, `{"a":1`, `]`, `"str"`, `1`, `nul`, `[01]`, `["a\qb"]`, `{"a":1}}`, `[[]`}
	blanks := []string{"", " ", "\t", "  \t ", "\r", " \r"}
	n := c.N(6000, 60000)
	for i := 0; i < n; i++ {
		nl := 1 + r.Intn(6)
		if i%50 == 0 {
			nl = 10 + r.Intn(40)
		}
		eol := "\n"
		if r.Chance(1, 4) {
			eol = "\r\n"
		}
		var lines []string
		bad := r.Chance(1, 3)
		for l := 0; l < nl; l++ {
			switch x := r.Intn(12); {
			case x < 6:
				lines = append(lines, valid())
			case x < 8:
				lines = append(lines, blanks[r.Intn(len(blanks))])
			case x == 8 && bad:
				lines = append(lines, invalid[r.Intn(len(invalid))])
			case x == 9 && bad:
				lines = append(lines, valid()+" "+valid()) // two documents on one line
			case x == 10 && bad:
				v := valid()
				if len(v) > 3 {
					cut := 1 + r.Intn(len(v)-2)
					lines = append(lines, v[:cut], v[cut:]) // a document spanning lines
				}
			default:
				lines = append(lines, " "+valid()+"  ")
			}
		}
		s := strings.Join(lines, eol)
		if r.Bool() {
			s += eol
		}
		if r.Chance(1, 10) {
			s = eol + eol + s
		}
		add("lines", []byte(s))
	}
	// root boundaries on every buffer boundary: many small documents
	for _, k := range []int{T_INDEX/3 - 1, T_INDEX / 3, T_INDEX/3 + 1, T_INDEX / 2, 2 * T_INDEX / 3, T_INDEX, 2*T_INDEX + 1} {
		for _, lineDoc := range []string{"{}", "[]", `{"a":1}`, `[1]`} {
			for _, sep := range []string{"\n", "\r\n", "\n\n"} {
				add("many-roots", []byte(strings.Repeat(lineDoc+sep, k)))
				add("many-roots-nofinal", []byte(strings.TrimRight(strings.Repeat(lineDoc+sep, k), "\r\n")))
			}
		}
		add("many-roots-bad", []byte(strings.Repeat("{}\n", k)+"{]\n"+strings.Repeat("{}\n", 5)))
	}
	// one bad line (a raw control character / LF inside a string) at the start or in the
	// middle of many good ones: several index buffers follow it
	{
		_, nds := earlyErrorDocs()
		for _, d := range nds {
			add("bad-line-early", d)
		}
		for _, k := range []int{T_INDEX, 2 * T_INDEX} {
			add("bad-line-first", []byte("{]\n"+strings.Repeat("{}\n", k)))
			add("bad-line-first", []byte("{} {}\n"+strings.Repeat("{}\n", k)))
		}
	}
	// maximally dense endings: tiny documents and runs of blank lines (every LF is a
	// structural) so that the last index buffer is filled to the brim by the final blocks
	for k := 440; k <= 560; k += 4 {
		for _, m := range []int{0, 60, 100, 126, 130, 190} {
			lead := `{"k":"` + strings.Repeat("x", 62-k%7) + `"}` + "\n\n"
			add("dense-tail", []byte(lead+strings.Repeat("{}\n", k)+strings.Repeat("\n", m)+"{}"))
			add("dense-tail", []byte(strings.Repeat("[]\n", k)+strings.Repeat("\n", m)+"[1]\n"))
		}
	}
	// newline inside a string is not a delimiter (and is a control character)
	// an invalid line whose only defect is a byte glued to a closing quote, with that quote at
	// every offset of a 64-byte block (the "previous byte may precede a value" carry between
	// blocks must include quotes)
	for pad := 0; pad < 130; pad++ {
		for _, bad := range []string{`{"k":"v"x}`, `["ab"1]`, `{"k":"v"true}`} {
			first := `{"p":"` + strings.Repeat("q", pad) + `"}`
			add("junk-after-quote", []byte(first+"\n"+bad+"\n[1]\n"))
			add("junk-after-quote", []byte(first+"\n[2]\n"+bad))
		}
	}
	// a line holding a long string (384..1300 bytes, with and without escapes) that ends within
	// 64 bytes of the end of the line: first, in the middle, last (the padded-copy path of the
	// string parser is only taken at the very end of the input), LF/CRLF, trailing blank lines
	for n := 380; n <= 1300; n += 23 {
		for _, body := range []string{strings.Repeat("s", n), strings.Repeat("s", n/2) + `\"q\\` + strings.Repeat("t", n/2)} {
			long := `{"k":[1,"` + body + `"]}`
			for _, eol := range []string{"\n", "\r\n"} {
				add("long-string-line", []byte(long+eol+"[1]"+eol))
				add("long-string-line", []byte("[1]"+eol+long))
				add("long-string-line", []byte("{}"+eol+long+eol+"[2]"+eol+long+eol+eol))
			}
		}
	}
	// inputs on both sides of the 8 KiB threshold whose LAST line is the bad one — among them
	// lines that leave a scope open or close one too many yet end in } or ] (stage 1's end check
	// passes; only stage 2's bookkeeping at the end of the input can reject them)
	for _, bad := range []string{`{"a":{"b":1}`, `[[1,2]`, `{"a":[{"b":null}]`, `[1,2]]`, `{"a":1}}`, `[{"a":1}`, `{"a":[1,2}`, `{"a":1`, `[1,2`, `{"a":tru}`, `[falsey]`, `{"a":false1}`, `[truex]`, `{"a":nullx}`, `[false.]`, `[1,falsE]`} {
		for _, size := range []int{0, 2000, 8100, 8300, 9000, 20000, 70000} {
			for _, tail := range []string{"", "\n", "\r\n", "\n\n"} {
				var sb strings.Builder
				for sb.Len() < size {
					sb.WriteString(valid())
					sb.WriteString("\n")
				}
				sb.WriteString(bad)
				sb.WriteString(tail)
				add("bad-last-line", []byte(sb.String()))
			}
		}
	}
	// lines laid across the block boundary at which a full index buffer is handed over
	for _, d := range handoverStraddleDocs(true, []int{0, 45}) {
		add("value-across-index-handover", d)
	}
	for _, d := range handoverEscapeDocs(true, []int{13}) {
		add("escape-across-index-handover", d)
	}
	// a line feed inside a 64-byte block that holds nothing but white space (long blank runs
	// between documents): the separator at every offset of such a block, with spaces, tabs
	// and carriage returns as filler, and documents that together would still parse as one
	for _, pair := range [][2]string{{`{"a":1}`, `{"b":2}`}, {`[1]`, `[2]`}, {`{"a":[1,2]}`, `{}`}, {`[1,2`, `,3]`}, {`{"a":`, `1}`}, {`[1,`, `2]`}} {
		for _, fill := range []string{" ", "\t", "\r", " \t"} {
			for off := 0; off < 64; off += 1 {
				for _, lead := range []int{0, 1} {
					var sb strings.Builder
					sb.WriteString(strings.Repeat("{}\n", lead*3))
					sb.WriteString(pair[0])
					for sb.Len()%64 != 0 {
						sb.WriteString(fill[:1])
					}
					sb.WriteString(strings.Repeat(fill, 64)[:64*((off%2)+0)])
					blk := []byte(strings.Repeat(fill, 64)[:64])
					blk[off] = '\n'
					sb.Write(blk)
					sb.WriteString(strings.Repeat(fill, 40)[:off%40])
					sb.WriteString(pair[1])
					add("lf-in-blank-block", []byte(sb.String()))
				}
			}
		}
	}

	for _, s := range []string{"{\"a\":\"x\ny\"}", "[\"\\n\"]\n[\"b\"]", "[1]\n\n\n[2]", "[1]\r\n[2]\r\n", "[1]\r[2]", "[1]\n [2]", "[1] \n[2]", "[1]\n]", "[1]\n,", "\n", "\n\n", " \n ", "[1]", "[1]\n"} {
		add("special", []byte(s))
	}
	flush()
}
