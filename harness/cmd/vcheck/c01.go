package main

import (
	"bytes"
	"fmt"
	"strings"
)

func init() { checks["C01"] = checkC01 }

const T_INDEX = 1408
const THR_SYNC = 8192

// streams shared by C01/C02/C06/C17: returns nothing, feeds add()
func genParseStreams(c *Ctx, add func(stream string, doc []byte), scale int) {
	r := c.Rng
	// G1 valid documents
	n1 := c.N(6000, 60000) / scale
	for i := 0; i < n1; i++ {
		o := smallOpts(r)
		if i%50 == 0 { // larger ones
			o = &GenOpts{MaxDepth: 6, MaxFan: 6, TopFan: 40 + r.Intn(200), WS: r.Intn(9)}
		}
		doc := genDoc(r, o)
		if len(doc) > 60000 {
			continue
		}
		add("G1-valid", doc)
		// G2 mutations at token boundaries
		for k := 0; k < 3; k++ {
			add("G2-mutated", mutate(r, doc))
		}
	}
}

func checkC01(c *Ctx) {
	r := c.Rng
	c.Ev.Coverage.Rule = "accept/reject of Parse in 4 configurations (AVX2/AVX-512 x copy/no-copy) vs the Coq-extracted model and vs the Coq-extracted RFC 8259 recogniser spec_parse (only in-claim inputs compared against the spec). Streams: G1 grammar-directed valid documents with random JSON white space; G2 byte substitution/insertion/deletion/truncation at token boundaries; G3 exhaustive number lexemes over {0,1,9,-,+,.,e,E} up to length 5 (6 thorough) as array element and object value; G4 each atom with every byte in every position and as follower; G5 escapes and raw bytes in strings; G6 exhaustive token sequences over [ ] { } , : \"k\" 1 true up to length 5 (6 thorough); G7 positional sweep over block (64 B), index-buffer (1408 entries) and sync/async (8 KiB) boundaries; G8 documents above 8 KiB with a missing/extra bracket only; G9 a full index buffer ending on a carried index followed by a structural-free tail; G10 a raw control character inside a string of the first / a middle index buffer of a multi-buffer message; G11 long strings after others; G12 big objects truncated inside a member; G13 every kind of value (and escapes) laid across the block boundary at which a full index buffer is handed over, cut at every byte; G14 every escape kind (incl. surrogate pairs) at every offset of the 32-byte string windows. non-trivial = compared against model or in-claim spec verdict; distinct = by input bytes"
	flags := ChkVerdict | ChkModel | ChkKernels | ChkCopyModes | ChkNoPanic
	var batch []PCase
	flush := func() {
		c.CompareParse(batch, flags, 70000, nil)
		batch = batch[:0]
	}
	add := func(stream string, doc []byte) {
		batch = append(batch, PCase{Doc: doc, Stream: stream})
		if len(batch) >= 4000 {
			flush()
		}
	}
	genParseStreams(c, add, 1)

	// G3 exhaustive number lexemes
	alpha := []byte("019-+.eE")
	maxL := c.N(5, 6)
	var rec func(prefix []byte)
	rec = func(prefix []byte) {
		if len(prefix) > 0 {
			add("G3-numlex", []byte("["+string(prefix)+"]"))
			if len(prefix) <= 4 || c.Thorough() {
				add("G3-numlex-obj", []byte(`{"a":`+string(prefix)+"}"))
			}
		}
		if len(prefix) == maxL {
			return
		}
		for _, ch := range alpha {
			rec(append(append([]byte{}, prefix...), ch))
		}
	}
	rec(nil)
	// long-integer / leading-zero family (F1)
	for _, sign := range []string{"", "-"} {
		for zeros := 0; zeros <= 24; zeros++ {
			for _, tail := range []string{"", "1", "1.5", ".5", "e5", "1e5", "0", "00.5"} {
				lex := sign + strings.Repeat("0", zeros) + tail
				if lex == "" || lex == "-" {
					continue
				}
				add("G3-leadzero", []byte("["+lex+"]"))
				add("G3-leadzero", []byte(`{"k":`+lex+` }`))
			}
		}
	}
	// G4 atoms
	for _, atom := range []string{"true", "false", "null"} {
		for b := 0; b < 256; b++ {
			for pos := 0; pos < len(atom); pos++ {
				a := []byte(atom)
				a[pos] = byte(b)
				add("G4-atom-byte", []byte("["+string(a)+"]"))
			}
			add("G4-atom-follow", append(append([]byte("["+atom), byte(b)), []byte("]")...))
			add("G4-atom-follow", append(append([]byte("["+atom), byte(b)), []byte("x]")...))
			add("G4-atom-follow", append(append([]byte(`{"a":`+atom), byte(b)), []byte(`,"b":1}`)...))
			add("G4-num-follow", append(append([]byte("[12"), byte(b)), []byte("]")...))
			add("G4-num-follow", append(append([]byte("[1.5"), byte(b)), []byte("4]")...))
		}
		for cut := 1; cut < len(atom); cut++ {
			add("G4-atom-trunc", []byte("["+atom[:cut]+"]"))
			add("G4-atom-trunc", []byte("["+atom[:cut]))
		}
	}
	// G5 strings: escapes and raw bytes (the C04 check goes much deeper)
	for b := 0; b < 256; b++ {
		add("G5-raw", []byte{'[', '"', 'a', byte(b), 'b', '"', ']'})
		add("G5-esc", []byte{'[', '"', '\\', byte(b), '"', ']'})
		add("G5-hex", append(append([]byte(`["\u00`), byte(b)), []byte(`0"]`)...))
		add("G5-rawkey", append(append([]byte(`{"k`), byte(b)), []byte(`":1}`)...))
		for off := 0; off < 64; off += 9 {
			add("G5-raw-off", append([]byte(strings.Repeat(" ", off)), '[', '"', byte(b), '"', ']'))
		}
	}
	// G6 exhaustive token sequences
	toks := []string{"[", "]", "{", "}", ",", ":", `"k"`, "1", "true"}
	maxT := c.N(5, 6)
	var rect func(seq []string)
	rect = func(seq []string) {
		if len(seq) > 0 {
			sep := ""
			if len(seq)%2 == 0 {
				sep = " "
			}
			add("G6-tokens", []byte(strings.Join(seq, sep)))
		}
		if len(seq) == maxT {
			return
		}
		for _, t := range toks {
			rect(append(append([]string{}, seq...), t))
		}
	}
	rect(nil)
	// G7 positional sweep
	seeds := []string{`"str"`, `"e\nA"`, `12.5`, `-0`, `true`, `false`, `null`, `{}`, `[]`, `{"a":[1,{"b":null}]}`, `"` + strings.Repeat("x", 70) + `"`,
		`01`, `tru`, `"bad\q"`, `1 2`, `nul l`, `-`, `"😀"`, `{"a" 1}`, `[1,]`}
	nsw := c.N(40, 400)
	for s := 0; s < nsw; s++ {
		seed := seeds[s%len(seeds)]
		// around index-buffer boundaries: k preceding elements so that the seed's
		// structurals fall around entry T
		for _, mult := range []int{1, 2} {
			for d := -3; d <= 3; d++ {
				k := (T_INDEX*mult)/2 + d + r.Intn(2) // each "1," contributes 2 structurals
				var b bytes.Buffer
				b.WriteString("[")
				for i := 0; i < k; i++ {
					b.WriteString("1,")
				}
				b.WriteString(strings.Repeat(" ", r.Intn(130)))
				b.WriteString(seed)
				b.WriteString("]")
				add("G7-indexbuf", b.Bytes())
			}
		}
		// around the sync/async threshold and 64-byte blocks
		for _, total := range []int{THR_SYNC - 2, THR_SYNC - 1, THR_SYNC, THR_SYNC + 1, THR_SYNC + 2, THR_SYNC + 63, THR_SYNC + 64, THR_SYNC + 65} {
			pad := total - len(seed) - 2
			if pad < 0 {
				continue
			}
			left := r.Intn(pad + 1)
			doc := "[" + strings.Repeat(" ", left) + seed + strings.Repeat(" ", pad-left) + "]"
			add("G7-threshold", []byte(doc))
		}
		for sh := 0; sh < 130; sh += 1 + r.Intn(3) {
			add("G7-shift", []byte(strings.Repeat(" ", sh)+"["+strings.Repeat(" ", r.Intn(70))+seed+"]"))
		}
	}
	// G11 a long string arriving after other strings (string-buffer growth beyond doubling)
	for _, d := range longStringDocs(r) {
		add("G11-long-string-after-others", d)
	}
	// G12 big objects truncated inside a member
	for _, d := range truncatedObjects(r, c.N(40, 400)) {
		add("G12-truncated-big-object", d)
	}
	// G8 big documents (above the 8 KiB threshold: concurrent path) with unbalanced brackets
	for _, d := range bigUnbalanced(r, c.N(60, 600)) {
		add("G8-big-unbalanced", d)
	}
	// G9 a full index buffer ending on a non-markup index, then a structural-free tail
	for _, d := range denseThenTail(r) {
		add("G9-dense-then-tail", d)
	}
	// G10 a raw control character in a string of the first / a middle index buffer
	{
		es, _ := earlyErrorDocs()
		for _, d := range es {
			add("G10-control-char-in-early-buffer", d)
		}
	}
	// G15 dense documents whose last index buffer is over-full (> 1408+64 entries)
	for _, d := range overfullLastBufferDocs() {
		add("G15-overfull-last-index-buffer", d)
	}
	// G14 every escape kind with its backslash at every offset of the 32-byte windows the
	// string kernels walk (a valid string must not be rejected for where its escape falls)
	for _, d := range escapeOffsetDocs(r, c.Thorough()) {
		add("G14-escape-at-every-window-offset", d)
	}
	// G13 every kind of value laid across the block boundary at which a full index buffer is
	// handed over (cut at every byte), and escapes straddling it
	for _, d := range handoverStraddleDocs(false, []int{0, 13, 45}) {
		add("G13-value-across-index-handover", d)
	}
	for _, d := range handoverEscapeDocs(false, []int{0, 29}) {
		add("G13-escape-across-index-handover", d)
	}
	// edges: white space variants, empty, scalars at the root
	for _, s := range []string{"", " ", "\n", "1", `"a"`, "true", "null", "[]", "{}", " [] ", "\t{}\r\n", "[] []", "{}{}", "[]]", "[[]", "{", "}", "[", "]", ",", ":",
		"\x00", "[]\x00", "\x00[]", "[\x00]", "\v[]", "[]\f", "\xc2\xa0[]", "[]\xe2\x80\xa8", "\xef\xbb\xbf[]"} {
		add("edge", []byte(s))
	}
	flush()
	_ = fmt.Sprint
}
