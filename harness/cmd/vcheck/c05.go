package main

import (
	"math"
	"bytes"
	"fmt"
	"os"
	"os/exec"
	"runtime"
	"strings"
	"time"

	simdjson "github.com/minio/simdjson-go"
)

func init() { checks["C05"] = checkC05 }

// exerciseReads calls every exported read method from every position
// AdvanceInto reaches (capped), each under recover. It returns the first
// panic message, or "" when none. deep=false skips the recursive Interface/Map
// family (used for very deep documents, see known finding K1).
func exerciseReads(pj *simdjson.ParsedJson, maxPos int, deep bool) (pan string) {
	defer func() {
		if r := recover(); r != nil {
			pan = fmt.Sprint(r)
		}
	}()
	call := func(name string, f func()) {
		defer func() {
			if r := recover(); r != nil {
				if pan == "" {
					pan = name + ": " + fmt.Sprint(r)
				}
			}
		}()
		f()
	}
	it := pj.Iter()
	var reusedEls *simdjson.Elements
	var seenNames []string
	for k := 0; k <= maxPos; k++ {
		cur := it
		call("Type", func() { _ = cur.Type() })
		call("Int", func() { c := cur; c.Int() })
		call("Uint", func() { c := cur; c.Uint() })
		call("Float", func() { c := cur; c.Float() })
		call("FloatFlags", func() { c := cur; c.FloatFlags() })
		call("Bool", func() { c := cur; c.Bool() })
		call("String", func() { c := cur; c.String() })
		call("StringBytes", func() { c := cur; c.StringBytes() })
		call("StringCvt", func() { c := cur; c.StringCvt() })
		call("PeekNext", func() { c := cur; c.PeekNext() })
		call("PeekNextTag", func() { c := cur; c.PeekNextTag() })
		call("Advance", func() { c := cur; c.Advance(); c.Advance() })
		call("AdvanceIter", func() { c := cur; var d simdjson.Iter; c.AdvanceIter(&d); d.Advance() })
		call("Root", func() { c := cur; c.Root(nil) })
		call("FindElement", func() { c := cur; c.FindElement(nil, "a", "b") })
		call("MarshalJSON", func() { c := cur; c.MarshalJSON() })
		if deep {
			call("Interface", func() { c := cur; c.Interface() })
		}
		call("Object", func() {
			c := cur
			if o, err := c.Object(nil); err == nil {
				o2 := *o
				o2.FindKey("a", nil)
				o3 := *o
				o3.FindPath(nil, "a", "b")
				o4 := *o
				o4.ForEach(func([]byte, simdjson.Iter) {}, nil)
				o5 := *o
				o5.ForEach(func([]byte, simdjson.Iter) {}, map[string]struct{}{"a": {}})
				o6 := *o
				var e simdjson.Iter
				for n := 0; n < 1000; n++ {
					_, t, err := o6.NextElementBytes(&e)
					if err != nil || t == simdjson.TypeNone {
						break
					}
				}
				o7 := *o
				o7.Parse(nil)
				// a destination filled from the objects visited before, then every name seen so far
				// looked up in it (an index left over from another object must not survive)
				o7b := *o
				if els, err := o7b.Parse(reusedEls); err == nil && els != nil {
					reusedEls = els
					for _, n := range seenNames {
						els.Lookup(n)
					}
					for _, e := range els.Elements {
						if len(seenNames) < 64 {
							seenNames = append(seenNames, e.Name)
						}
					}
				}
				if deep {
					o8 := *o
					o8.Map(nil)
				}
			}
		})
		call("Array", func() {
			c := cur
			if a, err := c.Array(nil); err == nil {
				a1 := *a
				a1.AsFloat()
				a2 := *a
				a2.AsInteger()
				a3 := *a
				a3.AsUint64()
				a4 := *a
				a4.AsString()
				a5 := *a
				a5.AsStringCvt()
				a6 := *a
				a6.ForEach(func(simdjson.Iter) {})
				a7 := *a
				a7.FirstType()
				a8 := *a
				a8.MarshalJSON()
				if deep {
					a9 := *a
					a9.Interface()
				}
			}
		})
		if pan != "" {
			return pan
		}
		if it.AdvanceInto() == simdjson.TagEnd && k > 0 {
			break
		}
	}
	call("ParsedJson.ForEach", func() { pj.ForEach(func(simdjson.Iter) error { return nil }) })
	return pan
}

// withDeadline runs f in a goroutine; false means it did not finish in time.
func withDeadline(d time.Duration, f func()) bool {
	done := make(chan struct{})
	go func() {
		defer close(done)
		f()
	}()
	select {
	case <-done:
		return true
	case <-time.After(d):
		return false
	}
}

func checkC05(c *Ctx) {
	r := c.Rng
	c.Ev.Coverage.Rule = "Parse and ParseND on arbitrary bytes in 4 configurations, with and without a reused ParsedJson, each call under recover and a 120 s deadline; on every returned result all exported read methods are called from every AdvanceInto position (capped at 200) under recover and deadline; goroutine count before/after; bytes allocated by the read methods on results of inputs >= 20 kB against a budget linear in the input; the model's outcome for the same input must not be Crash/OutOfFuel. Streams: random bytes over a JSON-biased alphabet; every truncation and byte/token mutations of seed documents; nesting depth up to 10^5 (quick; one 10^6 probe in a child process re-confirms K1); maximally dense structurals ([[[[, ,,,,, [{},{}, \"\"\"\") at lengths around every multiple of 64, of 1408, 448/512 and 8192; a full index buffer ending on a carried (non-markup) index followed by a structural-free tail of 63..300 bytes; documents above 8 KiB with a missing/extra bracket. non-trivial = input that reaches stage 2 or returns a result; distinct = by input bytes"
	g0 := runtime.NumGoroutine()
	var reuse *simdjson.ParsedJson
	ncase := 0
	var modelBatch []PCase
	aborted := false
	run := func(stream string, doc []byte, nd bool) {
		if aborted {
			return // a call hung earlier: its goroutines are still blocked, stop exploring
		}
		ncase++
		interesting := false
		for _, fam := range families() {
			setKernel(fam)
			for _, cp := range []bool{true, false} {
				for _, useReuse := range []bool{false, true} {
					var out ParseOut
					var ru *simdjson.ParsedJson
					if useReuse {
						ru = reuse
					}
					ok := withDeadline(120*time.Second, func() { out = implParse(doc, nd, cp, ru) })
					info := map[string]interface{}{"doc_hex": fmt.Sprintf("%x", trunc(string(doc), 4000)), "doc_len": len(doc), "doc_text": printable(doc), "nd": nd, "kernel": kname(fam), "copy": cp, "reuse": useReuse, "stream": stream}
					if !ok {
						c.Violate("hang", "Parse did not return within 120 s", "hang", info)
						aborted = true
						return
					}
					if out.Panic != "" {
						info["panic"] = out.Panic
						c.Violate("panic", "Parse panicked", "panic:parse", info)
						return
					}
					if !out.Err {
						interesting = true
						if useReuse {
							reuse = out.PJ
						}
						deep := len(doc) < 50000 || bytes.Count(doc, []byte("[["))+bytes.Count(doc, []byte(`{"`)) < 20000
						var pan string
						// memory: what the read methods allocate on a result must stay proportional to the
						// input (a per-level preallocation sized by "everything that follows" is quadratic
						// in the nesting depth and kills the process long before any deadline)
						var m0, m1 runtime.MemStats
						measure := len(doc) >= 20000
						if measure {
							runtime.ReadMemStats(&m0)
						}
						npos := c.N(60, 400)
						okr := withDeadline(180*time.Second, func() { pan = exerciseReads(out.PJ, npos, deep) })
						if measure && okr {
							runtime.ReadMemStats(&m1)
							alloc := m1.TotalAlloc - m0.TotalAlloc
							// Array.Interface preallocates up to 1024 slots (16 KiB) per nesting level, so a
							// deep document legitimately costs ~16 KiB per tape entry per Interface-like call
							// (two of them per position); the budget is one and a half times that, linear in the tape
							budget := uint64(256<<20) + uint64(npos)*uint64(len(out.PJ.Tape))*(48<<10)
							c.Ev.Dist(fmt.Sprintf("read-alloc-per-input-byte:%s", sizeBucket(int(alloc/uint64(len(doc))))))
							if alloc > budget {
								info["allocated_bytes"], info["budget_bytes"] = alloc, budget
								c.Violate("resource", fmt.Sprintf("the read methods allocated %d MiB on the result of a %d-byte input (budget %d MiB: linear in the input)", alloc>>20, len(doc), budget>>20), "read-alloc", info)
								return
							}
						}
						if !okr {
							c.Violate("hang", "a read method did not return within 180 s", "hang-read", info)
							aborted = true
							return
						}
						if pan != "" {
							info["panic"] = pan
							c.Violate("panic", "read API panicked on a parsed result: "+pan, "panic:read", info)
							return
						}
					}
				}
			}
		}
		key := append([]byte{}, doc...)
		if nd {
			key = append(key, 1)
		}
		c.Ev.Count(stream, key, interesting || len(doc) > 0)
		c.Ev.Dist(sizeBucket(len(doc)))
		if len(doc) <= 20000 && ncase%3 == 0 {
			modelBatch = append(modelBatch, PCase{Doc: doc, ND: nd, Stream: "model:" + stream})
		}
		if ncase%499 == 1 {
			c.Ev.Sample(map[string]interface{}{"stream": stream, "doc": printable(trunc(string(doc), 100)), "nd": nd})
		}
	}
	alphabet := []byte(`{}[],:"\ ` + "\n\t\r\x00\x1f\x7f\x80\xff" + `0123456789truefalsn-+.eEaé`)
	for i := 0; i < c.N(2500, 100000); i++ {
		n := r.Intn(300)
		if i%100 == 0 {
			n = 8000 + r.Intn(500)
		}
		b := make([]byte, n)
		for j := range b {
			if r.Chance(1, 12) {
				b[j] = byte(r.Intn(256))
			} else {
				b[j] = alphabet[r.Intn(len(alphabet))]
			}
		}
		run("random", b, i%3 == 0)
	}
	for i := 0; i < c.N(40, 2000); i++ {
		doc := genDoc(r, smallOpts(r))
		if len(doc) > 300 {
			doc = doc[:300]
		}
		for cut := 0; cut <= len(doc); cut++ {
			run("truncation", doc[:cut], false)
		}
		for k := 0; k < 10; k++ {
			run("mutation", mutate(r, doc), k%4 == 0)
		}
	}
	run("deep", []byte(strings.Repeat(`{"a":`, 15000)+"1"+strings.Repeat("}", 15000)), false)
	run("deep", []byte(strings.Repeat(`[{"a":`, 7000)+"1"+strings.Repeat("}]", 7000)), false)
	for _, d := range []int{1, 100, 127, 128, 129, 1000, 10000, 100000} {
		run("deep", []byte(strings.Repeat("[", d)+strings.Repeat("]", d)), false)
		run("deep", []byte(strings.Repeat(`{"a":`, d)+"1"+strings.Repeat("}", d)), false)
		run("deep-unclosed", []byte(strings.Repeat("[", d)), false)
		run("deep-overclosed", []byte(strings.Repeat("]", d)), false)
	}
	units := []string{"[", ",", "[{},", `"`, `""`, "{}", ":", "]", `"\`, `\"`, "1 ", "[1,", "\n", "{}\n"}
	var lens []int
	for _, base := range []int{64, 128, 448, 512, T_INDEX, 2 * T_INDEX, THR_SYNC, THR_SYNC + 64} {
		for d := -2; d <= 2; d++ {
			lens = append(lens, base+d)
		}
	}
	for _, u := range units {
		for _, L := range lens {
			n := L / len(u)
			run("dense", []byte(strings.Repeat(u, n)), false)
			run("dense-closed", []byte("["+strings.Repeat(u, n)+"]"), u == "\n" || u == "{}\n")
			if len(u) == 1 {
				// exactly L structurals
				run("dense-structurals", []byte(strings.Repeat(u, L)), false)
			}
		}
	}
	for _, d := range overfullLastBufferDocs() {
		run("overfull-last-index-buffer", d, false)
	}
	// numbers that need every digit when they are printed back (marshalling and the string
	// conversions are read methods too): 17-digit floats, the int64/uint64 edges
	for i := 0; i < c.N(60, 600); i++ {
		var el []string
		for j := 0; j < 1+r.Intn(8); j++ {
			switch r.Intn(3) {
			case 0:
				el = append(el, fmt.Sprintf("%.17g", math.Float64frombits(r.U64()&^(0x7ff<<52)|uint64(1023-60+r.Intn(130))<<52)))
			case 1:
				el = append(el, numBoundary[r.Intn(len(numBoundary))])
			default:
				el = append(el, []string{"0.30000000000000004", "1.0000000000000002", "-65.613616999999977", "5e-324", "1.7976931348623157e308", "123456789012345678"}[r.Intn(6)])
			}
		}
		run("numbers-needing-every-digit", []byte("["+strings.Join(el, ",")+"]"), false)
	}
	for _, d := range denseThenTail(r) {
		run("dense-then-tail", d, false)
		run("dense-then-tail-nd", d, true)
	}
	{
		es, en := earlyErrorDocs()
		for i, d := range es {
			if i%3 == 0 {
				run("control-char-early", d, false)
			}
		}
		for i, d := range en {
			if i%3 == 0 {
				run("control-char-early-nd", d, true)
			}
		}
	}
	for _, d := range longStringDocs(r) {
		run("long-string-after-others", d, false)
	}
	for _, d := range truncatedObjects(r, c.N(40, 400)) {
		run("truncated-big-object", d, false)
	}
	for _, d := range bigUnbalanced(r, c.N(30, 300)) {
		run("big-unbalanced", d, false)
	}
	time.Sleep(100 * time.Millisecond)
	if g := runtime.NumGoroutine(); g > g0+4 {
		c.Violate("goroutine-leak", fmt.Sprintf("goroutines before %d, after %d", g0, g), "goroutine-leak", map[string]interface{}{})
	}
	// the model must never reach Crash / OutOfFuel
	c.CompareParse(modelBatch, ChkModel|ChkNoPanic, 20000, nil)
	// K1: Interface() on a 10^6-deep document dies with Go's fatal stack overflow
	c.k1Probe()
}

func (c *Ctx) k1Probe() {
	exe, err := os.Executable()
	if err != nil {
		return
	}
	cmd := exec.Command(exe, "k1probe", "1000000")
	var out bytes.Buffer
	cmd.Stdout = &out
	cmd.Stderr = &out
	done := make(chan error, 1)
	go func() { done <- cmd.Run() }()
	select {
	case err = <-done:
	case <-time.After(120 * time.Second):
		cmd.Process.Kill()
		c.Ev.Note("K1 probe timed out")
		return
	}
	s := out.String()
	if err != nil && strings.Contains(s, "stack exceeds") {
		c.Violate("fatal", "Iter.Interface() on a document nested 10^6 deep dies with Go's unrecoverable stack overflow", "k1-interface-stackoverflow",
			map[string]interface{}{"doc": "[ x 1000000 + ] x 1000000", "output": trunc(s, 300)})
	} else if err != nil {
		c.Ev.Note("K1 probe ended with: " + trunc(s, 200))
	} else {
		c.Ev.Note("K1 probe: Interface() survived depth 10^6")
	}
	c.Ev.Count("k1-probe", []byte("k1"), true)
}

func init() {
	if len(os.Args) >= 3 && os.Args[1] == "k1probe" {
		var d int
		fmt.Sscan(os.Args[2], &d)
		doc := []byte(strings.Repeat("[", d) + strings.Repeat("]", d))
		pj, err := simdjson.Parse(doc, nil)
		if err != nil {
			fmt.Println("parse error")
			os.Exit(0)
		}
		it := pj.Iter()
		_, err = it.Interface()
		fmt.Println("survived", err)
		os.Exit(0)
	}
}
