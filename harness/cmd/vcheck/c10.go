package main

import (
	"strconv"
	"bytes"
	"encoding/json"
	"fmt"
	"math"
	"math/big"
	"strings"

	simdjson "github.com/minio/simdjson-go"
)

func init() {
	checks["C10"] = checkC10
}

func safeMarshal(it simdjson.Iter) (out []byte, err error, pan string) {
	defer func() {
		if r := recover(); r != nil {
			pan = fmt.Sprint(r)
		}
	}()
	out, err = it.MarshalJSON()
	return
}

// numericDump rewrites the canonical dump so that numbers are compared by
// numeric value only (i5; u5; d4014000000000000:0; all become the same token).
func numericDump(d string) string {
	var b strings.Builder
	i := 0
	for i < len(d) {
		ch := d[i]
		switch ch {
		case 'i', 'u', 'd':
			j := strings.IndexByte(d[i:], ';')
			if j < 0 {
				b.WriteString(d[i:])
				return b.String()
			}
			tok := d[i+1 : i+j]
			var r *big.Rat
			switch ch {
			case 'i', 'u':
				r, _ = new(big.Rat).SetString(tok)
			case 'd':
				hexs := tok
				if k := strings.IndexByte(tok, ':'); k >= 0 {
					hexs = tok[:k]
				}
				var bits uint64
				fmt.Sscanf(hexs, "%x", &bits)
				f := math.Float64frombits(bits)
				if math.IsInf(f, 0) || math.IsNaN(f) {
					b.WriteString("#nonfinite;")
					i += j + 1
					continue
				}
				r = new(big.Rat).SetFloat64(f)
			}
			if r == nil {
				b.WriteString("#?;")
			} else {
				b.WriteString("#" + r.RatString() + ";")
			}
			i += j + 1
		case 's', 'k':
			j := strings.IndexByte(d[i:], ';')
			if j < 0 {
				b.WriteString(d[i:])
				return b.String()
			}
			b.WriteString(d[i : i+j+1])
			i += j + 1
		default:
			b.WriteByte(ch)
			i++
		}
	}
	return b.String()
}

// checkMarshalOf: marshal from the root iterator of pj; validity, same
// document, fixed point; model agreement.
func (c *Ctx) checkMarshalOf(pj *simdjson.ParsedJson, nd bool, info map[string]interface{}, reqs *[]string, pends *[]func(string)) {
	mk := func(more map[string]interface{}) map[string]interface{} {
		m := map[string]interface{}{}
		for k, v := range info {
			m[k] = v
		}
		for k, v := range more {
			m[k] = v
		}
		return m
	}
	out, err, pan := safeMarshal(pj.Iter())
	if pan != "" {
		c.Violate("panic", "MarshalJSON panicked: "+pan, "marshal-panic", mk(nil))
		return
	}
	want, werr := dumpDoc(pj)
	if werr != nil {
		return
	}
	nonfinite := strings.Contains(numericDump(want), "#nonfinite;")
	impl := "err"
	if err == nil {
		impl = "ok " + hexOrDash(out)
	}
	if len(pj.Tape) < 3000 {
		*reqs = append(*reqs, "marshal "+stateArgs(pj)+" 0 0")
		*pends = append(*pends, func(ans string) {
			if ans != impl {
				c.Ev.Coverage.ModelDisagreements++
				c.Violate("marshal", "MarshalJSON output differs from the modelled MarshalJSON of the same tape", "marshal-model", mk(map[string]interface{}{"impl": trunc(string(out), 400), "model": trunc(ans, 600)}))
			}
		})
	}
	if nonfinite {
		if err == nil {
			c.Violate("marshal", "a non-finite float was marshalled instead of returning an error", "marshal-nonfinite", mk(map[string]interface{}{"out": trunc(string(out), 300)}))
		}
		return
	}
	if err != nil {
		c.Violate("marshal", "MarshalJSON failed on a well-formed tape: "+err.Error(), "marshal-err", mk(nil))
		return
	}
	// MarshalJSONBuffer appends to its destination and produces the same text
	func() {
		defer func() { recover() }()
		it := pj.Iter()
		prefix := []byte("prefix\x00kept")
		buf, e := it.MarshalJSONBuffer(append(make([]byte, 0, 64), prefix...))
		if e != nil || !bytes.HasPrefix(buf, prefix) || !bytes.Equal(buf[len(prefix):], out) {
			c.Violate("marshal", "MarshalJSONBuffer(dst) is not dst followed by MarshalJSON's text", "marshal-buffer-append", mk(map[string]interface{}{"out": trunc(printable(buf), 300)}))
		}
	}()
	// valid JSON, roots separated by newlines, same document
	lines := bytes.Split(out, []byte("\n"))
	scalarRoot := false
	for _, l := range lines {
		if !json.Valid(l) {
			c.Violate("marshal", "a line of the marshalled text is not valid JSON (encoding/json.Valid)", "marshal-invalid-line", mk(map[string]interface{}{"out": trunc(printable(out), 400)}))
			return
		}
		if len(l) > 0 && l[0] != '{' && l[0] != '[' {
			scalarRoot = true
		}
	}
	if scalarRoot {
		// a root replaced by a scalar (SetNull on the top-level container): valid
		// JSON, but this parser only accepts containers at the root, so the
		// re-parse based checks do not apply
		c.Ev.Dist("scalar-root-after-edit")
		return
	}
	var re ParseOut
	if len(lines) > 1 || nd {
		re = implParse(out, true, true, nil)
	} else {
		re = implParse(out, false, true, nil)
	}
	if re.Err {
		c.Violate("marshal", "marshalled text is not accepted as JSON", "marshal-invalid", mk(map[string]interface{}{"out": trunc(printable(out), 400)}))
		return
	}
	got, gerr := dumpDoc(re.PJ)
	if gerr != nil || numericDump(got) != numericDump(want) {
		sig := "marshal-doc"
		// known finding K4: a float with an integral value of magnitude >= 2^53 prints (ES6, as
		// encoding/json) without fraction or exponent, e.g. 3682980542527923700 for
		// 3682980542527923712; that text re-parses as an INTEGER (C03) whose exact value differs
		// from the float's, although it converts back to the same float
		if gerr == nil && onlyBigFloatAsInt(want, got) {
			sig = "marshal-bigfloat-reparsed-as-int"
		}
		c.Violate("marshal", "marshalled text denotes a different document", sig, mk(map[string]interface{}{"out": trunc(printable(out), 300), "want": trunc(want, 300), "got": trunc(got, 300)}))
		if sig == "marshal-doc" {
			return
		}
	}
	// also judged by the specification's recogniser
	if len(out) < 20000 {
		op := "spec "
		if len(lines) > 1 {
			op = "specnd "
		}
		*reqs = append(*reqs, op+hexOrDash(out))
		*pends = append(*pends, func(ans string) {
			if !strings.HasPrefix(ans, "ok ") && ans != "out" {
				c.Violate("marshal", "marshalled text is not valid JSON per the specification ("+ans+")", "marshal-spec-invalid", mk(map[string]interface{}{"out": trunc(printable(out), 400)}))
			}
		})
	}
	// fixed point
	out2, err2, _ := safeMarshal(re.PJ.Iter())
	if err2 != nil || !bytes.Equal(out2, out) {
		sig := "marshal-fixedpoint"
		// known finding K2: -0.0 prints as -0, which re-parses as the integer 0
		if strings.Contains(want, "d8000000000000000:") && strings.ReplaceAll(string(out), "-0", "0") == strings.ReplaceAll(string(out2), "-0", "0") {
			sig = "marshal-fixedpoint-negzero"
		}
		c.Violate("marshal", "marshal(parse(marshal(x))) differs from marshal(x)", sig, mk(map[string]interface{}{"first": trunc(printable(out), 300), "second": trunc(printable(out2), 300)}))
	}
}

func checkC10(c *Ctx) {
	r := c.Rng
	c.Ev.Coverage.Rule = "tapes from Parse and ParseND (strings containing every byte value raw or escaped, all number boundary values, deep and wide documents), optionally edited in place by random Set*/Delete histories; MarshalJSON from the root iterator: output accepted by the parser and by the Coq specification, denotes the same document (strings byte-equal, numbers numerically equal), re-marshal reproduces it byte for byte, non-finite floats give an error; output equal to the modelled MarshalJSON of the same tape; the iterators ParsedJson.ForEach hands out (one per root) against the root iterator's lines; restricted element iterators (AdvanceIter, and the same value through Object.Parse / NextElementBytes) and Array.MarshalJSON at every value position of small documents compared with the model and with each other. non-trivial = marshalled document; distinct = by (document, edits)"
	var reqs []string
	var pends []func(string)
	n := c.N(1500, 20000)
	for i := 0; i < n; i++ {
		var doc []byte
		nd := false
		switch {
		case i%7 == 0:
			nd = true
			var sb strings.Builder
			for l := 0; l < 1+r.Intn(5); l++ {
				sb.Write(genDoc(r, &GenOpts{MaxDepth: 3, MaxFan: 3, TopFan: 4}))
				sb.WriteString("\n")
			}
			doc = []byte(sb.String())
		case i%11 == 0:
			// strings with every byte
			var sb strings.Builder
			sb.WriteString("[")
			for b := 0; b < 256; b += 1 + r.Intn(3) {
				if sb.Len() > 1 {
					sb.WriteString(",")
				}
				if b < 0x20 || b == '"' || b == '\\' {
					fmt.Fprintf(&sb, `"a\u%04xb"`, b)
				} else if b < 0x80 {
					fmt.Fprintf(&sb, `"a%cb"`, b)
				} else {
					fmt.Fprintf(&sb, `"a\u%04xb"`, 0x80+b)
				}
			}
			sb.WriteString("]")
			doc = []byte(sb.String())
		case i%13 == 0:
			doc = []byte("[" + strings.Join(numPool, ",") + "]")
		case i%5 == 1:
			// floats from every binade (odd and even mantissas, boundaries), written with 17
			// significant digits so that the parser yields exactly that float: the number printed
			// must denote the float the iterator exposes
			var el []string
			for k := 0; k < 24; k++ {
				e := uint64(1 + r.Intn(2046))
				if k%3 == 0 {
					e = uint64(1023 + 50 + r.Intn(22)) // 2^50 .. 2^71: the plain-decimal Ryu path
				}
				m := r.U64() & (1<<52 - 1)
				switch r.Intn(6) {
				case 0:
					m = 0
				case 1:
					m = 1<<52 - 1
				case 2:
					m |= 1
				}
				f := math.Float64frombits(e<<52 | m)
				if r.Chance(1, 5) {
					f = -f
				}
				el = append(el, strconv.FormatFloat(f, 'e', 17, 64))
			}
			doc = []byte("[" + strings.Join(el, ",") + "]")
		default:
			doc = genDoc(r, smallOpts(r))
		}
		out := implParse(doc, nd, r.Bool(), nil)
		if out.Err {
			continue
		}
		info := map[string]interface{}{"doc_hex": fmt.Sprintf("%x", trunc(string(doc), 3000)), "doc_text": printable(doc), "nd": nd}
		// optional edit history
		if i%3 == 0 {
			h := &history{doc: doc, pj: out.PJ}
			var ops []string
			for e := 0; e < 1+r.Intn(6); e++ {
				if op := c.pickEdit(r, h, r.Bool()); op != nil {
					it := editIter(h.pj, op.K, op.Path, r)
					safeApply(op, &it)
					ops = append(ops, op.Desc)
				}
			}
			info["history"] = strings.Join(ops, " ; ")
		}
		if i%29 == 0 {
			// a non-finite float somewhere
			pos, _ := flatPositions(out.PJ, 2000)
			for _, p := range pos {
				if p.IsValue && (p.Tag == simdjson.TagFloat || p.Tag == simdjson.TagInteger || p.Tag == simdjson.TagString) {
					it := iterAt(out.PJ, p.K)
					it.SetFloat([]float64{math.Inf(1), math.Inf(-1), math.NaN()}[r.Intn(3)])
					info["history"] = fmt.Sprint(info["history"], " ; SetFloat(non-finite)")
					break
				}
			}
		}
		c.checkMarshalOf(out.PJ, nd, info, &reqs, &pends)
		c.Ev.Count("marshal-root", append([]byte(fmt.Sprint(info["history"])), doc...), true)
		// the iterators ParsedJson.ForEach hands out, one per root: each marshals to that root's
		// line of the root iterator's output (judged without the model)
		{
			rit := out.PJ.Iter()
			if whole, werr, wpan := safeMarshal(rit); werr == nil && wpan == "" {
				var lines []string
				ferr := func() (e error) {
					defer func() {
						if rr := recover(); rr != nil {
							e = fmt.Errorf("panic: %v", rr)
						}
					}()
					return out.PJ.ForEach(func(it simdjson.Iter) error {
						b, err := it.MarshalJSON()
						if err != nil {
							return err
						}
						lines = append(lines, string(b))
						return nil
					})
				}()
				if ferr != nil || strings.Join(lines, "\n") != string(whole) {
					c.Violate("marshal", "MarshalJSON of the iterators ParsedJson.ForEach hands out differs from the root iterator's output", "marshal-foreach-iter",
						map[string]interface{}{"doc_hex": info["doc_hex"], "doc_text": info["doc_text"], "history": info["history"], "foreach": trunc(strings.Join(lines, "\n"), 300), "root": trunc(string(whole), 300), "error": fmt.Sprint(ferr)})
				}
				c.Ev.Count("marshal-foreach-iterator", append([]byte(fmt.Sprint(info["history"])), doc...), true)
			}
		}
		// restricted element iterators and Array.MarshalJSON on small documents
		// restricted element iterators and Array.MarshalJSON on small documents
		if len(out.PJ.Tape) < 120 && i%2 == 0 {
			pos, _ := flatPositions(out.PJ, 400)
			st := stateArgs(out.PJ)
			for _, p := range pos {
				if !p.IsValue {
					continue
				}
				k := p.K
				it := iterAt(out.PJ, k-1)
				var el simdjson.Iter
				_, aerr := it.AdvanceIter(&el)
				impl := "err"
				if aerr == nil {
					if o, e, pan := safeMarshal(el); pan != "" {
						impl = "panic " + pan
					} else if e == nil {
						impl = "ok " + hexOrDash(o)
					}
				}
				pinfo := map[string]interface{}{"doc_hex": info["doc_hex"], "doc_text": info["doc_text"], "history": info["history"], "position": k, "impl": trunc(impl, 300)}
				reqs = append(reqs, fmt.Sprintf("marshal %s %d 1", st, k))
				im := impl
				pends = append(pends, func(ans string) {
					if ans != im {
						c.Ev.Coverage.ModelDisagreements++
						pinfo["model"] = trunc(ans, 300)
						c.Violate("marshal", "MarshalJSON of a restricted element iterator differs from the model", "marshal-element-model", pinfo)
					}
				})
				c.Ev.Count("marshal-element", []byte(fmt.Sprint(k, st)), true)
				// the same value reached through the other APIs that hand out an iterator cut to the
				// element (Object.Parse, NextElementBytes, per level) marshals to the same text
				if aerr == nil && strings.HasPrefix(impl, "ok ") {
					if it2, ok := iterByPathMode(out.PJ, p.Path, r.Intn(1<<10), true); ok {
						if o2, e2, pan2 := safeMarshal(it2); pan2 != "" || e2 != nil || "ok "+hexOrDash(o2) != impl {
							c.Violate("marshal", "MarshalJSON of an element iterator (Parse/NextElementBytes route) differs from the AdvanceIter route on the same value", "marshal-element-route",
								map[string]interface{}{"doc_text": info["doc_text"], "history": info["history"], "position": k, "route": trunc(fmt.Sprint("ok ", hexOrDash(o2), e2, pan2), 300), "adviter": trunc(impl, 300)})
						}
					}
				}
				if p.Tag == simdjson.TagArrayStart {
					ai := iterAt(out.PJ, k)
					implA := "err"
					if arr, e := ai.Array(nil); e == nil {
						func() {
							defer func() {
								if rr := recover(); rr != nil {
									implA = "panic " + fmt.Sprint(rr)
								}
							}()
							if o, e2 := arr.MarshalJSON(); e2 == nil {
								implA = "ok " + hexOrDash(o)
							}
						}()
					}
					// judged without the model: Array.MarshalJSON prints the same value as the
					// element iterator standing on that array
					if aerr == nil && implA != impl {
						c.Violate("marshal", "Array.MarshalJSON differs from MarshalJSON of the iterator on the same array", "marshal-array-vs-iter", map[string]interface{}{"doc_text": info["doc_text"], "history": info["history"], "position": k, "array": trunc(implA, 300), "iter": trunc(impl, 300)})
					}
					reqs = append(reqs, fmt.Sprintf("marshal %s %d 2", st, k))
					ia := implA
					pends = append(pends, func(ans string) {
						if ans != ia {
							c.Ev.Coverage.ModelDisagreements++
							c.Violate("marshal", "Array.MarshalJSON differs from the model", "marshal-array-model", map[string]interface{}{"doc_text": info["doc_text"], "history": info["history"], "position": k, "impl": trunc(ia, 300), "model": trunc(ans, 300)})
						}
					})
				}
			}
		}
		if len(reqs) > 4000 {
			ans := c.Or.Ask(reqs)
			for j, a := range ans {
				pends[j](a)
			}
			reqs, pends = nil, nil
		}
	}
	ans := c.Or.Ask(reqs)
	for j, a := range ans {
		pends[j](a)
	}
}

// dumpTokens splits a canonical dump into its tokens
func dumpTokens(d string) []string {
	var out []string
	for i := 0; i < len(d); {
		switch d[i] {
		case 'i', 'u', 'd', 's', 'k':
			j := strings.IndexByte(d[i:], ';')
			if j < 0 {
				return append(out, d[i:])
			}
			out = append(out, d[i:i+j+1])
			i += j + 1
		default:
			out = append(out, d[i:i+1])
			i++
		}
	}
	return out
}

// onlyBigFloatAsInt: the two dumps differ, and every difference is a float of
// integral value with magnitude >= 2^53 on the left against an integer on the
// right that converts (correctly rounded) to exactly that float
func onlyBigFloatAsInt(want, got string) bool {
	a, b := dumpTokens(want), dumpTokens(got)
	if len(a) != len(b) {
		return false
	}
	seen := false
	for i := range a {
		if a[i] == b[i] {
			continue
		}
		if len(a[i]) > 2 && len(b[i]) > 2 && a[i][0] == 'd' && b[i][0] == 'd' {
			// same bits, different flag (a float >= 2^64 printed as digits re-parses with the
			// overflowed-integer flag): numerically equal
			if strings.SplitN(a[i], ":", 2)[0] == strings.SplitN(b[i], ":", 2)[0] {
				continue
			}
			return false
		}
		if len(a[i]) < 2 || a[i][0] != 'd' || len(b[i]) < 2 || (b[i][0] != 'i' && b[i][0] != 'u') {
			// an integer on both sides, or a float below 2^53 against its exact integer: equal values pass
			if numericDump(a[i]) == numericDump(b[i]) {
				continue
			}
			return false
		}
		if numericDump(a[i]) == numericDump(b[i]) {
			continue
		}
		hexs := a[i][1 : len(a[i])-1]
		if k := strings.IndexByte(hexs, ':'); k >= 0 {
			hexs = hexs[:k]
		}
		var bits uint64
		if _, err := fmt.Sscanf(hexs, "%x", &bits); err != nil {
			return false
		}
		f := math.Float64frombits(bits)
		if math.IsNaN(f) || math.IsInf(f, 0) || math.Abs(f) < 1<<53 || f != math.Trunc(f) {
			return false
		}
		n, ok := new(big.Int).SetString(b[i][1:len(b[i])-1], 10)
		if !ok {
			return false
		}
		back, _ := new(big.Float).SetInt(n).Float64()
		if back != f {
			return false
		}
		seen = true
	}
	return seen
}
