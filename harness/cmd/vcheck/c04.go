package main

import (
	"bytes"
	"fmt"
	"strings"

	simdjson "github.com/minio/simdjson-go"
)

func init() { checks["C04"] = checkC04 }

// wrapString builds  <pad blanks>["<body>"]<trail>  so that the string starts
// at a chosen offset and ends a chosen distance before the end of input.
func wrapString(body []byte, pad int, asKey bool, trailElems int) []byte {
	var b bytes.Buffer
	// the padding goes INSIDE the document (Parse trims leading white space, so padding in
	// front of it would not move the string relative to the 64-byte blocks of stage 1)
	sp := strings.Repeat(" ", pad)
	if asKey {
		b.WriteString(`{` + sp + `"`)
		b.Write(body)
		b.WriteString(`":0`)
		for i := 0; i < trailElems; i++ {
			fmt.Fprintf(&b, `,"k%d":1`, i)
		}
		b.WriteString("}")
	} else {
		b.WriteString(`[` + sp + `"`)
		b.Write(body)
		b.WriteString(`"`)
		for i := 0; i < trailElems; i++ {
			b.WriteString(",1")
		}
		b.WriteString("]")
	}
	return b.Bytes()
}

func hex4(v int, r *Rng, mode int) string {
	s := fmt.Sprintf("%04x", v)
	switch mode {
	case 1:
		return strings.ToUpper(s)
	case 2:
		bs := []byte(s)
		for i := range bs {
			if r.Bool() {
				bs[i] = strings.ToUpper(string(bs[i]))[0]
			}
		}
		return string(bs)
	}
	return s
}

var fillers = []string{"a", "xyz", "hello world", "0123456789", "é", "€", "𝄞", "q/w"}

func randFiller(r *Rng, n int) []byte {
	var b []byte
	for len(b) < n {
		b = append(b, fillers[r.Intn(len(fillers))]...)
	}
	return b
}

func checkC04(c *Ctx) {
	r := c.Rng
	c.Ev.Coverage.Rule = "strings embedded in a one-string document at controlled offsets; streams: every non-surrogate \\u code unit (case chosen per tier), surrogate pairs (stratified quick / all thorough), every byte after a backslash, every byte in every hex position of \\uXXXX and of both halves of a pair, lengths 0..4096, start offsets 0..63, backslash runs 1..130 straddling each offset, strings ending 1..64 bytes before end of input, truncated escapes, escapes straddling the block boundary at which the 1408-entry index buffer is handed over (five structural densities); non-trivial = in-claim case the specification accepts or a case compared against the model; distinct = by input bytes"
	flags := ChkVerdict | ChkDump | ChkModel | ChkKernels | ChkCopyModes | ChkNoPanic
	var batch []PCase
	flush := func() {
		c.CompareParse(batch, flags, 1<<16, nil)
		batch = batch[:0]
	}
	add := func(stream string, doc []byte) {
		batch = append(batch, PCase{Doc: doc, Stream: stream})
		if len(batch) >= 4000 {
			flush()
		}
	}
	// (1) code units
	step := 1
	modes := []int{0}
	if c.Thorough() {
		modes = []int{0, 1}
	}
	for _, mode := range modes {
		for cu := 0; cu < 0x10000; cu += step {
			if cu >= 0xD800 && cu <= 0xDFFF {
				continue
			}
			m := mode
			if !c.Thorough() {
				m = r.Intn(3)
			}
			body := []byte(`\u` + hex4(cu, r, m))
			if r.Chance(1, 4) {
				body = append(randFiller(r, r.Intn(40)), body...)
				body = append(body, randFiller(r, r.Intn(40))...)
			}
			add("codeunit", wrapString(body, r.Intn(70), r.Chance(1, 8), r.Intn(3)))
		}
	}
	// (2) surrogate pairs
	if c.Thorough() {
		for hi := 0xD800; hi < 0xDC00; hi++ {
			for lo := 0xDC00; lo < 0xE000; lo++ {
				add("pair-all", wrapString([]byte(`\u`+hex4(hi, r, 0)+`\u`+hex4(lo, r, 0)), (hi+lo)%64, false, 0))
			}
		}
	} else {
		for i := 0; i < 16384; i++ {
			hi := 0xD800 + r.Intn(0x400)
			lo := 0xDC00 + r.Intn(0x400)
			if i < 4096 { // corners and edges
				hi = 0xD800 + []int{0, 1, 0x3fe, 0x3ff}[i&3]*1 + 0
				lo = 0xDC00 + (i>>2)%0x400
			}
			add("pair", wrapString([]byte(`\u`+hex4(hi, r, r.Intn(3))+`\u`+hex4(lo, r, r.Intn(3))), r.Intn(70), false, r.Intn(2)))
		}
	}
	// (3) every byte after a backslash; every byte in every hex position
	for b := 0; b < 256; b++ {
		for _, pad := range []int{0, 29, 30, 31, 61, 62, 63} {
			add("escchar", wrapString([]byte{'a', '\\', byte(b), 'z'}, pad, false, 0))
		}
		for pos := 0; pos < 4; pos++ {
			h := []byte("12ab")
			h[pos] = byte(b)
			add("hexpos", wrapString(append([]byte(`x\u`), h...), r.Intn(64), false, 0))
		}
		for pos := 0; pos < 8; pos++ {
			h := []byte("d83ddc00")
			h[pos] = byte(b)
			body := append([]byte(`\u`), h[:4]...)
			body = append(body, []byte(`\u`)...)
			body = append(body, h[4:]...)
			add("hexpos-pair", wrapString(body, r.Intn(64), false, 0))
		}
		// every raw byte inside a string
		add("rawbyte", wrapString([]byte{'a', byte(b), 'b'}, r.Intn(64), false, 0))
	}
	// (4) lengths
	maxLen := 4096
	for n := 0; n <= maxLen; n++ {
		if !c.Thorough() && n > 320 && n%7 != 0 {
			continue
		}
		body := randFiller(r, n)[:n]
		// keep UTF-8 whole: replace a possibly cut multi-byte tail with ASCII
		for i := len(body) - 1; i >= 0 && i >= len(body)-4; i-- {
			if body[i] >= 0x80 {
				body[i] = 'x'
			}
		}
		if r.Chance(1, 3) && n >= 6 {
			copy(body[r.Intn(n-5):], `é`)
		}
		add("length", wrapString(body, r.Intn(64), false, r.Intn(2)))
	}
	// (5) offsets x seeds
	seeds := [][]byte{[]byte(`\n`), []byte(`\\`), []byte(`\"`), []byte(`abAcd`), []byte(`😀`), []byte(`plain`), []byte(``),
		[]byte(`aaaaaaaaaaaaaaaaaaaaaaaaaaaaaaaaaaaaaaaaé`), []byte(`é\té`), []byte(`\/\b\f\n\r\t`)}
	nseed := c.N(60, 300)
	for s := 0; s < nseed; s++ {
		var body []byte
		if s < len(seeds) {
			body = seeds[s]
		} else {
			for k := 0; k < 1+r.Intn(6); k++ {
				body = append(body, randFiller(r, r.Intn(45))...)
				body = append(body, seeds[r.Intn(len(seeds))]...)
			}
		}
		for off := 0; off < 64; off++ {
			add("offset", wrapString(body, off, s%5 == 0, r.Intn(2)))
		}
	}
	// (6) backslash runs
	for run := 1; run <= 130; run++ {
		for off := 0; off < 64; off++ {
			if !c.Thorough() && (run > 12 && off%5 != 0) {
				continue
			}
			body := append(bytes.Repeat([]byte{'\\'}, run), 'n')
			add("bsrun", wrapString(body, off, false, 0))
		}
	}
	// (6b) an escape straddling a 64-byte block boundary (backslash at offset 63 mod 64, the
	// escaped character first in the next block), directly followed by a backslash run of
	// either parity and the closing quote — and the same one and two bytes earlier/later
	for pad := 50; pad < 200; pad++ {
		for _, esc := range []string{`\n`, `\"`, `\\`, `\u0041`} {
			for run := 0; run <= 5; run++ {
				body := append(bytes.Repeat([]byte{'a'}, pad), []byte(esc)...)
				body = append(body, bytes.Repeat([]byte{'\\'}, run)...)
				if run%2 == 1 {
					body = append(body, 'n')
				}
				add("escape-straddles-block", wrapString(body, 0, pad%7 == 0, 0))
			}
		}
	}
	// (7) near the end of input: escape k bytes before the end
	for k := 0; k < 70; k++ {
		for _, esc := range []string{`A`, `😀`, `\n`} {
			body := append([]byte(esc), bytes.Repeat([]byte{'z'}, k)...)
			for _, pad := range []int{0, 17, 40} {
				add("nearend", wrapString(body, pad, false, 0))
			}
		}
	}
	// (9) every escape kind with its backslash at every offset 0..70 of the string
	// (i.e. at every position of the 32-byte windows the kernels walk), with the
	// closing quote inside or outside the escape's window
	for _, stream := range escapeOffsetDocs(r, c.Thorough()) {
		add("escape-offset", stream)
	}
	// (10) a long string (with and without escapes) arriving after other keys and strings:
	// every string of the document must still be exposed exactly
	for _, d := range longStringDocs(r) {
		add("long-string-after-others", d)
	}
	// (11) an escape straddling the block boundary at which stage 1 hands its index buffer over
	for _, d := range handoverEscapeDocs(false, []int{0, 7, 13, 29, 31, 45, 58}) {
		add("escape-at-index-handover", d)
	}
	// (8) truncated escapes right before the closing quote
	for _, esc := range []string{`\`, `\u`, `\u0`, `\u00`, `\u004`, `\ud83d`, `\ud83d\`, `\ud83d\u`, `\ud83d\ud`, `\ud83d\ude`, `\ud83d\ude0`} {
		for off := 0; off < 64; off += 3 {
			add("truncated", wrapString([]byte("ab"+esc), off, false, 0))
			add("truncated", wrapString([]byte(esc), off, false, 1))
		}
	}
	flush()

	// "copied or referenced in place" also across calls: default options (copying) on an object
	// that was last used with WithCopyStrings(false); the input is overwritten afterwards and
	// every string must still be the decoded sequence
	for i, d := range escapeOffsetDocs(r, false) {
		if i%7 != 0 {
			continue
		}
		want := implParse(d, false, true, nil)
		prev := implParse([]byte(`{"earlier":"call without copying","n":[1,"two"]}`), false, false, nil)
		if want.Err || prev.Err {
			continue
		}
		buf := append([]byte{}, d...)
		got := implParseDefault(buf, false, prev.PJ)
		for k := range buf {
			buf[k] = '#'
		}
		a, e1 := dumpDoc(want.PJ)
		var b string
		var e2 error = fmt.Errorf("parse failed")
		if !got.Err {
			b, e2 = dumpDoc(got.PJ)
		}
		c.Ev.Count("default-options-after-nocopy", d, true)
		if e1 != nil || e2 != nil || a != b {
			c.Violate("document", "strings parsed with default options into an object last used without copying are not the decoded sequence once the input buffer is overwritten", "reuse-default-copy",
				map[string]interface{}{"doc_hex": fmt.Sprintf("%x", d), "doc_text": printable(d), "got": trunc(b, 300), "want": trunc(a, 300), "error": fmt.Sprint(e2)})
			break
		}
	}

	// the decoded strings survive Clone into a destination that held other documents before
	// (big, then small, then medium: the destination's string buffer shrinks and grows again)
	{
		var dst *simdjson.ParsedJson
		docs := escapeOffsetDocs(r, false)
		for i := 0; i+2 < len(docs) && i < 600; i += 3 {
			big := []byte(`["` + strings.Repeat("B", 300+r.Intn(300)) + `\n",` + string(docs[i][1:]))
			small := []byte(`["s\t"]`)
			for _, d := range [][]byte{big, small, docs[i+1]} {
				src := implParse(d, false, true, nil)
				if src.Err {
					continue
				}
				cl := src.PJ.Clone(dst)
				dst = cl
				a, e1 := dumpDoc(src.PJ)
				b, e2 := dumpDoc(cl)
				c.Ev.Count("clone-into-reused-destination", d, true)
				if e1 != nil || e2 != nil || a != b {
					c.Violate("document", "strings of a clone made into a destination used before differ from the original's", "clone-reused-dst",
						map[string]interface{}{"doc_hex": fmt.Sprintf("%x", trunc(string(d), 2000)), "doc_text": printable(d), "clone": trunc(b, 300), "original": trunc(a, 300)})
					i = len(docs)
					break
				}
			}
		}
	}

	// kernel-level correspondence: parseString with an explicit maxStringSize
	c.strKernelCorrespondence()
}

// strKernelCorrespondence drives parseString directly (through the verif
// accessor) with explicit maxStringSize values, including ones stage 1 would
// never produce, and compares with the model's str operation.
func (c *Ctx) strKernelCorrespondence() {
	r := c.Rng
	n := c.N(20000, 200000)
	type kc struct {
		msg  []byte
		max  uint64
		copy bool
	}
	var cases []kc
	var reqs []string
	pieces := []string{`\n`, `\\`, `\"`, `A`, `é`, `€`, `😀`, `\ud800`, `\udc00`, `\uzzzz`, `\x`, `"`, `"`, "a", "bcd", "é", "\x01", " "}
	for i := 0; i < n; i++ {
		var body []byte
		k := 1 + r.Intn(12)
		for j := 0; j < k; j++ {
			if r.Chance(1, 3) {
				body = append(body, randFiller(r, r.Intn(40))...)
			} else {
				body = append(body, pieces[r.Intn(len(pieces))]...)
			}
		}
		msg := append([]byte{'"'}, body...)
		// a closing quote always follows: without one the real routine would run
		// off the end of its buffer (the model's OutOfFuel outcome), which Parse
		// never lets happen and a direct call must not provoke
		msg = append(msg, 'x', '"')
		msg = append(msg, randFiller(r, r.Intn(80))...)
		max := uint64(1 + r.Intn(len(msg)+3))
		if r.Chance(1, 2) {
			// the value stage 1 would give: distance to just after the closing quote
			if q := bytes.IndexByte(msg[1:], '"'); q >= 0 {
				max = uint64(q + 2)
			}
		}
		if max > uint64(len(msg)) {
			max = uint64(len(msg))
		}
		cp := r.Bool()
		cases = append(cases, kc{msg, max, cp})
		cpS := "0"
		if cp {
			cpS = "1"
		}
		reqs = append(reqs, fmt.Sprintf("str %d %s 0 %x", max, cpS, msg))
	}
	ans := c.Or.Ask(reqs)
	for i, k := range cases {
		ok, tape, strs, pan := safeParseString(k.msg, k.max, k.copy)
		impl := "err"
		if pan != "" {
			impl = "panic " + pan
		} else if ok && len(tape) == 2 {
			impl = fmt.Sprintf("ok %016x %d %s", tape[0], tape[1], hexOrDash(strs))
		}
		c.Ev.Count("parseString-direct", append([]byte(reqs[i]), 0), true)
		if impl != ans[i] {
			c.Ev.Coverage.ModelDisagreements++
			sig := "str-direct"
			if strings.HasPrefix(impl, "panic") {
				sig = "str-direct-panic"
			}
			// a direct call with an inconsistent maxStringSize is not an API-level
			// input: report as broken correspondence unless it panicked
			if strings.HasPrefix(impl, "panic") {
				c.Violate("parseString", "parseString panicked", sig, map[string]interface{}{"msg_hex": fmt.Sprintf("%x", k.msg), "max": k.max, "copy": k.copy, "impl": impl, "model": ans[i]})
			} else if len(c.Viol) < 5 {
				c.writeReplay("correspondence", "parseString (direct call) differs from the string model", "correspondence parse_string_model ~ parseString",
					map[string]interface{}{"msg_hex": fmt.Sprintf("%x", k.msg), "msg": printable(k.msg), "max": k.max, "copy": k.copy, "impl": impl, "model": ans[i]}, true)
			}
		}
	}
}

func safeParseString(msg []byte, max uint64, cp bool) (ok bool, tape []uint64, strs []byte, pan string) {
	defer func() {
		if r := recover(); r != nil {
			pan = fmt.Sprint(r)
		}
	}()
	ok, tape, strs = simdjson.VerifParseString(msg, 0, max, cp)
	return
}

// escapeOffsetDocs: documents whose string (value or key) has one escape of
// each kind after 0..70 plain bytes, followed by a short or a long tail.
func escapeOffsetDocs(r *Rng, thorough bool) [][]byte {
	var out [][]byte
	escs := []string{`\n`, `\"`, `\\`, `\u0041`, `\u00e9`, `\u20ac`, `\ud83d\ude00`, `\uD834\uDD1E`, `\ud800\udc00\n`, `\u0041\u0042`}
	tails := []int{0, 1, 5, 12, 40}
	for off := 0; off <= 70; off++ {
		for _, e := range escs {
			for _, tl := range tails {
				if !thorough && tl == 40 && off%2 == 1 {
					continue
				}
				body := strings.Repeat("p", off) + e + strings.Repeat("t", tl)
				switch (off + tl) % 3 {
				case 0:
					out = append(out, []byte(`["`+body+`"]`))
				case 1:
					out = append(out, []byte(`{"`+body+`":1}`))
				default:
					out = append(out, []byte(`{"k":"`+body+`","z":0}`))
				}
			}
		}
	}
	return out
}
