package main

import (
	"errors"
	"fmt"
	"math"
	"strings"

	simdjson "github.com/minio/simdjson-go"
)

func init() { checks["C12"] = checkC12 }

var c12ObjDst simdjson.Object

func hexList(keys []string) string {
	if len(keys) == 0 {
		return "-"
	}
	parts := make([]string, len(keys))
	for i, k := range keys {
		if k == "" {
			parts[i] = "."
		} else {
			parts[i] = fmt.Sprintf("%x", k)
		}
	}
	return strings.Join(parts, ",")
}

func showElem(e *simdjson.Element, err error) string {
	if err != nil {
		if errors.Is(err, simdjson.ErrPathNotFound) {
			return "notfound"
		}
		return "othererr"
	}
	if e == nil {
		return "notfound"
	}
	if e.Type == simdjson.TypeNone {
		return "found 0 -"
	}
	var b strings.Builder
	it := e.Iter
	if derr := dumpValue(&b, &it, 0); derr != nil {
		return fmt.Sprintf("found %d ERR", e.Type)
	}
	return fmt.Sprintf("found %d %s", e.Type, b.String())
}

func safeStr(f func() string) (s string) {
	defer func() {
		if r := recover(); r != nil {
			s = "PANIC " + fmt.Sprint(r)
		}
	}()
	return f()
}

func checkC12(c *Ctx) {
	r := c.Rng
	c.Ev.Coverage.Rule = "documents with present/absent/duplicate/empty/equal-length keys and arrays of boundary numbers; per object: FindKey for every present key and absent ones, FindPath for structure-derived and perturbed key paths (including through non-objects), FindElement from the root iterator, ForEach with every subset of keys as filter (objects up to 6 members, sampled beyond; unique keys); per object also Object.Parse (fresh and reused destination) / Elements.Lookup / Elements.MarshalJSON / Object.Map judged against plain traversal; per array: AsFloat/AsInteger/AsUint64/AsString/AsStringCvt/FirstType/Interface (also judged against plain traversal); per number: Int/Uint/Float conversions at +-2^63, 2^64 and neighbours as int, uint and float. Each call on the real API is compared with the modelled call on the same tape AND with the abstract function on the specification's document. non-trivial = query whose abstract answer is defined; distinct = by (document, query)"
	type q struct {
		req, impl, what string
		doc             []byte
	}
	var qs []q
	flushQ := func() {
		if len(qs) == 0 {
			return
		}
		reqs := make([]string, len(qs))
		for i := range qs {
			reqs[i] = qs[i].req
		}
		ans := c.Or.Ask(reqs)
		for i, a := range ans {
			model, abs := a, ""
			if j := strings.LastIndex(a, " abs="); j >= 0 {
				model, abs = a[:j], a[j+5:]
			}
			info := map[string]interface{}{"doc_hex": fmt.Sprintf("%x", qs[i].doc), "doc_text": printable(qs[i].doc), "query": trunc(qs[i].what, 300), "impl": trunc(qs[i].impl, 500), "model": trunc(model, 500), "abs": trunc(abs, 500)}
			c.Ev.Count(strings.Fields(qs[i].what)[0], []byte(qs[i].what+string(qs[i].doc)), abs != "-" )
			if strings.HasPrefix(qs[i].impl, "PANIC") {
				c.Violate("panic", "lookup/accessor panicked", "c12-panic", info)
				continue
			}
			if abs != "" && abs != "-" && qs[i].impl != abs {
				c.Violate("lookup", "API answer differs from the abstract function on the document", "c12-abs", info)
				continue
			}
			if qs[i].impl != model {
				c.Ev.Coverage.ModelDisagreements++
				if len(c.Viol) < 5 {
					c.writeReplay("correspondence", "lookup/accessor on the real tape differs from the modelled one (the abstract answer, where defined, still matches)", "correspondence Walk.v ~ parsed_object.go/parsed_array.go", info, true)
				}
			}
		}
		qs = qs[:0]
	}
	addQ := func(doc []byte, req, impl, what string) {
		qs = append(qs, q{req, impl, what, doc})
		if len(qs) >= 3000 {
			flushQ()
		}
	}
	keyPool := []string{"", "a", "b", "c", "ab", "ba", "aa", "key", "yek", "k0", "k1", "é", "a\"b", "long key with spaces"}
	nd := c.N(700, 10000)
	var prevPJ *simdjson.ParsedJson
	for d := 0; d < nd; d++ {
		// build a document rich in objects
		dup := d%3 == 0
		var gen func(depth int) string
		gen = func(depth int) string {
			n := r.Intn(7)
			var parts []string
			used := map[string]bool{}
			for i := 0; i < n; i++ {
				k := keyPool[r.Intn(len(keyPool))]
				if !dup && used[k] {
					continue
				}
				used[k] = true
				var v string
				switch x := r.Intn(8); {
				case x < 2 && depth < 3:
					v = gen(depth + 1)
				case x == 2:
					v = `[1,"two",{"a":3}]`
				case x == 3:
					v = `"` + strPool[r.Intn(len(strPool))] + `"`
				default:
					v = genNumber(r)
				}
				parts = append(parts, `"`+strings.ReplaceAll(k, `"`, `\"`)+`":`+v)
			}
			return "{" + strings.Join(parts, ",") + "}"
		}
		doc := []byte(gen(0))
		if d%5 == 0 {
			doc = []byte("[" + string(doc) + "]")
		}
		// one document in two is parsed into the ParsedJson the previous one returned (the
		// destinations of the lookups below are re-used across documents as well)
		var reusePJ *simdjson.ParsedJson
		if d%2 == 1 {
			reusePJ = prevPJ
		}
		out := implParse(doc, false, r.Bool(), reusePJ)
		if out.Err {
			prevPJ = nil
			continue
		}
		pj := out.PJ
		prevPJ = pj
		st := stateArgs(pj)
		pos, err := flatPositions(pj, 100000)
		if err != nil {
			continue
		}
		c.convJudgeAll(pj, doc, 6)
		// FindElement from the root iterator
		for t := 0; t < 2; t++ {
			path := []string{keyPool[r.Intn(len(keyPool))]}
			if r.Bool() {
				path = append(path, keyPool[r.Intn(len(keyPool))])
			}
			it := pj.Iter()
			impl := safeStr(func() string { return showElem(it.FindElement(nil, path...)) })
			addQ(doc, fmt.Sprintf("find %s 0 0 elem %s", st, hexList(path)), impl, fmt.Sprintf("FindElement %q", path))
			// the same lookup from an iterator that reached the root through Advance() (it then
			// stands on the root tag with the root's extent queued), through AdvanceInto, and from
			// the iterator Root() hands out: all must find what the fresh iterator finds
			for route, mk := range []func() (simdjson.Iter, bool){
				func() (simdjson.Iter, bool) { x := pj.Iter(); return x, x.Advance() == simdjson.TypeRoot },
				func() (simdjson.Iter, bool) { x := pj.Iter(); return x, x.AdvanceInto() == simdjson.TagRoot },
				func() (simdjson.Iter, bool) {
					x := pj.Iter()
					if x.Advance() != simdjson.TypeRoot {
						return x, false
					}
					_, y, err := x.Root(nil)
					if err != nil {
						return x, false
					}
					return *y, true
				},
			} {
				if x, ok := mk(); ok {
					got := safeStr(func() string { return showElem(x.FindElement(nil, path...)) })
					c.Ev.Count("FindElement-routes", []byte(fmt.Sprint(route, path, string(doc))), true)
					if got != impl {
						c.Violate("lookup", "FindElement from an iterator that reached the root by Advance / AdvanceInto / Root() differs from FindElement on a fresh iterator", "c12-findelement-route",
							map[string]interface{}{"doc_hex": fmt.Sprintf("%x", doc), "doc_text": printable(doc), "query": fmt.Sprintf("FindElement %q, route %d", path, route), "route_result": trunc(got, 300), "fresh_result": trunc(impl, 300)})
					}
				}
			}
		}
		narr := 0
		for _, p := range pos {
			if p.IsValue && p.Tag == simdjson.TagArrayStart && narr < 4 {
				narr++
				c.c12ArrayBulk(doc, pj, p)
			}
		}
		nobj := 0
		for _, p := range pos {
			if !p.IsValue || p.Tag != simdjson.TagObjectStart {
				continue
			}
			nobj++
			if nobj > 4 {
				break
			}
			c.c12ObjectBulk(doc, pj, p, dup)
			ps := pathStr(p.Path)
			objAt := func() *simdjson.Object {
				it := iterAt(pj, p.K)
				// one destination Object for all lookups of all documents (no-copy documents parsed
				// into a reused ParsedJson share the string-buffer pointer with their predecessor)
				o, _ := it.Object(&c12ObjDst)
				return o
			}
			// FindKey
			keys := append([]string{}, p.Keys...)
			keys = append(keys, "absent", "", "zz")
			seen := map[string]bool{}
			for _, k := range keys {
				if seen[k] {
					continue
				}
				seen[k] = true
				key := k
				impl := safeStr(func() string {
					e := objAt().FindKey(key, nil)
					return showElem(e, nil)
				})
				addQ(doc, fmt.Sprintf("find %s %d %s key %s", st, p.K, ps, hexList([]string{key})), impl, fmt.Sprintf("FindKey %q at %s", key, ps))
			}
			// FindPath
			for t := 0; t < 4; t++ {
				var path []string
				for l := 0; l < 1+r.Intn(3); l++ {
					if len(p.Keys) > 0 && r.Chance(2, 3) {
						path = append(path, p.Keys[r.Intn(len(p.Keys))])
					} else {
						path = append(path, keyPool[r.Intn(len(keyPool))])
					}
				}
				pp := path
				impl := safeStr(func() string { return showElem(objAt().FindPath(nil, pp...)) })
				addQ(doc, fmt.Sprintf("find %s %d %s path %s", st, p.K, ps, hexList(pp)), impl, fmt.Sprintf("FindPath %q at %s", pp, ps))
			}
			// Object.Parse: names and types in order, against the modelled loop over NextElementBytes
			{
				impl := safeStr(func() string {
					els, err := objAt().Parse(nil)
					if err != nil {
						return "ERR"
					}
					var b strings.Builder
					b.WriteString("els ")
					for _, e := range els.Elements {
						fmt.Fprintf(&b, "k%x;%d,", e.Name, int(e.Type))
					}
					b.WriteByte('.')
					return b.String()
				})
				addQ(doc, fmt.Sprintf("find %s %d %s parse -", st, p.K, ps), impl, fmt.Sprintf("Parse at %s", ps))
			}
			// ForEach with filters (keys must be unique for the property)
			if !dup {
				uniq := p.Keys
				nsub := 1 << uint(len(uniq))
				for s := 0; s < nsub && s < 64; s++ {
					mask := s
					if len(uniq) > 6 {
						mask = r.Intn(nsub)
					}
					var filt []string
					only := map[string]struct{}{}
					for i, k := range uniq {
						if mask&(1<<uint(i)) != 0 {
							filt = append(filt, k)
							only[k] = struct{}{}
						}
					}
					if r.Chance(1, 5) {
						filt = append(filt, "absent")
						only["absent"] = struct{}{}
					}
					impl := safeStr(func() string {
						var b strings.Builder
						b.WriteString("cbs ")
						err := objAt().ForEach(func(key []byte, it simdjson.Iter) {
							fmt.Fprintf(&b, "k%x;", key)
							if e := dumpValue(&b, &it, 0); e != nil {
								b.WriteString("ERR")
							}
						}, only)
						if err != nil {
							return "ERR"
						}
						b.WriteByte('.')
						return b.String()
					})
					addQ(doc, fmt.Sprintf("find %s %d %s each %s", st, p.K, ps, hexList(filt)), impl, fmt.Sprintf("ForEach filter=%q at %s", filt, ps))
				}
			}
		}
	}
	flushQ()
	// numeric conversions and bulk accessors on boundary values
	bound := numBoundary
	for i := 0; i < c.N(300, 4000); i++ {
		var elems []string
		n := 1 + r.Intn(8)
		kindSame := r.Intn(3)
		for j := 0; j < n; j++ {
			if kindSame == 0 {
				elems = append(elems, bound[r.Intn(len(bound))])
			} else if kindSame == 1 {
				elems = append(elems, genNumber(r))
			} else {
				elems = append(elems, []string{`"s"`, "1", "true", "[]", "2.5", `"`+strPool[r.Intn(len(strPool))]+`"`}[r.Intn(6)])
			}
		}
		doc := []byte("[" + strings.Join(elems, ",") + "]")
		out := implParse(doc, false, true, nil)
		if out.Err {
			continue
		}
		pj := out.PJ
		st := stateArgs(pj)
		arrAt := func() *simdjson.Array {
			it := iterAt(pj, 2)
			a, _ := it.Array(nil)
			return a
		}
		fmtF := func(v []float64, err error) string {
			if err != nil {
				return "ERR"
			}
			p := make([]string, len(v))
			for i, x := range v {
				p[i] = fmt.Sprint(math.Float64bits(x))
			}
			return "ok " + strings.Join(p, ",")
		}
		fmtI := func(v []int64, err error) string {
			if err != nil {
				return "ERR"
			}
			p := make([]string, len(v))
			for i, x := range v {
				p[i] = fmt.Sprint(x)
			}
			return "ok " + strings.Join(p, ",")
		}
		fmtU := func(v []uint64, err error) string {
			if err != nil {
				return "ERR"
			}
			p := make([]string, len(v))
			for i, x := range v {
				p[i] = fmt.Sprint(x)
			}
			return "ok " + strings.Join(p, ",")
		}
		fmtS := func(v []string, err error) string {
			if err != nil {
				return "ERR"
			}
			p := make([]string, len(v))
			for i, x := range v {
				p[i] = hexOrDash([]byte(x))
			}
			return "ok " + strings.Join(p, ",")
		}
		// the bulk accessors must return what plain traversal returns (or fail when it fails)
		trav := func(kind string) string {
			it := arrAt().Iter()
			var parts []string
			for {
				t := it.Advance()
				if t == simdjson.TypeNone {
					break
				}
				switch kind {
				case "float":
					v, err := it.Float()
					if err != nil {
						return "ERR"
					}
					parts = append(parts, fmt.Sprint(math.Float64bits(v)))
				case "int":
					v, err := it.Int()
					if err != nil {
						return "ERR"
					}
					parts = append(parts, fmt.Sprint(v))
				case "uint":
					v, err := it.Uint()
					if err != nil {
						return "ERR"
					}
					parts = append(parts, fmt.Sprint(v))
				}
			}
			return "ok " + strings.Join(parts, ",")
		}
		for _, kd := range []struct {
			kind string
			got  string
		}{{"float", safeStr(func() string { return fmtF(arrAt().AsFloat()) })}, {"int", safeStr(func() string { return fmtI(arrAt().AsInteger()) })}, {"uint", safeStr(func() string { return fmtU(arrAt().AsUint64()) })}} {
			want := safeStr(func() string { return trav(kd.kind) })
			c.Ev.Count("bulk-vs-traversal", []byte(kd.kind+string(doc)), true)
			if kd.got != want {
				c.Violate("bulk", "bulk accessor differs from plain traversal with the typed accessor", "c12-bulk-traversal",
					map[string]interface{}{"doc_hex": fmt.Sprintf("%x", doc), "doc_text": printable(doc), "query": "As" + kd.kind, "bulk": trunc(kd.got, 300), "traversal": trunc(want, 300)})
			}
		}
		// the same array after some of its elements were deleted (NOP gaps): bulk accessors
		// must still return what plain traversal returns
		if i%3 == 0 {
			out2 := implParse(doc, false, true, nil)
			if !out2.Err {
				it2 := iterAt(out2.PJ, 2)
				if a2, err := it2.Array(nil); err == nil {
					a2.DeleteElems(func(simdjson.Iter) bool { return r.Chance(1, 3) })
					c.bulkVsTraversal(out2.PJ, append(append([]byte{}, doc...), " after DeleteElems"...), 2)
				}
			}
		}
		addQ(doc, "asnum "+st+" 2 float", safeStr(func() string { return fmtF(arrAt().AsFloat()) }), "AsFloat")
		addQ(doc, "asnum "+st+" 2 int", safeStr(func() string { return fmtI(arrAt().AsInteger()) }), "AsInteger")
		addQ(doc, "asnum "+st+" 2 uint", safeStr(func() string { return fmtU(arrAt().AsUint64()) }), "AsUint64")
		addQ(doc, "asnum "+st+" 2 str", safeStr(func() string { return fmtS(arrAt().AsString()) }), "AsString")
		// per-element conversions
		k := 3
		for j := 0; j < n && kindSame != 2; j++ {
			it := iterAt(pj, k)
			k++
			impl := safeStr(func() string {
				iv, e1 := it.Int()
				uv, e2 := it.Uint()
				fv, e3 := it.Float()
				s := "int="
				if e1 != nil {
					s += "ERR"
				} else {
					s += fmt.Sprint(iv)
				}
				s += " uint="
				if e2 != nil {
					s += "ERR"
				} else {
					s += fmt.Sprint(uv)
				}
				s += " float="
				if e3 != nil {
					s += "ERR"
				} else {
					s += fmt.Sprintf("%016x", math.Float64bits(fv))
				}
				return s
			})
			addQ(doc, fmt.Sprintf("conv %s %d", st, k-1), impl, "Int/Uint/Float of "+elems[j])
		}
	}
	flushQ()
	// the conversions against exact arithmetic (independent of the model)
	c.convAgainstExact()
}

// convAgainstExact: range rule of the property stated directly with big
// arithmetic in the harness: convert exactly when the real value lies in the
// target range (truncating toward zero), error otherwise.
func (c *Ctx) convAgainstExact() {
	vals := []float64{math.Ldexp(1, 63), math.Nextafter(math.Ldexp(1, 63), 0), math.Nextafter(math.Ldexp(1, 63), math.Inf(1)), -math.Ldexp(1, 63), math.Nextafter(-math.Ldexp(1, 63), math.Inf(-1)),
		math.Ldexp(1, 64), math.Nextafter(math.Ldexp(1, 64), 0), math.Nextafter(math.Ldexp(1, 64), math.Inf(1)), 9.3e18, 1e19, 0.5, -0.5, -1, math.Copysign(0, -1), 0, 1e300, -1e300, 2.5, -2.5}
	for _, v := range vals {
		doc := []byte("[0]")
		out := implParse(doc, false, true, nil)
		if out.Err {
			return
		}
		it := iterAt(out.PJ, 3)
		it.SetFloat(v)
		iv, e1 := it.Int()
		uv, e2 := it.Uint()
		tr := math.Trunc(v)
		inInt := v >= -math.Ldexp(1, 63) && v < math.Ldexp(1, 63)
		inUint := v >= 0 && v < math.Ldexp(1, 64) || (v > -1 && v <= 0 && !math.Signbit(v)) || v == 0
		if v < 0 && v > -1 {
			inUint = false // negative value: the code documents an error
		}
		info := map[string]interface{}{"lit": fmt.Sprintf("float %v (bits %016x)", v, math.Float64bits(v)), "int": fmt.Sprint(iv, e1), "uint": fmt.Sprint(uv, e2)}
		c.Ev.Count("conv-exact", []byte(fmt.Sprint(v)), true)
		if inInt != (e1 == nil) || (inInt && float64(iv) != tr) {
			c.Violate("conversion", "Iter.Int() on a float: wrong range decision or wrapped value", "c12-conv-int", info)
		}
		if inUint != (e2 == nil) || (inUint && float64(uv) != tr && !(tr == 0)) {
			c.Violate("conversion", "Iter.Uint() on a float: wrong range decision or wrapped value", "c12-conv-uint", info)
		}
	}
}
