package main

import (
	"fmt"
	"math"
	"strings"

	simdjson "github.com/minio/simdjson-go"
)

func init() {
	checks["C13"] = func(c *Ctx) { checkEdits(c, false) }
	checks["C14"] = func(c *Ctx) { checkEdits(c, true) }
}

type editOp struct {
	K      int
	Path   []int
	Kind   string
	Arg    string   // oracle argument(s)
	Desc   string
	apply  func(it *simdjson.Iter) (cb string, err error)
}

type history struct {
	doc   []byte
	copy  bool
	pj    *simdjson.ParsedJson
	ops   []string
	dead  bool
	pend  *editOp
	before string
}

var setFloats = []float64{0, 1.5, -2.25, 1e300, 5e-324, math.MaxFloat64, 1e21, 1e-7, 123456789.125}
var setStrings = []string{"", "x", "new value", "with \"quote\" and \\ backslash", "é€😀", "\x00\x1f ctl", strings.Repeat("long", 30), strings.Repeat("longer than the whole document ", 40)}

func (c *Ctx) pickEdit(r *Rng, h *history, deletes bool) *editOp {
	pos, err := flatPositions(h.pj, 100000)
	if err != nil || len(pos) == 0 {
		return nil
	}
	var vals []position
	var conts []position
	for _, p := range pos {
		if p.IsValue {
			vals = append(vals, p)
			if p.Tag == simdjson.TagObjectStart || p.Tag == simdjson.TagArrayStart {
				conts = append(conts, p)
			}
		}
	}
	if len(vals) == 0 {
		return nil
	}
	wantDelete := deletes && len(conts) > 0 && r.Chance(3, 4)
	if wantDelete {
		p := conts[r.Intn(len(conts))]
		// SetNull on a container is a deletion of everything inside, replaced by null
		if r.Chance(1, 8) && len(p.Path) > 1 {
			return &editOp{K: p.K, Path: p.Path, Kind: "null", Arg: "", Desc: "SetNull(container)", apply: func(it *simdjson.Iter) (string, error) { return "-", it.SetNull() }}
		}
		n := p.NElems
		bits := make([]byte, n)
		mode := r.Intn(6)
		for i := range bits {
			bits[i] = '0'
			switch mode {
			case 0: // random
				if r.Bool() {
					bits[i] = '1'
				}
			case 1: // all
				bits[i] = '1'
			case 2: // first
				if i == 0 {
					bits[i] = '1'
				}
			case 3: // last
				if i == n-1 {
					bits[i] = '1'
				}
			case 4: // adjacent run
				if i >= n/3 && i <= 2*n/3 {
					bits[i] = '1'
				}
			}
		}
		decide := string(bits)
		if decide == "" {
			decide = "0"
		}
		if p.Tag == simdjson.TagArrayStart {
			return &editOp{K: p.K, Path: p.Path, Kind: "delarr", Arg: decide, Desc: "Array.DeleteElems " + decide, apply: func(it *simdjson.Iter) (string, error) {
				arr, err := it.Array(nil)
				if err != nil {
					return "", err
				}
				i := 0
				arr.DeleteElems(func(simdjson.Iter) bool {
					d := i < len(bits) && bits[i] == '1'
					i++
					return d
				})
				return fmt.Sprint(i), nil
			}}
		}
		// object: optional key filter (keys are unique in these documents), optional nil fn
		var only map[string]struct{}
		filt := "-"
		if r.Chance(1, 3) && len(p.Keys) > 0 {
			only = map[string]struct{}{}
			var parts []string
			for _, k := range p.Keys {
				if r.Bool() {
					if _, dup := only[k]; !dup {
						only[k] = struct{}{}
						if k == "" {
							parts = append(parts, ".")
						} else {
							parts = append(parts, fmt.Sprintf("%x", k))
						}
					}
				}
			}
			if r.Chance(1, 4) {
				only["absent-key"] = struct{}{}
				parts = append(parts, fmt.Sprintf("%x", "absent-key"))
			}
			if len(parts) > 0 {
				filt = strings.Join(parts, ",")
			} else {
				only = nil
			}
		}
		nilFn := r.Chance(1, 6)
		dArg := decide
		if nilFn {
			dArg = "N"
		}
		return &editOp{K: p.K, Path: p.Path, Kind: "delobj", Arg: filt + " " + dArg, Desc: "Object.DeleteElems filter=" + filt + " decide=" + dArg, apply: func(it *simdjson.Iter) (string, error) {
			obj, err := it.Object(nil)
			if err != nil {
				return "", err
			}
			var cbs []string
			i := 0
			var fn func(key []byte, i simdjson.Iter) bool
			if !nilFn {
				fn = func(key []byte, _ simdjson.Iter) bool {
					cbs = append(cbs, hexOrDash(key))
					d := i < len(bits) && bits[i] == '1'
					i++
					return d
				}
			}
			err = obj.DeleteElems(fn, only)
			if len(cbs) == 0 {
				return "-", err
			}
			return strings.Join(cbs, ","), err
		}}
	}
	p := vals[r.Intn(len(vals))]
	switch r.Intn(7) {
	case 0:
		return &editOp{K: p.K, Path: p.Path, Kind: "null", Desc: "SetNull", apply: func(it *simdjson.Iter) (string, error) { return "-", it.SetNull() }}
	case 1:
		b := r.Bool()
		a := "0"
		if b {
			a = "1"
		}
		return &editOp{K: p.K, Path: p.Path, Kind: "bool", Arg: a, Desc: "SetBool " + a, apply: func(it *simdjson.Iter) (string, error) { return "-", it.SetBool(b) }}
	case 2:
		v := []int64{0, -1, 1, math.MaxInt64, math.MinInt64, 42, -1234567890123}[r.Intn(7)]
		return &editOp{K: p.K, Path: p.Path, Kind: "int", Arg: fmt.Sprint(v), Desc: fmt.Sprint("SetInt ", v), apply: func(it *simdjson.Iter) (string, error) { return "-", it.SetInt(v) }}
	case 3:
		v := []uint64{0, 1, math.MaxUint64, 1 << 63, 77}[r.Intn(5)]
		return &editOp{K: p.K, Path: p.Path, Kind: "uint", Arg: fmt.Sprint(v), Desc: fmt.Sprint("SetUInt ", v), apply: func(it *simdjson.Iter) (string, error) { return "-", it.SetUInt(v) }}
	case 4:
		v := setFloats[r.Intn(len(setFloats))]
		return &editOp{K: p.K, Path: p.Path, Kind: "float", Arg: fmt.Sprintf("%016x", math.Float64bits(v)), Desc: fmt.Sprint("SetFloat ", v), apply: func(it *simdjson.Iter) (string, error) { return "-", it.SetFloat(v) }}
	default:
		v := setStrings[r.Intn(len(setStrings))]
		return &editOp{K: p.K, Path: p.Path, Kind: "str", Arg: hexOrDash([]byte(v)), Desc: "SetString " + printable(v), apply: func(it *simdjson.Iter) (string, error) {
			if r.Bool() {
				return "-", it.SetString(v)
			}
			return "-", it.SetStringBytes([]byte(v))
		}}
	}
}

func checkEdits(c *Ctx, deletes bool) {
	bigDeletionRoundTrip(c)
	r := c.Rng
	if deletes {
		c.Ev.Coverage.Rule = "random documents (unique keys per object), then histories of 1..25 operations mixing Object/Array DeleteElems (random / all / first / last / adjacent-run / none selections, with and without key filter, nil callback), SetNull on containers and Set* replacements; after EACH operation: the real tape and string buffer are compared word for word with the modelled operation applied to the same state; the callbacks made are compared; the model's denotation is compared with the abstract deletion on documents (instance of the refinement theorem); and all read paths (Advance, AdvanceIter, ForEach, NextElementBytes, Interface/Map) are compared with each other and with the model on the edited tape. non-trivial = history with at least one successful deletion; distinct = by (document, operation list)"
	} else {
		c.Ev.Coverage.Rule = "random documents, then histories of 1..25 Set* operations (SetNull, SetBool, SetInt, SetUInt, SetFloat, SetString/SetStringBytes) on arbitrary value positions at any depth, including disallowed type combinations (must return an error and change nothing) and repeated replacement of one position; after EACH operation: real tape/string buffer vs the modelled operation word for word; model denotation vs abstract replacement on documents (instance of the refinement theorem); all read paths vs each other and vs the model. non-trivial = history with at least one successful replacement; distinct = by (document, operation list)"
	}
	nh := c.N(700, 12000)
	batchH := 64
	for start := 0; start < nh; start += batchH {
		var hs []*history
		for i := 0; i < batchH && start+i < nh; i++ {
			o := smallOpts(r)
			o.NoDupKey = true
			if o.TopFan > 6 {
				o.TopFan = 6
			}
			doc := genDoc(r, o)
			if i%4 == 3 {
				// arrays of numbers / strings, so that the bulk accessors have something to return
				var parts []string
				for a := 0; a < 1+r.Intn(3); a++ {
					var el []string
					for e := 0; e < 1+r.Intn(6); e++ {
						if a == 2 {
							el = append(el, `"`+strPool[r.Intn(len(strPool))]+`"`)
						} else {
							el = append(el, genNumber(r))
						}
					}
					parts = append(parts, fmt.Sprintf(`"a%d":[%s]`, a, strings.Join(el, ",")))
				}
				doc = []byte("{" + strings.Join(parts, ",") + `,"z":true}`)
			}
			cp := r.Bool()
			out := implParse(doc, false, cp, nil)
			if out.Err {
				continue
			}
			hs = append(hs, &history{doc: doc, copy: cp, pj: out.PJ})
		}
		steps := 1 + r.Intn(25)
		for s := 0; s < steps; s++ {
			var reqs []string
			var act []*history
			for _, h := range hs {
				if h.dead {
					continue
				}
				op := c.pickEdit(r, h, deletes)
				if op == nil {
					h.dead = true
					continue
				}
				h.pend = op
				h.before = stateArgs(h.pj)
				req := fmt.Sprintf("edit %s %d %s %s", h.before, op.K, pathStr(op.Path), op.Kind)
				if op.Arg != "" {
					req += " " + op.Arg
				}
				reqs = append(reqs, req)
				act = append(act, h)
			}
			if len(reqs) == 0 {
				break
			}
			ans := c.Or.Ask(reqs)
			for i, h := range act {
				op := h.pend
				it := iterAt(h.pj, op.K)
				via := "AdvanceInto"
				// three edits in four go through an iterator handed out by the element APIs
				// (Parse/NextElement/ForEach/AdvanceIter), whose tape view ends with the element
				if rt := r.Intn(1 << 12); rt%4 != 0 {
					if it2, ok := iterByPath(h.pj, op.Path, rt>>2); ok && it2.Type() == it.Type() {
						it, via = it2, fmt.Sprintf("element-route %d", rt>>2)
					}
				}
				// a second replacement through the SAME iterator value must do what it does through an
				// iterator fetched anew for that position (two clones of the current state; judged
				// without the model)
				if r.Chance(1, 4) {
					c.sameIterTwice(r, h, op)
				}
				cb, err, pan := safeApply(op, &it)
				h.ops = append(h.ops, fmt.Sprintf("k=%d path=%s %s via %s", op.K, pathStr(op.Path), op.Desc, via))
				info := map[string]interface{}{"doc_hex": fmt.Sprintf("%x", h.doc), "doc_text": printable(h.doc), "copy": h.copy, "history": strings.Join(h.ops, " ; "), "state_before": trunc(h.before, 1500), "oracle": trunc(ans[i], 1500)}
				if pan != "" {
					c.Violate("panic", "edit operation panicked: "+pan, "edit-panic", info)
					h.dead = true
					continue
				}
				impl := "err"
				if err == nil {
					impl = "ok " + tapeHex(h.pj.Tape) + " " + hexOrDash(h.pj.Strings.B) + " cb=" + cb
				}
				model := ans[i]
				ref := ""
				if j := strings.LastIndex(model, " ref="); j >= 0 {
					ref = model[j+5:]
					model = model[:j]
				}
				if impl != model {
					c.Ev.Coverage.ModelDisagreements++
					// judge with the abstract specification on the implementation's own result
					c.Violate("edit", "edit operation on the real tape differs from the modelled operation", "edit-model", info)
					h.dead = true
					continue
				}
				if ref == "0" {
					c.Violate("edit-refine", "modelled operation does not refine the abstract operation on documents (refinement theorem would be false)", "edit-refine", info)
					h.dead = true
					continue
				}
				// all read paths after the operation
				c.compareReads(h.pj, "", info, "after-edit-")
				c.bulkVsTraversal(h.pj, []byte(fmt.Sprintf("%s  AFTER %s", h.doc, strings.Join(h.ops, " ; "))), 6)
				c.convJudgeAll(h.pj, []byte(fmt.Sprintf("%s  AFTER %s", h.doc, strings.Join(h.ops, " ; "))), 8)
				if extraAfterEdit != nil {
					extraAfterEdit(c, h, info)
				}
			}
		}
		for _, h := range hs {
			succ := false
			for _, o := range h.ops {
				_ = o
				succ = true
			}
			c.Ev.Count("history", []byte(fmt.Sprintf("%x|%v", h.doc, h.ops)), succ)
			c.Ev.Dist(fmt.Sprintf("ops:%d", len(h.ops)/5*5))
			if c.Ev.Coverage.Evaluations%97 == 1 {
				c.Ev.Sample(map[string]interface{}{"doc": printable(h.doc), "ops": h.ops})
			}
		}
	}
}

// extraAfterEdit lets later parts of the harness (marshal, serialize) hook in.
var extraAfterEdit func(c *Ctx, h *history, info map[string]interface{})

func safeApply(op *editOp, it *simdjson.Iter) (cb string, err error, pan string) {
	defer func() {
		if r := recover(); r != nil {
			pan = fmt.Sprint(r)
		}
	}()
	cb, err = op.apply(it)
	return
}

// sameIterTwice: on two clones of the history's current state apply the picked operation and
// then SetBool / SetNull on the same position — on clone A through the very iterator value
// that performed the first operation, on clone B through an iterator fetched afresh.
func (c *Ctx) sameIterTwice(r *Rng, h *history, op *editOp) {
	defer func() { recover() }()
	if op.Kind == "delarr" || op.Kind == "delobj" {
		return
	}
	ca, cb := h.pj.Clone(nil), h.pj.Clone(nil)
	rt := r.Intn(1 << 12)
	fetch := func(pj *simdjson.ParsedJson) (simdjson.Iter, bool) {
		it := iterAt(pj, op.K)
		if rt%2 == 1 {
			if it2, ok := iterByPath(pj, op.Path, rt>>1); ok && it2.Type() == it.Type() {
				return it2, true
			}
		}
		return it, true
	}
	ia, _ := fetch(ca)
	ib, _ := fetch(cb)
	_, ea, pa := safeApply(op, &ia)
	_, eb, pb := safeApply(op, &ib)
	if pa != "" || pb != "" || (ea == nil) != (eb == nil) || ea != nil {
		return
	}
	second := func(it *simdjson.Iter) error {
		if rt%3 == 0 {
			return it.SetNull()
		}
		return it.SetBool(rt%3 == 1)
	}
	e2a := second(&ia) // the same iterator value
	ib2, _ := fetch(cb)
	e2b := second(&ib2) // fetched anew
	da, _ := dumpDoc(ca)
	db, _ := dumpDoc(cb)
	c.Ev.Count("same-iterator-twice", []byte(fmt.Sprint(rt, op.Desc, string(h.doc))), true)
	if (e2a == nil) != (e2b == nil) || da != db || !eqU64(ca.Tape, cb.Tape) {
		c.Violate("edit", "a second replacement through the same iterator value differs from the same replacement through an iterator fetched anew", "edit-same-iterator",
			map[string]interface{}{"doc_hex": fmt.Sprintf("%x", h.doc), "doc_text": printable(h.doc), "history": strings.Join(h.ops, " ; "), "first": op.Desc, "second": fmt.Sprintf("SetNull/SetBool variant %d", rt%3),
				"same_iterator": trunc(da, 300), "fresh_iterator": trunc(db, 300), "errors": fmt.Sprint(e2a, " / ", e2b)})
	}
}
