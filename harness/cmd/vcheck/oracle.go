package main

import (
	"bufio"
	"fmt"
	"io"
	"os"
	"os/exec"
	"sync"
)

// Oracle is a pool of processes running the OCaml program extracted from the
// Coq model (bin/oracle). Requests are single lines; answers are single lines.
type Oracle struct {
	path  string
	procs []*oproc
}

type oproc struct {
	cmd *exec.Cmd
	in  io.WriteCloser
	out *bufio.Reader
}

func startOracle(path string, n int) (*Oracle, error) {
	o := &Oracle{path: path}
	for i := 0; i < n; i++ {
		p, err := o.spawn()
		if err != nil {
			return nil, err
		}
		o.procs = append(o.procs, p)
	}
	return o, nil
}

func (o *Oracle) spawn() (*oproc, error) {
	// the extracted code recurses as deep as its input is long: give it stack
	cmd := exec.Command("sh", "-c", "ulimit -s unlimited 2>/dev/null || ulimit -s 1000000 2>/dev/null; exec \"$0\"", o.path)
	cmd.Stderr = os.Stderr
	in, err := cmd.StdinPipe()
	if err != nil {
		return nil, err
	}
	out, err := cmd.StdoutPipe()
	if err != nil {
		return nil, err
	}
	if err := cmd.Start(); err != nil {
		return nil, err
	}
	return &oproc{cmd: cmd, in: in, out: bufio.NewReaderSize(out, 1<<20)}, nil
}

func (o *Oracle) Close() {
	for _, p := range o.procs {
		p.in.Close()
		p.cmd.Wait()
	}
}

// Ask answers all requests, in order, spreading them over the pool.
func (o *Oracle) Ask(reqs []string) []string {
	res := make([]string, len(reqs))
	n := len(o.procs)
	var wg sync.WaitGroup
	for w := 0; w < n; w++ {
		wg.Add(1)
		go func(w int) {
			defer wg.Done()
			p := o.procs[w]
			// writer and reader run concurrently to avoid pipe deadlock
			idxs := []int{}
			for i := w; i < len(reqs); i += n {
				idxs = append(idxs, i)
			}
			done := make(chan struct{})
			go func() {
				defer close(done)
				bw := bufio.NewWriterSize(p.in, 1<<20)
				for _, i := range idxs {
					bw.WriteString(reqs[i])
					bw.WriteByte('\n')
				}
				bw.Flush()
			}()
			for _, i := range idxs {
				line, err := p.out.ReadString('\n')
				if err != nil {
					res[i] = "ORACLE-DIED"
					// restart the process for later batches
					<-done
					p.in.Close()
					p.cmd.Wait()
					if np, e := o.spawn(); e == nil {
						o.procs[w] = np
					}
					for _, j := range idxs {
						if res[j] == "" {
							res[j] = "ORACLE-DIED"
						}
					}
					return
				}
				res[i] = line[:len(line)-1]
			}
			<-done
		}(w)
	}
	wg.Wait()
	return res
}

// Ask1 is Ask for a single request.
func (o *Oracle) Ask1(req string) string { return o.Ask([]string{req})[0] }

func hexOrDash(b []byte) string {
	if len(b) == 0 {
		return "-"
	}
	return fmt.Sprintf("%x", b)
}
