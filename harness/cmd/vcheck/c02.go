package main

import (
	"fmt"
	"strings"

	simdjson "github.com/minio/simdjson-go"
)

func init() { checks["C02"] = checkC02 }

// compareReads runs every read path of the real API on pj and the modelled
// read paths on the same tape, and compares all of them with each other and
// with the specification's document (specDump, "" if unknown).
func (c *Ctx) compareReads(pj *simdjson.ParsedJson, specDump string, info map[string]interface{}, sigPrefix string) {
	walk, werr := dumpDoc(pj)
	ifc, ierr := ifaceDump(pj)
	fe, ferr := foreachDump(pj)
	ai, aerr := advIterDump(pj)
	ans := c.Or.Ask1("reads " + stateArgs(pj))
	f := strings.Fields(ans)
	get := func(prefix string) string {
		for _, x := range f {
			if strings.HasPrefix(x, prefix) {
				return x[len(prefix):]
			}
		}
		return ""
	}
	mden, mwalk, miface := get("den="), get("walk="), get("iface=")
	mk := func(more map[string]interface{}) map[string]interface{} {
		m := map[string]interface{}{}
		for k, v := range info {
			m[k] = v
		}
		for k, v := range more {
			m[k] = v
		}
		return m
	}
	errS := func(e error) string {
		if e != nil {
			return "ERR"
		}
		return ""
	}
	implWalk := walk + errS(werr)
	if werr != nil {
		implWalk = "ERR"
	}
	// implementation vs model, per read path
	if implWalk != mwalk {
		c.Violate("read-path", "plain traversal (Advance/Root/NextElementBytes) differs from the modelled traversal of the same tape", sigPrefix+"walk", mk(map[string]interface{}{"impl": trunc(implWalk, 400), "model": trunc(mwalk, 400)}))
	}
	implIface := ifc
	if ierr != nil {
		implIface = "ERR"
	}
	if implIface != miface {
		c.Violate("read-path", "Interface() differs from the modelled Interface() of the same tape", sigPrefix+"iface", mk(map[string]interface{}{"impl": trunc(implIface, 400), "model": trunc(miface, 400), "err": fmt.Sprint(ierr)}))
	}
	// read paths among themselves and against the abstraction function
	if ferr != nil || fe != walk {
		c.Violate("read-path", "ForEach traversal differs from plain traversal", sigPrefix+"foreach", mk(map[string]interface{}{"foreach": trunc(fe, 400), "walk": trunc(walk, 400), "err": fmt.Sprint(ferr)}))
	}
	if aerr != nil || ai != walk {
		c.Violate("read-path", "AdvanceIter/Parse traversal differs from plain traversal", sigPrefix+"adviter", mk(map[string]interface{}{"adviter": trunc(ai, 400), "walk": trunc(walk, 400), "err": fmt.Sprint(aerr)}))
	}
	if werr == nil {
		if rr, rerr := rootReuseDump(pj); rerr != nil || rr != walk {
			c.Violate("read-path", "Root(dst) with a destination iterator that was used before differs from plain traversal", sigPrefix+"root-reused-dst", mk(map[string]interface{}{"reused": trunc(rr, 400), "walk": trunc(walk, 400), "err": fmt.Sprint(rerr)}))
		}
	}
	if mden != "NONE" && mden != mwalk {
		c.Violate("model", "model: traversal of the tape differs from its denotation (theorem C02_traversals_eq_denote would be false)", sigPrefix+"model-den", mk(map[string]interface{}{"den": trunc(mden, 400), "walk": trunc(mwalk, 400)}))
	}
	strict := !strings.HasPrefix(sigPrefix, "after-")
	if (strict && get("wf=") != "1") || get("wfnop=") != "1" {
		c.Violate("tape-format", "tape is not well-formed as documented (wf_check on the real tape)", sigPrefix+"wf", mk(map[string]interface{}{"wf": get("wf="), "wfnop": get("wfnop="), "tape": trunc(tapeHex(pj.Tape), 1200)}))
	}
	if specDump != "" && werr == nil && walk != specDump {
		c.Violate("document", "document exposed by the API differs from the specification's", sigPrefix+"spec", mk(map[string]interface{}{"impl": trunc(walk, 400), "spec": trunc(specDump, 400)}))
	}
}

func checkC02(c *Ctx) {
	r := c.Rng
	c.Ev.Coverage.Rule = "accepted documents read through every path of the real API (Advance+Root+Array.Iter+NextElementBytes, Interface()/Map(), ParsedJson/Array/Object.ForEach, AdvanceIter+Object.Parse) compared with each other, with the typed bulk accessors (Array.AsFloat/AsInteger/AsUint64/AsString/AsStringCvt/Interface/MarshalJSON, Object.Map/FindKey/...) judged against plain traversal, with the modelled read paths run on the same tape, with the tape's denotation and with the specification's document; tapes also compared word for word with the model's. Streams: grammar-directed documents (G1), boundary-positioned ones (G7), deep nesting 1..3000, wide containers >= 3*1408 members, duplicate keys, every scalar kind, arrays of numbers at the int64/uint64/float64 edges. chains of documents of very different make-up parsed into one reused ParsedJson (dump and tape as without reuse); values returned by Interface()/String() re-read after the ParsedJson was reused and the input overwritten (copying mode). non-trivial = accepted document; distinct = by input bytes"
	flags := ChkVerdict | ChkDump | ChkModel | ChkKernels | ChkCopyModes | ChkNoPanic
	var batch []PCase
	nreads := 0
	flush := func() {
		c.CompareParse(batch, flags, 40000, func(pc *PCase, outs []cfgOut, spec string) {
			if !strings.HasPrefix(spec, "ok ") || len(pc.Doc) > 20000 {
				return
			}
			for _, o := range outs {
				if o.out.Err || o.avx512 != hwAVX512 {
					continue
				}
				// both string modes on the preferred kernel
				nreads++
				c.compareReads(o.out.PJ, spec[3:]+"|", map[string]interface{}{"doc_hex": fmt.Sprintf("%x", pc.Doc), "doc_text": printable(pc.Doc), "copy": o.copy, "stream": pc.Stream}, "")
				// the bulk accessors (Array.As*, Object.Map/FindKey/..., Array.Interface) are read paths too
				if len(pc.Doc) <= 4000 && o.copy {
					c.bulkVsTraversal(o.out.PJ, pc.Doc, 3)
					c.convJudgeAll(o.out.PJ, pc.Doc, 4)
				}
			}
		})
		batch = batch[:0]
	}
	add := func(stream string, doc []byte) {
		batch = append(batch, PCase{Doc: doc, Stream: stream})
		if len(batch) >= 2000 {
			flush()
		}
	}
	n := c.N(2500, 30000)
	for i := 0; i < n; i++ {
		o := smallOpts(r)
		if i%40 == 0 {
			o = &GenOpts{MaxDepth: 5, MaxFan: 5, TopFan: 30 + r.Intn(100), WS: r.Intn(9)}
		}
		add("G1-valid", genDoc(r, o))
	}
	// arrays of numbers at the int64/uint64/float64 edges (typed bulk accessors)
	for i := 0; i < c.N(300, 3000); i++ {
		var elems []string
		for j := 1 + r.Intn(6); j > 0; j-- {
			if r.Chance(2, 3) {
				elems = append(elems, numBoundary[r.Intn(len(numBoundary))])
			} else {
				elems = append(elems, genNumber(r))
			}
		}
		add("numeric-array", []byte("["+strings.Join(elems, ",")+"]"))
	}
	// deep nesting
	for _, d := range []int{1, 2, 3, 10, 63, 64, 65, 127, 128, 129, 500, 1000, 3000} {
		add("deep-array", []byte(strings.Repeat("[", d)+"1"+strings.Repeat("]", d)))
		add("deep-object", []byte(strings.Repeat(`{"a":`, d)+"null"+strings.Repeat("}", d)))
		add("deep-mixed", []byte(strings.Repeat(`[{"k":`, d)+`"v"`+strings.Repeat("}]", d)))
	}
	// wide containers crossing index buffers
	for _, w := range []int{T_INDEX/2 - 1, T_INDEX / 2, T_INDEX/2 + 1, T_INDEX, 3 * T_INDEX / 2, 3 * T_INDEX} {
		var sb strings.Builder
		sb.WriteString("[")
		for i := 0; i < w; i++ {
			if i > 0 {
				sb.WriteString(",")
			}
			sb.WriteString([]string{"1", `"s"`, "null", "[]", "{}", "2.5"}[i%6])
		}
		sb.WriteString("]")
		add("wide-array", []byte(sb.String()))
		sb.Reset()
		sb.WriteString("{")
		for i := 0; i < w/2; i++ {
			if i > 0 {
				sb.WriteString(",")
			}
			fmt.Fprintf(&sb, `"k%d":%d`, i%97, i)
		}
		sb.WriteString("}")
		add("wide-object-dupkeys", []byte(sb.String()))
	}
	// strings and keys with every escape kind at every window offset
	for _, d := range escapeOffsetDocs(r, c.Thorough()) {
		add("escape-offset", d)
	}
	// a long string arriving after other keys and strings (string-buffer growth)
	for _, d := range longStringDocs(r) {
		add("long-string-after-others", d)
	}
	// positional sweep
	seeds := []string{`{"a":"x","a":"y","b":[1,2,{"c":null}]}`, `["é",-0.0,18446744073709551615,{"":""}]`}
	for _, sd := range seeds {
		for sh := 0; sh < 130; sh += 3 {
			add("shift", []byte(strings.Repeat(" ", sh)+"["+strings.Repeat(" ", r.Intn(70))+sd+"]"))
		}
	}
	flush()
	// chains of documents of very different make-up parsed into ONE reused ParsedJson (number-dense
	// with a large tape and no strings, string-heavy, tiny, mixed): what is exposed is the
	// current document alone — same dump and same tape as a parse without reuse
	{
		var prev *simdjson.ParsedJson
		for i := 0; i < c.N(300, 3000); i++ {
			var doc []byte
			switch r.Intn(5) {
			case 0:
				doc = []byte("[" + strings.Repeat("1,", 300+r.Intn(2500)) + "0]")
			case 1:
				var sb strings.Builder
				sb.WriteString("{")
				for k := 0; k < 20+r.Intn(150); k++ {
					if k > 0 {
						sb.WriteString(",")
					}
					fmt.Fprintf(&sb, `"key%d":"%s"`, k, strings.Repeat("v", 5+r.Intn(40)))
				}
				sb.WriteString("}")
				doc = []byte(sb.String())
			case 2:
				doc = genDoc(r, smallOpts(r))
			case 3:
				doc = []byte(`{"t":[true,false,null,true,false,null],"n":` + "[" + strings.Repeat("null,", r.Intn(900)) + "null]}")
			default:
				doc = genDoc(r, &GenOpts{MaxDepth: 4, MaxFan: 6, TopFan: 20 + r.Intn(80), WS: r.Intn(4)})
			}
			// a chain is short (buffers only ever grow along it), and one chain in three is the
			// directed pair "number-dense document, then a string-heavy one 1.5 to 6 times as long"
			if i%6 == 0 {
				prev = nil
			}
			if (i/6)%3 == 0 && i%6 < 2 {
				n1 := []int{300, 600, 1200, 2400}[(i/18)%4]
				if i%6 == 0 {
					doc = []byte("[" + strings.Repeat("1,", n1) + "0]")
				} else {
					var sb strings.Builder
					sb.WriteString("{")
					for k := 0; sb.Len() < 2*n1*[]int{3, 6, 12}[(i/72)%3]/2; k++ {
						if k > 0 {
							sb.WriteString(",")
						}
						fmt.Fprintf(&sb, `"key%d":"%s"`, k, strings.Repeat("v", 5+r.Intn(40)))
					}
					sb.WriteString("}")
					doc = []byte(sb.String())
				}
			}
			cp := r.Bool()
			got := implParse(doc, false, cp, prev)
			want := implParse(doc, false, cp, nil)
			c.Ev.Count("reuse-chain", append([]byte{byte(i)}, doc...), !want.Err)
			if got.Err != want.Err {
				c.Violate("document", "a parse into a reused ParsedJson has another verdict than a parse without reuse", "reuse-chain-verdict", map[string]interface{}{"doc_hex": fmt.Sprintf("%x", trunc(string(doc), 3000)), "doc_len": len(doc), "step": i})
				break
			}
			if got.Err {
				prev = nil
				continue
			}
			a, e1 := dumpDoc(got.PJ)
			b, e2 := dumpDoc(want.PJ)
			if e1 != nil || e2 != nil || a != b || !eqU64(got.Tape, want.Tape) {
				c.Violate("document", "a document parsed into a reused ParsedJson is exposed differently from the same document parsed without reuse (dump or tape)", "reuse-chain-doc",
					map[string]interface{}{"doc_hex": fmt.Sprintf("%x", trunc(string(doc), 3000)), "doc_len": len(doc), "step": i, "reused": trunc(a, 300), "fresh": trunc(b, 300), "reused_tape_words": len(got.Tape), "fresh_tape_words": len(want.Tape)})
				break
			}
			prev = got.PJ
		}
	}
	// values handed out by the API are values, not views: what Interface() / String() /
	// AsString returned keeps its content after the ParsedJson is parsed into again (its string
	// buffer is reused) and after the caller's input buffer is overwritten
	for i := 0; i < c.N(400, 4000); i++ {
		doc := genDoc(r, &GenOpts{MaxDepth: 3, MaxFan: 4, TopFan: 3 + r.Intn(6), WS: r.Intn(3)})
		cp := i%3 != 0
		buf := append([]byte{}, doc...)
		out := implParse(buf, false, cp, nil)
		if cp && i%2 == 1 {
			// the documented default (copying) on an object that was last used without copying
			if prev := implParse([]byte(`{"earlier":"call without copying","n":[1,"two"]}`), false, false, nil); !prev.Err {
				out = implParseDefault(buf, false, prev.PJ)
			}
		}
		if out.Err {
			continue
		}
		it := out.PJ.Iter()
		v, err := it.Interface()
		if err != nil {
			continue
		}
		var strs []string
		if pos, e := flatPositions(out.PJ, 300); e == nil {
			for _, p := range pos {
				if p.Tag == simdjson.TagString {
					pi := iterAt(out.PJ, p.K)
					if s, e := pi.String(); e == nil {
						strs = append(strs, s)
					}
				}
			}
		}
		var b1 strings.Builder
		dumpIface(&b1, v)
		before := b1.String() + "|" + strings.Join(strs, "\x00")
		if cp && i%2 == 1 {
			// copying mode: the document itself must not depend on the input buffer any more
			d1, e1 := dumpDoc(out.PJ)
			saved := append([]byte{}, buf...)
			for k := range buf {
				buf[k] = '#'
			}
			d2, e2 := dumpDoc(out.PJ)
			copy(buf, saved)
			if e1 != nil || e2 != nil || d1 != d2 {
				c.Violate("document", "a document parsed with the default options (copying) changed when the input buffer was overwritten", "default-copy-after-nocopy",
					map[string]interface{}{"doc_hex": fmt.Sprintf("%x", doc), "doc_text": printable(doc), "before": trunc(d1, 300), "after": trunc(d2, 300)})
				break
			}
		}
		// reuse the parser for another document of about the same size, then scribble over the input
		other := genDoc(r, &GenOpts{MaxDepth: 3, MaxFan: 4, TopFan: 3 + r.Intn(6), WS: r.Intn(3)})
		if cp {
			implParse(other, false, true, out.PJ)
		}
		for k := range buf {
			buf[k] = '#'
		}
		var b2 strings.Builder
		dumpIface(&b2, v)
		after := b2.String() + "|" + strings.Join(strs, "\x00")
		c.Ev.Count("retained-values", doc, true)
		if cp && before != after {
			c.Violate("document", "values returned by Interface()/String() changed after the ParsedJson was parsed into again and the input buffer overwritten (copying mode)", "retained-values",
				map[string]interface{}{"doc_hex": fmt.Sprintf("%x", doc), "doc_text": printable(doc), "next_doc": printable(other), "before": trunc(before, 400), "after": trunc(after, 400)})
			break
		}
	}
	c.Ev.Note(fmt.Sprintf("read-path comparisons (5 paths x model) on %d parsed results", nreads))
}
