package main

import (
	"bytes"
	"encoding/binary"
	"errors"
	"io"

	"github.com/klauspost/compress/s2"
	"github.com/klauspost/compress/zstd"
)

// framing of a serialized blob, as documented in parsed_serialize.go

type section struct {
	Declared uint64 // uncompressed size
	Size     uint64 // block size incl. type byte (0 = empty block without type byte)
	Typ      byte
	Data     []byte // block payload (compressed form)
}

type blobFrame struct {
	Version byte
	Comp    uint64
	Ts      uint64
	Strings section
	Msg     section
	Tags    section
	Vals    section
}

func readSection(br *bytes.Buffer, declared uint64) (section, error) {
	s := section{Declared: declared}
	size, err := binary.ReadUvarint(br)
	if err != nil {
		return s, err
	}
	s.Size = size
	if size == 0 {
		return s, nil
	}
	if size > uint64(br.Len()) {
		return s, errors.New("short")
	}
	t, _ := br.ReadByte()
	s.Typ = t
	s.Data = append([]byte{}, br.Next(int(size-1))...)
	return s, nil
}

func parseBlob(b []byte) (*blobFrame, error) {
	br := bytes.NewBuffer(b)
	f := &blobFrame{}
	v, err := br.ReadByte()
	if err != nil {
		return nil, err
	}
	f.Version = v
	if f.Comp, err = binary.ReadUvarint(br); err != nil {
		return nil, err
	}
	if f.Ts, err = binary.ReadUvarint(br); err != nil {
		return nil, err
	}
	// from here on the frame read so far is returned with the error: Deserialize has already
	// allocated for every size it has read (the tape as soon as its size is known)
	d, err := binary.ReadUvarint(br)
	if err != nil {
		return f, err
	}
	if f.Strings, err = readSection(br, d); err != nil {
		return f, err
	}
	if d, err = binary.ReadUvarint(br); err != nil {
		return f, err
	}
	if f.Msg, err = readSection(br, d); err != nil {
		return f, err
	}
	if d, err = binary.ReadUvarint(br); err != nil {
		return f, err
	}
	if f.Tags, err = readSection(br, d); err != nil {
		return f, err
	}
	if d, err = binary.ReadUvarint(br); err != nil {
		return f, err
	}
	if f.Vals, err = readSection(br, d); err != nil {
		return f, err
	}
	return f, nil
}

func putUvarint(b *bytes.Buffer, v uint64) {
	var tmp [10]byte
	n := binary.PutUvarint(tmp[:], v)
	b.Write(tmp[:n])
}

func (s *section) write(b *bytes.Buffer) {
	putUvarint(b, s.Declared)
	putUvarint(b, s.Size)
	if s.Size > 0 {
		b.WriteByte(s.Typ)
		b.Write(s.Data)
	}
}

func (f *blobFrame) build() []byte {
	var body bytes.Buffer
	putUvarint(&body, f.Ts)
	f.Strings.write(&body)
	f.Msg.write(&body)
	f.Tags.write(&body)
	f.Vals.write(&body)
	var out bytes.Buffer
	out.WriteByte(f.Version)
	putUvarint(&out, uint64(body.Len()))
	out.Write(body.Bytes())
	return out.Bytes()
}

// field returns the idx-th size varint of the frame: 0 total body size, 1 tape size, then
// (declared, block size) of strings, messages, tags, values.
func (f *blobFrame) field(idx int) uint64 {
	secs := []*section{&f.Strings, &f.Msg, &f.Tags, &f.Vals}
	switch {
	case idx == 0:
		return uint64(len(f.build()) - 1) // approximate; only used to pick neighbours
	case idx == 1:
		return f.Ts
	case idx%2 == 0:
		return secs[(idx-2)/2].Declared
	default:
		return secs[(idx-2)/2].Size
	}
}

// buildWith re-frames f with the idx-th size varint replaced by v (or, with overlong, by an
// 11-byte varint); payload bytes stay those of the original sections.
func (f *blobFrame) buildWith(idx int, v uint64, overlong bool) []byte {
	n := 1
	put := func(b *bytes.Buffer, orig uint64) {
		if n == idx {
			if overlong {
				b.Write([]byte{0xff, 0xff, 0xff, 0xff, 0xff, 0xff, 0xff, 0xff, 0xff, 0xff, 0x02})
			} else {
				putUvarint(b, v)
			}
		} else {
			putUvarint(b, orig)
		}
		n++
	}
	var body bytes.Buffer
	put(&body, f.Ts)
	for _, s := range []*section{&f.Strings, &f.Msg, &f.Tags, &f.Vals} {
		put(&body, s.Declared)
		put(&body, s.Size)
		if s.Size > 0 {
			body.WriteByte(s.Typ)
			body.Write(s.Data)
		}
	}
	var out bytes.Buffer
	out.WriteByte(f.Version)
	if idx == 0 {
		if overlong {
			out.Write([]byte{0xff, 0xff, 0xff, 0xff, 0xff, 0xff, 0xff, 0xff, 0xff, 0xff, 0x02})
		} else {
			putUvarint(&out, v)
		}
	} else {
		putUvarint(&out, uint64(body.Len()))
	}
	out.Write(body.Bytes())
	return out.Bytes()
}

// rawSection makes an uncompressed section holding data.
func rawSection(data []byte) section {
	if len(data) == 0 {
		return section{}
	}
	return section{Declared: uint64(len(data)), Size: uint64(len(data) + 1), Typ: 0, Data: data}
}

var zdec, _ = zstd.NewReader(nil)

func (s *section) decode() ([]byte, error) {
	if s.Size == 0 {
		return nil, nil
	}
	switch s.Typ {
	case 0:
		return s.Data, nil
	case 1:
		r := s2.NewReader(bytes.NewReader(s.Data))
		out := make([]byte, s.Declared)
		_, err := io.ReadFull(r, out)
		return out, err
	case 2:
		return zdec.DecodeAll(s.Data, nil)
	}
	return nil, errors.New("unknown block type")
}

// maxDeclared returns the largest declared size in the frame (whatever could be parsed).
func (f *blobFrame) maxDeclared() uint64 {
	m := f.Ts
	for _, s := range []section{f.Strings, f.Msg, f.Tags, f.Vals} {
		if s.Declared > m {
			m = s.Declared
		}
	}
	return m
}
