// noasmdeser: built with -tags noasm (no assembly, no verif hooks). Reads one
// hex blob per line, deserializes it and prints the canonical document dump,
// so that the asm build's blobs can be checked against the pure-Go build.
package main

import (
	"bufio"
	"encoding/hex"
	"fmt"
	"math"
	"os"
	"strings"

	simdjson "github.com/minio/simdjson-go"
)

func dumpValue(b *strings.Builder, i *simdjson.Iter, depth int) error {
	switch i.Type() {
	case simdjson.TypeNull:
		b.WriteByte('n')
	case simdjson.TypeBool:
		v, err := i.Bool()
		if err != nil {
			return err
		}
		if v {
			b.WriteByte('t')
		} else {
			b.WriteByte('f')
		}
	case simdjson.TypeInt:
		v, err := i.Int()
		if err != nil {
			return err
		}
		fmt.Fprintf(b, "i%d;", v)
	case simdjson.TypeUint:
		v, err := i.Uint()
		if err != nil {
			return err
		}
		fmt.Fprintf(b, "u%d;", v)
	case simdjson.TypeFloat:
		v, fl, err := i.FloatFlags()
		if err != nil {
			return err
		}
		fmt.Fprintf(b, "d%016x:%d;", math.Float64bits(v), uint64(fl))
	case simdjson.TypeString:
		s, err := i.StringBytes()
		if err != nil {
			return err
		}
		fmt.Fprintf(b, "s%x;", s)
	case simdjson.TypeArray:
		arr, err := i.Array(nil)
		if err != nil {
			return err
		}
		b.WriteByte('[')
		it := arr.Iter()
		for {
			t := it.Advance()
			if t == simdjson.TypeNone {
				break
			}
			if err := dumpValue(b, &it, depth+1); err != nil {
				return err
			}
		}
		b.WriteByte(']')
	case simdjson.TypeObject:
		obj, err := i.Object(nil)
		if err != nil {
			return err
		}
		b.WriteByte('{')
		var el simdjson.Iter
		for {
			name, t, err := obj.NextElementBytes(&el)
			if err != nil {
				return err
			}
			if t == simdjson.TypeNone {
				break
			}
			fmt.Fprintf(b, "k%x;", name)
			if err := dumpValue(b, &el, depth+1); err != nil {
				return err
			}
		}
		b.WriteByte('}')
	default:
		return fmt.Errorf("unexpected type %v", i.Type())
	}
	return nil
}

func dump(pj *simdjson.ParsedJson) (s string, err error) {
	defer func() {
		if r := recover(); r != nil {
			err = fmt.Errorf("panic: %v", r)
		}
	}()
	var b strings.Builder
	it := pj.Iter()
	for {
		t := it.Advance()
		if t == simdjson.TypeNone {
			break
		}
		var tmp simdjson.Iter
		_, r, err := it.Root(&tmp)
		if err != nil {
			return "", err
		}
		if err := dumpValue(&b, r, 0); err != nil {
			return "", err
		}
		b.WriteByte('|')
	}
	return b.String(), nil
}

func main() {
	sc := bufio.NewScanner(os.Stdin)
	sc.Buffer(make([]byte, 1<<20), 1<<30)
	s := simdjson.NewSerializer()
	w := bufio.NewWriter(os.Stdout)
	defer w.Flush()
	for sc.Scan() {
		blob, err := hex.DecodeString(sc.Text())
		if err != nil {
			fmt.Fprintln(w, "BADHEX")
			w.Flush()
			continue
		}
		pj, err := s.Deserialize(blob, nil)
		if err != nil {
			fmt.Fprintln(w, "ERR")
			w.Flush()
			continue
		}
		d, err := dump(pj)
		if err != nil {
			fmt.Fprintln(w, "DUMPERR", err)
			w.Flush()
			continue
		}
		fmt.Fprintln(w, "ok", d)
		w.Flush()
	}
}
