import sys, json, hashlib
p = set()
for l in sys.stdin:
    try:
        e = json.loads(l)
    except Exception:
        continue
    if e.get('Action') == 'pass' and e.get('Test'):
        p.add(e['Test'])
print(len(p), hashlib.md5(",".join(sorted(p)).encode()).hexdigest()[:12])
