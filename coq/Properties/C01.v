(* Property C01 — Parse accepts exactly the JSON grammar (object or array at
   the root).  Proved in full on the model (C01_parse_accepts_iff_grammar):
   trim, scalar stage 1 with its index buffers, the stage-2 machine and the
   token validators against the RFC 8259 recogniser spec_parse.  What ties the
   model to the code: table/constant obligations re-checked on every run and
   the three-way correspondence (implementation, extracted model, extracted
   spec) — see DESIGN.md §6 C01. *)
From SJ Require Import Model.Base Model.RefTables Spec.Json Model.Number Model.Str Model.Stage2 Model.Driver
     Proofs.NumLex Proofs.NumberProofs Proofs.StrProofs Proofs.AtomProofs Proofs.AcceptProofs Proofs.RejectProofs Model.Tape Model.S2Ast Tie.GoTablesTie Tie.StrTablesTie Tie.Stage2AstTie.
Open Scope N_scope.

(* the full statement *)
Definition C01_full : Prop :=
  forall (copy : bool) (bs : bytes),
    N.of_nat (length bs) < 2 ^ 55 ->
    spec_parse bs <> SOut -> spec_parse bs <> SFuel ->
    ((exists p, parse_model copy bs = Ok p) <-> exists d, spec_parse bs = SOk d).

(* C01, in full, on the model: outside the stated exclusions (SOut) Parse
   succeeds if and only if the input, ignoring leading and trailing white space,
   is a JSON text per RFC 8259 with an object or array at the root and finite
   numbers — for every byte string below 2^55 bytes, in both string modes. *)
Theorem C01_parse_accepts_iff_grammar : C01_full.
Proof. exact parse_accepts_iff. Qed.

(* every other input returns an error: not a result, not a crash *)
Theorem C01_rejects_everything_else : forall (copy : bool) (bs : bytes),
  N.of_nat (length bs) < 2 ^ 55 -> spec_parse bs = SInvalid -> parse_model copy bs = Err.
Proof. exact parse_rejects_invalid. Qed.

(* completeness of acceptance, with the document: every RFC 8259 text
   with an object/array root and finite numbers (spec_parse = SOk) is accepted,
   in both string modes, whatever its size, layout and position relative to
   64-byte blocks and index buffers; and the tape denotes exactly the
   specification's document. *)
Theorem C01_accepts_every_valid_document : forall (copy : bool) (bs : bytes) (d : doc),
  N.of_nat (length bs) < 2 ^ 55 -> spec_parse bs = SOk d ->
  exists p, parse_model copy bs = Ok p /\ denote (p_msg p) (p_strings p) (p_tape p) = Some [d].
Proof. exact parse_accepts_valid. Qed.

(* numbers: accepted by the model of parseNumber iff an RFC 8259 literal with a
   finite value, followed by nothing or an end-of-value byte *)
Theorem C01_token_number_partial : forall b t,
  (b2n b =? cMINUS) || is_digit (b2n b) = true ->
  (parse_number_model (b :: t) <> None <->
   exists l rest n, lex_number (b :: t) = Some (l, rest) /\ rest_ok rest = true /\ num_spec l = Some n).
Proof. exact number_model_accepts_iff. Qed.

(* atoms: exactly the literal followed by white space or a structural byte
   (in particular not by NUL) *)
Theorem C01_token_true_partial : forall buf,
  is_true_atom buf = true <-> exists rest, buf = of_codes [116; 114; 117; 101] ++ rest /\ follows_ok rest = true.
Proof. exact true_atom_spec. Qed.
Theorem C01_token_false_partial : forall buf,
  is_false_atom buf = true <-> exists rest, buf = of_codes [102; 97; 108; 115; 101] ++ rest /\ follows_ok rest = true.
Proof. exact false_atom_spec. Qed.
Theorem C01_token_null_partial : forall buf,
  is_null_atom buf = true <-> exists rest, buf = of_codes [110; 117; 108; 108] ++ rest /\ follows_ok rest = true.
Proof. exact null_atom_spec. Qed.

(* strings: a body the specification decodes is accepted; a body it rejects
   for a bad or truncated escape is never accepted *)
Theorem C01_token_string_accept_partial : forall mem sfuel dec rest max fuel,
  spec_string sfuel mem [] = SOk (dec, rest) -> (length mem < fuel)%nat ->
  exists src, mem = src ++ x22 :: rest /\ str_validate mem max fuel = StrOk (length src) dec.
Proof. exact str_validate_correct. Qed.
Theorem C01_token_string_reject_partial : forall mem sfuel max fuel,
  spec_string sfuel mem [] = SInvalid -> (length mem < fuel)%nat ->
  (forall b, In b mem -> 32 <= b2n b) ->
  forall n d, str_validate mem max fuel <> StrOk n d.
Proof. exact str_reject_spec_never_ok. Qed.

(* tables *)
Theorem C01_tie_follow_set : tab_diff gen.Tables.gen_structuralOrWhitespaceNegated follow_ref 256 = [] /\ length gen.Tables.gen_structuralOrWhitespaceNegated = 256%nat.
Proof. exact tie_follow. Qed.
Theorem C01_tie_number_classes : tab_diff gen.Tables.gen_isNumberRune isNumberRune_ref 256 = [] /\ length gen.Tables.gen_isNumberRune = 256%nat.
Proof. exact tie_isNumberRune. Qed.
Theorem C01_tie_markup : tab_diff gen.Tables.gen_jsonMarkupTable jsonMarkup_ref 256 = [].
Proof. exact tie_jsonMarkup. Qed.
Theorem C01_tie_string_tables : digittoval_diff = [] /\ escape_map_diff = [].
Proof. exact (conj tie_digittoval tie_escape_map). Qed.

Print Assumptions C01_parse_accepts_iff_grammar.
Print Assumptions C01_rejects_everything_else.
Print Assumptions C01_accepts_every_valid_document.
Print Assumptions C01_token_number_partial.
Print Assumptions C01_token_true_partial.
Print Assumptions C01_token_string_accept_partial.
Print Assumptions C01_token_string_reject_partial.
Print Assumptions C01_tie_follow_set.

(* the stage-2 machine these theorems are about IS the machine in the source:
   unifiedMachine's body, translated statement by statement from /repo's current
   stage2_build_tape_amd64.go (gen/S2Prog.v, regenerated on every run), runs
   exactly like Model/Stage2.run2 on every message and index-buffer sequence *)
Theorem C01_stage2_machine_is_the_source : forall copy msg bufs,
  run_ast gen.S2Prog.gen_unifiedMachine gen.S2Prog.gen_unifiedMachine_sites copy msg bufs = run2 copy msg bufs.
Proof. exact stage2_translation_refines_model. Qed.
Print Assumptions C01_stage2_machine_is_the_source.
