(* Property C06 — AVX2 and AVX-512 kernels are observationally identical.
   Proved on the mask-level model of the kernels (Proofs/MaskModel.v: the
   bit-parallel algorithm both families implement, on 64-bit masks — odd
   backslash runs by add-with-carry, quote mask by carry-less multiplication,
   finalize, NDJSON newlines, the TZCNT flatten loop; the AVX2 variant builds
   every mask from two 32-bit halves): for EVERY 64-byte block and every
   reachable carried state both families compute the same masks, which are
   exactly what 64 steps of the scalar model compute, hence Parse with either
   family is the modelled Parse.  Partial by nature: that each INSTRUCTION
   computes its mask operation is modelled, not verified; tied by the asm data
   obligations below and by comparing every intermediate mask of both real
   kernel families with this model on every run. *)
From SJ Require Import Model.Base Model.RefTables Model.Stage1 Model.Driver Tie.Stage1AsmTie
     Proofs.MaskModel Proofs.MaskProofsBlock Proofs.MaskProofsAll Proofs.MaskProofsDriver Proofs.MaskFinal.
Open Scope N_scope.

Theorem C06_classification_tables_partial : class_diff = [].
Proof. exact tie_stage1_classification. Qed.
Theorem C06_tail_masks_same_partial :
  gen.Tables.gen_asm_find_structural_bits_avx512_amd64_MASKTABLE = gen.Tables.gen_asm_find_structural_bits_amd64_MASKTABLE /\
  gen.Tables.gen_asm_find_structural_bits_avx512_amd64_WHITESPACE = gen.Tables.gen_asm_find_structural_bits_amd64_WHITESPACE.
Proof. exact tie_tail_masks_avx512. Qed.
Theorem C06_tail_masks_partial :
  masktab_ok gen.Tables.gen_asm_find_structural_bits_amd64_MASKTABLE = true /\
  forallb (fun b => b =? 32) gen.Tables.gen_asm_find_structural_bits_amd64_WHITESPACE = true /\
  length gen.Tables.gen_asm_find_structural_bits_amd64_WHITESPACE = 8%nat.
Proof. exact tie_tail_masks. Qed.

(* the mask kernels of one block = 64 steps of the scalar model, for every block
   and every reachable carried state, Parse and ParseND *)
Theorem C06_mask_block_refines_scalar : forall (nd : bool) (block : bytes) (k : kstate) (p : nat),
  length block = 64%nat -> kstate_wf k ->
  let '(k', m) := mask_block nd k (map b2n block) in
  s1_run nd (abs_kstate k) p block [] = (abs_kstate k', flatten_bits p m) /\ kstate_wf k' /\ m < two64.
Proof. exact mask_block_refines_s1_run. Qed.

(* the two families compute the same masks on every block *)
Theorem C06_avx2_block_eq_avx512_block : forall nd k B, length B = 64%nat ->
  mask_block_avx2 nd k B = mask_block nd k B.
Proof. exact avx2_block_eq_avx512_block. Qed.

(* whole messages: the index buffers of either family are the scalar model's *)
Theorem C06_buffers_eq_model : forall fam nd msg, mask_buffers_k fam nd msg = s1_buffers nd msg.
Proof. exact mask_buffers_eq_s1_buffers. Qed.

(* C06 on the model: same outcome — both fail, or both succeed with identical
   tape and string buffer — for every input, Parse and ParseND, both string modes *)
Theorem C06_kernel_families_observationally_identical : forall nd copy msg,
  parse_message_k AVX512 nd copy msg = parse_message_k AVX2 nd copy msg.
Proof. exact C06_families_agree. Qed.
Theorem C06_either_family_is_the_modelled_parse : forall fam nd copy msg,
  parse_message_k fam nd copy msg = parse_message nd copy msg.
Proof. exact parse_with_kernels_eq_model. Qed.

Definition C06_flatten_loop_correct := flatten_incremental_correct.
Definition C06_slice_kernel_increments := slice_kernel_increments.
Definition C06_odd_backslash_trick := odd_backslash_kernel.
Definition C06_prefix_xor_by_clmul := prefix_xor_kernel.

Print Assumptions C06_classification_tables_partial.
Print Assumptions C06_kernel_families_observationally_identical.
Print Assumptions C06_mask_block_refines_scalar.
