(* Property C06 — AVX2 and AVX-512 kernels are observationally identical.
   Partial by nature: the instruction sequences are modelled, not verified
   (DESIGN.md §8).  What is proved on every run: both families read the same
   data symbols or equal copies of them, and those constants mean what the
   scalar stage-1 model assumes (classification of all 256 bytes, control
   character test, tail masks).  The equality of the two instruction sequences
   is decided by the kernel-, slice- and end-to-end correspondence runs. *)
From SJ Require Import Model.Base Model.RefTables Model.Stage1 Tie.Stage1AsmTie.
Open Scope N_scope.

Theorem C06_classification_tables_partial : class_diff = [].
Proof. exact tie_stage1_classification. Qed.
Theorem C06_tail_masks_same_partial :
  gen.Tables.gen_asm_find_structural_bits_avx512_amd64_MASKTABLE = gen.Tables.gen_asm_find_structural_bits_amd64_MASKTABLE /\
  gen.Tables.gen_asm_find_structural_bits_avx512_amd64_WHITESPACE = gen.Tables.gen_asm_find_structural_bits_amd64_WHITESPACE.
Proof. exact tie_tail_masks_avx512. Qed.
Theorem C06_tail_masks_partial :
  masktab_ok gen.Tables.gen_asm_find_structural_bits_amd64_MASKTABLE = true /\
  forallb (fun b => b =? 32) gen.Tables.gen_asm_find_structural_bits_amd64_WHITESPACE = true /\
  length gen.Tables.gen_asm_find_structural_bits_amd64_WHITESPACE = 8%nat.
Proof. exact tie_tail_masks. Qed.
Print Assumptions C06_classification_tables_partial.
