(* Property C05 — no input can crash, hang or produce an untraversable result.
   What a theorem carries here (partial by nature, see DESIGN.md §8): buffer
   writes stay inside their ring slot, the sequential path cannot block on the
   channel, the pipeline has no reachable stuck state and every schedule is
   finite, with the source's constants.  Stack exhaustion (known finding K1),
   faults inside assembly and the Go scheduler are run-time matters. *)
From Coq Require Import List Arith.
From SJ Require Import Model.Base Model.RefTables Model.Ring Proofs.RingProofs Tie.PipelineTie.
From SJ Require Import Model.Iter Model.Walk Model.Marshal Proofs.ApiTotalFinal.
From SJ Require Proofs.ApiTotalBase Proofs.ApiTotalParse.
Open Scope N_scope.

(* the full statement on the model: no Crash / OutOfFuel outcome of parsing *)
From SJ Require Import Model.Driver Proofs.RejectProofs Proofs.StrTotal Proofs.TotalProofs.
Definition C05_full : Prop :=
  forall nd copy bs, parse_message nd copy bs <> Crash /\ parse_message nd copy bs <> OutOfFuel.

(* PROVED for Parse: for EVERY byte string the model of Parse returns an error
   or a result: no index out of range in stage 2, no empty index buffer, no
   run-away read of the string kernel, enough fuel — whatever the input. *)
Theorem C05_parse_total : forall (copy : bool) (bs : bytes),
  parse_model copy bs = Err \/ exists p, parse_model copy bs = Ok p.
Proof. exact Proofs.RejectProofs.parse_message_total. Qed.

(* PROVED: C05_full — for EVERY byte string, Parse and ParseND (both string
   modes) return an error or a result in the model: never an out-of-range
   access, never a run-away read of the string kernel, never exhausted fuel. *)
Theorem C05_parse_and_parsend_total : C05_full.
Proof. exact Proofs.TotalProofs.parse_message_total. Qed.

Theorem C05_slot_bounds_partial :
  (gen.Consts.gen_indexSizeWithSafetyBuffer + 128 <=? gen.Consts.gen_indexSize) = true /\
  ((gen.Consts.gen_indexSizeWithSafetyBuffer - 1) + 64 + 64 <? gen.Consts.gen_indexSize) = true.
Proof. exact tie_slot_bounds. Qed.

Theorem C05_sync_path_cannot_block_partial :
  (gen.Consts.gen_syncThreshold / gen.Consts.gen_indexSizeWithSafetyBuffer + 2 <=? gen.Consts.gen_chanCapExpr) = true.
Proof. exact tie_sync_no_block. Qed.

Theorem C05_no_stuck_state_partial : forall n evs s,
  run S_gen CAP_gen (init n) evs = Some s -> final s = false ->
  exists e, e <> Fail2 /\ In e (enabled S_gen CAP_gen s).
Proof. intros n evs s. exact (ring_no_deadlock S_gen CAP_gen n evs s tie_cap_positive). Qed.

Theorem C05_every_schedule_finite_partial : forall S CAP n evs s,
  run S CAP (init n) evs = Some s -> (length evs <= 4 * n + 4)%nat.
Proof. intros S CAP n evs s H. exact (proj2 (ring_terminates S CAP n evs s H)). Qed.

Print Assumptions C05_parse_and_parsend_total.
Print Assumptions C05_parse_total.
Print Assumptions C05_no_stuck_state_partial.
Print Assumptions C05_slot_bounds_partial.

(* ... and can always be completed: from every reachable state of the hand-off
   (after a failure of stage 1, of stage 2, or of both) some continuation
   reaches the state where both stages have returned *)
Theorem C05_pipeline_can_finish_partial : forall n evs s,
  run S_gen CAP_gen (init n) evs = Some s ->
  exists evs' s', run S_gen CAP_gen (init n) (evs ++ evs') = Some s' /\ final s' = true /\
                  (count_fail2 evs' = 0)%nat /\ (length evs' <= mu s)%nat.
Proof. intros n evs s. exact (ring_can_finish S_gen CAP_gen n evs s tie_cap_positive). Qed.

(* the second sentence — on any returned result every traversal, lookup and
   marshalling call terminates without panic — holds for ARBITRARY tapes, hence
   for every result: plain traversal, MarshalJSON, FindElement from the root;
   the typed accessors, Advance*, FindKey/FindPath, ForEach, As* from every
   reachable iterator (ApiTotalFinal: advance_fine ... marshal_array_fine) *)
Theorem C05_traversal_lookup_marshal_total : forall pj,
  fine (walk_doc pj) /\ fine (marshal_iter pj (iter0 pj)) /\ forall path, fine (find_element pj (iter0 pj) path).
Proof. intros pj. split; [apply walk_doc_fine|]. split; [apply marshal_doc_fine|apply find_element_doc_fine]. Qed.
(* Interface() / Map() of the whole document and Object.Parse from any reachable object
   cursor, on ARBITRARY tapes as well (since fix F19) *)
Theorem C05_interface_total : forall pj, fine (interface_doc pj).
Proof. exact interface_doc_fine_any. Qed.
Theorem C05_object_parse_total : forall pj i o, ApiTotalBase.iter_ok pj i -> iter_object i = Ok o -> fine (obj_parse pj o).
Proof. intros pj i o Hi Ho. eapply okP_fine. apply ApiTotalParse.obj_parse_total. eapply object_closed; eassumption. Qed.
Definition C05_find_key_total := find_key_fine.
Definition C05_find_path_total := find_path_fine.
Definition C05_object_foreach_total := obj_foreach_fine.
Definition C05_array_foreach_total := arr_foreach_fine.
Definition C05_as_number_total := as_num_fine.
Definition C05_as_string_total := as_string_fine.
Definition C05_array_marshal_total := marshal_array_fine.
Print Assumptions C05_traversal_lookup_marshal_total.
Print Assumptions C05_interface_total.
Print Assumptions C05_object_parse_total.
