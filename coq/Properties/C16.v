(* Property C16 — Copied strings decouple results from the input buffer; Clone is independent
   Statement-level file; see DESIGN.md §6 C16.  Model-level theorems are under
   proof in Proofs/ (see obligations.json); this file carries the tie
   obligations and what is proved so far; the property is decided on every run
   by the correspondence described in DESIGN.md. *)
From SJ Require Import Model.Base Model.RefTables Spec.Json Model.Tape Model.Iter Model.Serialize Model.FloatFmt Model.Marshal Tie.GoTablesTie Tie.SerializeTie.
Open Scope N_scope.
(* a string word with STRINGBUFBIT is read from the string buffer only: the
   message does not matter *)
Theorem C16_copied_string_ignores_message : forall strings msg msg' payload len,
  negb (N.land payload STRINGBUFBIT =? 0) = true ->
  string_at msg strings payload len = string_at msg' strings payload len.
Proof. intros strings msg msg' payload len H. unfold string_at. destruct (N.land payload STRINGBUFBIT =? 0); [discriminate|reflexivity]. Qed.
Theorem C16_tie_stringbuf : gen.Consts.gen_STRINGBUFBIT = STRINGBUFBIT /\ gen.Consts.gen_STRINGBUFMASK = STRINGBUFMASK.
Proof. destruct tie_word_layout as (_ & _ & C & D & _). exact (conj C D). Qed.
Print Assumptions C16_copied_string_ignores_message.
