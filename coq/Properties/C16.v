(* Property C16 — copied strings decouple results from the input buffer; Clone
   is independent. *)
From SJ Require Import Model.Base Model.RefTables Spec.Json Model.Tape Model.Heap Proofs.HeapProofs Proofs.HeapDenote Tie.GoTablesTie.
Open Scope N_scope.

(* a tape that denotes with an EMPTY message (every string word has
   STRINGBUFBIT: copy mode) denotes the same documents with ANY message: the
   caller's buffer is irrelevant *)
Theorem C16_copy_mode_ignores_message : forall strs tape ds,
  denote [] strs tape = Some ds -> forall msg, denote msg strs tape = Some ds.
Proof. exact denote_copy_mode. Qed.

Theorem C16_copied_string_ignores_message : forall strings msg msg' payload len,
  negb (N.land payload STRINGBUFBIT =? 0) = true ->
  string_at msg strings payload len = string_at msg' strings payload len.
Proof. intros strings msg msg' payload len H. unfold string_at. destruct (N.land payload STRINGBUFBIT =? 0); [discriminate|reflexivity]. Qed.

(* Clone yields buffers disjoint from the source; any sequence of edits on one
   object leaves every buffer of the other unchanged, in both directions and
   interleaved *)
Theorem C16_clone_frame : forall st st1 src c dst,
  wf st src -> dst_ok st src dst -> clone st src dst = (c, st1) ->
  view c st1 = view src st /\ view src st1 = view src st /\
  (forall es, view src (apply_edits c es st1) = view src st) /\
  (forall es, view c (apply_edits src es st1) = view src st) /\
  (forall es, view src (apply_mixed src c es st1) = view src (apply_edits src (edits_of true es) st1) /\
              view c (apply_mixed src c es st1) = view c (apply_edits c (edits_of false es) st1)).
Proof. exact clone_frame. Qed.
Definition C16_clone_disjoint := clone_disjoint.

Theorem C16_tie_stringbuf : gen.Consts.gen_STRINGBUFBIT = STRINGBUFBIT /\ gen.Consts.gen_STRINGBUFMASK = STRINGBUFMASK.
Proof. destruct tie_word_layout as (_ & _ & C & D & _). exact (conj C D). Qed.

Print Assumptions C16_copy_mode_ignores_message.
Print Assumptions C16_clone_frame.
