(* Property C08 — ParseND equals parsing each non-blank line.  The acceptance
   direction is proved on the model: whenever every non-blank line (lines split
   at LF, blank = JSON white space only) is a valid document, ParseND succeeds
   and its tape denotes exactly those documents, in order, one per root — with
   blank lines, CRLF endings and a missing final newline anywhere.  The
   rejection direction (a bad line fails the whole call) is decided by the
   three-way correspondence on every run. *)
From SJ Require Import Model.Base Model.RefTables Spec.Json Model.Driver Model.Tape Model.Stage1 Proofs.NdProofs Proofs.NdRejectFinal Tie.GoTablesTie Tie.Stage1AsmTie.
Open Scope N_scope.

Definition C08_full : Prop :=
  forall copy bs ds, N.of_nat (length bs) < 2 ^ 55 ->
    nd_spec bs = SOk ds ->
    exists p, parsend_model copy bs = Ok p /\ denote (p_msg p) (p_strings p) (p_tape p) = Some ds.
Definition C08_reject_full : Prop :=
  forall copy bs, nd_spec bs = SInvalid -> parsend_model copy bs = Err.

Theorem C08_parsend_accepts_exactly_the_lines : C08_full.
Proof. exact parsend_accepts_valid. Qed.

(* PROVED on the model: the rejection direction, for every byte string (no size
   bound): an input with a line that is not a valid document (a bad line, two
   documents on a line, a document spanning lines), or without any document,
   returns an error -- not a result, not a panic, not a run-away. *)
Theorem C08_parsend_rejects_everything_else : C08_reject_full.
Proof. exact parsend_rejects_invalid. Qed.

(* the two directions together: outside the stated exclusions (nd_spec = SOut)
   exactly one of the two happens *)
Definition C08_iff_full : Prop :=
  forall copy bs, N.of_nat (length bs) < 2 ^ 55 -> nd_spec bs <> SOut ->
    (exists ds p, nd_spec bs = SOk ds /\ parsend_model copy bs = Ok p /\
                  denote (p_msg p) (p_strings p) (p_tape p) = Some ds) \/
    (nd_spec bs = SInvalid /\ parsend_model copy bs = Err).
Theorem C08_parsend_equals_parsing_each_line : C08_iff_full.
Proof. exact parsend_characterisation. Qed.

(* the scalar stage-1 step marks an unquoted LF as structural exactly in
   NDJSON mode *)
Theorem C08_newline_is_structural : forall st,
  s_instr st = false -> s_bsodd st = false ->
  snd (s1_step true st cLF) = true /\ snd (s1_step false st cLF) = false.
Proof. intros [a b c d] H1 H2; simpl in *; subst; destruct c; split; reflexivity. Qed.

Theorem C08_tie_markup : tab_diff gen.Tables.gen_jsonMarkupTable jsonMarkup_ref 256 = [].
Proof. exact tie_jsonMarkup. Qed.
Print Assumptions C08_parsend_accepts_exactly_the_lines.
Print Assumptions C08_parsend_rejects_everything_else.
Print Assumptions C08_parsend_equals_parsing_each_line.

(* the shapes the property names, as theorems (each: nd_spec = SInvalid and the
   modelled ParseND returns Err) *)
Definition C08_bad_line := parsend_bad_line.
Definition C08_two_documents_on_a_line := parsend_two_docs_on_a_line.
Definition C08_document_spanning_lines := parsend_document_spanning_lines.
(* layout: blank lines, CRLF endings and a missing final newline do not change the result *)
Definition C08_blank_line_invariant := parsend_blank_line.
Definition C08_crlf_invariant := parsend_crlf.
Definition C08_final_newline_invariant := parsend_final_newline.
