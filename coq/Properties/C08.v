(* Property C08 — ParseND equals parsing each non-blank line.  The acceptance
   direction is proved on the model: whenever every non-blank line (lines split
   at LF, blank = JSON white space only) is a valid document, ParseND succeeds
   and its tape denotes exactly those documents, in order, one per root — with
   blank lines, CRLF endings and a missing final newline anywhere.  The
   rejection direction (a bad line fails the whole call) is decided by the
   three-way correspondence on every run. *)
From SJ Require Import Model.Base Model.RefTables Spec.Json Model.Driver Model.Tape Model.Stage1 Proofs.NdProofs Tie.GoTablesTie Tie.Stage1AsmTie.
Open Scope N_scope.

Definition C08_full : Prop :=
  forall copy bs ds, N.of_nat (length bs) < 2 ^ 55 ->
    nd_spec bs = SOk ds ->
    exists p, parsend_model copy bs = Ok p /\ denote (p_msg p) (p_strings p) (p_tape p) = Some ds.
Definition C08_reject_full : Prop :=
  forall copy bs, nd_spec bs = SInvalid -> parsend_model copy bs = Err.

Theorem C08_parsend_accepts_exactly_the_lines : C08_full.
Proof. exact parsend_accepts_valid. Qed.

(* the scalar stage-1 step marks an unquoted LF as structural exactly in
   NDJSON mode *)
Theorem C08_newline_is_structural : forall st,
  s_instr st = false -> s_bsodd st = false ->
  snd (s1_step true st cLF) = true /\ snd (s1_step false st cLF) = false.
Proof. intros [a b c d] H1 H2; simpl in *; subst; destruct c; split; reflexivity. Qed.

Theorem C08_tie_markup : tab_diff gen.Tables.gen_jsonMarkupTable jsonMarkup_ref 256 = [].
Proof. exact tie_jsonMarkup. Qed.
Print Assumptions C08_parsend_accepts_exactly_the_lines.
