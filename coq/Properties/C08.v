(* Property C08 — ParseND equals parsing each non-blank line.  Full statement
   as a definition; decided on every run by the three-way correspondence
   (implementation, extracted model, extracted nd_spec). *)
From SJ Require Import Model.Base Model.RefTables Spec.Json Model.Driver Model.Tape Model.Stage1 Tie.GoTablesTie Tie.Stage1AsmTie.
Open Scope N_scope.

Definition C08_full : Prop :=
  forall copy bs ds,
    nd_spec bs = SOk ds ->
    exists p, parsend_model copy bs = Ok p /\ denote (p_msg p) (p_strings p) (p_tape p) = Some ds.
Definition C08_reject_full : Prop :=
  forall copy bs, nd_spec bs = SInvalid -> parsend_model copy bs = Err.

(* the scalar stage-1 step marks an unquoted LF as structural exactly in
   NDJSON mode *)
Theorem C08_newline_is_structural_partial : forall st,
  s_instr st = false -> s_bsodd st = false ->
  snd (s1_step true st cLF) = true /\ snd (s1_step false st cLF) = false.
Proof. intros [a b c d] H1 H2; simpl in *; subst; destruct c; split; reflexivity. Qed.

Theorem C08_tie_markup : tab_diff gen.Tables.gen_jsonMarkupTable jsonMarkup_ref 256 = [].
Proof. exact tie_jsonMarkup. Qed.
Print Assumptions C08_newline_is_structural_partial.
