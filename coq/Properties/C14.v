(* Property C14 — deletion removes exactly the selected members and all APIs
   agree after it.  Theorems about Model/Edit.v's DeleteElems loops against the
   abstract deletion on documents. *)
From SJ Require Import Model.Base Model.RefTables Spec.Json Spec.EditSpec Model.Driver Model.Tape Model.Iter Model.Walk Model.Edit Model.WF
     Proofs.TapeBase Proofs.TapeSeg Proofs.TapePath Proofs.TapeEdit Proofs.TapeDelete Proofs.TapeProofs Tie.GoTablesTie.
From SJ Require Import Model.Marshal Model.Serialize Proofs.MarshalProofsRefine Proofs.LookupIface Proofs.SerBase Proofs.ApiAgree.
Open Scope N_scope.

(* Array.DeleteElems: one callback per live element, in order; the new tape
   denotes the document with exactly the selected elements removed *)
Theorem C14_array_delete_refines : forall (strict adj : bool) pj a decide pre sub post p ds l,
  pj_tape pj = pre ++ sub ++ post ->
  val_seg (pj_msg pj) (pj_strings pj) strict adj (nlen pre) sub (DArr l) ->
  index_path (pj_msg pj) (pj_strings pj) strict adj (pj_tape pj) (nlen pre) p ->
  denote (pj_msg pj) (pj_strings pj) (pj_tape pj) = Some ds ->
  c_off a = (Z.of_N (nlen pre) + 1)%Z ->
  c_len a = (Z.of_N (nlen pre) + Z.of_nat (length sub))%Z ->
  exists sub2,
    arr_delete pj a decide = Ok (with_tape pj (pre ++ sub2 ++ post), length l) /\
    length sub2 = length sub /\
    val_seg (pj_msg pj) (pj_strings pj) strict adj (nlen pre) sub2 (DArr (abs_del_elems l decide)) /\
    denote (pj_msg pj) (pj_strings pj) (pre ++ sub2 ++ post) = upd_docs p (abs_delete_arr decide) ds /\
    (exists ds2, upd_docs p (abs_delete_arr decide) ds = Some ds2 /\
                 roots_seg (pj_msg pj) (pj_strings pj) strict adj 0 (pre ++ sub2 ++ post) ds2).
Proof. exact arr_delete_refines. Qed.

(* Object.DeleteElems with optional key filter and optional callback: the
   callbacks made are exactly those of the abstract visit, the result denotes
   the document minus exactly the members for which deletion was requested *)
Theorem C14_object_delete_refines : forall (strict adj : bool) pj o only decide pre sub post p ds l,
  N.of_nat (length (pj_msg pj)) < two64 -> N.of_nat (length (pj_strings pj)) < two64 ->
  pj_tape pj = pre ++ sub ++ post ->
  val_seg (pj_msg pj) (pj_strings pj) strict adj (nlen pre) sub (DObj l) ->
  index_path (pj_msg pj) (pj_strings pj) strict adj (pj_tape pj) (nlen pre) p ->
  denote (pj_msg pj) (pj_strings pj) (pj_tape pj) = Some ds ->
  c_off o = (Z.of_N (nlen pre) + 1)%Z ->
  c_len o = (Z.of_N (nlen pre) + Z.of_nat (length sub))%Z ->
  let R := abs_del_members l only (distinct_keys only []) 0 decide in
  exists sub2,
    obj_delete pj o only decide = Ok (with_tape pj (pre ++ sub2 ++ post), snd R) /\
    length sub2 = length sub /\
    val_seg (pj_msg pj) (pj_strings pj) strict adj (nlen pre) sub2 (DObj (fst R)) /\
    denote (pj_msg pj) (pj_strings pj) (pre ++ sub2 ++ post) = upd_docs p (abs_delete_obj only decide) ds /\
    (exists ds2, upd_docs p (abs_delete_obj only decide) ds = Some ds2 /\
                 roots_seg (pj_msg pj) (pj_strings pj) strict adj 0 (pre ++ sub2 ++ post) ds2).
Proof. exact obj_delete_refines. Qed.

(* plain traversal through the modelled iterator API (Advance, Root, Array.Iter,
   NextElementBytes, typed accessors) returns the denotation on every tape
   reachable by deletions and replacements: no survivor skipped, nothing
   resurrected, gaps read correctly *)
Theorem C14_traversal_after_deletions : forall pj ds,
  N.of_nat (length (pj_msg pj)) < two64 -> N.of_nat (length (pj_strings pj)) < two64 ->
  tape_ok pj -> denote (pj_msg pj) (pj_strings pj) (pj_tape pj) = Some ds -> walk_doc pj = Ok ds.
Proof. exact walk_doc_tape_ok. Qed.

Definition C14_array_delete_preserves_wf := arr_delete_preserves_wf.
Definition C14_object_delete_preserves_wf := obj_delete_preserves_wf.

Theorem C14_tie_tags : gen.Consts.gen_TagNop = TagNop /\ gen.Consts.gen_TagObjectEnd = TagObjectEnd /\ gen.Consts.gen_TagArrayEnd = TagArrayEnd.
Proof. destruct tie_tags as (_ & _ & _ & _ & _ & _ & _ & _ & I & _ & K & _ & M & _). repeat split; assumption. Qed.

Print Assumptions C14_array_delete_refines.
Print Assumptions C14_object_delete_refines.
Print Assumptions C14_traversal_after_deletions.

(* every read, marshal and serialize API exposes the same document on every
   tape reachable by parsing and in-place edits: plain traversal, Interface(),
   MarshalJSON (= the document-level printer) and a Serialize/Deserialize round
   trip (for every string hash) all return the tape's denotation — which the
   refinement theorems above say is the original document with exactly the
   addressed values replaced / the selected members removed *)
Theorem C14_every_api_agrees : forall pj ds,
  N.of_nat (length (pj_msg pj)) < two64 -> N.of_nat (length (pj_strings pj)) < two64 ->
  tape_ok pj -> denote (pj_msg pj) (pj_strings pj) (pj_tape pj) = Some ds ->
  walk_doc pj = Ok ds /\
  interface_doc pj = match ds with [] => Err | _ => Ok (map doc_ival ds) end /\
  marshal_iter pj (iter0 pj) = marshal_spec ds /\
  (forall (hash : bytes -> N) tags vals strbuf,
     N.of_nat (length (pj_tape pj)) < two56 -> Forall (fun w => w < two64) (pj_tape pj) ->
     ser_core hash pj = Ok (tags, vals, strbuf) -> N.of_nat (length strbuf) < STRINGBUFBIT ->
     exists t', deser_core (repeat 0 (length (pj_tape pj))) tags (bytes_of_words vals) = Ok t' /\
                denote strbuf [] t' = Some ds).
Proof. exact every_api_agrees. Qed.
Print Assumptions C14_every_api_agrees.
