(* Property C14 — statements; see DESIGN.md §6 C14.  The model-level refinement
   theorems are being proved in Proofs/TapeProofs.v / Proofs/AcceptProofs.v;
   until they are in, this file carries the full statement as a definition,
   the tie obligations the statement rests on, and the property is decided on
   every run by the correspondence described in DESIGN.md. *)
From SJ Require Import Model.Base Model.RefTables Spec.Json Spec.EditSpec Model.Driver Model.Tape Model.Iter Model.Walk Model.Edit Model.WF Tie.GoTablesTie.
Open Scope N_scope.

Theorem C14_tie_tags : gen.Consts.gen_TagNop = TagNop /\ gen.Consts.gen_TagObjectEnd = TagObjectEnd /\ gen.Consts.gen_TagArrayEnd = TagArrayEnd.
Proof. destruct tie_tags as (_ & _ & _ & _ & _ & _ & _ & _ & I & _ & K & _ & M & _). repeat split; assumption. Qed.
Print Assumptions C14_tie_tags.
