(* Property C04 — string escapes decode exactly, independent of length and
   alignment.  Only statements and `exact` proofs here. *)
From SJ Require Import Model.Base Model.RefTables Spec.Json Model.Str
     Proofs.StrArith Proofs.StrProofs Tie.StrTablesTie.
Open Scope N_scope.

(* Whenever the scalar RFC 8259 decoder accepts the bytes after an opening
   quote (SOk: well-formed escapes, well-formed surrogate pairs, well-formed
   UTF-8), the window-level model of parseString — for every string length,
   every position of every escape relative to the 32-byte windows, whatever
   follows the closing quote, any maxStringSize, both copy modes, any
   iteration bound above the memory's length — succeeds,
   reports exactly the decoded length, and exposes exactly the decoded bytes:
   referenced in place when copying is off and there is no escape, appended to
   the string buffer otherwise. *)
Theorem C04_decode_exact : forall mem sfuel dec rest q0 idx max copy slen fuel,
  spec_string sfuel mem [] = SOk (dec, rest) -> (length mem < fuel)%nat ->
  exists src r,
    mem = src ++ x22 :: rest /\
    parse_string_model (q0 :: mem) idx max copy slen fuel = Ok r /\
    ps_len r = N.of_nat (length dec) /\
    (if negb copy && no_bslash src
     then ps_app r = [] /\ ps_word r = mk_word TagString (idx + 1) /\ dec = src
     else ps_app r = dec /\ ps_word r = mk_word TagString (STRINGBUFBIT + slen)).
Proof. exact parse_string_model_correct. Qed.

(* The validate-only routine and the copy routine walk the same way. *)
Theorem C04_validate_copy_agree : forall mem max fuel n dec,
  str_validate mem max fuel = StrOk n dec -> str_copy mem n = StrOk n dec.
Proof. exact str_validate_copy_agree. Qed.

(* A string the specification rejects for a bad or truncated escape (control
   characters are stage 1's business) is never accepted by the kernel. *)
Theorem C04_reject_bad_escape : forall mem sfuel max fuel,
  spec_string sfuel mem [] = SInvalid -> (length mem < fuel)%nat ->
  (forall b, In b mem -> 32 <= b2n b) ->
  forall n d, str_validate mem max fuel <> StrOk n d.
Proof. exact str_reject_spec_never_ok. Qed.

(* The tables the assembly uses are the reference tables of the model. *)
Theorem C04_tie_digittoval : digittoval_diff = [].
Proof. exact tie_digittoval. Qed.
Theorem C04_tie_escape_map : escape_map_diff = [].
Proof. exact tie_escape_map. Qed.

Print Assumptions C04_decode_exact.
Print Assumptions C04_validate_copy_agree.
Print Assumptions C04_reject_bad_escape.
Print Assumptions C04_tie_digittoval.
Print Assumptions C04_tie_escape_map.
