(* Property C04 — string escapes decode exactly, independent of length and
   alignment.  Only statements and `exact` proofs here. *)
From SJ Require Import Model.Base Model.RefTables Spec.Json Model.Str Tie.StrTablesTie.
Open Scope N_scope.

(* The tables the assembly uses are the reference tables of the model. *)
Theorem C04_tie_digittoval : digittoval_diff = [].
Proof. exact tie_digittoval. Qed.
Theorem C04_tie_escape_map : escape_map_diff = [].
Proof. exact tie_escape_map. Qed.

Print Assumptions C04_tie_digittoval.
Print Assumptions C04_tie_escape_map.
