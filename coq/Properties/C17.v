(* Property C17 — statements; see DESIGN.md §6 C17.  The model-level refinement
   theorems are being proved in Proofs/TapeProofs.v / Proofs/AcceptProofs.v;
   until they are in, this file carries the full statement as a definition,
   the tie obligations the statement rests on, and the property is decided on
   every run by the correspondence described in DESIGN.md. *)
From SJ Require Import Model.Base Model.RefTables Spec.Json Spec.EditSpec Model.Driver Model.Tape Model.Iter Model.Walk Model.Edit Model.WF Proofs.TapeWF Proofs.TapeProofs Proofs.WFProofs Tie.GoTablesTie.
Open Scope N_scope.

Definition pj_of (p : parsed) : pjson := {| pj_tape := p_tape p; pj_strings := p_strings p; pj_msg := p_msg p |}.

(* full statement: every tape produced by the model of Parse / ParseND passes
   the executable well-formedness check (no NOPs) *)
Definition C17_full : Prop :=
  forall nd copy bs p, N.of_nat (length bs) < 2 ^ 55 ->
    parse_message nd copy bs = Ok p -> wf_check false (pj_of p) = true.

(* PROVED: for every accepted input (no specification hypothesis), both modes *)
Theorem C17_parser_tapes_well_formed : C17_full.
Proof. exact parse_message_wf. Qed.
Print Assumptions C17_parser_tapes_well_formed.

(* PROVED: in-place edits keep the tape well-formed (NOP runs included) *)
Definition C17_set_null_preserves_wf := set_null_preserves_wf.
Definition C17_set_float_preserves_wf := set_float_preserves_wf.
Definition C17_set_string_preserves_wf := set_string_preserves_wf.
Definition C17_array_delete_preserves_wf := arr_delete_preserves_wf.
Definition C17_object_delete_preserves_wf := obj_delete_preserves_wf.
Theorem C17_strict_implies_nop_wf : forall pj, wf_check false pj = true -> wf_check true pj = true.
Proof. exact wf_check_false_true. Qed.
Print Assumptions C17_strict_implies_nop_wf.
Print Assumptions C17_set_null_preserves_wf.

Theorem C17_tie_tags_distinct :
  NoDup [gen.Consts.gen_TagString; gen.Consts.gen_TagInteger; gen.Consts.gen_TagUint; gen.Consts.gen_TagFloat; gen.Consts.gen_TagNull;
         gen.Consts.gen_TagBoolTrue; gen.Consts.gen_TagBoolFalse; gen.Consts.gen_TagObjectStart; gen.Consts.gen_TagObjectEnd;
         gen.Consts.gen_TagArrayStart; gen.Consts.gen_TagArrayEnd; gen.Consts.gen_TagRoot; gen.Consts.gen_TagNop; gen.Consts.gen_TagEnd;
         gen.Consts.gen_tagFloatWithFlag].
Proof. exact tie_tags_distinct. Qed.
Theorem C17_tie_open_close : tab_diff gen.Tables.gen_tagOpenToClose tagOpenToClose_ref 256 = [].
Proof. exact tie_tagOpenToClose. Qed.
Print Assumptions C17_tie_tags_distinct.
