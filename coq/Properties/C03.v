(* Property C03 — numbers get the documented type and the exact value. *)
From SJ Require Import Model.Base Model.RefTables Spec.Json Model.Number
     Proofs.NumLex Proofs.NumberProofs Proofs.NumberFinal Proofs.NumFloat Tie.GoTablesTie.
From Coq Require Import Reals.
From Flocq Require Import Core.
Open Scope N_scope.

(* For every RFC 8259 number literal followed by nothing or an end-of-value
   byte, the model of parseNumber returns exactly the type tag, payload and
   float flag the specification's cascade prescribes (None when the value is
   not finite in binary64). *)
Theorem C03_type_and_value : forall s l rest,
  lex_number s = Some (l, rest) -> rest_ok rest = true ->
  parse_number_model s = option_map enc_num (num_spec l).
Proof. exact number_model_correct. Qed.

(* The float payload is the correctly rounded (nearest-even) binary64 of the
   literal's exact real value, as Flocq defines rounding. *)
Theorem C03_float_correctly_rounded : forall s l rest bits flags,
  lex_number s = Some (l, rest) -> rest_ok rest = true ->
  num_spec l = Some (NFloat bits flags) ->
  parse_number_model s = Some (mk_word TagFloat flags, bits) /\
  is_b64_rounding (nl_neg l) (lit_mant l) (lit_e10 l) bits.
Proof. exact number_float_correct. Qed.

(* Anything that is not such a literal is rejected. *)
Theorem C03_reject_malformed : forall b t,
  (b2n b =? cMINUS) || is_digit (b2n b) = true ->
  (lex_number (b :: t) = None \/
   exists l rest, lex_number (b :: t) = Some (l, rest) /\ rest_ok rest = false) ->
  parse_number_model (b :: t) = None.
Proof. exact number_model_reject. Qed.

(* Rejected-as-non-finite exactly when the rounded magnitude reaches 2^1024 *)
Theorem C03_nonfinite_iff : forall l,
  num_spec l = None <->
  exists mp, lit_mant l = Zpos mp /\
             (bpow radix2 1024 <= Rabs (rnd64 (dec_val (nl_neg l) mp (lit_e10 l))))%R.
Proof. exact number_nonfinite_iff. Qed.

(* The class table, flag values, maxIntLen and tag bytes the model uses are
   those of the source. *)
Theorem C03_tie_tables : tab_diff gen.Tables.gen_isNumberRune isNumberRune_ref 256 = [] /\ length gen.Tables.gen_isNumberRune = 256%nat.
Proof. exact tie_isNumberRune. Qed.
Theorem C03_tie_flags : gen.Consts.gen_maxIntLen = maxIntLen /\ gen.Consts.gen_FloatOverflowedInteger = FloatOverflowedInteger.
Proof. destruct tie_number_flags as (_ & _ & _ & _ & _ & _ & H1 & H2). exact (conj H1 H2). Qed.

Print Assumptions C03_type_and_value.
Print Assumptions C03_float_correctly_rounded.
Print Assumptions C03_reject_malformed.
Print Assumptions C03_nonfinite_iff.
Print Assumptions C03_tie_tables.
