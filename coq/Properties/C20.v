(* Property C20 — independent objects can be used from concurrent goroutines.
   Partial by nature: Go-memory-model data races are a run-time matter (race
   detector).  What is proved: non-interference through the shared object pools
   for every interleaving, given the codec contract "after Reset the output
   depends only on subsequent writes" (a Section hypothesis, i.e. an explicit
   premise) and the Get/Reset discipline read off the code. *)
From SJ Require Import Model.Base Model.Pool Proofs.PoolProofs Model.RefTables Tie.GoTablesTie Tie.SerializeTie.

Theorem C20_pool_noninterference : forall (X Y C : Type) (fresh : C) (reset : C -> C) (write : X -> C -> C) (close : C -> Y * C),
  (forall c1 c2, obs_eq X Y C write close (reset c1) (reset c2)) ->
  forall progs sched, forallb disciplined progs = true ->
  done X Y C (grun X Y C fresh reset write close (ginit X Y C progs) sched) = true ->
  forall tid p, nth_error progs tid = Some p ->
  outs_of X Y C (grun X Y C fresh reset write close (ginit X Y C progs) sched) tid =
  solo_outs X Y C fresh reset write close p.
Proof. exact pool_noninterference_all. Qed.

(* anytime version, needing only the goroutine's own discipline *)
Definition C20_pool_noninterference_prefix := pool_noninterference.
(* the discipline matters: without the Reset after Get some interleaving leaks *)
Definition C20_reset_matters := reset_matters.

Theorem C20_tie_block_types :
  gen.Consts.gen_blockTypeUncompressed = 0%N /\ gen.Consts.gen_blockTypeS2 = 1%N /\ gen.Consts.gen_blockTypeZstd = 2%N.
Proof. destruct tie_serializer_consts as (_ & _ & A & B & C & _). exact (conj A (conj B C)). Qed.

Print Assumptions C20_pool_noninterference.
