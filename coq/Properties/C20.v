(* Property C20 — Independent objects can be used from concurrent goroutines
   Statement-level file; see DESIGN.md §6 C20.  Model-level theorems are under
   proof in Proofs/ (see obligations.json); this file carries the tie
   obligations and what is proved so far; the property is decided on every run
   by the correspondence described in DESIGN.md. *)
From SJ Require Import Model.Base Model.RefTables Spec.Json Model.Tape Model.Iter Model.Serialize Model.FloatFmt Model.Marshal Tie.GoTablesTie Tie.SerializeTie.
Open Scope N_scope.
(* partial by nature: Go-memory-model data races are not expressible in a
   Gallina model; the non-interference theorem over the pool discipline is in
   Proofs/PoolProofs.v when delivered; this file ties the shared constants. *)
Theorem C20_tie_block_types :
  gen.Consts.gen_blockTypeUncompressed = 0 /\ gen.Consts.gen_blockTypeS2 = 1 /\ gen.Consts.gen_blockTypeZstd = 2.
Proof. destruct tie_serializer_consts as (_ & _ & A & B & C & _). exact (conj A (conj B C)). Qed.
Print Assumptions C20_tie_block_types.
