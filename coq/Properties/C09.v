(* Property C09 — ParseNDStream delivers the same documents however the reader fragments
   Statement-level file; see DESIGN.md §6 C09.  Model-level theorems are under
   proof in Proofs/ (see obligations.json); this file carries the tie
   obligations and what is proved so far; the property is decided on every run
   by the correspondence described in DESIGN.md. *)
From SJ Require Import Model.Base Model.RefTables Spec.Json Model.Tape Model.Iter Model.Serialize Model.FloatFmt Model.Marshal Tie.GoTablesTie Tie.SerializeTie.
Open Scope N_scope.
Theorem C09_tie_chunk_size : gen.Consts.gen_tmpSize = 10485760.
Proof. exact tie_stream_chunk. Qed.
Print Assumptions C09_tie_chunk_size.
