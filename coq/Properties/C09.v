(* Property C09 — ParseNDStream delivers the same documents however the reader
   fragments.  Theorems about Model/Stream.v: the producer loop over an
   arbitrary fragmentation oracle and an optional reader failure, and the
   in-order forwarder under every interleaving. *)
From SJ Require Import Model.Base Spec.Json Model.Stream Proofs.StreamProofs Tie.GoTablesTie Tie.SerializeTie.

(* every chunk but the last ends at a line end; none is empty *)
Theorem C09_chunks_end_at_lines : forall sizes fail_at stream cs e,
  chunks sizes fail_at stream = (cs, e) ->
  Forall (fun c => ends_lf c = true) (removelast cs) /\ Forall (fun c => c <> []) cs /\
  (fail_at <> None -> Forall (fun c => ends_lf c = true) cs).
Proof. exact chunk_ends_at_line. Qed.

(* for a well-formed stream and EVERY fragmentation: the stream ends with EOF
   and the documents of the delivered (non-blank) chunks, in order, are exactly
   the stream's documents *)
Theorem C09_stream_docs : forall stream ds sizes cs e,
  nd_spec stream = SOk ds -> chunks sizes None stream = (cs, e) ->
  e = FEOF /\
  exists dss, Forall2 (fun c d => nd_spec c = SOk d) (delivered cs) dss /\
              Forall (fun d => d <> []) dss /\ concat dss = ds.
Proof. exact stream_docs. Qed.

(* with a reader failure after k bytes: the error ends the stream and the
   delivered documents are a prefix of the true sequence *)
Theorem C09_prefix_on_error : forall stream ds sizes k cs e,
  nd_spec stream = SOk ds -> chunks sizes (Some k) stream = (cs, e) ->
  e = FErr /\
  exists dss, Forall2 (fun c d => nd_spec c = SOk d) (delivered cs) dss /\
              exists rest, ds = concat dss ++ rest.
Proof. exact stream_docs_fail. Qed.

(* the forwarder: whatever the completion order of the chunk parsers, what has
   been delivered is a prefix of the queue's results in queue order; after the
   error cell nothing more that blocks; when all cells are through, everything *)
Definition C09_forwarder_in_order := forwarder_in_order.
Theorem C09_forwarder_complete : forall (R : Type) (is_err : R -> bool) results evs (s : fwd R) vals e,
  results = vals ++ [e] -> forallb (noerr R is_err) vals = true -> is_err e = true ->
  frun R is_err results finit evs = Some s -> next s = length results -> out s = results.
Proof. exact forwarder_complete_exact. Qed.
Definition C09_forwarder_progress := forwarder_progress.
Definition C09_forwarder_terminates := forwarder_terminates.

Theorem C09_tie_chunk_size : gen.Consts.gen_tmpSize = 10485760%N.
Proof. exact tie_stream_chunk. Qed.

Print Assumptions C09_stream_docs.
Print Assumptions C09_prefix_on_error.
Print Assumptions C09_forwarder_complete.
