(* Property C13 — statements; see DESIGN.md §6 C13.  The model-level refinement
   theorems are being proved in Proofs/TapeProofs.v / Proofs/AcceptProofs.v;
   until they are in, this file carries the full statement as a definition,
   the tie obligations the statement rests on, and the property is decided on
   every run by the correspondence described in DESIGN.md. *)
From SJ Require Import Model.Base Model.RefTables Spec.Json Spec.EditSpec Model.Driver Model.Tape Model.Iter Model.Walk Model.Edit Model.WF Tie.GoTablesTie.
Open Scope N_scope.

(* full statement: any sequence of Set* calls at value positions refines the
   abstract replacement on documents and keeps the tape well-formed *)
Definition C13_step (op : pjson -> iter -> outcome (pjson * iter)) (f : doc -> option doc) : Prop :=
  forall pj i p ds,
    wf_check true pj = true ->
    denote (pj_msg pj) (pj_strings pj) (pj_tape pj) = Some ds ->
    (* i is positioned on the value at abstract path p *)
    get_docs p ds <> None ->
    match op pj i with
    | Ok (pj', _) => wf_check true pj' = true /\
                     option_map Some (upd_docs p f ds) = Some (denote (pj_msg pj') (pj_strings pj') (pj_tape pj'))
    | Err => True
    | _ => False
    end.

Theorem C13_tie_tags :
  gen.Consts.gen_TagNull = TagNull /\ gen.Consts.gen_TagNop = TagNop /\ gen.Consts.gen_TagString = TagString /\
  gen.Consts.gen_TagFloat = TagFloat /\ gen.Consts.gen_TagInteger = TagInteger /\ gen.Consts.gen_TagUint = TagUint.
Proof. destruct tie_tags as (A & B & C & D & E & _ & _ & _ & _ & _ & _ & _ & M & _). repeat split; assumption. Qed.
Theorem C13_tie_stringbuf : gen.Consts.gen_STRINGBUFBIT = STRINGBUFBIT.
Proof. destruct tie_word_layout as (_ & _ & C & _). exact C. Qed.
Print Assumptions C13_tie_tags.
