(* Property C13 — in-place replacement changes exactly the addressed value.
   Theorems about the model of the Set* API (Model/Edit.v) against the abstract
   replacement on documents (Spec/EditSpec.v).  [positioned]/[iter_on] say that
   the iterator stands on the value whose tape segment is [sub] at abstract
   path [p]; [roots_seg ... ds2] is the structural well-formedness of the new
   tape (it implies wf_check and is what the next operation needs), so the
   statements compose over any sequence of operations. *)
From SJ Require Import Model.Base Model.RefTables Spec.Json Spec.EditSpec Model.Driver Model.Tape Model.Iter Model.Walk Model.Edit Model.WF
     Proofs.TapeBase Proofs.TapeSeg Proofs.TapePath Proofs.TapeEdit Proofs.TapeDelete Proofs.TapeProofs Tie.GoTablesTie.
From SJ Require Import Model.Marshal Model.Serialize Proofs.MarshalProofsRefine Proofs.LookupIface Proofs.SerBase Proofs.ApiAgree.
Open Scope N_scope.

(* SetFloat (SetInt, SetUInt alike): allowed exactly on numbers and strings;
   then the new tape is the old one with the two words replaced, and it denotes
   the old document with exactly the value at p replaced; otherwise an error
   and the abstract operation refuses too (nothing changes). *)
Theorem C13_set_float_refines : forall (strict adj : bool) pj it bits pre sub post p ds dsub,
  pj_tape pj = pre ++ sub ++ post ->
  val_seg (pj_msg pj) (pj_strings pj) strict adj (nlen pre) sub dsub ->
  index_path (pj_msg pj) (pj_strings pj) strict adj (pj_tape pj) (nlen pre) p ->
  denote (pj_msg pj) (pj_strings pj) (pj_tape pj) = Some ds ->
  iter_on it (nlen pre) sub ->
  match set_float pj it bits with
  | Ok (pj', _) =>
      is_numstr_doc dsub = true /\
      pj' = with_tape pj (pre ++ [mk_word TagFloat 0; bits] ++ post) /\
      denote (pj_msg pj') (pj_strings pj') (pj_tape pj') = upd_docs p (abs_set_scalar (DNum (NFloat bits 0))) ds /\
      (exists ds2, upd_docs p (abs_set_scalar (DNum (NFloat bits 0))) ds = Some ds2 /\
                   roots_seg (pj_msg pj') (pj_strings pj') strict adj 0 (pj_tape pj') ds2)
  | Err => is_numstr_doc dsub = false /\ upd_docs p (abs_set_scalar (DNum (NFloat bits 0))) ds = None
  | _ => False
  end.
Proof. exact set_float_refines. Qed.

Definition C13_set_int_refines := set_int_refines.
Definition C13_set_uint_refines := set_uint_refines.
Definition C13_set_bool_refines := set_bool_refines.

(* SetString: the string buffer only grows, every older string stays readable *)
Theorem C13_set_string_refines : forall (strict adj : bool) pj it v pre sub post p ds dsub,
  N.of_nat (length (pj_strings pj)) < STRINGBUFBIT ->
  pj_tape pj = pre ++ sub ++ post ->
  val_seg (pj_msg pj) (pj_strings pj) strict adj (nlen pre) sub dsub ->
  index_path (pj_msg pj) (pj_strings pj) strict adj (pj_tape pj) (nlen pre) p ->
  denote (pj_msg pj) (pj_strings pj) (pj_tape pj) = Some ds ->
  iter_on it (nlen pre) sub ->
  let cur := mk_word TagString (STRINGBUFBIT + N.of_nat (length (pj_strings pj))) in
  match set_string pj it v with
  | Ok (pj', _) =>
      is_numstr_doc dsub = true /\
      pj' = {| pj_tape := pre ++ [cur; N.of_nat (length v)] ++ post; pj_strings := pj_strings pj ++ v; pj_msg := pj_msg pj |} /\
      denote (pj_msg pj') (pj_strings pj') (pj_tape pj') = upd_docs p (abs_set_scalar (DStr v)) ds /\
      (exists ds2, upd_docs p (abs_set_scalar (DStr v)) ds = Some ds2 /\
                   roots_seg (pj_msg pj') (pj_strings pj') strict adj 0 (pj_tape pj') ds2)
  | Err => is_numstr_doc dsub = false /\ upd_docs p (abs_set_scalar (DStr v)) ds = None
  | _ => False
  end.
Proof. exact set_string_refines. Qed.

(* SetNull on any value position: atoms, two-word scalars (null + NOP|1) and
   containers (null + NOP fill) *)
Theorem C13_set_null_refines : forall (strict adj : bool) pj it pre sub post p ds dsub,
  pj_tape pj = pre ++ sub ++ post ->
  val_seg (pj_msg pj) (pj_strings pj) strict adj (nlen pre) sub dsub ->
  index_path (pj_msg pj) (pj_strings pj) strict adj (pj_tape pj) (nlen pre) p ->
  denote (pj_msg pj) (pj_strings pj) (pj_tape pj) = Some ds ->
  iter_on it (nlen pre) sub ->
  match set_null pj it with
  | Ok (pj', _) =>
      pj' = with_tape pj (pre ++ (mk_word TagNull 0 :: nop_fill (length sub - 1)) ++ post) /\
      denote (pj_msg pj') (pj_strings pj') (pj_tape pj') = upd_docs p abs_set_null ds /\
      (exists ds2, upd_docs p abs_set_null ds = Some ds2 /\
                   roots_seg (pj_msg pj') (pj_strings pj') strict adj 0 (pj_tape pj') ds2)
  | _ => False
  end.
Proof. exact set_null_refines. Qed.

(* every abstract path of a well-formed tape has such a position, a position
   has exactly one path and a path exactly one position *)
Definition C13_position_of_path := position_of_path_ok.
Definition C13_index_path_functional := Proofs.TapePathFun.index_path_functional.
Definition C13_index_path_injective := Proofs.TapePathInj.index_path_inj.

(* and every read path then reflects the new document: traversal = denotation
   on every tape reachable by edits *)
Theorem C13_traversal_reflects_edits : forall pj ds,
  N.of_nat (length (pj_msg pj)) < two64 -> N.of_nat (length (pj_strings pj)) < two64 ->
  tape_ok pj -> denote (pj_msg pj) (pj_strings pj) (pj_tape pj) = Some ds -> walk_doc pj = Ok ds.
Proof. exact walk_doc_tape_ok. Qed.
Definition C13_edits_preserve_tape_ok := edits_preserve_tape_ok.

Theorem C13_tie_stringbuf : gen.Consts.gen_STRINGBUFBIT = STRINGBUFBIT.
Proof. destruct tie_word_layout as (_ & _ & C & _). exact C. Qed.

Print Assumptions C13_set_float_refines.
Print Assumptions C13_set_string_refines.
Print Assumptions C13_set_null_refines.
Print Assumptions C13_traversal_reflects_edits.
Print Assumptions C13_edits_preserve_tape_ok.

(* every read, marshal and serialize API exposes the same document on every
   tape reachable by parsing and in-place edits: plain traversal, Interface(),
   MarshalJSON (= the document-level printer) and a Serialize/Deserialize round
   trip (for every string hash) all return the tape's denotation — which the
   refinement theorems above say is the original document with exactly the
   addressed values replaced / the selected members removed *)
Theorem C13_every_api_agrees : forall pj ds,
  N.of_nat (length (pj_msg pj)) < two64 -> N.of_nat (length (pj_strings pj)) < two64 ->
  tape_ok pj -> denote (pj_msg pj) (pj_strings pj) (pj_tape pj) = Some ds ->
  walk_doc pj = Ok ds /\
  interface_doc pj = match ds with [] => Err | _ => Ok (map doc_ival ds) end /\
  marshal_iter pj (iter0 pj) = marshal_spec ds /\
  (forall (hash : bytes -> N) tags vals strbuf,
     N.of_nat (length (pj_tape pj)) < two56 -> Forall (fun w => w < two64) (pj_tape pj) ->
     ser_core hash pj = Ok (tags, vals, strbuf) -> N.of_nat (length strbuf) < STRINGBUFBIT ->
     exists t', deser_core (repeat 0 (length (pj_tape pj))) tags (bytes_of_words vals) = Ok t' /\
                denote strbuf [] t' = Some ds).
Proof. exact every_api_agrees. Qed.
Print Assumptions C13_every_api_agrees.
