(* Property C02 — statements; see DESIGN.md §6 C02.  The model-level refinement
   theorems are being proved in Proofs/TapeProofs.v / Proofs/AcceptProofs.v;
   until they are in, this file carries the full statement as a definition,
   the tie obligations the statement rests on, and the property is decided on
   every run by the correspondence described in DESIGN.md. *)
From SJ Require Import Model.Base Model.RefTables Spec.Json Spec.EditSpec Model.Driver Model.Tape Model.Iter Model.Walk Model.Edit Model.WF Proofs.AcceptProofs Proofs.TapeProofs Proofs.WFProofs Proofs.C02Glue Tie.GoTablesTie.
Open Scope N_scope.


(* full statement: an accepted document's tape denotes the specification's
   document, and plain traversal through the iterator API (Advance, Root,
   Array.Iter, NextElementBytes, typed accessors) returns exactly it.  The last
   hypothesis is a size bound no real buffer violates. *)
Definition C02_full : Prop :=
  forall copy bs d p, N.of_nat (length bs) < 2 ^ 55 ->
    spec_parse bs = SOk d -> parse_model copy bs = Ok p ->
    N.of_nat (length (p_strings p)) < two64 ->
    denote (p_msg p) (p_strings p) (p_tape p) = Some [d] /\ walk_doc (pj_of p) = Ok [d].

(* PROVED: for every accepted valid document the tape's denotation is exactly
   the specification's document: same nesting, element order, member order with
   duplicate keys, decoded strings, number types, values and flags — for any
   size, depth and white-space layout, in both string modes. *)
Theorem C02_denote_eq_spec : forall (copy : bool) (bs : bytes) (d : doc),
  N.of_nat (length bs) < 2 ^ 55 -> spec_parse bs = SOk d ->
  exists p, parse_model copy bs = Ok p /\ denote (p_msg p) (p_strings p) (p_tape p) = Some [d].
Proof. exact parse_accepts_valid. Qed.
Print Assumptions C02_denote_eq_spec.

(* PROVED: plain traversal through the modelled iterator API returns the
   denotation of every well-formed tape (the parser's tapes pass wf_check false:
   evaluated on every real tape by the C17 check, proof under way) *)
Theorem C02_traversal_eq_denote : forall pj ds,
  N.of_nat (length (pj_msg pj)) < two64 -> N.of_nat (length (pj_strings pj)) < two64 ->
  wf_check false pj = true -> denote (pj_msg pj) (pj_strings pj) (pj_tape pj) = Some ds -> walk_doc pj = Ok ds.
Proof. exact walk_doc_wf_false. Qed.
Print Assumptions C02_traversal_eq_denote.

(* PROVED: C02_full *)
Theorem C02_exact_structure_order_values : C02_full.
Proof. exact accepted_document_exposed_exactly. Qed.
Print Assumptions C02_exact_structure_order_values.

Theorem C02_tie_tags : tab_diff gen.Tables.gen_TagToType TagToType_ref 256 = [].
Proof. exact tie_TagToType. Qed.
Theorem C02_tie_word_layout :
  gen.Consts.gen_JSONTAGOFFSET = JSONTAGOFFSET /\ gen.Consts.gen_JSONVALUEMASK = JSONVALUEMASK /\
  gen.Consts.gen_STRINGBUFBIT = STRINGBUFBIT /\ gen.Consts.gen_STRINGBUFMASK = STRINGBUFMASK.
Proof. destruct tie_word_layout as (A & B & C & D & _). exact (conj A (conj B (conj C D))). Qed.
Print Assumptions C02_tie_tags.
