(* Property C07 — the concurrent two-stage pipeline is schedule-independent.
   Theorems about the ring/channel transition system (Model/Ring.v),
   instantiated with the slot count and channel capacity the source declares
   (Tie/PipelineTie.v). *)
From Coq Require Import List Arith.
Import ListNotations.
From SJ Require Import Model.Ring Proofs.RingProofs Tie.PipelineTie.

(* With the source's constants: for every number of buffers and EVERY
   schedule (event list accepted by the transition system), every buffer that
   may still be read (held by the consumer, queued, or being filled) holds
   exactly what the producer wrote. *)
Theorem C07_ring_safe_source_consts : forall n evs s,
  run S_gen CAP_gen (init n) evs = Some s -> Safe S_gen s.
Proof. intros n evs s. exact (ring_safe S_gen CAP_gen n evs s tie_ring_safe_cond). Qed.

(* The same, stated on the step: the write of EVERY Acquire -- also of the one
   whose buffer stage 1 later abandons because it found an error in it -- hits
   a slot that holds no live buffer. *)
Theorem C07_acquire_safe_source_consts : forall n evs s s',
  run S_gen CAP_gen (init n) evs = Some s -> step S_gen CAP_gen s Acquire = Some s' ->
  filling s' = Some (produced s) /\ ring s' (produced s mod S_gen) = produced s /\
  (forall i, In i (live s) -> ring s' (i mod S_gen) = i /\ i mod S_gen <> produced s mod S_gen).
Proof. intros n evs s s'. exact (ring_acquire_safe S_gen CAP_gen n evs s s' tie_ring_safe_cond). Qed.

(* Nothing is lost, repeated or reordered.  The SENT buffers are
   0 .. n_sent evs - 1 (n_sent = number of Send events); all n acquired
   buffers are sent, except that a producer which fails in its last buffer
   withholds that one (then n_sent evs + 1 = n).  At every state the consumed
   buffers are a prefix of the sent ones and, while the consumer has not
   failed, consumed ++ in-channel = sent; a consumer that did not fail has
   consumed exactly the sent sequence when both sides are done. *)
Theorem C07_in_order : forall S CAP n evs s,
  run S CAP (init n) evs = Some s ->
  consumed s = seq 0 (length (consumed s)) /\
  length (consumed s) <= n_sent evs /\
  n_sent evs <= n_acquired evs <= n /\ n_acquired evs <= n_sent evs + 1 /\
  (failed s = false -> consumed s ++ qids (queue s) = seq 0 (n_sent evs)) /\
  (failed s = false -> final s = true -> consumed s = seq 0 (n_sent evs)) /\
  (final s = true -> n_acquired evs = n /\
                     (producer_abandoned evs = false -> n_sent evs = n) /\
                     (producer_abandoned evs = true -> n_sent evs + 1 = n)).
Proof. exact ring_in_order. Qed.

(* For a producer that does not fail, as before: all n buffers. *)
Theorem C07_in_order_no_producer_failure : forall S CAP n evs s,
  run S CAP (init n) evs = Some s ->
  failed s = false -> final s = true -> producer_abandoned evs = false ->
  consumed s = seq 0 n.
Proof. exact ring_in_order_no_abandon. Qed.

(* No reachable non-final state is stuck (also after either side, or both, failed). *)
Theorem C07_no_deadlock_source_consts : forall n evs s,
  run S_gen CAP_gen (init n) evs = Some s -> final s = false ->
  exists e, e <> Fail2 /\ In e (enabled S_gen CAP_gen s).
Proof. intros n evs s. exact (ring_no_deadlock S_gen CAP_gen n evs s tie_cap_positive). Qed.

(* Each side separately: a producer that is not done can make each move its
   control state allows (send the buffer it holds, acquire the next, or send
   the terminator -- with the buffer withheld if it holds one) unless the
   channel is full, and then the consumer can move; a consumer that is not
   done can move unless it waits on an empty channel with the terminator
   still to come, and then the producer can move. *)
Theorem C07_progress_each_source_consts : forall n evs s,
  run S_gen CAP_gen (init n) evs = Some s ->
  (term_sent s = false ->
     (length (queue s) < CAP_gen ->
        (forall f, filling s = Some f -> In Send (enabled S_gen CAP_gen s)) /\
        (filling s = None -> produced s < n -> In Acquire (enabled S_gen CAP_gen s)) /\
        (produced s = n -> In SendTerm (enabled S_gen CAP_gen s))) /\
     (length (queue s) = CAP_gen ->
        In RecvWait (enabled S_gen CAP_gen s) \/ In Recv (enabled S_gen CAP_gen s))) /\
  (finished s = false ->
     In RecvWait (enabled S_gen CAP_gen s) \/ In Recv (enabled S_gen CAP_gen s) \/
     (waiting s = true /\ queue s = [] /\ term_sent s = false)).
Proof. intros n evs s. exact (ring_progress_each S_gen CAP_gen n evs s tie_cap_positive). Qed.

(* From every reachable state (whoever has failed so far) the run can be
   completed, without a further failure, to a state where both sides are done. *)
Theorem C07_can_finish_source_consts : forall n evs s,
  run S_gen CAP_gen (init n) evs = Some s ->
  exists evs' s', run S_gen CAP_gen (init n) (evs ++ evs') = Some s' /\ final s' = true /\
                  count_fail2 evs' = 0 /\ length evs' <= mu s.
Proof. intros n evs s. exact (ring_can_finish S_gen CAP_gen n evs s tie_cap_positive). Qed.

(* Every schedule is finite: at most 4n+4 events. *)
Theorem C07_terminates : forall S CAP n evs s,
  run S CAP (init n) evs = Some s ->
  length evs + mu_all s <= 4 * n + 4 /\ length evs <= 4 * n + 4.
Proof. exact ring_terminates. Qed.

(* When both sides are done the channel is empty and nothing is held. *)
Theorem C07_final_empty : forall S CAP n evs s,
  run S CAP (init n) evs = Some s -> final s = true ->
  queue s = [] /\ filling s = None /\ produced s = n /\ held s = None /\ live s = [].
Proof. exact ring_final_empty. Qed.

(* The side condition is necessary: with a larger capacity some schedule
   overwrites a buffer the consumer still holds. *)
Theorem C07_refuted_if_capacity_too_large : forall S CAP,
  0 < S -> 1 <= CAP -> S < CAP + 2 ->
  exists s, run S CAP (init (CAP + 2)) (bad_schedule S CAP) = Some s /\ ~ Safe S s.
Proof. exact Ring_refuted. Qed.

Print Assumptions C07_ring_safe_source_consts.
Print Assumptions C07_acquire_safe_source_consts.
Print Assumptions C07_in_order.
Print Assumptions C07_in_order_no_producer_failure.
Print Assumptions C07_progress_each_source_consts.
Print Assumptions C07_can_finish_source_consts.
Print Assumptions C07_no_deadlock_source_consts.
Print Assumptions C07_terminates.
Print Assumptions C07_final_empty.
Print Assumptions C07_refuted_if_capacity_too_large.
