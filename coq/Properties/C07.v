(* Property C07 — the concurrent two-stage pipeline is schedule-independent.
   Theorems about the ring/channel transition system (Model/Ring.v),
   instantiated with the slot count and channel capacity the source declares
   (Tie/PipelineTie.v). *)
From Coq Require Import List Arith.
Import ListNotations.
From SJ Require Import Model.Ring Proofs.RingProofs Tie.PipelineTie.

(* With the source's constants: for every number of buffers and EVERY
   schedule (event list accepted by the transition system), every buffer that
   may still be read (held by the consumer, queued, or being filled) holds
   exactly what the producer wrote. *)
Theorem C07_ring_safe_source_consts : forall n evs s,
  run S_gen CAP_gen (init n) evs = Some s -> Safe S_gen s.
Proof. intros n evs s. exact (ring_safe S_gen CAP_gen n evs s tie_ring_safe_cond). Qed.

(* Nothing is lost, repeated or reordered; a consumer that did not fail has
   consumed exactly the produced sequence when both sides are done. *)
Theorem C07_in_order : forall S CAP n evs s,
  run S CAP (init n) evs = Some s ->
  consumed s = seq 0 (length (consumed s)) /\ length (consumed s) <= n /\
  (failed s = false -> final s = true -> consumed s = seq 0 n).
Proof. exact ring_in_order. Qed.

(* No reachable non-final state is stuck (also after either side failed). *)
Theorem C07_no_deadlock_source_consts : forall n evs s,
  run S_gen CAP_gen (init n) evs = Some s -> final s = false ->
  exists e, e <> Fail2 /\ In e (enabled S_gen CAP_gen s).
Proof. intros n evs s. exact (ring_no_deadlock S_gen CAP_gen n evs s tie_cap_positive). Qed.

(* Every schedule is finite: at most 4n+4 events. *)
Theorem C07_terminates : forall S CAP n evs s,
  run S CAP (init n) evs = Some s ->
  length evs + mu_all s <= 4 * n + 4 /\ length evs <= 4 * n + 4.
Proof. exact ring_terminates. Qed.

(* When both sides are done the channel is empty and nothing is held. *)
Theorem C07_final_empty : forall S CAP n evs s,
  run S CAP (init n) evs = Some s -> final s = true ->
  queue s = [] /\ filling s = None /\ produced s = n /\ held s = None /\ live s = [].
Proof. exact ring_final_empty. Qed.

(* The side condition is necessary: with a larger capacity some schedule
   overwrites a buffer the consumer still holds. *)
Theorem C07_refuted_if_capacity_too_large : forall S CAP,
  0 < S -> 1 <= CAP -> S < CAP + 2 ->
  exists s, run S CAP (init (CAP + 2)) (bad_schedule S CAP) = Some s /\ ~ Safe S s.
Proof. exact Ring_refuted. Qed.

Print Assumptions C07_ring_safe_source_consts.
Print Assumptions C07_in_order.
Print Assumptions C07_no_deadlock_source_consts.
Print Assumptions C07_terminates.
Print Assumptions C07_final_empty.
Print Assumptions C07_refuted_if_capacity_too_large.
