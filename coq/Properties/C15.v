(* Property C15 — Reusing a ParsedJson or Serializer never leaks earlier state
   Statement-level file; see DESIGN.md §6 C15.  Model-level theorems are under
   proof in Proofs/ (see obligations.json); this file carries the tie
   obligations and what is proved so far; the property is decided on every run
   by the correspondence described in DESIGN.md. *)
From SJ Require Import Model.Base Model.RefTables Spec.Json Model.Tape Model.Iter Model.Serialize Model.FloatFmt Model.Marshal Tie.GoTablesTie Tie.SerializeTie.
Open Scope N_scope.
From SJ Require Import Model.Ring Proofs.RingProofs Tie.PipelineTie.
From Coq Require Import List.
(* the only state a parse does not reset is the index channel; it is empty
   whenever both stages are done, for every schedule, on success and failure *)
Theorem C15_channel_empty_after_every_call : forall S CAP n evs s,
  run S CAP (init n) evs = Some s -> final s = true -> queue s = [] /\ filling s = None /\ held s = None.
Proof. intros S CAP n evs s H F. destruct (ring_final_empty S CAP n evs s H F) as (A & B & _ & D & _). exact (conj A (conj B D)). Qed.
Print Assumptions C15_channel_empty_after_every_call.
