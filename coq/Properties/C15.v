(* Property C15 — reusing a ParsedJson or Serializer never leaks earlier state.
   Model/Reuse.v separates the fields every call resets from the one piece of
   state that survives a call (the index channel, and the ring buffers' stale
   contents). *)
From Coq Require Import List.
From SJ Require Import Model.Base Model.RefTables Model.Ring Proofs.RingProofs Model.Reuse Proofs.ReuseProofs Tie.PipelineTie Tie.GoTablesTie.

(* the channel is empty whenever both stages are done: every schedule, success
   and failure of either stage -- including a stage 1 that sends the terminator
   while withholding the buffer it found the error in (that buffer never
   enters the channel) *)
Theorem C15_channel_empty_after_every_call : forall S CAP n evs s,
  Ring.run S CAP (Ring.init n) evs = Some s -> Ring.final s = true -> Ring.queue s = [] /\ Ring.filling s = None /\ Ring.held s = None.
Proof. intros S CAP n evs s H F. destruct (ring_final_empty S CAP n evs s H F) as (A & B & _ & D & _). exact (conj A (conj B D)). Qed.

(* a call on a used object whose channel is empty gives the result and the
   fields of the same call on a fresh object *)
Theorem C15_reuse_independent : forall (result : Type) core s c,
  reuse_inv_b s = true ->
  fst (parse result core s c) = fst (parse result core fresh c) /\
  i_fields (snd (parse result core s c)) = i_fields (snd (parse result core fresh c)).
Proof. exact reuse_independent. Qed.

(* any history of calls: every result equals the fresh result and the
   invariant is re-established, given that a call ends with both stages done
   (the premise is the ring theorem's conclusion) *)
Definition C15_reuse_many := reuse_many.
(* the sequential path when stage 1 leaves its loop before sending the buffer
   it failed in: n sent, one abandoned, drained; channel empty *)
Definition C15_seq_stage1_abandon_clean := seq_fail1_abandon_clean.
(* stale contents of the ring buffers are never read *)
Definition C15_stale_ring_never_read := stale_ring_never_read.

Print Assumptions C15_channel_empty_after_every_call.
Print Assumptions C15_reuse_independent.
