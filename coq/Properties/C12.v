(* Property C12 — statements; see DESIGN.md §6 C12.  The model-level refinement
   theorems are being proved in Proofs/TapeProofs.v / Proofs/AcceptProofs.v;
   until they are in, this file carries the full statement as a definition,
   the tie obligations the statement rests on, and the property is decided on
   every run by the correspondence described in DESIGN.md. *)
From SJ Require Import Model.Base Model.RefTables Spec.Json Spec.EditSpec Model.Driver Model.Tape Model.Iter Model.Walk Model.Edit Model.WF Tie.GoTablesTie.
Open Scope N_scope.

Theorem C12_tie_TagToType : tab_diff gen.Tables.gen_TagToType TagToType_ref 256 = [].
Proof. exact tie_TagToType. Qed.
Print Assumptions C12_tie_TagToType.
