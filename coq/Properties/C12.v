(* Property C12 — lookup, filtered iteration and bulk accessors agree with
   plain traversal.  Statements only; proofs in Proofs/Lookup*.v (summary and
   the setting in Proofs/LookupFinal.v, instances in Proofs/LookupExamples.v).

   Reading guide: [denotes true true pj it d] = the iterator it stands on a
   value of the tape whose segment reads as d (plain traversal from it returns
   d: C12_plain_traversal); [obj_at true true pj o l] / [arr_at true true pj a l]
   = o / a is the Object / Array that Iter.Object() / Iter.Array() returns on
   an iterator denoting DObj l / DArr l.  [found]: Found ty it | NotFound (nil,
   ErrPathNotFound) | OtherErr.  Crash / OutOfFuel never occur (the C12_total theorems of LookupFinal). *)
From SJ Require Import Model.Base Model.RefTables Spec.Json Spec.EditSpec Model.Driver Model.Tape Model.Iter Model.Walk Model.Edit Model.WF Tie.GoTablesTie.
From SJ Require Import Proofs.TapeSeg Proofs.TapeProofs Proofs.LookupBase Proofs.LookupEach Proofs.LookupNum
     Proofs.LookupBulk Proofs.LookupIface Proofs.LookupTop Proofs.LookupFinal.
Open Scope N_scope.

Theorem C12_tie_TagToType : tab_diff gen.Tables.gen_TagToType TagToType_ref 256 = [].
Proof. exact tie_TagToType. Qed.

(* the setting is inhabited: every object of a tape_ok tape has an Object *)
Theorem C12_objects_exist pj ds p l :
  tape_ok pj -> denote (pj_msg pj) (pj_strings pj) (pj_tape pj) = Some ds ->
  get_docs p ds = Some (DObj l) -> exists o, obj_at true true pj o l.
Proof. exact (C12_obj_at_path pj ds p l). Qed.

Theorem C12_plain_traversal pj it d :
  sized pj -> denotes true true pj it d -> walk_value (S (length (pj_tape pj))) pj it = Ok d.
Proof. exact (C12_denotes_walk pj it d). Qed.

(* FindKey: the first member with the key, or nil *)
Theorem C12_FindKey pj o l key :
  sized pj -> obj_at true true pj o l ->
  exists r, find_key pj o key = Ok r /\
    match abs_find_key l key with
    | Some d => exists it, r = Found (doc_type d) it /\ denotes true true pj it d
    | None => r = NotFound
    end.
Proof. exact (C12_find_key pj o l key). Qed.

(* FindPath: the value at the key path / ErrPathNotFound / another error *)
Theorem C12_FindPath pj o l path :
  sized pj -> obj_at true true pj o l ->
  exists r, find_path pj o path = Ok r /\
    match abs_find_path (DObj l) path with
    | LFound d => exists it, r = Found (doc_type d) it /\ denotes true true pj it d
    | LNotFound => r = NotFound
    | LOtherErr => r = OtherErr
    end.
Proof. exact (C12_find_path pj o l path). Qed.

Theorem C12_FindElement pj it d path :
  sized pj -> denotes true true pj it d ->
  exists r, find_element pj it path = Ok r /\
    match abs_find_path d path with
    | LFound x => exists it', r = Found (doc_type x) it' /\ denotes true true pj it' x
    | LNotFound => r = NotFound
    | LOtherErr => r = OtherErr
    end.
Proof. exact (C12_find_element pj it d path). Qed.

(* ForEach with a key filter, keys unique within the object *)
Theorem C12_ForEach pj o l only :
  sized pj -> obj_at true true pj o l -> NoDup (map fst l) ->
  exists cbs, obj_foreach pj o only = Ok cbs /\
    Forall2 (callback_for true true pj) cbs (abs_foreach l only).
Proof. exact (C12_obj_foreach pj o l only). Qed.

Theorem C12_Array_ForEach pj a l :
  arr_at true true pj a l ->
  exists its, arr_foreach pj a = Ok its /\ Forall2 (denotes true true pj) its l.
Proof. exact (C12_arr_foreach pj a l). Qed.

(* bulk accessors = the typed accessor mapped over the elements *)
Theorem C12_AsString pj a l :
  sized pj -> arr_at true true pj a l ->
  as_string pj a = omap doc_string l /\
  as_string pj a = (do its <- arr_foreach pj a; omap (string_bytes pj) its).
Proof. exact (C12_as_string pj a l). Qed.

Theorem C12_AsNumber k pj a l :
  words64 pj -> arr_at true true pj a l ->
  as_num k pj a = omap (elem_num k) l /\
  as_num k pj a = (do its <- arr_foreach pj a; omap (iter_num k pj) its).
Proof. exact (C12_as_num k pj a l). Qed.

(* Interface(): the image of the document; maps: last duplicate wins *)
Theorem C12_Interface pj it d :
  sized pj -> denotes true true pj it d ->
  interface_val (S (length (pj_tape pj))) pj it = Ok (doc_ival d).
Proof. exact (C12_interface_val pj it d). Qed.

Theorem C12_Interface_doc pj ds :
  sized pj -> tape_ok pj -> denote (pj_msg pj) (pj_strings pj) (pj_tape pj) = Some ds ->
  interface_doc pj = match ds with [] => Err | _ => Ok (map doc_ival ds) end.
Proof. exact (C12_interface_doc pj ds). Qed.

(* numeric conversions: in range <-> success, value exact (truncated) *)
Theorem C12_Float_to_Int bits p q :
  sf_frac (sf_of_bits bits) = Some (p, q) ->
  (0 < q)%Z /\
  ((- two63z * q <= p < two63z * q)%Z -> conv_int (NFloat bits 0) = Ok (p ÷ q)%Z) /\
  (~ (- two63z * q <= p < two63z * q)%Z -> conv_int (NFloat bits 0) = Err).
Proof. exact (C12_float_to_int bits p q). Qed.

Theorem C12_Float_to_Uint bits p q :
  sf_frac (sf_of_bits bits) = Some (p, q) ->
  ((0 <= p < two64z * q)%Z -> conv_uint (NFloat bits 0) = Ok (Z.to_N (p ÷ q))) /\
  (~ (0 <= p < two64z * q)%Z -> conv_uint (NFloat bits 0) = Err).
Proof. exact (C12_float_to_uint bits p q). Qed.

Theorem C12_Accessors pj it d :
  sized pj -> words64 pj -> denotes true true pj it d ->
  iter_int pj it = doc_int d /\ iter_uint pj it = doc_uint d /\
  iter_float pj it = doc_float d /\ string_bytes pj it = doc_string d.
Proof. exact (C12_accessors pj it d). Qed.

Print Assumptions C12_FindKey.
Print Assumptions C12_FindPath.
Print Assumptions C12_FindElement.
Print Assumptions C12_ForEach.
Print Assumptions C12_Array_ForEach.
Print Assumptions C12_AsString.
Print Assumptions C12_AsNumber.
Print Assumptions C12_Interface.
Print Assumptions C12_Interface_doc.
Print Assumptions C12_Float_to_Int.
Print Assumptions C12_Accessors.
