(* Property C18 — Floats are printed shortest-round-trip in ECMAScript format
   Statement-level file; see DESIGN.md §6 C18.  Model-level theorems are under
   proof in Proofs/ (see obligations.json); this file carries the tie
   obligations and what is proved so far; the property is decided on every run
   by the correspondence described in DESIGN.md. *)
From SJ Require Import Model.Base Model.RefTables Spec.Json Model.Tape Model.Iter Model.Serialize Model.FloatFmt Model.Marshal Tie.GoTablesTie Tie.SerializeTie.
Open Scope N_scope.
Theorem C18_tie_es6_thresholds :
  bits_of_sf (dec_to_float false 1 (-6)) = bits_1em6 /\ bits_of_sf (dec_to_float false 1 21) = bits_1e21 /\
  gen.Consts.gen_es6_lit0_num = 1%Z /\ gen.Consts.gen_es6_lit0_den = (10 ^ 6)%Z /\
  gen.Consts.gen_es6_lit1_num = (10 ^ 21)%Z /\ gen.Consts.gen_es6_lit1_den = 1%Z.
Proof. destruct tie_es6_thresholds as (_ & A & B & C & D & E & F). repeat split; assumption. Qed.
Example C18_examples :
  fmt_float 4591870180066957722 = Some (of_codes [48; 46; 49]) /\               (* 0.1 *)
  fmt_float 4921056587992461136 = Some (of_codes [49; 101; 43; 50; 49]) /\      (* 1e+21 *)
  fmt_float 4502148214488346440 = Some (of_codes [49; 101; 45; 55]) /\          (* 1e-7 *)
  fmt_float 1 = Some (of_codes [53; 101; 45; 51; 50; 52]) /\                    (* 5e-324 *)
  fmt_float 9223372036854775808 = Some (of_codes [45; 48]).                     (* -0 *)
Proof. vm_compute. repeat split; reflexivity. Qed.
Print Assumptions C18_tie_es6_thresholds.
