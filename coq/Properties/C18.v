(* Property C18 — floats are printed shortest-round-trip in ECMAScript format.
   Theorems about Model/FloatFmt.v.  The digit generator is modelled BY
   SPECIFICATION (simdjson-go's copy of Go's Ryu code is tied to it
   differentially and against encoding/json); what is proved here is that the
   specification-level generator and the format layer have the property. *)
From Coq Require Import Reals.
From SJ Require Import Model.Base Model.RefTables Spec.Json Model.Iter Model.FloatFmt Proofs.NumLex Proofs.NumberFinal
     Proofs.FloatFmtReal Proofs.FloatFmtText Proofs.FloatFmtProofs Proofs.FloatFmtSwitch Tie.GoTablesTie Tie.SerializeTie.
Open Scope N_scope.

(* every finite bit pattern is printed; the text is a JSON number that the
   correctly rounding parser reads back to the IDENTICAL bit pattern (sign of
   zero included in the literal's sign) *)
Theorem C18_roundtrip : forall bits, bits < two64 -> sf_is_finite (sf_of_bits bits) = true ->
  exists txt l, fmt_float bits = Some txt /\
    (forall rest, rest_ok rest = true -> lex_number (txt ++ rest) = Some (l, rest)) /\
    nl_neg l = (two63 <=? bits) /\
    bits_of_sf (dec_to_float (nl_neg l) (lit_mant l) (lit_e10 l)) = bits.
Proof. exact fmt_float_roundtrip. Qed.

(* shortest: no decimal with fewer significant digits parses back to the float *)
Theorem C18_minimal : forall bits s m e ds dp,
  sf_of_bits bits = SpecFloat.S754_finite s m e -> shortest bits = (ds, dp) ->
  forall j c' k', (1 <= j < Z.of_nat (length ds))%Z -> (0 < c' < 10 ^ j)%Z ->
  bits_of_sf (dec_to_float false c' k') <> bits mod two63.
Proof. exact shortest_minimal. Qed.

(* and among the decimals of that length that do, it is the closest *)
Theorem C18_closest : forall bits s m e ds dp,
  sf_of_bits bits = SpecFloat.S754_finite s m e -> shortest bits = (ds, dp) ->
  forall c2 k2, (0 < c2 < 10 ^ Z.of_nat (length ds))%Z ->
  bits_of_sf (dec_to_float false c2 k2) = bits mod two63 ->
  (Rabs (dval (digits_val ds 0) (dp - Z.of_nat (length ds)) - xval m e) <= Rabs (dval c2 k2 - xval m e))%R.
Proof. exact shortest_closest. Qed.

(* ECMAScript format: plain decimals exactly when the decimal exponent satisfies
   -6 < dp <= 21 (i.e. 1e-6 <= |x| < 1e21), exponent form otherwise; the
   bit-pattern test of the code against float64(1e-6) and float64(1e21) agrees
   with this decimal-exponent rule *)
Theorem C18_es6_format : forall bits s m e ds dp, bits < two64 ->
  sf_of_bits bits = SpecFloat.S754_finite s m e -> shortest bits = (ds, dp) ->
  fmt_float bits = Some (if (-6 <? dp)%Z && (dp <=? 21)%Z then fmt_f (two63 <=? bits) ds dp else fmt_e (two63 <=? bits) ds dp).
Proof. exact fmt_float_es6. Qed.
Definition C18_text_shape := fmt_float_shape.
Definition C18_no_exponent_padding := fmt_float_exponent_range.

Theorem C18_nonfinite_is_error : forall bits, fmt_float bits = None <-> sf_is_finite (sf_of_bits bits) = false.
Proof. exact fmt_float_none_iff. Qed.

Theorem C18_tie_es6_thresholds :
  bits_of_sf (dec_to_float false 1 (-6)) = bits_1em6 /\ bits_of_sf (dec_to_float false 1 21) = bits_1e21 /\
  gen.Consts.gen_es6_lit0_num = 1%Z /\ gen.Consts.gen_es6_lit0_den = (10 ^ 6)%Z /\
  gen.Consts.gen_es6_lit1_num = (10 ^ 21)%Z /\ gen.Consts.gen_es6_lit1_den = 1%Z.
Proof. destruct tie_es6_thresholds as (_ & A & B & C & D & E & F). repeat split; assumption. Qed.

Print Assumptions C18_roundtrip.
Print Assumptions C18_minimal.
Print Assumptions C18_closest.
Print Assumptions C18_es6_format.
