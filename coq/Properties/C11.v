(* Property C11 — Serialize/Deserialize round-trips every tape in every mode.
   Proved on the model for EVERY string hash function (Go's per-process random
   memhash is a parameter), for every well-formed tape including tapes with NOP
   runs from in-place deletions. *)
From SJ Require Import Model.Base Model.RefTables Spec.Json Model.Tape Model.Iter Model.WF Model.Serialize
     Proofs.SerBase Proofs.SerDen Proofs.SerProofs Proofs.SerFraming Tie.GoTablesTie Tie.SerializeTie.
Open Scope N_scope.

(* Serialize never panics on a well-formed tape *)
Theorem C11_serialize_total : forall (hash : bytes -> N) nops pj,
  wf_check nops pj = true -> exists out, ser_core hash pj = Ok out.
Proof. exact ser_core_total. Qed.

(* Deserialize succeeds on what Serialize produced and the rebuilt tape denotes
   the same document (number types and float flags are part of doc) *)
Theorem C11_roundtrip : forall (hash : bytes -> N) nops pj tags vals strbuf,
  wf_check nops pj = true ->
  N.of_nat (length (pj_tape pj)) < two56 -> Forall (fun w => w < two64) (pj_tape pj) ->
  ser_core hash pj = Ok (tags, vals, strbuf) ->
  N.of_nat (length strbuf) < STRINGBUFBIT ->
  exists t', deser_core (repeat 0 (length (pj_tape pj))) tags (bytes_of_words vals) = Ok t' /\
             length t' = length (pj_tape pj) /\
             (forall d, denote (pj_msg pj) (pj_strings pj) (pj_tape pj) = Some d -> denote strbuf [] t' = Some d).
Proof. exact ser_deser_roundtrip. Qed.

(* with at least one live entry the denotations are equal outright *)
Theorem C11_roundtrip_eq : forall (hash : bytes -> N) nops pj tags vals strbuf,
  wf_check nops pj = true ->
  N.of_nat (length (pj_tape pj)) < two56 -> Forall (fun w => w < two64) (pj_tape pj) ->
  Exists (fun w => (word_tag w =? TagNop) = false) (pj_tape pj) ->
  ser_core hash pj = Ok (tags, vals, strbuf) ->
  N.of_nat (length strbuf) < STRINGBUFBIT ->
  exists t', deser_core (repeat 0 (length (pj_tape pj))) tags (bytes_of_words vals) = Ok t' /\
             denote strbuf [] t' = denote (pj_msg pj) (pj_strings pj) (pj_tape pj).
Proof. exact ser_deser_roundtrip_eq. Qed.

(* the rebuilt tape is well-formed (C17 for Deserialize) *)
Theorem C11_roundtrip_wf : forall (hash : bytes -> N) nops pj tags vals strbuf,
  wf_check nops pj = true ->
  N.of_nat (length (pj_tape pj)) < two56 -> Forall (fun w => w < two64) (pj_tape pj) ->
  ser_core hash pj = Ok (tags, vals, strbuf) ->
  N.of_nat (length strbuf) < STRINGBUFBIT ->
  exists t', deser_core (repeat 0 (length (pj_tape pj))) tags (bytes_of_words vals) = Ok t' /\
             wf_check true {| pj_tape := t'; pj_strings := []; pj_msg := strbuf |} = true.
Proof. exact ser_deser_wf. Qed.

(* the same for ANY sections that pass the hash-independent check the harness
   evaluates on the real Serialize's output (so the theorem applies to the
   implementation's blobs, whatever memhash did) *)
Theorem C11_checked_sections_roundtrip : forall nops pj tags vb strbuf,
  wf_check nops pj = true ->
  N.of_nat (length (pj_tape pj)) < two56 -> N.of_nat (length strbuf) < STRINGBUFBIT ->
  ser_check pj tags vb strbuf = true ->
  exists t', deser_core (repeat 0 (length (pj_tape pj))) tags vb = Ok t' /\
             R (pj_msg pj) (pj_strings pj) strbuf (pj_tape pj) t' /\
             (forall d, denote (pj_msg pj) (pj_strings pj) (pj_tape pj) = Some d -> denote strbuf [] t' = Some d).
Proof. exact check_deser_roundtrip. Qed.

(* uncompressed framing: varints and raw blocks read back *)
Definition C11_blob_roundtrip := serialize_blob_roundtrip.
Definition C11_uvarint_roundtrip := uvarint_put_uvarint.

Theorem C11_tie_serializer_consts :
  2 ^ gen.Consts.gen_stringBits = stringSize /\ gen.Consts.gen_serializedVersion = serializedVersion /\
  gen.Consts.gen_tagFloatWithFlag = tagFloatWithFlag.
Proof. destruct tie_serializer_consts as (A & B & _ & _ & _ & _ & _ & H). exact (conj A (conj B H)). Qed.

Print Assumptions C11_roundtrip.
Print Assumptions C11_roundtrip_eq.
Print Assumptions C11_roundtrip_wf.
Print Assumptions C11_checked_sections_roundtrip.
