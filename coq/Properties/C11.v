(* Property C11 — Serialize/Deserialize round-trips every tape in every mode
   Statement-level file; see DESIGN.md §6 C11.  Model-level theorems are under
   proof in Proofs/ (see obligations.json); this file carries the tie
   obligations and what is proved so far; the property is decided on every run
   by the correspondence described in DESIGN.md. *)
From SJ Require Import Model.Base Model.RefTables Spec.Json Model.Tape Model.Iter Model.Serialize Model.FloatFmt Model.Marshal Tie.GoTablesTie Tie.SerializeTie.
Open Scope N_scope.
Theorem C11_tie_serializer_consts :
  2 ^ gen.Consts.gen_stringBits = stringSize /\ gen.Consts.gen_serializedVersion = serializedVersion /\
  gen.Consts.gen_tagFloatWithFlag = tagFloatWithFlag.
Proof. destruct tie_serializer_consts as (A & B & _ & _ & _ & _ & _ & H). exact (conj A (conj B H)). Qed.
Print Assumptions C11_tie_serializer_consts.
