(* Property C10 — MarshalJSON emits valid JSON denoting the same document
   Statement-level file; see DESIGN.md §6 C10.  Model-level theorems are under
   proof in Proofs/ (see obligations.json); this file carries the tie
   obligations and what is proved so far; the property is decided on every run
   by the correspondence described in DESIGN.md. *)
From SJ Require Import Model.Base Model.RefTables Spec.Json Model.Tape Model.Iter Model.Serialize Model.FloatFmt Model.Marshal Tie.GoTablesTie Tie.SerializeTie.
Open Scope N_scope.
Theorem C10_tie_escape_tables :
  tab_diff gen.Tables.gen_shouldEscape shouldEscape_ref 256 = [] /\ tab_diff gen.Tables.gen_valToHex valToHex_ref 16 = [].
Proof. exact (conj tie_shouldEscape tie_valToHex). Qed.
(* non-finite floats are an error of the float printer, never output *)
Example C10_inf_error : fmt_float 9218868437227405312 = None /\ fmt_float 18442240474082181120 = None /\ fmt_float 9221120237041090560 = None.
Proof. vm_compute. repeat split; reflexivity. Qed.
Print Assumptions C10_tie_escape_tables.
