(* Property C10 — MarshalJSON emits valid JSON denoting the same document.
   Proved on the model: the string and number printers produce text that the
   specification's recogniser reads back to the same value; non-finite floats
   are errors.  The composition over the whole marshal loop is decided by the
   correspondence run (output equal to the modelled MarshalJSON byte for byte,
   re-parsed, fixed point); K2 (-0.0) is the known exception to the fixed point. *)
From SJ Require Import Model.Base Model.RefTables Spec.Json Model.Iter Model.FloatFmt Model.Marshal Proofs.NumLex Proofs.NumberFinal
     Proofs.EscapeProofs Proofs.FloatFmtProofs Tie.GoTablesTie Tie.SerializeTie.
Open Scope N_scope.

(* a printed string is a JSON string literal denoting exactly the same bytes *)
Theorem C10_string_roundtrip : forall s rest f,
  utf8_ok s = true -> (length (escape_bytes s) < f)%nat ->
  spec_value (S f) (quote_str s ++ rest) = SOk (DStr s, rest).
Proof. exact spec_value_quote_str. Qed.

(* for arbitrary bytes: the same, or outside the claim (ill-formed UTF-8) — never a different string *)
Theorem C10_escape_unescape : forall s rest fuel, (length (escape_bytes s) < fuel)%nat ->
  spec_string fuel (escape_bytes s ++ x22 :: rest) [] = SOk (s, rest) \/
  spec_string fuel (escape_bytes s ++ x22 :: rest) [] = SOut.
Proof. exact escape_unescape. Qed.

(* no raw control character ever appears in the output *)
Theorem C10_no_raw_control_chars : forall s, Forall (fun b => 32 <= b2n b) (escape_bytes s).
Proof. exact escape_bytes_no_ctrl. Qed.

(* a printed float is a JSON number denoting the identical float64 *)
Theorem C10_float_roundtrip : forall bits, bits < two64 -> sf_is_finite (sf_of_bits bits) = true ->
  exists txt l, fmt_float bits = Some txt /\
    (forall rest, rest_ok rest = true -> lex_number (txt ++ rest) = Some (l, rest)) /\
    nl_neg l = (two63 <=? bits) /\
    bits_of_sf (dec_to_float (nl_neg l) (lit_mant l) (lit_e10 l)) = bits.
Proof. exact fmt_float_roundtrip. Qed.

(* a non-finite float is an error, never output *)
Theorem C10_nonfinite_is_error : forall bits, fmt_float bits = None <-> sf_is_finite (sf_of_bits bits) = false.
Proof. exact fmt_float_none_iff. Qed.

Theorem C10_tie_escape_tables :
  tab_diff gen.Tables.gen_shouldEscape shouldEscape_ref 256 = [] /\ tab_diff gen.Tables.gen_valToHex valToHex_ref 16 = [].
Proof. exact (conj tie_shouldEscape tie_valToHex). Qed.

Print Assumptions C10_string_roundtrip.
Print Assumptions C10_escape_unescape.
Print Assumptions C10_float_roundtrip.
