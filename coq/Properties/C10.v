(* Property C10 — MarshalJSON emits valid JSON denoting the same document.
   Proved on the model: the string and number printers produce text that the
   specification's recogniser reads back to the same value; non-finite floats
   are errors; and the WHOLE marshal loop: refinement to a document-level
   printer on every tape with a denotation (NOP gaps included), validity and
   same document under the specification's recogniser, fixed point, and the end
   to end chains parse -> marshal -> parse -> marshal.  K2 (-0.0) is the stated
   exception to the fixed point (no_negzero); K4 (integral floats >= 2^53 read
   back as a different integer) is why doc_equiv relates such a float to an
   integer that ROUNDS to it (int_rounds_to), not to an equal one. *)
From SJ Require Import Model.Base Model.RefTables Spec.Json Model.Tape Model.Iter Model.Driver Model.FloatFmt Proofs.NumLex Proofs.NumberFinal
     Proofs.EscapeProofs Proofs.FloatFmtProofs Proofs.TapeSeg Tie.GoTablesTie Tie.SerializeTie.
From SJ Require Import Model.Marshal Proofs.MarshalProofsBase Proofs.MarshalProofsRefine Proofs.MarshalProofsNum
     Proofs.MarshalProofsText Proofs.MarshalProofsTape Proofs.MarshalProofsArray Proofs.MarshalProofsSpecOk
     Proofs.MarshalFinal Proofs.MarshalForEach.
Open Scope N_scope.

(* a printed string is a JSON string literal denoting exactly the same bytes *)
Theorem C10_string_roundtrip : forall s rest f,
  utf8_ok s = true -> (length (escape_bytes s) < f)%nat ->
  spec_value (S f) (quote_str s ++ rest) = SOk (DStr s, rest).
Proof. exact spec_value_quote_str. Qed.

(* for arbitrary bytes: the same, or outside the claim (ill-formed UTF-8) — never a different string *)
Theorem C10_escape_unescape : forall s rest fuel, (length (escape_bytes s) < fuel)%nat ->
  spec_string fuel (escape_bytes s ++ x22 :: rest) [] = SOk (s, rest) \/
  spec_string fuel (escape_bytes s ++ x22 :: rest) [] = SOut.
Proof. exact escape_unescape. Qed.

(* no raw control character ever appears in the output *)
Theorem C10_no_raw_control_chars : forall s, Forall (fun b => 32 <= b2n b) (escape_bytes s).
Proof. exact escape_bytes_no_ctrl. Qed.

(* a printed float is a JSON number denoting the identical float64 *)
Theorem C10_float_roundtrip : forall bits, bits < two64 -> sf_is_finite (sf_of_bits bits) = true ->
  exists txt l, fmt_float bits = Some txt /\
    (forall rest, rest_ok rest = true -> lex_number (txt ++ rest) = Some (l, rest)) /\
    nl_neg l = (two63 <=? bits) /\
    bits_of_sf (dec_to_float (nl_neg l) (lit_mant l) (lit_e10 l)) = bits.
Proof. exact fmt_float_roundtrip. Qed.

(* a non-finite float is an error, never output *)
Theorem C10_nonfinite_is_error : forall bits, fmt_float bits = None <-> sf_is_finite (sf_of_bits bits) = false.
Proof. exact fmt_float_none_iff. Qed.

Theorem C10_tie_escape_tables :
  tab_diff gen.Tables.gen_shouldEscape shouldEscape_ref 256 = [] /\ tab_diff gen.Tables.gen_valToHex valToHex_ref 16 = [].
Proof. exact (conj tie_shouldEscape tie_valToHex). Qed.

(* ---- the whole marshal loop (Proofs/Marshal*.v) ---------------------- *)

(* (a) REFINEMENT: on every tape that has a denotation (NOP gaps of deletions
   included) Iter.MarshalJSONBuffer of the root iterator returns exactly
   print_docs ds — roots separated by LF — or the error outcome when a float
   is not finite (or there is no root); never a crash, never out of fuel *)
Theorem C10_marshal_refines : forall pj ds,
  denote (pj_msg pj) (pj_strings pj) (pj_tape pj) = Some ds ->
  marshal_iter pj (iter0 pj) = marshal_spec ds.
Proof. exact C10a_marshal_refines. Qed.

Theorem C10_marshal_outcomes : forall pj ds,
  denote (pj_msg pj) (pj_strings pj) (pj_tape pj) = Some ds ->
  (ds <> [] -> forallb fin_doc ds = true -> marshal_iter pj (iter0 pj) = Ok (pr_docs ds)) /\
  (forallb fin_doc ds = false -> marshal_iter pj (iter0 pj) = Err) /\
  (ds = [] -> marshal_iter pj (iter0 pj) = Err) /\
  marshal_iter pj (iter0 pj) <> Crash /\ marshal_iter pj (iter0 pj) <> OutOfFuel.
Proof. exact C10a_outcomes. Qed.

(* (b) VALIDITY + SAME DOCUMENT *)
Theorem C10_text_valid : forall d,
  doc_okb d = true -> is_container d = true ->
  spec_parse (pr_doc d) = SOk (redoc d) /\ doc_equiv d (redoc d).
Proof. exact C10b_text_valid. Qed.

Theorem C10_ndtext_valid : forall ds,
  ds <> [] -> docs_okb ds = true ->
  nd_spec (pr_docs ds) = SOk (map redoc ds) /\ Forall2 doc_equiv ds (map redoc ds).
Proof. exact C10b_ndtext_valid. Qed.

(* (c) FIXED POINT, and its exception K2 *)
Theorem C10_fixed_point : forall d,
  doc_okb d = true -> no_negzero d = true -> print_doc (redoc d) = print_doc d.
Proof. exact C10c_fixed_point. Qed.

(* (d) END TO END: edited tapes of 64-bit words; freshly parsed input *)
Theorem C10_roundtrip_tape : forall copy pj ds,
  denote (pj_msg pj) (pj_strings pj) (pj_tape pj) = Some ds -> ds <> [] ->
  words64 (pj_tape pj) -> forallb doc_txtb ds = true -> forallb is_container ds = true ->
  N.of_nat (length (pr_docs ds)) < 2 ^ 55 ->
  marshal_iter pj (iter0 pj) = Ok (pr_docs ds) /\
  nd_spec (pr_docs ds) = SOk (map redoc ds) /\
  exists p, parsend_model copy (pr_docs ds) = Ok p /\
    denote (p_msg p) (p_strings p) (p_tape p) = Some (map redoc ds) /\
    Forall2 doc_equiv ds (map redoc ds) /\
    (forallb no_negzero ds = true -> marshal_iter (pj_of p) (iter0 (pj_of p)) = Ok (pr_docs ds)).
Proof. exact C10d_roundtrip_tape. Qed.

Theorem C10_parse_marshal_parse_full : forall copy bs d,
  N.of_nat (length bs) < 2 ^ 55 -> spec_parse bs = SOk d ->
  N.of_nat (length (pr_doc d)) < 2 ^ 55 ->
  exists p, parse_model copy bs = Ok p /\
    denote (p_msg p) (p_strings p) (p_tape p) = Some [d] /\
    marshal_iter (pj_of p) (iter0 (pj_of p)) = Ok (pr_doc d) /\
    spec_parse (pr_doc d) = SOk (redoc d) /\ doc_equiv d (redoc d) /\
    exists p', parse_model copy (pr_doc d) = Ok p' /\
      denote (p_msg p') (p_strings p') (p_tape p') = Some [redoc d] /\
      (no_negzero d = true -> marshal_iter (pj_of p') (iter0 (pj_of p')) = Ok (pr_doc d)).
Proof. exact C10_parse_marshal_parse. Qed.

Theorem C10_parsend_marshal_parsend_full : forall copy bs ds,
  N.of_nat (length bs) < 2 ^ 55 -> nd_spec bs = SOk ds ->
  N.of_nat (length (pr_docs ds)) < 2 ^ 55 ->
  exists p, parsend_model copy bs = Ok p /\
    denote (p_msg p) (p_strings p) (p_tape p) = Some ds /\
    marshal_iter (pj_of p) (iter0 (pj_of p)) = Ok (pr_docs ds) /\
    nd_spec (pr_docs ds) = SOk (map redoc ds) /\ Forall2 doc_equiv ds (map redoc ds) /\
    exists p', parsend_model copy (pr_docs ds) = Ok p' /\
      denote (p_msg p') (p_strings p') (p_tape p') = Some (map redoc ds) /\
      (forallb no_negzero ds = true -> marshal_iter (pj_of p') (iter0 (pj_of p')) = Ok (pr_docs ds)).
Proof. exact C10_parsend_marshal_parsend. Qed.

(* restricted iterators and Array.MarshalJSONBuffer (every array, the empty one and the all-deleted one included) *)
Theorem C10_value_iterator_text : forall pj strict adj pre v X d w r it,
  pj_tape pj = pre ++ v ++ X ->
  val_seg (pj_msg pj) (pj_strings pj) strict adj (nlen pre) v d -> v = w :: r ->
  on_word it (length pre) w -> i_len it = Z.of_nat (length pre + length v) ->
  marshal_iter pj it = value_spec d.
Proof. exact C10_value_iterator. Qed.

(* the iterator ParsedJson.ForEach hands to its callback (its view ends with the root's
   closing word): the text of the root's value (fix F20; an error before) *)
Theorem C10_foreach_iterator_text : forall pj strict adj pre v n2 c X d w r it,
  pj_tape pj = pre ++ v ++ n2 ++ c :: X ->
  val_seg (pj_msg pj) (pj_strings pj) strict adj (nlen pre) v d -> v = w :: r ->
  nops_seg strict n2 -> word_tag c = TagRoot ->
  (Z.of_N (word_val c) <= Z.of_nat (length pre + length v + length n2))%Z ->
  on_word it (length pre) w -> i_len it = Z.of_nat (length pre + length v + length n2 + 1) ->
  (exists l, d = DArr l) \/ (exists l, d = DObj l) ->
  marshal_iter pj it = value_spec d.
Proof. exact marshal_foreach_root_value. Qed.

Theorem C10_array_marshal_text : forall pj strict adj pre w body e X l,
  pj_tape pj = pre ++ (w :: body ++ [e]) ++ X ->
  items (pj_msg pj) (pj_strings pj) strict adj (nlen pre + 1) body l -> word_tag e = TagArrayEnd ->
  word_val w = nlen pre + nlen body + 2 ->
  marshal_array pj {| c_len := Z.of_N (word_val w); c_off := Z.of_nat (length pre) + 1 |} =
    value_spec (DArr l).
Proof. exact C10_array_marshal. Qed.

Print Assumptions C10_foreach_iterator_text.
Print Assumptions C10_marshal_refines.
Print Assumptions C10_parse_marshal_parse_full.
Print Assumptions C10_string_roundtrip.
Print Assumptions C10_escape_unescape.
Print Assumptions C10_float_roundtrip.
