(* Property C19 — Deserialize never panics on corrupt or truncated bytes
   Statement-level file; see DESIGN.md §6 C19.  Model-level theorems are under
   proof in Proofs/ (see obligations.json); this file carries the tie
   obligations and what is proved so far; the property is decided on every run
   by the correspondence described in DESIGN.md. *)
From SJ Require Import Model.Base Model.RefTables Spec.Json Model.Tape Model.Iter Model.Serialize Model.FloatFmt Model.Marshal Tie.GoTablesTie Tie.SerializeTie.
Open Scope N_scope.
Definition C19_full : Prop :=
  forall src, deser_blob src <> DCrash /\ deser_blob src <> DFuel.
Theorem C19_tie_serializer_consts : gen.Consts.gen_serializedVersion = serializedVersion /\ gen.Consts.gen_tagFloatWithFlag = tagFloatWithFlag.
Proof. destruct tie_serializer_consts as (_ & B & _ & _ & _ & _ & _ & H). exact (conj B H). Qed.
Theorem C19_tie_open_close : tab_diff gen.Tables.gen_tagOpenToClose tagOpenToClose_ref 256 = [].
Proof. exact tie_tagOpenToClose. Qed.
Print Assumptions C19_tie_serializer_consts.
