(* Property C19 — Deserialize never panics on corrupt or truncated bytes.
   Proved on the model of the framing and the tape reconstruction
   (Model/Serialize.v): for EVERY byte string the outcome is an error or a
   result, never an out-of-range access and never non-termination; and on every
   returned result plain traversal, MarshalJSON, Interface() and FindElement
   neither index out of range nor run out of fuel (Proofs/ApiTotal*.v: the
   iterator API on ARBITRARY tapes; Interface() needs one fact about the tape
   that Deserialize is proved to establish, also into a reused destination). *)
From SJ Require Import Model.Base Model.RefTables Model.Tape Model.Iter Model.Walk Model.Marshal Model.Serialize Proofs.DeserSafe
     Proofs.ApiTotalBase Proofs.ApiTotalParse Proofs.ApiTotalWalk Proofs.ApiTotalFinal Tie.GoTablesTie Tie.SerializeTie.
Open Scope N_scope.

Theorem C19_deser_blob_no_crash : forall src, deser_blob src <> DCrash /\ deser_blob src <> DFuel.
Proof. exact deser_blob_no_crash. Qed.

(* the reconstruction alone, for any destination tape (fresh or reused), any
   tag stream and any value bytes *)
Theorem C19_deser_core_no_crash : forall init tags vals,
  deser_core init tags vals <> Crash /\ deser_core init tags vals <> OutOfFuel.
Proof. exact deser_core_no_crash. Qed.

Theorem C19_deser_core_length : forall init tags vals t, deser_core init tags vals = Ok t -> length t = length init.
Proof. exact deser_core_length. Qed.

Theorem C19_tie_serializer_consts : gen.Consts.gen_serializedVersion = serializedVersion /\ gen.Consts.gen_tagFloatWithFlag = tagFloatWithFlag.
Proof. destruct tie_serializer_consts as (_ & B & _ & _ & _ & _ & _ & H). exact (conj B H). Qed.
Theorem C19_tie_open_close : tab_diff gen.Tables.gen_tagOpenToClose tagOpenToClose_ref 256 = [].
Proof. exact tie_tagOpenToClose. Qed.


(* the second sentence: on a returned result, traversal and marshalling
   terminate without panic *)
Theorem C19_deserialize_result_total : forall src t s m, deser_blob src = DOk t s m ->
  let pj := {| pj_tape := t; pj_strings := s; pj_msg := m |} in
  fine (walk_doc pj) /\ fine (marshal_iter pj (iter0 pj)) /\ fine (interface_doc pj) /\
  forall path, fine (find_element pj (iter0 pj) path).
Proof. exact deserialize_result_total. Qed.

(* the same for the reconstruction alone, into ANY destination tape below 2^56 words
   (a reused destination with stale words included) *)
Definition C19_deser_core_result_total := deser_core_result_total.

(* on arbitrary tapes (no hypothesis at all): plain traversal, MarshalJSON, FindElement *)
Theorem C19_any_tape_walk_marshal_find : forall pj,
  fine (walk_doc pj) /\ fine (marshal_iter pj (iter0 pj)) /\ forall path, fine (find_element pj (iter0 pj) path).
Proof. intros pj. split; [apply walk_doc_fine|]. split; [apply marshal_doc_fine|apply find_element_doc_fine]. Qed.
(* Object.Parse (every member collected without descending into it) from any reachable
   object cursor on any tape: an error or a list, never a panic, never non-termination.
   False before fix F19 (a member whose open tag points back at its own key). *)
Theorem C19_object_parse_total : forall pj i o, iter_ok pj i -> iter_object i = Ok o -> fine (obj_parse pj o).
Proof.
  intros pj i o Hi Ho. eapply okP_fine. apply obj_parse_total. eapply object_closed; eassumption.
Qed.
(* Interface() on ANY tape, with no condition at all (since fix F19: NextElementBytes refuses
   members that point backwards, so the loop that needed the condition below cannot arise) *)
Theorem C19_any_tape_interface : forall pj, fine (interface_doc pj).
Proof. exact interface_doc_fine_any. Qed.

(* Interface(): under the one condition Deserialize establishes; the tape violating it on
   which the code looped before fix F19 is an error now *)
Definition C19_interface_doc_fine := interface_doc_fine.
Definition C19_backward_member_array_is_an_error := backarr_interface.

Print Assumptions C19_any_tape_interface.
Print Assumptions C19_object_parse_total.
Print Assumptions C19_deser_blob_no_crash.
Print Assumptions C19_deserialize_result_total.
Print Assumptions C19_deser_core_no_crash.
