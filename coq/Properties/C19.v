(* Property C19 — Deserialize never panics on corrupt or truncated bytes.
   Proved on the model of the framing and the tape reconstruction
   (Model/Serialize.v): for EVERY byte string the outcome is an error or a
   result, never an out-of-range access and never non-termination. *)
From SJ Require Import Model.Base Model.RefTables Model.Serialize Proofs.DeserSafe Tie.GoTablesTie Tie.SerializeTie.
Open Scope N_scope.

Theorem C19_deser_blob_no_crash : forall src, deser_blob src <> DCrash /\ deser_blob src <> DFuel.
Proof. exact deser_blob_no_crash. Qed.

(* the reconstruction alone, for any destination tape (fresh or reused), any
   tag stream and any value bytes *)
Theorem C19_deser_core_no_crash : forall init tags vals,
  deser_core init tags vals <> Crash /\ deser_core init tags vals <> OutOfFuel.
Proof. exact deser_core_no_crash. Qed.

Theorem C19_deser_core_length : forall init tags vals t, deser_core init tags vals = Ok t -> length t = length init.
Proof. exact deser_core_length. Qed.

Theorem C19_tie_serializer_consts : gen.Consts.gen_serializedVersion = serializedVersion /\ gen.Consts.gen_tagFloatWithFlag = tagFloatWithFlag.
Proof. destruct tie_serializer_consts as (_ & B & _ & _ & _ & _ & _ & H). exact (conj B H). Qed.
Theorem C19_tie_open_close : tab_diff gen.Tables.gen_tagOpenToClose tagOpenToClose_ref 256 = [].
Proof. exact tie_tagOpenToClose. Qed.

Print Assumptions C19_deser_blob_no_crash.
Print Assumptions C19_deser_core_no_crash.
