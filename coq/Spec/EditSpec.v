(* Spec/EditSpec.v — abstract meaning of the edit and lookup API on documents
   (C12, C13, C14): nothing here looks at a tape. *)
From SJ Require Import Model.Base Spec.Json.
Open Scope N_scope.

(* a value position: root index, then child indices (for an object the index
   of the member whose value is meant) *)
Definition path := list nat.

Fixpoint upd_list {A} (i : nat) (f : A -> option A) (l : list A) : option (list A) :=
  match l, i with
  | [], _ => None
  | x :: r, O => option_map (fun y => y :: r) (f x)
  | x :: r, S k => option_map (fun r' => x :: r') (upd_list k f r)
  end.

(* apply f to the value at path p inside d *)
Fixpoint upd_doc (p : path) (f : doc -> option doc) (d : doc) {struct p} : option doc :=
  match p with
  | [] => f d
  | i :: rest =>
    match d with
    | DArr l => option_map DArr (upd_list i (upd_doc rest f) l)
    | DObj l => option_map DObj (upd_list i (fun kv => option_map (fun v => (fst kv, v)) (upd_doc rest f (snd kv))) l)
    | _ => None
    end
  end.

Definition upd_docs (p : path) (f : doc -> option doc) (ds : list doc) : option (list doc) :=
  match p with
  | [] => None
  | r :: rest => upd_list r (upd_doc rest f) ds
  end.

Fixpoint get_doc (p : path) (d : doc) : option doc :=
  match p with
  | [] => Some d
  | i :: rest =>
    match d with
    | DArr l => match nth_error l i with Some x => get_doc rest x | None => None end
    | DObj l => match nth_error l i with Some kv => get_doc rest (snd kv) | None => None end
    | _ => None
    end
  end.
Definition get_docs (p : path) (ds : list doc) : option doc :=
  match p with
  | [] => None
  | r :: rest => match nth_error ds r with Some d => get_doc rest d | None => None end
  end.

(* which Set* call the documentation allows on which kind of value *)
Definition is_numstr_doc (d : doc) : bool := match d with DNum _ | DStr _ => true | _ => false end.
Definition is_atom_doc (d : doc) : bool := match d with DNull | DBool _ => true | _ => false end.

(* SetFloat/SetInt/SetUInt/SetString: allowed on numbers and strings *)
Definition abs_set_scalar (v : doc) (d : doc) : option doc := if is_numstr_doc d then Some v else None.
(* SetBool: allowed on bool and null *)
Definition abs_set_bool (b : bool) (d : doc) : option doc := if is_atom_doc d then Some (DBool b) else None.
(* SetNull: allowed on everything that can be a value *)
Definition abs_set_null (d : doc) : option doc := Some DNull.

(* deletion: members visited in order; [only] (if non-empty) restricts the
   visit to members whose key is listed and stops once as many members have
   been visited as there are distinct keys listed; [decide] answers the
   callback for each visited member (None = delete all visited) *)
Fixpoint distinct_keys (l : list bytes) (seen : list bytes) : nat :=
  match l with
  | [] => length seen
  | k :: r => if existsb (bytes_eqb k) seen then distinct_keys r seen else distinct_keys r (k :: seen)
  end.

Fixpoint abs_del_members (l : list (bytes * doc)) (only : list bytes) (nkeys n : nat) (decide : option (list bool))
  : list (bytes * doc) * list bytes :=
  match l with
  | [] => ([], [])
  | (k, v) :: r =>
    if (0 <? nkeys)%nat && negb (existsb (bytes_eqb k) only) then
      let '(r', cbs) := abs_del_members r only nkeys n decide in ((k, v) :: r', cbs)
    else
      let '(d, decide', cb) :=
        match decide with
        | None => (true, None, [])
        | Some [] => (false, Some [], [k])
        | Some (x :: rest) => (x, Some rest, [k])
        end in
      let '(r', cbs) := if (S n =? nkeys)%nat then (r, []) else abs_del_members r only nkeys (S n) decide' in
      ((if d then r' else (k, v) :: r'), cb ++ cbs)
  end.

Definition abs_delete_obj (only : list bytes) (decide : option (list bool)) (d : doc) : option doc :=
  match d with
  | DObj l => Some (DObj (fst (abs_del_members l only (distinct_keys only []) 0 decide)))
  | _ => None
  end.

Fixpoint abs_del_elems (l : list doc) (decide : list bool) : list doc :=
  match l with
  | [] => []
  | x :: r =>
    match decide with
    | [] => x :: r
    | true :: ds => abs_del_elems r ds
    | false :: ds => x :: abs_del_elems r ds
    end
  end.
Definition abs_delete_arr (decide : list bool) (d : doc) : option doc :=
  match d with DArr l => Some (DArr (abs_del_elems l decide)) | _ => None end.

(* ---- lookups (C12) --------------------------------------------------- *)
Fixpoint abs_find_key (l : list (bytes * doc)) (k : bytes) : option doc :=
  match l with
  | [] => None
  | (k', v) :: r => if bytes_eqb k k' then Some v else abs_find_key r k
  end.

Inductive lookup := LFound (d : doc) | LNotFound | LOtherErr.

Fixpoint abs_find_path (d : doc) (p : list bytes) {struct p} : lookup :=
  match p with
  | [] => LNotFound
  | k :: rest =>
    match d with
    | DObj l =>
      match abs_find_key l k with
      | None => LNotFound
      | Some v => match rest with
                  | [] => LFound v
                  | _ => match v with DObj _ => abs_find_path v rest | _ => LOtherErr end
                  end
      end
    | _ => LOtherErr
    end
  end.

(* ForEach with filter: members whose key is listed, in order (keys unique) *)
Definition abs_foreach (l : list (bytes * doc)) (only : list bytes) : list (bytes * doc) :=
  match only with
  | [] => l
  | _ => filter (fun kv => existsb (bytes_eqb (fst kv)) only) l
  end.

(* numeric conversions: exact when in range, error otherwise *)
Definition pow2 (k : Z) : Z := (2 ^ k)%Z.
