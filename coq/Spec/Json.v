(* Spec/Json.v — the specification side: abstract documents, RFC 8259 as an
   executable recursive-descent recogniser, string unescaping, the number
   type cascade and correctly rounded decimal -> binary64.
   Meant to be read in minutes; nothing here mirrors simdjson-go's control
   flow. *)
From SJ Require Import Model.Base.
From Coq Require Import Floats.SpecFloat.
Open Scope N_scope.

(* ------------------------------------------------------------------ *)
(* Abstract documents                                                  *)

Inductive num :=
| NInt (z : Z)                 (* exposed as int64 *)
| NUint (n : N)                (* exposed as uint64 *)
| NFloat (bits : N) (flags : N). (* IEEE-754 binary64 bit pattern + float flags *)

Inductive doc :=
| DNull
| DBool (b : bool)
| DNum (n : num)
| DStr (s : bytes)
| DArr (l : list doc)
| DObj (l : list (bytes * doc)).

(* three-valued result of the specification: a value, definitely not JSON, or
   outside what property C01 claims (either outcome is allowed) *)
Inductive sres (A : Type) :=
| SOk (a : A)
| SInvalid
| SOut
| SFuel.
Arguments SOk {A} a.
Arguments SInvalid {A}.
Arguments SOut {A}.
Arguments SFuel {A}.

(* ------------------------------------------------------------------ *)
(* binary64                                                            *)

Definition prec : Z := 53.
Definition emax : Z := 1024.

(* correctly rounded (nearest, ties to even) value of  +-m * 10^e10, m > 0 *)
Definition dec_round (neg : bool) (m : positive) (e10 : Z) : spec_float :=
  let num := if (0 <=? e10)%Z then (Zpos m * 10 ^ e10)%Z else Zpos m in
  let den := if (0 <=? e10)%Z then 1%Z else (10 ^ (- e10))%Z in
  let '(mz, ez, lz) := SFdiv_core_binary prec emax num 0 den 0 in
  binary_round_aux prec emax neg mz ez lz.

(* number of decimal digits of a positive integer *)
Fixpoint ndigits_aux (fuel : nat) (m : Z) (acc : Z) : Z :=
  match fuel with
  | O => acc
  | S k => if (m <? 10)%Z then (acc + 1)%Z else ndigits_aux k (m / 10)%Z (acc + 1)%Z
  end.
Definition ndigits (m : positive) : Z := ndigits_aux (Pos.to_nat (Pos.size m)) (Zpos m) 0.

(* the same with the two clamps that keep the computation finite for absurd
   exponents: beyond them the answer is known without computing 10^e10 *)
Definition dec_to_float (neg : bool) (m : Z) (e10 : Z) : spec_float :=
  match m with
  | Zpos p =>
    let d := ndigits p in
    if (310 <? e10 + d)%Z then S754_infinity neg
    else if (e10 + d <? -330)%Z then S754_zero neg
    else dec_round neg p e10
  | _ => S754_zero neg
  end.

Definition two52 : Z := 4503599627370496.

(* bit pattern of a spec_float produced by binary_round_aux for binary64 *)
Definition bits_of_sf (f : spec_float) : N :=
  match f with
  | S754_zero s => if s then two63 else 0
  | S754_infinity s => (if s then two63 else 0) + 9218868437227405312     (* 0x7FF0... *)
  | S754_nan => 9221120237041090560                                        (* 0x7FF8... *)
  | S754_finite s m e =>
    let sb := if s then two63 else 0 in
    if (Zpos m <? two52)%Z then sb + Npos m
    else sb + Z.to_N ((e + 1075) * two52 + (Zpos m - two52))
  end.

Definition sf_is_finite (f : spec_float) : bool :=
  match f with S754_zero _ | S754_finite _ _ _ => true | _ => false end.

(* ------------------------------------------------------------------ *)
(* Numbers (C03): type cascade over a lexed literal                    *)

Record numlit := {
  nl_neg : bool;
  nl_int : list N;            (* integer-part digits 0..9, non-empty *)
  nl_frac : option (list N);  (* fraction digits, non-empty when present *)
  nl_exp : option Z           (* exponent value when present *)
}.

Fixpoint digits_val (l : list N) (acc : Z) : Z :=
  match l with
  | [] => acc
  | d :: r => digits_val r (acc * 10 + Z.of_N d)%Z
  end.

Definition min_int64 : Z := (-9223372036854775808)%Z.
Definition max_int64 : Z := 9223372036854775807%Z.
Definition max_uint64 : Z := 18446744073709551615%Z.

(* None = the literal's float value is not finite *)
Definition num_spec (l : numlit) : option num :=
  let m := digits_val (nl_int l ++ match nl_frac l with Some f => f | None => [] end) 0 in
  let e10 := ((match nl_exp l with Some e => e | None => 0 end)
              - Z.of_nat (match nl_frac l with Some f => length f | None => O end))%Z in
  let fl := dec_to_float (nl_neg l) m e10 in
  match nl_frac l, nl_exp l with
  | None, None =>
    let v := if nl_neg l then (- m)%Z else m in
    if (min_int64 <=? v)%Z && (v <=? max_int64)%Z then Some (NInt v)
    else if (0 <=? v)%Z && (v <=? max_uint64)%Z then Some (NUint (Z.to_N v))
    else if sf_is_finite fl then Some (NFloat (bits_of_sf fl) 1) else None
  | _, _ => if sf_is_finite fl then Some (NFloat (bits_of_sf fl) 0) else None
  end.

(* ------------------------------------------------------------------ *)
(* Lexical layer                                                       *)

Fixpoint skip_ws (s : bytes) : bytes :=
  match s with
  | b :: r => if is_json_ws (b2n b) then skip_ws r else s
  | [] => []
  end.

Fixpoint take_digits (s : bytes) (acc : list N) : list N * bytes :=
  match s with
  | b :: r => if is_digit (b2n b) then take_digits r ((b2n b - 48) :: acc) else (rev acc, s)
  | [] => (rev acc, [])
  end.

(* RFC 8259 number: -? (0 | [1-9][0-9]* ) (\.[0-9]+)? ([eE][+-]?[0-9]+)?
   [s] starts at the '-' or the first digit *)
Definition lex_number (s : bytes) : option (numlit * bytes) :=
  let '(neg, s1) := match s with
                    | b :: r => if b2n b =? cMINUS then (true, r) else (false, s)
                    | [] => (false, s)
                    end in
  let '(ip, s2) := take_digits s1 [] in
  match ip with
  | [] => None
  | d0 :: rest =>
    if (d0 =? 0) && negb (match rest with [] => true | _ => false end) then None
    else
      let fr :=
        match s2 with
        | b :: r => if b2n b =? cDOT
                    then let '(fp, s3) := take_digits r [] in
                         match fp with [] => None | _ => Some (Some fp, s3) end
                    else Some (None, s2)
        | [] => Some (None, s2)
        end in
      match fr with
      | None => None
      | Some (frac, s3) =>
        let ex :=
          match s3 with
          | b :: r =>
            if (b2n b =? c_e) || (b2n b =? c_E) then
              let '(eneg, r1) := match r with
                                 | c :: r' => if b2n c =? cMINUS then (true, r')
                                              else if b2n c =? cPLUS then (false, r')
                                              else (false, r)
                                 | [] => (false, r)
                                 end in
              let '(ed, s4) := take_digits r1 [] in
              match ed with
              | [] => None
              | _ => let v := digits_val ed 0 in Some (Some (if eneg then (- v)%Z else v), s4)
              end
            else Some (None, s3)
          | [] => Some (None, s3)
          end in
        match ex with
        | None => None
        | Some (e, s4) => Some ({| nl_neg := neg; nl_int := ip; nl_frac := frac; nl_exp := e |}, s4)
        end
      end
  end.

(* \uXXXX: four hex digits *)
Definition hex4_spec (a b c d : byte) : option N :=
  match hexval (b2n a), hexval (b2n b), hexval (b2n c), hexval (b2n d) with
  | Some x, Some y, Some z, Some w => Some (((x * 16 + y) * 16 + z) * 16 + w)
  | _, _, _, _ => None
  end.

(* UTF-8 encoding of a Unicode scalar value *)
Definition utf8_spec (cp : N) : bytes :=
  if cp <? 128 then [n2b cp]
  else if cp <? 2048 then [n2b (192 + cp / 64); n2b (128 + cp mod 64)]
  else if cp <? 65536 then [n2b (224 + cp / 4096); n2b (128 + (cp / 64) mod 64); n2b (128 + cp mod 64)]
  else [n2b (240 + cp / 262144); n2b (128 + (cp / 4096) mod 64); n2b (128 + (cp / 64) mod 64); n2b (128 + cp mod 64)].

Definition is_cont (c : N) : bool := (128 <=? c) && (c <=? 191).

(* length of the well-formed UTF-8 sequence starting s (lead byte >= 0x80),
   None when ill-formed (Unicode 15, table 3-7) *)
Definition utf8_seq_len (s : bytes) : option nat :=
  match s with
  | b0 :: r =>
    let c0 := b2n b0 in
    match r with
    | b1 :: r1 =>
      let c1 := b2n b1 in
      if (194 <=? c0) && (c0 <=? 223) then if is_cont c1 then Some 2%nat else None
      else match r1 with
      | b2 :: r2 =>
        let c2 := b2n b2 in
        if c0 =? 224 then if (160 <=? c1) && (c1 <=? 191) && is_cont c2 then Some 3%nat else None
        else if ((225 <=? c0) && (c0 <=? 236)) || (c0 =? 238) || (c0 =? 239)
             then if is_cont c1 && is_cont c2 then Some 3%nat else None
        else if c0 =? 237 then if (128 <=? c1) && (c1 <=? 159) && is_cont c2 then Some 3%nat else None
        else match r2 with
        | b3 :: _ =>
          let c3 := b2n b3 in
          if c0 =? 240 then if (144 <=? c1) && (c1 <=? 191) && is_cont c2 && is_cont c3 then Some 4%nat else None
          else if (241 <=? c0) && (c0 <=? 243) then if is_cont c1 && is_cont c2 && is_cont c3 then Some 4%nat else None
          else if c0 =? 244 then if (128 <=? c1) && (c1 <=? 143) && is_cont c2 && is_cont c3 then Some 4%nat else None
          else None
        | [] => None
        end
      | [] => None
      end
    | [] => None
    end
  | [] => None
  end.

Definition escape_spec (c : N) : option N :=
  if c =? 34 then Some 34 else if c =? 92 then Some 92 else if c =? 47 then Some 47
  else if c =? 98 then Some 8 else if c =? 102 then Some 12 else if c =? 110 then Some 10
  else if c =? 114 then Some 13 else if c =? 116 then Some 9 else None.

(* body of a string literal: [s] starts just after the opening quote.
   Returns the decoded bytes and what follows the closing quote. *)
Fixpoint spec_string (fuel : nat) (s : bytes) (acc : bytes) : sres (bytes * bytes) :=
  match fuel with
  | O => SFuel
  | S fuel' =>
  match s with
  | [] => SInvalid
  | b :: r =>
    let c := b2n b in
    if c =? cQUOTE then SOk (rev acc, r)
    else if c <? 32 then SInvalid
    else if c =? cBSLASH then
      match r with
      | [] => SInvalid
      | e :: r2 =>
        if b2n e =? c_u then
          match r2 with
          | h0 :: h1 :: h2 :: h3 :: r3 =>
            match hex4_spec h0 h1 h2 h3 with
            | None => SInvalid
            | Some cu =>
              if (55296 <=? cu) && (cu <=? 56319) then
                (* high surrogate: must be followed by \uDC00..\uDFFF *)
                match r3 with
                | s0 :: s1 :: l0 :: l1 :: l2 :: l3 :: r4 =>
                  if (b2n s0 =? cBSLASH) && (b2n s1 =? c_u) then
                    match hex4_spec l0 l1 l2 l3 with
                    | Some lo =>
                      if (56320 <=? lo) && (lo <=? 57343) then
                        spec_string fuel' r4 (rev (utf8_spec (65536 + (cu - 55296) * 1024 + (lo - 56320))) ++ acc)
                      else SOut
                    | None => SOut
                    end
                  else SOut
                | _ => SOut
                end
              else if (56320 <=? cu) && (cu <=? 57343) then SOut   (* lone low surrogate *)
              else spec_string fuel' r3 (rev (utf8_spec cu) ++ acc)
            end
          | _ => SInvalid
          end
        else
          match escape_spec (b2n e) with
          | Some v => spec_string fuel' r2 (n2b v :: acc)
          | None => SInvalid
          end
      end
    else if c <? 128 then spec_string fuel' r (b :: acc)
    else
      match utf8_seq_len s with
      | Some n => spec_string fuel' (skipn n s) (rev (firstn n s) ++ acc)
      | None => SOut
      end
  end
  end.

Definition starts_with (p : list N) (s : bytes) : option bytes :=
  if bytes_eqb (firstn (length p) s) (of_codes p) then Some (skipn (length p) s) else None.

(* ------------------------------------------------------------------ *)
(* Syntactic layer                                                     *)

Fixpoint spec_value (fuel : nat) (s : bytes) {struct fuel} : sres (doc * bytes) :=
  match fuel with
  | O => SFuel
  | S f =>
    match skip_ws s with
    | [] => SInvalid
    | b :: r =>
      let c := b2n b in
      if c =? cLBRACE then
        match skip_ws r with
        | b' :: r' => if b2n b' =? cRBRACE then SOk (DObj [], r') else spec_members f (b' :: r') []
        | [] => SInvalid
        end
      else if c =? cLBRACK then
        match skip_ws r with
        | b' :: r' => if b2n b' =? cRBRACK then SOk (DArr [], r') else spec_elems f (b' :: r') []
        | [] => SInvalid
        end
      else if c =? cQUOTE then
        match spec_string f r [] with
        | SOk (str, r') => SOk (DStr str, r')
        | SInvalid => SInvalid | SOut => SOut | SFuel => SFuel
        end
      else if c =? c_t then
        match starts_with [116; 114; 117; 101] (b :: r) with Some r' => SOk (DBool true, r') | None => SInvalid end
      else if c =? c_f then
        match starts_with [102; 97; 108; 115; 101] (b :: r) with Some r' => SOk (DBool false, r') | None => SInvalid end
      else if c =? c_n then
        match starts_with [110; 117; 108; 108] (b :: r) with Some r' => SOk (DNull, r') | None => SInvalid end
      else if (c =? cMINUS) || is_digit c then
        match lex_number (b :: r) with
        | Some (l, r') => match num_spec l with Some n => SOk (DNum n, r') | None => SInvalid end
        | None => SInvalid
        end
      else SInvalid
    end
  end
(* elements of an array after '[' (at least one): value (',' value)* ']' *)
with spec_elems (fuel : nat) (s : bytes) (acc : list doc) {struct fuel} : sres (doc * bytes) :=
  match fuel with
  | O => SFuel
  | S f =>
    match spec_value f s with
    | SOk (v, r) =>
      match skip_ws r with
      | b :: r' =>
        if b2n b =? cCOMMA then spec_elems f r' (v :: acc)
        else if b2n b =? cRBRACK then SOk (DArr (rev (v :: acc)), r')
        else SInvalid
      | [] => SInvalid
      end
    | SInvalid => SInvalid | SOut => SOut | SFuel => SFuel
    end
  end
(* members of an object after '{' (at least one): string ':' value (',' ...)* '}' *)
with spec_members (fuel : nat) (s : bytes) (acc : list (bytes * doc)) {struct fuel} : sres (doc * bytes) :=
  match fuel with
  | O => SFuel
  | S f =>
    match skip_ws s with
    | b :: r =>
      if b2n b =? cQUOTE then
        match spec_string f r [] with
        | SOk (key, r1) =>
          match skip_ws r1 with
          | b1 :: r2 =>
            if b2n b1 =? cCOLON then
              match spec_value f r2 with
              | SOk (v, r3) =>
                match skip_ws r3 with
                | b3 :: r4 =>
                  if b2n b3 =? cCOMMA then spec_members f r4 ((key, v) :: acc)
                  else if b2n b3 =? cRBRACE then SOk (DObj (rev ((key, v) :: acc)), r4)
                  else SInvalid
                | [] => SInvalid
                end
              | SInvalid => SInvalid | SOut => SOut | SFuel => SFuel
              end
            else SInvalid
          | [] => SInvalid
          end
        | SInvalid => SInvalid | SOut => SOut | SFuel => SFuel
        end
      else SInvalid
    | [] => SInvalid
    end
  end.

Definition is_container (d : doc) : bool :=
  match d with DArr _ | DObj _ => true | _ => false end.

(* a byte at the edge of the (JSON-trimmed) input that Go's bytes.TrimSpace
   might treat as white space although JSON does not *)
Definition edge_unclaimed (c : N) : bool := (c =? 11) || (c =? 12) || (128 <=? c).

Definition rtrim_ws (s : bytes) : bytes := rev (skip_ws (rev s)).

(* C01's right-hand side: the whole input is one JSON text with a container
   at the root *)
Definition spec_parse (s : bytes) : sres doc :=
  let t := rtrim_ws (skip_ws s) in
  match t with
  | [] => SInvalid
  | b :: _ =>
    if edge_unclaimed (b2n b) || edge_unclaimed (b2n (last t x00)) then SOut
    else
      match spec_value (2 * length t + 2) t with
      | SOk (d, r) =>
        match r with
        | [] => if is_container d then SOk d else SInvalid
        | _ => SInvalid
        end
      | SInvalid => SInvalid | SOut => SOut | SFuel => SFuel
      end
  end.

(* ------------------------------------------------------------------ *)
(* NDJSON (C08)                                                        *)

Fixpoint split_lf_aux (s : bytes) (cur : bytes) : list bytes :=
  match s with
  | [] => [rev cur]
  | b :: r => if b2n b =? cLF then rev cur :: split_lf_aux r [] else split_lf_aux r (b :: cur)
  end.
Definition split_lf (s : bytes) : list bytes := split_lf_aux s [].

Definition is_blank_line (l : bytes) : bool := match skip_ws l with [] => true | _ => false end.

Fixpoint nd_lines (ls : list bytes) (acc : list doc) : sres (list doc) :=
  match ls with
  | [] => SOk (rev acc)
  | l :: r =>
    if is_blank_line l then nd_lines r acc
    else match spec_parse l with
         | SOk d => nd_lines r (d :: acc)
         | SInvalid => SInvalid | SOut => SOut | SFuel => SFuel
         end
  end.

(* SOut dominates: if any line is outside the claim the whole input is *)
Definition nd_spec (s : bytes) : sres (list doc) :=
  let ls := split_lf s in
  if existsb (fun l => match (if is_blank_line l then SInvalid else spec_parse l) with SOut => true | _ => false end) ls
  then SOut
  else match nd_lines ls [] with
       | SOk [] => SInvalid      (* no document at all: ParseND fails *)
       | r => r
       end.
