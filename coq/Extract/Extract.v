(* Extraction of the executable model and specification to OCaml.
   Only ExtrOcamlBasic's directives are used (bool, option, list, prod, unit,
   sumbool -> OCaml natives); N, Z, positive, nat and byte stay the Coq
   datatypes. *)
From SJ Require Import Model.Oracle Model.Oracle2 Model.Oracle3 Model.Oracle4.
From Coq Require Import Extraction ExtrOcamlBasic.
Extraction Language OCaml.
(* Coq's List.rev is the quadratic [rev l ++ [x]]; OCaml's List.rev computes the
   same function in linear time.  This is the only Extract Constant directive. *)
Extract Inlined Constant List.rev => "Stdlib.List.rev".
Extraction "model.ml" Model.Oracle4.handle_all4 Byte.of_N Byte.to_N.
