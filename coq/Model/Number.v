(* Number.v — model of parseNumber (parse_number.go).  The class-table scan,
   the must-have-digit-next rule, both leading-zero tests, the maxIntLen
   split and the ParseInt / ParseUint / ParseFloat cascade follow the Go code
   line by line.  strconv is modelled by its specification: ParseInt/ParseUint
   as Go's left-to-right digit loop with its overflow cut-off, ParseFloat as
   Go's float syntax followed by correct rounding (Spec.Json.dec_to_float). *)
From SJ Require Import Model.Base Model.RefTables Spec.Json.
From Coq Require Import Floats.SpecFloat.
Open Scope N_scope.

Definition nr (b : byte) : N := isNumberRune_ref (b2n b).
Definition has (t f : N) : bool := negb (N.land t f =? 0).

(* the scanning loop: returns None for "return 0,0", else (pos, found) *)
Fixpoint num_scan (buf : bytes) (i : nat) (pos : nat) (found : N) : option (nat * N) :=
  match buf with
  | [] => Some (pos, found)
  | v :: rest =>
    let t := nr v in
    if t =? 0 then None
    else if t =? fEOV then Some (pos, found)
    else
      let must_ok :=
        if has t fMUSTDIGIT then
          match rest with
          | [] => false                         (* len(buf) < i+2 *)
          | n :: _ => has (nr n) fDIGIT
          end
        else true in
      if negb must_ok then None
      else num_scan rest (S i) (S i) (N.lor found t)
  end.

Inductive conv (A : Type) := CVal (a : A) | CSyntax | CRange.
Arguments CVal {A} a.
Arguments CSyntax {A}.
Arguments CRange {A}.

(* strconv.ParseUint(s, 10, 64) *)
Fixpoint go_uint_loop (s : bytes) (n : N) : conv N :=
  match s with
  | [] => CVal n
  | b :: r =>
    let c := b2n b in
    if is_digit c then
      let n' := n * 10 + (c - 48) in
      if two64 <=? n' then CRange else go_uint_loop r n'
    else CSyntax
  end.
Definition go_parse_uint (s : bytes) : conv N :=
  match s with [] => CSyntax | _ => go_uint_loop s 0 end.

(* strconv.ParseInt(s, 10, 64) *)
Definition go_parse_int (s : bytes) : conv Z :=
  match s with
  | [] => CSyntax
  | b :: r =>
    let c := b2n b in
    let '(neg, digits) := if c =? cPLUS then (false, r) else if c =? cMINUS then (true, r) else (false, s) in
    match go_parse_uint digits with
    | CSyntax => CSyntax
    | CRange => CRange
    | CVal un =>
      if negb neg && (two63 <=? un) then CRange
      else if neg && (two63 <? un) then CRange
      else CVal (if neg then (- Z.of_N un)%Z else Z.of_N un)
    end
  end.

(* Go's readFloat syntax for base 10 (no underscores, no specials):
   [+-]? digits-with-at-most-one-dot ([eE][+-]?digits)?  — whole string *)
Fixpoint mant_loop (s : bytes) (sawdot sawdigits : bool) (m : Z) (fraclen : Z) : (bytes * bool * Z * Z) :=
  match s with
  | [] => ([], sawdigits, m, fraclen)
  | b :: r =>
    let c := b2n b in
    if c =? cDOT then
      if sawdot then (s, sawdigits, m, fraclen) else mant_loop r true sawdigits m fraclen
    else if is_digit c then
      mant_loop r sawdot true (m * 10 + Z.of_N (c - 48))%Z (if sawdot then (fraclen + 1)%Z else fraclen)
    else (s, sawdigits, m, fraclen)
  end.

Fixpoint all_digits_val (s : bytes) (acc : Z) : option Z :=
  match s with
  | [] => Some acc
  | b :: r => let c := b2n b in if is_digit c then all_digits_val r (acc * 10 + Z.of_N (c - 48))%Z else None
  end.

(* returns (neg, mantissa, decimal exponent) *)
Definition go_float_syntax (s : bytes) : option (bool * Z * Z) :=
  let '(neg, s1) := match s with
                    | b :: r => if b2n b =? cPLUS then (false, r) else if b2n b =? cMINUS then (true, r) else (false, s)
                    | [] => (false, s)
                    end in
  let '(rest, sawdigits, m, fraclen) := mant_loop s1 false false 0%Z 0%Z in
  if negb sawdigits then None
  else
    match rest with
    | [] => Some (neg, m, (- fraclen)%Z)
    | b :: r =>
      if (b2n b =? c_e) || (b2n b =? c_E) then
        let '(eneg, r1) := match r with
                           | c :: r' => if b2n c =? cPLUS then (false, r') else if b2n c =? cMINUS then (true, r') else (false, r)
                           | [] => (false, r)
                           end in
        match r1 with
        | [] => None
        | _ => match all_digits_val r1 0%Z with
               | Some e => Some (neg, m, ((if eneg then (- e) else e) - fraclen)%Z)
               | None => None
               end
        end
      else None
    end.

(* strconv.ParseFloat(s, 64): None on syntax or range error *)
Definition go_parse_float (s : bytes) : option N :=
  match go_float_syntax s with
  | None => None
  | Some (neg, m, e10) =>
    let f := dec_to_float neg m e10 in
    if sf_is_finite f then Some (bits_of_sf f) else None
  end.

(* parseNumber: None = (0,0); Some (tag word, value word) *)
Definition parse_number_model (buf : bytes) : option (N * N) :=
  match num_scan buf 0 0 0 with
  | None => None
  | Some (pos, found) =>
    if (pos =? 0)%nat then None
    else
      let lex := firstn pos buf in
      let b0 := nth_b buf 0 in
      let b1 := nth_b buf 1 in
      let floatonly := has found fFLOATONLY in
      let minus := has found fMINUS in
      (* integer attempt: Some (Some r) = return r; Some None = return 0,0; None = fall through *)
      let int_try : option (option (N * N)) * N :=
        if negb floatonly && (N.of_nat pos <=? maxIntLen) then
          if (negb minus && (1 <? pos)%nat && (b0 =? c0)) || (minus && (2 <? pos)%nat && (b1 =? c0))
          then (Some None, 0)
          else
            match go_parse_int lex with
            | CVal z => (Some (Some (mk_word TagInteger 0, u64_of_Z z)), 0)
            | ri =>
              let fl1 := match ri with CRange => FloatOverflowedInteger | _ => 0 end in
              if negb minus then
                match go_parse_uint lex with
                | CVal u => (Some (Some (mk_word TagUint 0, u)), 0)
                | CRange => (None, FloatOverflowedInteger)
                | CSyntax => (None, fl1)
                end
              else (None, fl1)
            end
        else if negb floatonly then (None, FloatOverflowedInteger)
        else (None, 0) in
      match int_try with
      | (Some r, _) => r
      | (None, flag) =>
        (* Float can only have a leading 0 when followed by a period (or exponent);
           the optional minus sign is skipped first *)
        let off := if b0 =? cMINUS then 1%nat else 0%nat in
        if (S off <? pos)%nat && (nth_b buf off =? c0)
           && negb (has (isNumberRune_ref (nth_b buf (S off))) fFLOATONLY) then None
        else
          match go_parse_float lex with
          | Some bits => Some (mk_word TagFloat flag, bits)
          | None => None
          end
      end
  end.
