(* Oracle3.v — protocol operations for the serializer model. *)
From SJ Require Import Model.Base Model.RefTables Spec.Json Model.Tape Model.Iter Model.WF Model.Serialize Model.FloatFmt Model.Marshal Model.Oracle Model.Oracle2.
From Coq Require Strings.String.
Import String.StringSyntax.
Open Scope string_scope.
Open Scope N_scope.

(* a fixed hash for the executable round trip: collisions are frequent, which
   exercises the bucket-reuse path *)
Definition toy_hash (b : bytes) : N := fold_left (fun a x => (a * 31 + b2n x) mod 1024) b 7.

Definition show_deser (r : deser_res) : bytes :=
  match r with
  | DOk t s m => lit "ok " ++ show_words t ++ sp ++ show_bytes s ++ sp ++ show_bytes m
  | DErr => lit "err"
  | DCrash => lit "crash"
  | DFuel => lit "fuel"
  | DNeedsCodec => lit "needscodec"
  | DTooBig => lit "toobig"
  end.

Definition handle3 (req : bytes) : bytes :=
  match split_sp req with
  | op :: args =>
    if bytes_eqb op (lit "deser") then
      match args with
      | [a] => show_deser (deser_blob (arg_bytes a))
      | _ => lit "badargs"
      end
    else if bytes_eqb op (lit "desercore") then
      match args with
      | [ats; atags; avals] =>
        match deser_core (repeat 0 (N.to_nat (N_of_dec ats))) (arg_bytes atags) (arg_bytes avals) with
        | Ok t => lit "ok " ++ show_words t
        | Err => lit "err"
        | Crash => lit "crash"
        | OutOfFuel => lit "fuel"
        end
      | _ => lit "badargs"
      end
    else if bytes_eqb op (lit "sercheck") then
      match args with
      | [at_; as_; am; atags; avals; astr] =>
        if ser_check (mk_pj at_ as_ am) (arg_bytes atags) (arg_bytes avals) (arg_bytes astr) then lit "1" else lit "0"
      | _ => lit "badargs"
      end
    else if bytes_eqb op (lit "serround") then
      match args with
      | [at_; as_; am] =>
        let pj := mk_pj at_ as_ am in
        match ser_core toy_hash pj with
        | Ok (tags, vals, strbuf) =>
          let vb := flat_map (fun v => map (fun k => n2b (v / 256 ^ k)) [0;1;2;3;4;5;6;7]) vals in
          match deser_core (repeat 0 (length (pj_tape pj))) tags vb with
          | Ok t' =>
            let pj' := {| pj_tape := t'; pj_strings := []; pj_msg := strbuf |} in
            let d0 := denote (pj_msg pj) (pj_strings pj) (pj_tape pj) in
            let d1 := denote strbuf [] t' in
            lit "ok same=" ++
            (match d0, d1 with
             | Some a, Some b => if docs_eqb a b then lit "1" else lit "0"
             | _, _ => lit "-"
             end) ++ lit " wfnop=" ++ (if wf_check true pj' then lit "1" else lit "0") ++
            lit " check=" ++ (if ser_check pj tags vb strbuf then lit "1" else lit "0")
          | Err => lit "desererr"
          | Crash => lit "desercrash"
          | OutOfFuel => lit "fuel"
          end
        | Err => lit "sererr"
        | Crash => lit "sercrash"
        | OutOfFuel => lit "fuel"
        end
      | _ => lit "badargs"
      end
    else if bytes_eqb op (lit "marshal") then
      (* marshal T S M k mode : 0 = iterator after k AdvanceInto calls;
         1 = element restricted by AdvanceIter from the iterator after k-1 calls;
         2 = Array.MarshalJSON of the array at position k *)
      match args with
      | [at_; as_; am; ak; amode] =>
        let pj := mk_pj at_ as_ am in
        let k := N.to_nat (N_of_dec ak) in
        let mode := N_of_dec amode in
        let res : outcome bytes :=
          if mode =? 0 then do i <- nth_into k pj (iter0 pj); marshal_iter pj i
          else if mode =? 1 then
            do i <- nth_into (pred k) pj (iter0 pj);
            do r <- advance_iter pj i;
            match r with
            | (_, Some el, _) => marshal_iter pj el
            | (_, None, _) => Err
            end
          else do i <- nth_into k pj (iter0 pj); do a <- iter_array i; marshal_array pj a in
        match res with
        | Ok s => lit "ok " ++ show_bytes s
        | Err => lit "err"
        | Crash => lit "crash"
        | OutOfFuel => lit "fuel"
        end
      | _ => lit "badargs"
      end
    else if bytes_eqb op (lit "float") then
      match args with
      | [a] => match fmt_float (N_of_hex a) with Some s => lit "ok " ++ s | None => lit "err" end
      | _ => lit "badargs"
      end
    else lit "badop"
  | [] => lit "badop"
  end.

Definition handle_all3 (req : bytes) : bytes :=
  let r := handle_all req in
  if bytes_eqb r (lit "badop") then handle3 req else r.
