(* Stage1.v — scalar model of stage 1 (find structural indices).
   [s1_step] is the per-byte effect of the four mask kernels combined
   (odd-backslash runs, quote mask by prefix XOR, control characters inside
   strings, white-space / structural classification, pseudo-structurals,
   removal of closing quotes, NDJSON newline delimiters).  [s1_buffers] mirrors
   findStructuralIndices: 64-byte blocks, index buffers that stop filling at
   indexSizeWithSafetyBuffer entries, the final padded block, strip-and-carry
   of a dangling index, the end-of-message test, and the hand-off order. *)
From SJ Require Import Model.Base Model.RefTables.
Open Scope N_scope.

Record s1st := {
  s_bsodd : bool;   (* previous bytes end in an odd-length run of backslashes *)
  s_instr : bool;   (* inside a string after the previous byte (quote mask) *)
  s_pred : bool;    (* previous byte is white space or a structural (pseudo-pred) *)
  s_err : bool      (* a control character < 0x20 was seen inside a string *)
}.

Definition s1_init : s1st := {| s_bsodd := false; s_instr := false; s_pred := true; s_err := false |}.

(* returns the new state and whether this byte is a structural position *)
Definition s1_step (nd : bool) (st : s1st) (c : N) : s1st * bool :=
  let isbs := c =? cBSLASH in
  let escaped := negb isbs && s_bsodd st in           (* odd_ends bit *)
  let bsodd' := if isbs then negb (s_bsodd st) else false in
  let uq := (c =? cQUOTE) && negb escaped in          (* quote_bits *)
  let instr' := xorb (s_instr st) uq in                (* quote_mask, inclusive *)
  let err' := s_err st || ((c <? 32) && instr') in
  let ws := is_json_ws c in
  let s1 := (is_markup c && negb instr') || uq in
  let pred' := s1 || ws in
  let pseudo := s_pred st && negb ws && negb instr' in
  let s2 := s1 || pseudo in
  let fin := s2 && negb (uq && negb instr') in         (* closing quotes removed *)
  let nl := nd && (c =? cLF) && negb instr' in
  ({| s_bsodd := bsodd'; s_instr := instr'; s_pred := pred'; s_err := err' |}, fin || nl).

(* structural positions of one run of bytes starting at absolute position p *)
Fixpoint s1_run (nd : bool) (st : s1st) (p : nat) (bs : bytes) (acc : list nat) : s1st * list nat :=
  match bs with
  | [] => (st, rev acc)
  | b :: r =>
    let '(st', s) := s1_step nd st (b2n b) in
    s1_run nd st' (S p) r (if s then p :: acc else acc)
  end.

(* the message cut into 64-byte blocks, each with its structural positions *)
Fixpoint s1_blocks (fuel : nat) (nd : bool) (st : s1st) (p : nat) (bs : bytes) : s1st * list (list nat) :=
  match fuel with
  | O => (st, [])
  | S f =>
    match bs with
    | [] => (st, [])
    | _ =>
      let '(st', ps) := s1_run nd st p (firstn 64 bs) [] in
      let '(st'', rest) := s1_blocks f nd st' (p + 64) (skipn 64 bs) in
      (st'', ps :: rest)
    end
  end.

Definition s1_all (nd : bool) (msg : bytes) : s1st * list (list nat) :=
  s1_blocks (S (length msg / 64)) nd s1_init 0 msg.

(* --- index buffers ------------------------------------------------- *)

Definition T_nat : nat := N.to_nat indexSizeWithSafetyBuffer.

(* the in-slice kernel: take full blocks until the buffer holds >= T entries
   (tested after each block) or none is left *)
Fixpoint take_blocks (nfull : nat) (blocks : list (list nat)) (cur : list nat) (k : nat)
  : list nat * nat * list (list nat) :=
  match nfull, blocks with
  | S n, b :: rest =>
    let cur' := cur ++ b in
    if (T_nat <=? length cur')%nat then (cur', S k, rest)
    else take_blocks n rest cur' (S k)
  | _, _ => (cur, k, blocks)
  end.

Record s1out := {
  o_bufs : list (list nat);  (* buffers handed to stage 2, as absolute positions, in order *)
  o_ok : bool                (* findStructuralIndices' return value *)
}.

Definition byte_at (msg : bytes) (p : nat) : N := nth_b msg p.

(* the outer loop of findStructuralIndices.
   rem = len(buf) still to process; blocks = their per-block positions;
   stripped = carried dangling index; sent = buffers already handed over (reversed);
   total = indexTotal *)
Fixpoint s1_loop (fuel : nat) (msg : bytes) (fin : s1st) (rem : nat) (blocks : list (list nat))
         (stripped : option nat) (sent : list (list nat)) (total : nat) : s1out :=
  match fuel with
  | O => {| o_bufs := rev sent; o_ok := false |}
  | S f =>
    if (rem =? 0)%nat then {| o_bufs := rev sent; o_ok := negb (s_err fin) && (0 <? total)%nat |}
    else
      let cur0 := match stripped with Some p => [p] | None => [] end in
      let '(cur1, k, blocks1) := take_blocks (rem / 64) blocks cur0 0 in
      let processed1 := (64 * k)%nat in
      let '(cur2, processed, blocks2) :=
        if (rem - processed1 <=? 64)%nat then
          match blocks1 with
          | b :: rest => if (0 <? rem - processed1)%nat then (cur1 ++ b, rem, rest) else (cur1, processed1, blocks1)
          | [] => (cur1, processed1, blocks1)
          end
        else (cur1, processed1, blocks1) in
      match rev cur2 with
      | [] => {| o_bufs := rev sent; o_ok := false |}        (* no structurals: error *)
      | lastp :: before =>
        if (processed =? rem)%nat then
          (* message completed: last structural must be } or ], not inside a string *)
          let c := byte_at msg lastp in
          if s_instr fin || negb ((c =? cRBRACE) || (c =? cRBRACK))
          then {| o_bufs := rev sent; o_ok := false |}
          else {| o_bufs := rev (cur2 :: sent);
                  o_ok := negb (s_err fin) && (0 <? total + length cur2)%nat |}
        else if negb (is_markup (byte_at msg lastp)) then
          s1_loop f msg fin (rem - processed) blocks2 (Some lastp) (rev before :: sent) (total + length before)
        else
          s1_loop f msg fin (rem - processed) blocks2 None (cur2 :: sent) (total + length cur2)
      end
  end.

Definition s1_buffers (nd : bool) (msg : bytes) : s1out :=
  let '(fin, blocks) := s1_all nd msg in
  s1_loop (S (length blocks)) msg fin (length msg) blocks None [] 0.

(* the same buffers as increments, the form in which the code stores them:
   each entry is the distance from the previous structural (the first one from
   position -1) *)
Fixpoint to_incs (prev1 : nat) (ps : list nat) : list nat * nat :=
  match ps with
  | [] => ([], prev1)
  | p :: r => let '(l, e) := to_incs (S p) r in ((S p - prev1)%nat :: l, e)
  end.

Fixpoint bufs_incs (prev1 : nat) (bufs : list (list nat)) : list (list nat) :=
  match bufs with
  | [] => []
  | b :: r =>
    (* a buffer that starts with a carried (stripped) index repeats that index:
       its increment is the one it had when first found *)
    let '(l, e) := to_incs prev1 b in l :: bufs_incs e r
  end.
