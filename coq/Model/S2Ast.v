(* S2Ast.v — a structured abstract syntax for unifiedMachine
   (stage2_build_tape_amd64.go) and its semantics.

   `vcheck srcgen` TRANSLATES the Go function's body, statement by statement,
   into a value `gen_unifiedMachine : prog` of this syntax (gen/S2Prog.v,
   regenerated from /repo on every run; a statement the translator does not
   recognise becomes [GUnknown] and makes the obligation fail).  This file
   gives the syntax a semantics in two steps:

   - [sym]: symbolic execution from a program point, for ONE concrete value of
     buf[idx], up to the next updateChar call (a "site") or return; the result
     is a decision tree [dec] whose nodes are the primitive effects (push a
     scope, write a tape word, call a validator and branch on its verdict, ...)
     in execution order;
   - [run_dec]: the effect of a decision tree on the machine state of
     Model/Stage2.v.

   Tie/Stage2AstTie.v proves that running the translated program is equal to
   Model/Stage2.run2 for every message and every index-buffer sequence. *)
From Coq Require Import String.
From SJ Require Import Model.Base Model.RefTables Model.Number Model.Str Model.Stage2.
Open Scope N_scope.

Inductive atomk := AkTrue | AkFalse | AkNull.

Inductive cond :=
| CCharEq (c : N)              (* buf[idx] == c *)
| CCharNe (c : N)              (* buf[idx] != c *)
| CCharRange (lo hi : N)       (* buf[idx] >= lo && buf[idx] <= hi *)
| CNotString                   (* !parseString(&pj.ParsedJson, idx, peekSize(pj), pj.copyStrings) *)
| CNotAtom (a : atomk)         (* !isValidXAtom(buf[idx:]) *)
| CNotNumber                   (* !addNumber(buf[idx:], &pj.ParsedJson) *)
| CStackNonEmpty               (* len(pj.containingScopeOffset) != 0 *)
| CUnknown (src : string).

Inductive stmt :=
| GPrologue                                  (* buf := pj.Message; const addOneForRoot = 1; idx := ^uint64(0); offset := uint64(0) *)
| GUpdate (site : nat) (ondone : string)     (* if done, idx = updateChar(pj, idx); done { goto ondone } [else: the following statements] *)
| GIf (c : cond) (thn els : list stmt)
| GSwitchChar (cases : list (list N * list stmt)) (dflt : list stmt)   (* switch buf[idx] *)
| GSwitchRet (cases : list (N * list stmt)) (dflt : list stmt)        (* switch offset & ((1 << retAddressShift) - 1) *)
| GWhile (c : cond) (body : list stmt)
| GGoto (l : string)
| GBreak
| GReturn (ok : bool)                         (* return ok, done *)
| GPush (ret : N)        (* pj.containingScopeOffset = append(.., (pj.get_current_loc()<<retAddressShift)|ret) *)
| GWrite0 (c : N)        (* pj.write_tape(0, c) *)
| GLoadOffset            (* offset = pj.containingScopeOffset[len(pj.containingScopeOffset)-1] *)
| GDropScope             (* pj.containingScopeOffset = pj.containingScopeOffset[:len(pj.containingScopeOffset)-1] *)
| GAnnotate (addroot : bool)   (* pj.annotate_previousloc(offset>>retAddressShift, pj.get_current_loc() [+addOneForRoot]) *)
| GWriteOff (c : N)      (* pj.write_tape(offset>>retAddressShift, c) *)
| GWriteOffCur           (* pj.write_tape(offset>>retAddressShift, buf[idx]) *)
| GSetValid              (* pj.isvalid = true *)
| GUnknown (src : string).

(* labelled blocks in source order; the translator has made fall-through
   explicit (a block that does not end in goto/return gets [GGoto next]) *)
Definition prog := list (string * list stmt).

(* --- decision trees ------------------------------------------------- *)

Inductive dec :=
| DNext (site : nat)            (* the next updateChar call *)
| DReturn (ok : bool)
| DPrologue (k : dec)
| DPush (ret : N) (k : dec)
| DWrite0 (c : N) (k : dec)
| DString (kfail kok : dec)     (* parseString: false / true *)
| DAtom (a : atomk) (kfail kok : dec)
| DNumber (kfail kok : dec)
| DLoadOffset (k : dec)
| DDropScope (k : dec)
| DStackNonEmpty (kthen kelse : dec)
| DAnnotate (addroot : bool) (k : dec)
| DWriteOff (c : N) (k : dec)
| DWriteOffCur (k : dec)
| DSwitchRet (cases : list (N * dec)) (dflt : dec)
| DSetValid (k : dec)
| DStuck.

Inductive cont :=
| KSeq (rest : list stmt)
| KLoop (c : cond) (body : list stmt)
| KSwitch.

Fixpoint lookup_block (p : prog) (l : string) : option (list stmt) :=
  match p with
  | [] => None
  | (n, b) :: r => if String.eqb n l then Some b else lookup_block r l
  end.

Fixpoint case_lookup (cases : list (list N * list stmt)) (c : N) : option (list stmt) :=
  match cases with
  | [] => None
  | (cs, b) :: r => if existsb (N.eqb c) cs then Some b else case_lookup r c
  end.

(* leave the innermost switch or loop *)
Fixpoint break_out (ks : list cont) : option (list cont) :=
  match ks with
  | [] => None
  | KSwitch :: r => Some r
  | KLoop _ _ :: r => Some r
  | KSeq _ :: r => break_out r
  end.

(* a char test at a known char; None = not a char test *)
Definition char_cond (c : cond) (ch : N) : option bool :=
  match c with
  | CCharEq x => Some (ch =? x)
  | CCharNe x => Some (negb (ch =? x))
  | CCharRange lo hi => Some ((lo <=? ch) && (ch <=? hi))
  | _ => None
  end.

(* symbolic execution: [cur] = statements to run, [ks] = what follows them,
   [ch] = the value of buf[idx] (None where no character has been read) *)
Fixpoint sym (fuel : nat) (p : prog) (cur : list stmt) (ks : list cont) (ch : option N) {struct fuel} : dec :=
  match fuel with
  | O => DStuck
  | S f =>
    let branch (c : cond) (thn els : list stmt) (rest : list stmt) : dec :=
      let kt := sym f p thn (KSeq rest :: ks) ch in
      let ke := sym f p els (KSeq rest :: ks) ch in
      match c with
      | CNotString => DString kt ke
      | CNotAtom a => DAtom a kt ke
      | CNotNumber => DNumber kt ke
      | CStackNonEmpty => DStackNonEmpty kt ke
      | CUnknown _ => DStuck
      | _ => match ch with
             | None => DStuck
             | Some x => match char_cond c x with
                         | Some true => kt
                         | Some false => ke
                         | None => DStuck
                         end
             end
      end in
    match cur with
    | [] =>
      match ks with
      | [] => DStuck                       (* fell off a block: the translator adds the goto *)
      | KSeq rest :: ks' => sym f p rest ks' ch
      | KSwitch :: ks' => sym f p [] ks' ch
      | KLoop c body :: ks' =>
        match ch with
        | None => DStuck
        | Some x => match char_cond c x with
                    | Some true => sym f p body (KLoop c body :: ks') ch
                    | Some false => sym f p [] ks' ch
                    | None => DStuck
                    end
        end
      end
    | s :: rest =>
      match s with
      | GPrologue => DPrologue (sym f p rest ks ch)
      | GUpdate site _ => DNext site
      | GIf c thn els => branch c thn els rest
      | GSwitchChar cases dflt =>
        match ch with
        | None => DStuck
        | Some x =>
          let body := match case_lookup cases x with Some b => b | None => dflt end in
          sym f p body (KSwitch :: KSeq rest :: ks) ch
        end
      | GSwitchRet cases dflt =>
        DSwitchRet (map (fun cb => (fst cb, sym f p (snd cb) (KSwitch :: KSeq rest :: ks) ch)) cases)
                   (sym f p dflt (KSwitch :: KSeq rest :: ks) ch)
      | GWhile c body =>
        match ch with
        | None => DStuck
        | Some x => match char_cond c x with
                    | Some true => sym f p body (KLoop c body :: KSeq rest :: ks) ch
                    | Some false => sym f p rest ks ch
                    | None => DStuck
                    end
        end
      | GGoto l => match lookup_block p l with Some b => sym f p b [] ch | None => DStuck end
      | GBreak => match break_out ks with Some ks' => sym f p [] ks' ch | None => DStuck end
      | GReturn ok => DReturn ok
      | GPush r => DPush r (sym f p rest ks ch)
      | GWrite0 c => DWrite0 c (sym f p rest ks ch)
      | GLoadOffset => DLoadOffset (sym f p rest ks ch)
      | GDropScope => DDropScope (sym f p rest ks ch)
      | GAnnotate a => DAnnotate a (sym f p rest ks ch)
      | GWriteOff c => DWriteOff c (sym f p rest ks ch)
      | GWriteOffCur => DWriteOffCur (sym f p rest ks ch)
      | GSetValid => DSetValid (sym f p rest ks ch)
      | GUnknown _ => DStuck
      end
    end
  end.

(* --- finding the continuation of an updateChar site ------------------ *)

Fixpoint find_in (fuel : nat) (k : nat) (cur : list stmt) (ks : list cont) {struct fuel}
  : option (list stmt * list cont) :=
  match fuel with
  | O => None
  | S f =>
    match cur with
    | [] => None
    | s :: rest =>
      let here :=
        match s with
        | GUpdate site _ => if Nat.eqb site k then Some (rest, ks) else None
        | GIf _ thn els =>
          match find_in f k thn (KSeq rest :: ks) with
          | Some r => Some r
          | None => find_in f k els (KSeq rest :: ks)
          end
        | GSwitchChar cases dflt =>
          let fix go (cs : list (list N * list stmt)) :=
            match cs with
            | [] => find_in f k dflt (KSwitch :: KSeq rest :: ks)
            | (_, b) :: r => match find_in f k b (KSwitch :: KSeq rest :: ks) with
                             | Some x => Some x
                             | None => go r
                             end
            end in go cases
        | GSwitchRet cases dflt =>
          let fix go (cs : list (N * list stmt)) :=
            match cs with
            | [] => find_in f k dflt (KSwitch :: KSeq rest :: ks)
            | (_, b) :: r => match find_in f k b (KSwitch :: KSeq rest :: ks) with
                             | Some x => Some x
                             | None => go r
                             end
            end in go cases
        | GWhile c body => find_in f k body (KLoop c body :: KSeq rest :: ks)
        | _ => None
        end in
      match here with
      | Some r => Some r
      | None => find_in f k rest ks
      end
    end
  end.

Fixpoint find_site (fuel : nat) (k : nat) (blocks : prog) : option (list stmt * list cont) :=
  match blocks with
  | [] => None
  | (_, b) :: r => match find_in fuel k b [] with Some x => Some x | None => find_site fuel k r end
  end.

Definition SYMFUEL : nat := 200.

(* decision at site k for character ch *)
Definition site_dec (p : prog) (k : nat) (ch : N) : dec :=
  match find_site SYMFUEL k p with
  | Some (cur, ks) => sym SYMFUEL p cur ks (Some ch)
  | None => DStuck
  end.

(* decision of a whole block entered without a character (entry, succeed) *)
Definition block_dec (p : prog) (l : string) : dec :=
  match lookup_block p l with
  | Some b => sym SYMFUEL p b [] None
  | None => DStuck
  end.

(* the ondone targets of all updateChar sites *)
Fixpoint ondones (fuel : nat) (cur : list stmt) {struct fuel} : list string :=
  match fuel with
  | O => []
  | S f =>
    flat_map (fun s =>
      match s with
      | GUpdate _ l => [l]
      | GIf _ a b => ondones f a ++ ondones f b
      | GSwitchChar cs d => flat_map (fun cb => ondones f (snd cb)) cs ++ ondones f d
      | GSwitchRet cs d => flat_map (fun cb => ondones f (snd cb)) cs ++ ondones f d
      | GWhile _ b => ondones f b
      | _ => []
      end) cur
  end.

(* --- the effect of a decision on the machine state ------------------- *)

Inductive rres :=
| RNext (site : nat) (m : m2)
| RRet (ok : bool) (m : m2)
| RCrash
| RFuel.

Definition atom_ok (a : atomk) (buf : bytes) : bool :=
  match a with AkTrue => is_true_atom buf | AkFalse => is_false_atom buf | AkNull => is_null_atom buf end.

(* [off] is the machine's local variable offset *)
Fixpoint run_dec (copy : bool) (d : dec) (m : m2) (off : N) (ch : N) {struct d} : rres :=
  match d with
  | DNext k => RNext k m
  | DReturn ok => RRet ok m
  | DPrologue k => run_dec copy k m off ch
  | DPush r k => run_dec copy k (push_scope m r) off ch
  | DWrite0 c k => run_dec copy k (write_tape m 0 c) off ch
  | DString kfail kok =>
    match parse_string_model (cur m) (idx1 m - 1) (peek_size m) copy (slen m) (sfuel m) with
    | Ok r =>
      let m1 := write_raw2 m (ps_word r) (ps_len r) in
      run_dec copy kok
        {| tape_rev := tape_rev m1; tlen := tlen m1; strs_rev := rev (ps_app r) ++ strs_rev m1;
           slen := slen m1 + N.of_nat (length (ps_app r)); stack := stack m1; idx1 := idx1 m1;
           cur := cur m1; whole := whole m1; sfuel := sfuel m1; cbuf := cbuf m1; rbufs := rbufs m1 |} off ch
    | Err => run_dec copy kfail m off ch
    | Crash => RCrash
    | OutOfFuel => RFuel
    end
  | DAtom a kfail kok => if atom_ok a (cur m) then run_dec copy kok m off ch else run_dec copy kfail m off ch
  | DNumber kfail kok =>
    match parse_number_model (cur m) with
    | Some (w1, w2) => run_dec copy kok (write_raw2 m w1 w2) off ch
    | None => run_dec copy kfail m off ch
    end
  | DLoadOffset k => match stack m with [] => RCrash | o :: _ => run_dec copy k m o ch end
  | DDropScope k => match stack m with [] => RCrash | _ :: st => run_dec copy k (set_stack m st) off ch end
  | DStackNonEmpty kt ke => match stack m with [] => run_dec copy ke m off ch | _ :: _ => run_dec copy kt m off ch end
  | DAnnotate addroot k =>
    match annotate m (off / 4) (if addroot then tlen m + addOneForRoot else tlen m) with
    | Ok m' => run_dec copy k m' off ch
    | _ => RCrash
    end
  | DWriteOff c k => run_dec copy k (write_tape m (off / 4) c) off ch
  | DWriteOffCur k => run_dec copy k (write_tape m (off / 4) ch) off ch
  | DSwitchRet cases dflt =>
    let fix go (cs : list (N * dec)) :=
      match cs with
      | [] => run_dec copy dflt m off ch
      | (v, k) :: r => if off mod 4 =? v then run_dec copy k m off ch else go r
      end in go cases
  | DSetValid k => run_dec copy k m off ch
  | DStuck => RCrash
  end.

(* --- running a translated program ------------------------------------ *)

Definition ENTRY : string := "".          (* the translator names the statements before the first label "" *)
Definition SUCCEED : string := "succeed".

Definition finish_ast (copy : bool) (p : prog) (m : m2) : outcome m2 :=
  match run_dec copy (block_dec p SUCCEED) m 0 0 with
  | RRet true m' => Ok m'
  | RRet false _ => Err
  | RNext _ _ => Crash
  | RCrash => Crash
  | RFuel => OutOfFuel
  end.

(* [nsites] = number of updateChar sites the translator numbered; reaching
   another site number is an error *)
Fixpoint run_sites (fuel : nat) (copy : bool) (p : prog) (nsites : nat) (k : nat) (m : m2) : outcome m2 :=
  match fuel with
  | O => OutOfFuel
  | S f =>
    match update_char m with
    | UCrash => Crash
    | UDone m' => finish_ast copy p m'
    | UChar m' c =>
      match run_dec copy (site_dec p k c) m' 0 c with
      | RNext k' m'' => if (k' <? nsites)%nat then run_sites f copy p nsites k' m'' else Crash
      | RRet false _ => Err
      | RRet true _ => Crash
      | RCrash => Crash
      | RFuel => OutOfFuel
      end
    end
  end.

Definition run_ast (p : prog) (nsites : nat) (copy : bool) (msg : bytes) (bufs : list (list nat)) : outcome m2 :=
  let n := fold_left (fun a b => (a + length b)%nat) bufs 0%nat in
  match run_dec copy (block_dec p ENTRY) (m2_init msg bufs) 0 0 with
  | RNext k m1 => if (k <? nsites)%nat then run_sites (S (S n)) copy p nsites k m1 else Crash
  | RRet false _ => Err
  | RRet true _ => Crash
  | RCrash => Crash
  | RFuel => OutOfFuel
  end.
