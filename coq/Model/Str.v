(* Str.v — model of parse_string_amd64.s (both routines) and of parseString
   (stage2_build_tape_amd64.go).  The assembly is modelled at the level of its
   32-byte windows, exactly as the annotated disassembly computes:
   first-backslash / first-quote positions inside the window, the second load
   when the backslash sits at offset >= 21, the 6- and 12-byte distance tests,
   32-bit wrap-around in the code-point arithmetic and sign extension of the
   digittoval bytes.  Memory past the end of the list reads as zero: that is
   what parseString's padding provides (Proofs/StrBounds.v bounds the reads). *)
From SJ Require Import Model.Base Model.RefTables.
Open Scope N_scope.

Definition win32 (mem : bytes) : bytes := take_pad x00 32 mem.
Definition first_of (c : N) (w : bytes) : option nat := find_idx (fun b => b2n b =? c) w.

(* movsx of a table byte into a 32-bit register *)
Definition sx8_32 (v : N) : N := if v <? 128 then v else v + 4294967040.  (* 0xFFFFFF00 *)

Definition hex4 (d0 d1 d2 d3 : N) : N :=
  let a := w32 (N.shiftl (sx8_32 (digittoval_ref d0)) 12) in
  let b := w32 (N.shiftl (sx8_32 (digittoval_ref d1)) 8) in
  let c := w32 (N.shiftl (sx8_32 (digittoval_ref d2)) 4) in
  let d := sx8_32 (digittoval_ref d3) in
  N.lor (N.lor b a) (N.lor c d).

(* number of UTF-8 bytes for a 32-bit code point, None above 0x10FFFF *)
Definition utf8_len (cp : N) : option nat :=
  if cp <? 128 then Some 1%nat
  else if cp <? 2048 then Some 2%nat
  else if cp <? 65536 then Some 3%nat
  else if cp <=? 1114111 then Some 4%nat
  else None.

Definition utf8_enc (cp : N) : bytes :=
  if cp <? 128 then [n2b cp]
  else if cp <? 2048 then [n2b (N.shiftr cp 6 + 192); n2b (N.lor (N.land cp 63) 128)]
  else if cp <? 65536 then
    [n2b (N.shiftr cp 12 + 224);
     n2b (N.lor (N.land (N.shiftr cp 6) 63) 128);
     n2b (N.lor (N.land cp 63) 128)]
  else
    [n2b (N.shiftr cp 18 + 240);
     n2b (N.lor (N.land (N.shiftr cp 12) 63) 128);
     n2b (N.lor (N.land (N.shiftr cp 6) 63) 128);
     n2b (N.lor (N.land cp 63) 128)].

(* the \uXXXX branch: p points at the backslash; dist is the (capped) distance
   from the backslash to the next quote.  Returns source bytes consumed from p
   and the code point. *)
Definition str_unicode (p : bytes) (dist : nat) : option (nat * N) :=
  if (dist <? 6)%nat then None else
  let cp := hex4 (nth_b p 2) (nth_b p 3) (nth_b p 4) (nth_b p 5) in
  if N.land cp 4294966272 =? 55296 then          (* (cp & -1024) == 0xD800 *)
    if (dist <? 12)%nat then None
    else if negb (nth_b p 6 =? cBSLASH) then None
    else if negb (nth_b p 7 =? c_u) then None
    else
      let lo := hex4 (nth_b p 8) (nth_b p 9) (nth_b p 10) (nth_b p 11) in
      if 65535 <? N.lor lo cp then None
      else
        let hi' := w32 (w32 (N.shiftl cp 10) + 4238344192) in   (* + (-56623104) *)
        let lo' := w32 (lo + 4294910976) in                      (* + (-56320) *)
        Some (12%nat, w32 (N.lor lo' hi' + 65536))
  else Some (6%nat, cp).

Inductive str_res :=
| StrOk (srclen : nat) (decoded : bytes)
| StrFail
| StrFuel.

(* one routine for both assembly entry points: [max = None] is _parse_string
   (no length limit), [Some m] is _parse_string_validate_only.  [out] is the
   decoded prefix in reverse. *)
Fixpoint str_loop (fuel : nat) (cur : bytes) (consumed : nat) (out : bytes) (max : option nat) : str_res :=
  match fuel with
  | O => StrFuel
  | S fuel' =>
    let w := win32 cur in
    let bs := first_of cBSLASH w in
    let q := first_of cQUOTE w in
    let continue_at (adv : nat) (out' : bytes) :=
      let consumed' := (consumed + adv)%nat in
      match max with
      | Some m => if (consumed' <? m)%nat then str_loop fuel' (skipn adv cur) consumed' out' max else StrFail
      | None => str_loop fuel' (skipn adv cur) consumed' out' max
      end in
    let quote_first := match q, bs with
                       | Some qi, Some bi => (qi <? bi)%nat
                       | Some _, None => true
                       | None, _ => false
                       end in
    if quote_first then
      match q with
      | Some qi => StrOk (consumed + qi) (rev (rev (firstn qi w) ++ out))
      | None => StrFail
      end
    else
      match bs with
      | None => continue_at 32%nat (rev w ++ out)
      | Some bi =>
        let esc := nth_b cur (S bi) in
        let lit := rev (firstn bi w) ++ out in
        if esc =? c_u then
          let dist :=
            match q with
            | Some qi => (qi - bi)%nat
            | None =>
              if (bi <? 21)%nat then (32 - bi)%nat
              else
                let w2 := win32 (skipn (bi - 20) cur) in
                ((match first_of cQUOTE w2 with Some t => t | None => 32%nat end) - 20)%nat
            end in
          match str_unicode (skipn bi cur) dist with
          | None => StrFail
          | Some (adv, cp) =>
            match utf8_len cp with
            | None => StrFail
            | Some _ => continue_at (bi + adv)%nat (rev (utf8_enc cp) ++ lit)
            end
          end
        else
          let e := escape_map_ref esc in
          if e =? 0 then StrFail
          else continue_at (bi + 2)%nat (n2b e :: lit)
      end
  end.

(* _parse_string_validate_only as it is actually called: parseStringSimdValidateOnly
   receives maxStringSize as a *uint64 and passes unsafe.Pointer(&maxStringSize),
   i.e. the address of its own pointer variable, so the routine reads a heap or
   stack address (never 0, always far larger than any input) as its limit.
   The limit is therefore inert: the walk ends only at a closing quote, at an
   invalid escape, or -- when no quote follows at all -- never (fuel
   exhaustion stands for that run-away read; Proofs show it is unreachable
   from Parse because stage 1 only hands over quotes that are closed).
   [fuel] is supplied by the caller: any value above the length of the message
   suffices (one iteration consumes at least one byte). *)
Definition str_validate (mem : bytes) (max : nat) (fuel : nat) : str_res :=
  str_loop fuel mem 0 [] None.

(* _parse_string after a successful validation: same walk, no limit; the fuel
   is the source length found by the validation. *)
Definition str_copy (mem : bytes) (srclen : nat) : str_res :=
  str_loop (S (S srclen)) mem 0 [] None.

(* parseString: [msg_from_quote] is pj.Message[idx:], so its head is the
   opening quote; [slen] is len(pj.Strings.B).  Returns the two tape words and
   the bytes appended to the string buffer. *)
Record pstr_res := { ps_word : N; ps_len : N; ps_app : bytes }.

Definition parse_string_model (msg_from_quote : bytes) (idx : N) (max : nat) (need_copy : bool)
           (slen : N) (fuel : nat) : outcome pstr_res :=
  match msg_from_quote with
  | [] => Crash                       (* buf[1] with an empty buffer *)
  | _ :: mem =>
    match str_validate mem max fuel with
    | StrFuel => OutOfFuel
    | StrFail => Err
    | StrOk srclen dec =>
      let need := need_copy || negb (srclen =? length dec)%nat in
      if negb need then
        Ok {| ps_word := mk_word TagString (idx + 1); ps_len := N.of_nat (length dec); ps_app := [] |}
      else
        match str_copy mem srclen with
        | StrOk _ dec2 =>
          Ok {| ps_word := mk_word TagString (STRINGBUFBIT + slen);
                ps_len := N.of_nat (length dec2);
                ps_app := dec2 |}
        | StrFail =>
          (* result ignored by the Go code: nothing appended *)
          Ok {| ps_word := mk_word TagString (STRINGBUFBIT + slen); ps_len := 0; ps_app := [] |}
        | StrFuel => OutOfFuel
        end
    end
  end.
