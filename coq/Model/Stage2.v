(* Stage2.v — model of unifiedMachine (stage2_build_tape_amd64.go): the goto
   state machine, updateChar / peekSize over index buffers, the three atom
   validators, addNumber, parseString, the tape writes and the scope stack. *)
From SJ Require Import Model.Base Model.RefTables Model.Number Model.Str.
Open Scope N_scope.

Record m2 := {
  tape_rev : list N;        (* pj.Tape, last word first *)
  tlen : N;                 (* len(pj.Tape) *)
  strs_rev : bytes;         (* pj.Strings.B, last byte first *)
  slen : N;                 (* len(pj.Strings.B) *)
  stack : list N;           (* containingScopeOffset, top first *)
  idx1 : N;                 (* idx + 1  (idx starts at 2^64-1) *)
  cur : bytes;              (* buf[idx:] — meaningful once idx1 > 0 *)
  whole : bytes;            (* buf *)
  sfuel : nat;              (* 2 + len(buf): iteration bound handed to the string kernel model *)
  cbuf : list nat;          (* unread entries of the current index buffer *)
  rbufs : list (list nat)   (* buffers not yet received *)
}.

Definition m2_init (msg : bytes) (bufs : list (list nat)) : m2 :=
  {| tape_rev := []; tlen := 0; strs_rev := []; slen := 0; stack := [];
     idx1 := 0; cur := []; whole := msg; sfuel := S (S (length msg)); cbuf := []; rbufs := bufs |}.

Definition write_tape (m : m2) (val tag : N) : m2 :=
  {| tape_rev := mk_word tag val :: tape_rev m; tlen := tlen m + 1; strs_rev := strs_rev m; slen := slen m;
     stack := stack m; idx1 := idx1 m; cur := cur m; whole := whole m; sfuel := sfuel m; cbuf := cbuf m; rbufs := rbufs m |}.

Definition write_raw2 (m : m2) (w1 w2 : N) : m2 :=
  {| tape_rev := w2 :: w1 :: tape_rev m; tlen := tlen m + 2; strs_rev := strs_rev m; slen := slen m;
     stack := stack m; idx1 := idx1 m; cur := cur m; whole := whole m; sfuel := sfuel m; cbuf := cbuf m; rbufs := rbufs m |}.

Definition set_stack (m : m2) (s : list N) : m2 :=
  {| tape_rev := tape_rev m; tlen := tlen m; strs_rev := strs_rev m; slen := slen m;
     stack := s; idx1 := idx1 m; cur := cur m; whole := whole m; sfuel := sfuel m; cbuf := cbuf m; rbufs := rbufs m |}.

Definition push_scope (m : m2) (ret : N) : m2 :=
  set_stack m ((tlen m * 4 + ret) :: stack m).

(* pj.Tape[saved_loc] |= val ; Crash when out of range *)
Definition annotate (m : m2) (loc val : N) : outcome m2 :=
  if tlen m <=? loc then Crash
  else
    let i := N.to_nat (tlen m - 1 - loc) in
    Ok {| tape_rev := upd_nth i (fun w => N.lor w val) (tape_rev m); tlen := tlen m; strs_rev := strs_rev m;
          slen := slen m; stack := stack m; idx1 := idx1 m; cur := cur m; whole := whole m; sfuel := sfuel m;
          cbuf := cbuf m; rbufs := rbufs m |}.

Inductive upd_res :=
| UDone (m : m2)                 (* terminator received *)
| UChar (m : m2) (c : N)         (* idx advanced; c = buf[idx] *)
| UCrash.

(* updateChar followed by the read of buf[idx] every caller performs *)
Definition update_char (m : m2) : upd_res :=
  let go (d : nat) (cb : list nat) (rb : list (list nat)) :=
    let nidx1 := idx1 m + N.of_nat d in
    let ncur := if idx1 m =? 0 then skipn (d - 1) (whole m) else skipn d (cur m) in
    if (d =? 0)%nat && (idx1 m =? 0) then UCrash       (* buf[2^64-1] *)
    else
      match ncur with
      | [] => UCrash                                    (* buf[idx] out of range *)
      | b :: _ =>
        UChar {| tape_rev := tape_rev m; tlen := tlen m; strs_rev := strs_rev m; slen := slen m;
                 stack := stack m; idx1 := nidx1; cur := ncur; whole := whole m; sfuel := sfuel m; cbuf := cb; rbufs := rb |}
              (b2n b)
      end in
  match cbuf m with
  | d :: cb => go d cb (rbufs m)
  | [] =>
    match rbufs m with
    | [] => UDone m
    | nb :: rb =>
      match nb with
      | d :: cb => go d cb rb
      | [] => UCrash      (* a zero-length buffer: indexes[0] would be stale *)
      end
    end
  end.

Definition peek_size (m : m2) : nat := match cbuf m with d :: _ => d | [] => O end.

Definition follow_ok (c : N) : bool := follow_ref c =? 0.

Definition is_true_atom (buf : bytes) : bool :=
  match buf with
  | a :: b :: c :: d :: e :: _ =>
    (b2n a =? 116) && (b2n b =? 114) && (b2n c =? 117) && (b2n d =? 101) && follow_ok (b2n e)
  | _ => false
  end.
Definition is_null_atom (buf : bytes) : bool :=
  match buf with
  | a :: b :: c :: d :: e :: _ =>
    (b2n a =? 110) && (b2n b =? 117) && (b2n c =? 108) && (b2n d =? 108) && follow_ok (b2n e)
  | _ => false
  end.
Definition is_false_atom (buf : bytes) : bool :=
  match buf with
  | a :: b :: c :: d :: e :: f :: _ =>
    (b2n a =? 102) && (b2n b =? 97) && (b2n c =? 108) && (b2n d =? 115) && (b2n e =? 101) && follow_ok (b2n f)
  | _ => false
  end.

Inductive label :=
| L_start | L_startContinue | L_ndSkip
| L_objBegin | L_objColon | L_objValue | L_objCont | L_objKey
| L_arrBegin | L_arrValue | L_arrCont.

Inductive step_res :=
| Next (l : label) (m : m2)
| Succeed (m : m2)             (* goto succeed *)
| Fail
| SCrash
| SFuelOut.

(* parseString at the current position *)
Definition do_string (copy : bool) (m : m2) (k : m2 -> step_res) : step_res :=
  match parse_string_model (cur m) (idx1 m - 1) (peek_size m) copy (slen m) (sfuel m) with
  | Ok r =>
    let m1 := write_raw2 m (ps_word r) (ps_len r) in
    k {| tape_rev := tape_rev m1; tlen := tlen m1; strs_rev := rev (ps_app r) ++ strs_rev m1;
         slen := slen m1 + N.of_nat (length (ps_app r)); stack := stack m1; idx1 := idx1 m1;
         cur := cur m1; whole := whole m1; sfuel := sfuel m1; cbuf := cbuf m1; rbufs := rbufs m1 |}
  | Err => Fail
  | Crash => SCrash
  | OutOfFuel => SFuelOut
  end.

(* scopeEnd *)
Definition scope_end (m : m2) (c : N) : step_res :=
  match stack m with
  | [] => SCrash
  | offset :: st =>
    let m1 := set_stack m st in
    let loc := offset / 4 in
    let m2' := write_tape m1 loc c in
    match annotate m2' loc (tlen m2') with
    | Ok m3 =>
      let r := offset mod 4 in
      if r =? retArray then Next L_arrCont m3
      else if r =? retObject then Next L_objCont m3
      else Next L_startContinue m3
    | _ => SCrash
    end
  end.

(* the value switch shared by object_key_state and mainArraySwitch *)
Definition value_switch (copy : bool) (m : m2) (c : N) (ret : N) (cont : label) : step_res :=
  if c =? cQUOTE then do_string copy m (fun m' => Next cont m')
  else if c =? c_t then if is_true_atom (cur m) then Next cont (write_tape m 0 c_t) else Fail
  else if c =? c_f then if is_false_atom (cur m) then Next cont (write_tape m 0 c_f) else Fail
  else if c =? c_n then if is_null_atom (cur m) then Next cont (write_tape m 0 c_n) else Fail
  else if (c =? cMINUS) || is_digit c then
    match parse_number_model (cur m) with
    | Some (w1, w2) => Next cont (write_raw2 m w1 w2)
    | None => Fail
    end
  else if c =? cLBRACE then Next L_objBegin (write_tape (push_scope m ret) 0 cLBRACE)
  else if c =? cLBRACK then Next L_arrBegin (write_tape (push_scope m ret) 0 cLBRACK)
  else Fail.

Definition continue_root (m : m2) (c : N) : step_res :=
  if c =? cLBRACE then Next L_objBegin (write_tape (push_scope m retStart) 0 cLBRACE)
  else if c =? cLBRACK then Next L_arrBegin (write_tape (push_scope m retStart) 0 cLBRACK)
  else Fail.

Definition addOneForRoot : N := 1.

(* close the current root and open a new one (NDJSON) *)
Definition cycle_root (m : m2) : outcome m2 :=
  match stack m with
  | [] => Crash
  | offset :: st =>
    let m1 := set_stack m st in
    do m2' <- annotate m1 (offset / 4) (tlen m1 + addOneForRoot);
    let m3 := write_tape m2' (offset / 4) TagRoot in
    Ok (write_tape (push_scope m3 retStart) 0 TagRoot)
  end.

Definition step (copy : bool) (l : label) (m : m2) : step_res :=
  match update_char m with
  | UCrash => SCrash
  | UDone m' => Succeed m'
  | UChar m' c =>
    match l with
    | L_start => continue_root m' c
    | L_startContinue => if c =? cLF then
                           (* the "eat empty lines" loop tests the same byte again *)
                           Next L_ndSkip m'
                         else Fail
    | L_ndSkip =>
      if c =? cLF then Next L_ndSkip m'
      else match cycle_root m' with
           | Ok m'' => continue_root m'' c
           | _ => SCrash
           end
    | L_objBegin =>
      if c =? cQUOTE then do_string copy m' (fun m'' => Next L_objColon m'')
      else if c =? cRBRACE then scope_end m' c
      else Fail
    | L_objColon => if c =? cCOLON then Next L_objValue m' else Fail
    | L_objValue => value_switch copy m' c retObject L_objCont
    | L_objCont =>
      if c =? cCOMMA then Next L_objKey m'
      else if c =? cRBRACE then scope_end m' c
      else Fail
    | L_objKey =>
      if c =? cQUOTE then do_string copy m' (fun m'' => Next L_objColon m'') else Fail
    | L_arrBegin =>
      if c =? cRBRACK then scope_end m' c else value_switch copy m' c retArray L_arrCont
    | L_arrValue => value_switch copy m' c retArray L_arrCont
    | L_arrCont =>
      if c =? cCOMMA then Next L_arrValue m'
      else if c =? cRBRACK then scope_end m' c
      else Fail
    end
  end.

(* the "succeed:" block *)
Definition finish (m : m2) : outcome m2 :=
  match stack m with
  | [] => Crash
  | offset :: st =>
    match st with
    | _ :: _ => Err
    | [] =>
      let m1 := set_stack m st in
      do m2' <- annotate m1 (offset / 4) (tlen m1 + addOneForRoot);
      Ok (write_tape m2' (offset / 4) TagRoot)
    end
  end.

Fixpoint run_labels (fuel : nat) (copy : bool) (l : label) (m : m2) : outcome m2 :=
  match fuel with
  | O => OutOfFuel
  | S f =>
    match step copy l m with
    | Next l' m' => run_labels f copy l' m'
    | Succeed m' => finish m'
    | Fail => Err
    | SCrash => Crash
    | SFuelOut => OutOfFuel
    end
  end.

(* unifiedMachine.  In the startContinue state the Go code tests buf[idx] for
   LF and then enters a loop that re-tests the same byte before calling
   updateChar; L_startContinue -> L_ndSkip models exactly that: the first LF is
   consumed by L_startContinue, further ones by L_ndSkip. *)
Definition run2 (copy : bool) (msg : bytes) (bufs : list (list nat)) : outcome m2 :=
  let m0 := m2_init msg bufs in
  let m1 := write_tape (push_scope m0 retStart) 0 TagRoot in
  let n := fold_left (fun a b => (a + length b)%nat) bufs 0%nat in
  run_labels (S (S n)) copy L_start m1.

Definition final_tape (m : m2) : list N := rev (tape_rev m).
Definition final_strings (m : m2) : bytes := rev (strs_rev m).
