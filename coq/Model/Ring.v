(* Model/Ring.v -- executable model of the stage-1 / stage-2 hand-off of
   simdjson-go: a producer goroutine fills index buffers living in a ring of
   [S] slots (buffer k lives in slot k mod S) and sends them through a bounded
   FIFO channel of capacity [CAP] to a consumer goroutine.

   Definitions only (no proofs); everything is executable.  The theorems are in
   Proofs/RingProofs.v.

   Failure paths.  The consumer (stage 2) may fail at any moment ([Fail2]); it
   then drains the channel up to the terminator.  The producer (stage 1) may
   fail in the buffer it is filling: it then sends the terminator WITHOUT
   sending that buffer ([SendTerm] taken while [filling s = Some k]; the
   buffer is abandoned).  A stage-1 failure detected right after a send is the
   ordinary [SendTerm] of a shorter run.  [n_total] is the number of Acquire
   events of the run, the abandoned one included.

   NOTE: the ring size is called [S] as in the design document; the successor
   constructor of [nat] is therefore always written [Datatypes.S] here. *)

From Coq Require Import List Arith PeanoNat Bool.
Import ListNotations.

(* ------------------------------------------------------------------ *)
(* Events                                                              *)
(* ------------------------------------------------------------------ *)

Inductive ev := Acquire | Send | SendTerm | RecvWait | Recv | Fail2.

Definition all_evs : list ev := [Acquire; Send; SendTerm; RecvWait; Recv; Fail2].

Definition ev_eqb (a b : ev) : bool :=
  match a, b with
  | Acquire, Acquire | Send, Send | SendTerm, SendTerm
  | RecvWait, RecvWait | Recv, Recv | Fail2, Fail2 => true
  | _, _ => false
  end.

(* ------------------------------------------------------------------ *)
(* States                                                              *)
(* ------------------------------------------------------------------ *)

(* The channel carries [Some k] for buffer k and [None] for the terminator. *)
Record st := mkst {
  produced  : nat;               (* number of buffers acquired so far = next id *)
  filling   : option nat;        (* buffer the producer is currently writing *)
  term_sent : bool;              (* producer has enqueued the terminator *)
  queue     : list (option nat); (* channel contents, head = oldest *)
  held      : option nat;        (* buffer the consumer holds (not yet released) *)
  waiting   : bool;              (* consumer is blocked in receive *)
  finished  : bool;              (* consumer has received the terminator *)
  failed    : bool;              (* consumer is in failed / draining mode *)
  ring      : nat -> nat;        (* ring slot -> id of the buffer whose content it holds *)
  consumed  : list nat;          (* ids the consumer has parsed, in order *)
  n_total   : nat                (* number of buffers this run acquires (= number of
                                    Acquire events; the last one may be abandoned) *)
}.

Definition init (n : nat) : st :=
  {| produced := 0; filling := None; term_sent := false; queue := [];
     held := None; waiting := false; finished := false; failed := false;
     ring := fun _ => 0; consumed := []; n_total := n |}.

Definition upd (f : nat -> nat) (k v : nat) : nat -> nat :=
  fun x => if Nat.eqb x k then v else f x.

(* ------------------------------------------------------------------ *)
(* Successor states (one per event / outcome)                          *)
(* ------------------------------------------------------------------ *)

(* producer takes buffer id k = produced s and overwrites slot k mod S *)
Definition st_acquire (S : nat) (s : st) : st :=
  {| produced := Datatypes.S (produced s); filling := Some (produced s);
     term_sent := term_sent s; queue := queue s;
     held := held s; waiting := waiting s; finished := finished s; failed := failed s;
     ring := upd (ring s) (produced s mod S) (produced s);
     consumed := consumed s; n_total := n_total s |}.

Definition st_send (k : nat) (s : st) : st :=
  {| produced := produced s; filling := None;
     term_sent := term_sent s; queue := queue s ++ [Some k];
     held := held s; waiting := waiting s; finished := finished s; failed := failed s;
     ring := ring s; consumed := consumed s; n_total := n_total s |}.

(* The producer sends the terminator.  If it is still holding a buffer it has
   acquired and filled but not sent (stage 1 detected an error in that very
   buffer: findStructuralIndices leaves its loop by "break" between the
   acquire and the channel send), that buffer is ABANDONED: it is never sent,
   the producer forgets it ([filling := None]).  The abandoned buffer's
   Acquire stays in the trace as an ordinary [Acquire] event: its write into
   the ring slot has happened. *)
Definition st_sendterm (s : st) : st :=
  {| produced := produced s; filling := None;
     term_sent := true; queue := queue s ++ [None];
     held := held s; waiting := waiting s; finished := finished s; failed := failed s;
     ring := ring s; consumed := consumed s; n_total := n_total s |}.

Definition st_recvwait (s : st) : st :=
  {| produced := produced s; filling := filling s;
     term_sent := term_sent s; queue := queue s;
     held := None; waiting := true; finished := finished s; failed := failed s;
     ring := ring s; consumed := consumed s; n_total := n_total s |}.

(* Design choice: a failed (draining) consumer records nothing in [consumed]
   but is still modelled as *holding* the received buffer until its next
   RecvWait.  This is the conservative choice: safety is then proved for a
   superset of the buffers the real draining consumer could touch. *)
Definition st_recv_buf (k : nat) (r : list (option nat)) (s : st) : st :=
  {| produced := produced s; filling := filling s;
     term_sent := term_sent s; queue := r;
     held := Some k; waiting := false; finished := finished s; failed := failed s;
     ring := ring s;
     consumed := if failed s then consumed s else consumed s ++ [k];
     n_total := n_total s |}.

Definition st_recv_term (r : list (option nat)) (s : st) : st :=
  {| produced := produced s; filling := filling s;
     term_sent := term_sent s; queue := r;
     held := held s; waiting := false; finished := true; failed := failed s;
     ring := ring s; consumed := consumed s; n_total := n_total s |}.

Definition st_fail (s : st) : st :=
  {| produced := produced s; filling := filling s;
     term_sent := term_sent s; queue := queue s;
     held := held s; waiting := waiting s; finished := finished s; failed := true;
     ring := ring s; consumed := consumed s; n_total := n_total s |}.

(* ------------------------------------------------------------------ *)
(* Transition function ([None] = event not enabled)                    *)
(* ------------------------------------------------------------------ *)

Definition step (S CAP : nat) (s : st) (e : ev) : option st :=
  match e with
  | Acquire =>
      match filling s with
      | Some _ => None
      | None =>
          if term_sent s then None
          else if produced s <? n_total s then Some (st_acquire S s)
          else None
      end
  | Send =>
      match filling s with
      | Some k => if length (queue s) <? CAP then Some (st_send k s) else None
      | None => None
      end
  | SendTerm =>
      (* enabled after the last Acquire of the run, whether the last buffer
         has been sent ([filling s = None]: normal end, or stage 1 failed after
         a send) or is being withheld ([filling s = Some k]: stage 1 failed in
         buffer k, which is abandoned) *)
      if term_sent s then None
      else if produced s =? n_total s then
        if length (queue s) <? CAP then Some (st_sendterm s) else None
      else None
  | RecvWait =>
      if waiting s then None
      else if finished s then None
      else Some (st_recvwait s)
  | Recv =>
      if waiting s then
        match queue s with
        | [] => None
        | Some k :: r => Some (st_recv_buf k r s)
        | None :: r => Some (st_recv_term r s)
        end
      else None
  | Fail2 =>
      if finished s then None
      else if failed s then None
      else Some (st_fail s)
  end.

Fixpoint run (S CAP : nat) (s : st) (evs : list ev) : option st :=
  match evs with
  | [] => Some s
  | e :: r =>
      match step S CAP s e with
      | Some s' => run S CAP s' r
      | None => None
      end
  end.

(* ------------------------------------------------------------------ *)
(* Observations                                                        *)
(* ------------------------------------------------------------------ *)

Definition opt_list {A} (o : option A) : list A :=
  match o with Some x => [x] | None => [] end.

(* buffer ids in the channel (the terminator carries no buffer) *)
Fixpoint qids (q : list (option nat)) : list nat :=
  match q with
  | [] => []
  | Some k :: r => k :: qids r
  | None :: r => qids r
  end.

(* buffers that may still be read, or are being written *)
Definition live (s : st) : list nat :=
  opt_list (held s) ++ qids (queue s) ++ opt_list (filling s).

(* every live buffer still contains what the producer wrote into it *)
Definition safe_b (S : nat) (s : st) : bool :=
  forallb (fun i => Nat.eqb (ring s (i mod S)) i) (live s).

Definition Safe (S : nat) (s : st) : Prop :=
  forall i, In i (live s) -> ring s (i mod S) = i.

Definition final (s : st) : bool := term_sent s && finished s.

(* Observations on traces.  The buffers that were SENT are exactly
   [seq 0 (n_sent evs)]: buffer ids are given out in order and each one is
   sent before the next is acquired.  A run whose producer abandoned its last
   buffer has one Acquire more than Sends when the terminator has been sent. *)
Definition count_ev (e : ev) (evs : list ev) : nat := length (filter (ev_eqb e) evs).
Definition n_sent (evs : list ev) : nat := count_ev Send evs.
Definition n_acquired (evs : list ev) : nat := count_ev Acquire evs.
(* meaningful on traces containing SendTerm (e.g. runs reaching a final state) *)
Definition producer_abandoned (evs : list ev) : bool := n_sent evs <? n_acquired evs.

Definition is_some {A} (o : option A) : bool :=
  match o with Some _ => true | None => false end.

Definition enabled (S CAP : nat) (s : st) : list ev :=
  filter (fun e => is_some (step S CAP s e)) all_evs.

(* ------------------------------------------------------------------ *)
(* Schedules                                                           *)
(* ------------------------------------------------------------------ *)

Fixpoint rep_evs (m : nat) (l : list ev) : list ev :=
  match m with
  | 0 => []
  | Datatypes.S m' => l ++ rep_evs m' l
  end.

(* Witness that S < CAP + 2 is unsafe.  The consumer receives buffer 0 and
   keeps holding it; the producer then sends buffers 1 .. S-1 (S-1 <= CAP, so
   the channel never blocks) and acquires buffer S, which lives in slot
   S mod S = 0 = 0 mod S: buffer 0 is overwritten while the consumer holds it.
   Needs a run with at least S+1 buffers; n_total = CAP + 2 is enough. *)
Definition bad_schedule (S CAP : nat) : list ev :=
  [Acquire; Send; RecvWait; Recv] ++ rep_evs (S - 1) [Acquire; Send] ++ [Acquire].

(* Greedy schedule avoiding Fail2: always fire the first enabled event in the
   priority order given by [prio].  With the producer first this is the
   "lagging consumer" schedule (producer runs until it blocks, then the
   consumer makes one step, ...). *)
Definition first_enabled (S CAP : nat) (s : st) (prio : list ev) : option (ev * st) :=
  fold_right (fun e acc => match step S CAP s e with
                           | Some s' => Some (e, s')
                           | None => acc end) None prio.

Fixpoint greedy (S CAP : nat) (prio : list ev) (fuel : nat) (s : st) : list ev :=
  match fuel with
  | 0 => []
  | Datatypes.S f =>
      match first_enabled S CAP s prio with
      | Some (e, s') => e :: greedy S CAP prio f s'
      | None => []
      end
  end.

(* Send before SendTerm: these two never abandon a buffer *)
Definition producer_first : list ev := [Acquire; Send; SendTerm; RecvWait; Recv].
Definition consumer_first : list ev := [RecvWait; Recv; Acquire; Send; SendTerm].
(* SendTerm before Send: the producer fails in its last buffer (SendTerm is
   enabled only once all [n_total] buffers are acquired) and abandons it *)
Definition producer_fails_first : list ev := [Acquire; SendTerm; Send; RecvWait; Recv].
Definition consumer_first_producer_fails : list ev := [RecvWait; Recv; Acquire; SendTerm; Send].

(* all states visited along a run are safe (executable check) *)
Fixpoint run_all_safe (S CAP : nat) (s : st) (evs : list ev) : bool :=
  safe_b S s &&
  match evs with
  | [] => true
  | e :: r =>
      match step S CAP s e with
      | Some s' => run_all_safe S CAP s' r
      | None => false
      end
  end.

Fixpoint list_nat_eqb (a b : list nat) : bool :=
  match a, b with
  | [], [] => true
  | x :: a', y :: b' => Nat.eqb x y && list_nat_eqb a' b'
  | _, _ => false
  end.

(* Check used by the concrete examples: the schedule is accepted, reaches a
   final state, every visited state is safe, and exactly [seq 0 k] was consumed. *)
Definition check_run (S CAP n : nat) (evs : list ev) (k : nat) : bool :=
  match run S CAP (init n) evs with
  | Some s => final s && safe_b S s && run_all_safe S CAP (init n) evs
              && list_nat_eqb (consumed s) (seq 0 k)
  | None => false
  end.

(* The same for runs that may abandon a buffer: exactly [seq 0 k] was consumed,
   [sent] buffers were sent, and [ab] says whether the producer abandoned one. *)
Definition check_run_sent (S CAP n : nat) (evs : list ev) (k sent : nat) (ab : bool) : bool :=
  check_run S CAP n evs k && Nat.eqb (n_sent evs) sent && Nat.eqb (n_acquired evs) n &&
  Bool.eqb (producer_abandoned evs) ab.

(* A run in which the consumer fails after [m] greedy steps and then drains. *)
Definition failing_schedule (S CAP n m : nat) : list ev :=
  let a := firstn m (greedy S CAP producer_first (4 * n + 4) (init n)) in
  match run S CAP (init n) a with
  | Some s1 => a ++ Fail2 :: greedy S CAP producer_first (4 * n + 4) (st_fail s1)
  | None => []
  end.

(* The same with an arbitrary priority list before and after the failure. *)
Definition failing_schedule_prio (S CAP n m : nat) (prio1 prio2 : list ev) : list ev :=
  let a := firstn m (greedy S CAP prio1 (4 * n + 4) (init n)) in
  match run S CAP (init n) a with
  | Some s1 => a ++ Fail2 :: greedy S CAP prio2 (4 * n + 4) (st_fail s1)
  | None => []
  end.
