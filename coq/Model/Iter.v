(* Iter.v — model of the read API of parsed_json.go / parsed_object.go /
   parsed_array.go: one Gallina function per Go method, same field updates.
   A ParsedJson is (tape, strings, message); every Iter/Object/Array is a
   cursor into it plus the length to which its view of the tape has been
   restricted (all restrictions are prefixes Tape[:n]).  Go ints are Z here;
   an out-of-range index is the Crash outcome. *)
From SJ Require Import Model.Base Model.RefTables Spec.Json Model.Tape.
From Coq Require Import Floats.SpecFloat.
Open Scope Z_scope.

Record pjson := { pj_tape : list N; pj_strings : bytes; pj_msg : bytes }.

Record iter := {
  i_len : Z;      (* len(i.tape.Tape) *)
  i_off : Z;
  i_add : Z;      (* addNext *)
  i_cur : N;
  i_t : N
}.

Definition iter0 (pj : pjson) : iter :=
  {| i_len := Z.of_nat (length (pj_tape pj)); i_off := 0; i_add := 0; i_cur := 0%N; i_t := TagEnd |}.

(* Tape[off] on a view of length len *)
Definition rd (pj : pjson) (len off : Z) : outcome N :=
  if (0 <=? off) && (off <? len) then
    match nth_error (pj_tape pj) (Z.to_nat off) with Some w => Ok w | None => Crash end
  else Crash.

Definition set_i (i : iter) (off add : Z) (cur t : N) : iter :=
  {| i_len := i_len i; i_off := off; i_add := add; i_cur := cur; i_t := t |}.

Definition move_to_end (i : iter) : iter := set_i i (i_len i) 0 (i_cur i) TagEnd.

Definition is2 (t : N) : bool :=
  ((t =? TagInteger) || (t =? TagUint) || (t =? TagFloat) || (t =? TagString))%N.
Definition is_open (t : N) : bool :=
  ((t =? TagRoot) || (t =? TagObjectStart) || (t =? TagArrayStart))%N.

(* calcNext *)
Definition calc_next (into : bool) (off : Z) (cur t : N) : Z :=
  if is2 t then 1
  else if is_open t then (if into then 0 else Z.of_N cur - off)
  else 0.

Definition with_calc (into : bool) (i : iter) : iter :=
  set_i i (i_off i) (calc_next into (i_off i) (i_cur i) (i_t i)) (i_cur i) (i_t i).

(* ---- Advance ------------------------------------------------------- *)
Fixpoint advance_loop (fuel : nat) (pj : pjson) (i : iter) (off : Z) : outcome (iter * N) :=
  match fuel with
  | O => OutOfFuel
  | S f =>
    if i_len i <=? off then Ok (set_i i off 0 (i_cur i) TagEnd, TypeNone)
    else
      do v <- rd pj (i_len i) off;
      let t := word_tag v in
      let cur := word_val v in
      let off1 := off + 1 in
      if (t =? TagNop)%N then
        if (cur =? 0)%N then Ok (move_to_end (set_i i off1 (i_add i) cur t), TypeNone)
        else advance_loop f pj i (off1 + Z.of_N cur - 1)
      else
        let i1 := with_calc false (set_i i off1 0 cur t) in
        if i_add i1 <? 0 then Ok (move_to_end i1, TypeNone)
        else Ok (i1, TagToType_ref t)
  end.

Definition fuel_of (i : iter) : nat := S (S (Z.to_nat (i_len i))).

Definition advance (pj : pjson) (i : iter) : outcome (iter * N) :=
  advance_loop (fuel_of i) pj i (i_off i + i_add i).

(* ---- AdvanceInto --------------------------------------------------- *)
Fixpoint advance_into_loop (fuel : nat) (pj : pjson) (i : iter) (off : Z) : outcome (iter * N) :=
  match fuel with
  | O => OutOfFuel
  | S f =>
    if i_len i <=? off then Ok (set_i i off 0 (i_cur i) TagEnd, TagEnd)
    else
      do v <- rd pj (i_len i) off;
      let t := word_tag v in
      let cur := word_val v in
      if (t =? TagNop)%N then
        if (cur =? 0)%N then Ok (move_to_end (set_i i off (i_add i) cur t), TagEnd)
        else advance_into_loop f pj i (off + Z.of_N cur)
      else
        let i1 := with_calc true (set_i i (off + 1) 0 cur t) in
        Ok (i1, t)
  end.

Definition advance_into (pj : pjson) (i : iter) : outcome (iter * N) :=
  advance_into_loop (fuel_of i) pj i (i_off i + i_add i).

(* ---- AdvanceIter --------------------------------------------------- *)
(* result: (i', dst, type) ; Err = returned error (i' not reported) *)
Fixpoint advance_iter_loop (fuel : nat) (pj : pjson) (i : iter) (off : Z) : outcome (iter * option iter * N) :=
  match fuel with
  | O => OutOfFuel
  | S f =>
    if off =? i_len i then Ok (set_i i off 0 (i_cur i) TagEnd, None, TypeNone)
    else if i_len i <? off then Err
    else
      do v <- rd pj (i_len i) off;
      let t := word_tag v in
      let cur := word_val v in
      let off1 := off + 1 in
      if (t =? TagNop)%N then
        if (cur =? 0)%N then Err
        else advance_iter_loop f pj i (off1 + Z.of_N cur - 1)
      else
        let i1 := with_calc false (set_i i off1 0 cur t) in
        if i_add i1 <? 0 then Err
        else
          let iend := i_off i1 + i_add i1 in
          let d := with_calc true i1 in
          if i_len i1 <? iend then Err
          else Ok (i1, Some {| i_len := iend; i_off := i_off d; i_add := i_add d; i_cur := i_cur d; i_t := i_t d |}, TagToType_ref t)
  end.

Definition advance_iter (pj : pjson) (i : iter) : outcome (iter * option iter * N) :=
  advance_iter_loop (fuel_of i) pj i (i_off i + i_add i).

(* ---- PeekNextTag / PeekNext ---------------------------------------- *)
Fixpoint peek_loop (fuel : nat) (pj : pjson) (len off : Z) : outcome N :=
  match fuel with
  | O => OutOfFuel
  | S f =>
    if len <=? off then Ok TagEnd
    else
      do v <- rd pj len off;
      if (word_tag v =? TagNop)%N then
        if (word_val v =? 0)%N then Ok TagEnd else peek_loop f pj len (off + Z.of_N (word_val v))
      else Ok (word_tag v)
  end.
Definition peek_next_tag (pj : pjson) (i : iter) : outcome N :=
  peek_loop (fuel_of i) pj (i_len i) (i_off i + i_add i).

(* Type() *)
Definition iter_type (i : iter) : N :=
  if i_len i <? i_off i + i_add i then TypeNone else TagToType_ref (i_t i).

(* ---- scalars ------------------------------------------------------- *)
Definition payload (pj : pjson) (i : iter) : outcome N :=
  if i_len i <=? i_off i then Err else rd pj (i_len i) (i_off i).

(* float64 helpers on bit patterns *)
Definition sf_of_bits (b : N) : spec_float :=
  let s := (two63 <=? b)%N in
  let e := ((b / 4503599627370496) mod 2048)%N in
  let m := (b mod 4503599627370496)%N in
  if (e =? 2047)%N then (if (m =? 0)%N then S754_infinity s else S754_nan)
  else if (e =? 0)%N then (match m with N0 => S754_zero s | Npos p => S754_finite s p (-1074) end)
  else match (m + 4503599627370496)%N with
       | Npos p => S754_finite s p (Z.of_N e - 1075)
       | N0 => S754_nan
       end.

(* exact value as numerator * 2^exp, for comparisons and truncation *)
Definition sf_trunc (f : spec_float) : option Z :=
  match f with
  | S754_zero _ => Some 0
  | S754_finite s m e =>
    let a := if 0 <=? e then Zpos m * 2 ^ e else Zpos m / 2 ^ (- e) in
    Some (if s then - a else a)
  | _ => None
  end.

(* v >= 2^k for a float (NaN compares false) *)
Definition sf_ge_pow2 (f : spec_float) (k : Z) : bool :=
  match f with
  | S754_infinity false => true
  | S754_finite false m e => if 0 <=? e then 2 ^ k <=? Zpos m * 2 ^ e else 2 ^ k * 2 ^ (- e) <=? Zpos m
  | _ => false
  end.
(* v < -2^k *)
Definition sf_lt_negpow2 (f : spec_float) (k : Z) : bool :=
  match f with
  | S754_infinity true => true
  | S754_finite true m e => if 0 <=? e then 2 ^ k <? Zpos m * 2 ^ e else 2 ^ k * 2 ^ (- e) <? Zpos m
  | _ => false
  end.
(* v < 0 (negative zero is not < 0) *)
Definition sf_neg (f : spec_float) : bool :=
  match f with
  | S754_infinity true => true
  | S754_finite true _ _ => true
  | _ => false
  end.

(* float64(int) : correctly rounded *)
Definition float_of_Z (z : Z) : N :=
  bits_of_sf (binary_normalize prec emax z 0 false).

Definition iter_int (pj : pjson) (i : iter) : outcome Z :=
  let t := i_t i in
  if (t =? TagFloat)%N then
    do w <- payload pj i;
    let f := sf_of_bits w in
    if sf_ge_pow2 f 63 then Err
    else if sf_lt_negpow2 f 63 then Err
    else match sf_trunc f with Some z => Ok z | None => Ok (- 9223372036854775808) end
  else if (t =? TagInteger)%N then do w <- payload pj i; Ok (s64 w)
  else if (t =? TagUint)%N then
    do w <- payload pj i; if (two63 <=? w)%N then Err else Ok (Z.of_N w)
  else Err.

Definition iter_uint (pj : pjson) (i : iter) : outcome N :=
  let t := i_t i in
  if (t =? TagFloat)%N then
    do w <- payload pj i;
    let f := sf_of_bits w in
    if sf_ge_pow2 f 64 then Err
    else if sf_neg f then Err
    else match sf_trunc f with Some z => Ok (Z.to_N z) | None => Ok two63 end
  else if (t =? TagInteger)%N then
    do w <- payload pj i; if (two63 <=? w)%N then Err else Ok w
  else if (t =? TagUint)%N then payload pj i
  else Err.

(* Float(): bits of the float64 result *)
Definition iter_float (pj : pjson) (i : iter) : outcome N :=
  let t := i_t i in
  if (t =? TagFloat)%N then payload pj i
  else if (t =? TagInteger)%N then do w <- payload pj i; Ok (float_of_Z (s64 w))
  else if (t =? TagUint)%N then do w <- payload pj i; Ok (float_of_Z (Z.of_N w))
  else Err.

Definition iter_float_flags (pj : pjson) (i : iter) : outcome (N * N) :=
  do b <- iter_float pj i;
  Ok (b, if (i_t i =? TagFloat)%N then i_cur i else 0%N).

Definition iter_bool (i : iter) : outcome bool :=
  if (i_t i =? TagBoolTrue)%N then Ok true else if (i_t i =? TagBoolFalse)%N then Ok false else Err.

(* ---- Root / Object / Array ----------------------------------------- *)
Definition iter_root (pj : pjson) (i : iter) : outcome (iter * N) :=
  if negb (i_t i =? TagRoot)%N then Err
  else if i_len i <? Z.of_N (i_cur i) then Err
  else if Z.of_N (i_cur i) <? i_off i then Err
  else
    let d := {| i_len := Z.of_N (i_cur i) - 1; i_off := i_off i; i_add := 0; i_cur := i_cur i; i_t := i_t i |} in
    do r <- advance_into pj d;
    let '(d', tag) := r in Ok (d', TagToType_ref tag).

Record cont := { c_len : Z; c_off : Z }.   (* Object / Array *)

Definition iter_object (i : iter) : outcome cont :=
  if negb (i_t i =? TagObjectStart)%N then Err
  else if Z.of_N (i_cur i) <? i_off i then Err
  else if i_len i <? Z.of_N (i_cur i) then Err
  else Ok {| c_len := Z.of_N (i_cur i); c_off := i_off i |}.

Definition iter_array (i : iter) : outcome cont :=
  if negb (i_t i =? TagArrayStart)%N then Err
  else if i_len i <? Z.of_N (i_cur i) then Err
  else Ok {| c_len := Z.of_N (i_cur i); c_off := i_off i |}.

Definition cont_iter (c : cont) : iter :=
  {| i_len := c_len c; i_off := c_off c; i_add := 0; i_cur := 0%N; i_t := TagEnd |}.

(* stringByteAt with explicit length word *)
Definition string_byte_at (pj : pjson) (cur len : N) : outcome bytes :=
  (* length > len(buf) || offset > len(buf) - length : no addition, no wrap *)
  if (N.land cur STRINGBUFBIT =? 0)%N then
    let n := N.of_nat (length (pj_msg pj)) in
    if (n <? len)%N || (n - len <? cur)%N then Err
    else Ok (firstn (N.to_nat len) (skipn (N.to_nat cur) (pj_msg pj)))
  else
    let o := N.land cur STRINGBUFMASK in
    let n := N.of_nat (length (pj_strings pj)) in
    if (n <? len)%N || (n - len <? o)%N then Err
    else Ok (firstn (N.to_nat len) (skipn (N.to_nat o) (pj_strings pj))).

Definition string_bytes (pj : pjson) (i : iter) : outcome bytes :=
  if negb (i_t i =? TagString)%N then Err
  else if i_len i <=? i_off i then Err
  else do len <- rd pj (i_len i) (i_off i); string_byte_at pj (i_cur i) len.

(* Object.NextElementBytes: None = TypeNone (no more elements); an element whose
   open tag points backwards is an error (fix F19) *)
Fixpoint next_element (fuel : nat) (pj : pjson) (o : cont) : outcome (cont * option (bytes * iter * N)) :=
  match fuel with
  | O => OutOfFuel
  | S f =>
    if c_len o <=? c_off o then Ok (o, None)
    else
      do v <- rd pj (c_len o) (c_off o);
      let t := word_tag v in
      if (t =? TagString)%N then
        if c_len o <=? c_off o + 2 then Err
        else
          do len <- rd pj (c_len o) (c_off o + 1);
          do name <- string_byte_at pj (word_val v) len;
          let off2 := c_off o + 2 in
          do v2 <- rd pj (c_len o) off2;
          let off3 := off2 + 1 in
          let cur := word_val v2 in
          let t2 := word_tag v2 in
          let esize := calc_next false off3 cur t2 in
          let add := calc_next true off3 cur t2 in
          if esize <? 0 then Err
          else if c_len o <? off3 + esize then Err
          else if off3 + esize <? 0 then Crash
          else
            Ok ({| c_len := c_len o; c_off := off3 + esize |},
                Some (name, {| i_len := off3 + esize; i_off := off3; i_add := add; i_cur := cur; i_t := t2 |}, TagToType_ref t2))
      else if (t =? TagObjectEnd)%N then Ok (o, None)
      else if (t =? TagNop)%N then
        (* a nop whose skip count is not positive is an error (fix F17) *)
        if (word_val v =? 0)%N then Err
        else next_element f pj {| c_len := c_len o; c_off := c_off o + Z.of_N (word_val v) |}
      else Err
  end.

Definition cont_fuel (c : cont) : nat := S (S (Z.to_nat (c_len c))).
