(* Oracle4.v — protocol operations for the mask-level stage-1 model
   (Proofs/MaskModel.v: definitions only): one 64-byte block through the four
   mask kernels, and a whole slice through kernels + flatten_bits. *)
From SJ Require Import Model.Base Model.RefTables Model.Stage1 Model.Oracle Model.Oracle2 Model.Oracle3 Proofs.MaskModel.
From Coq Require Strings.String.
Import String.StringSyntax.
Open Scope string_scope.
Open Scope N_scope.

Definition show_kstate (k : kstate) : bytes :=
  dec_of_N (k_odd k) ++ sp ++ dec_of_N (k_inq k) ++ sp ++ dec_of_N (k_pred k) ++ sp ++ dec_of_N (k_err k).

Definition handle4 (req : bytes) : bytes :=
  match split_sp req with
  | op :: args =>
    if bytes_eqb op (lit "maskblock") then
      (* maskblock <nd> <family: 0 avx512, 1 avx2> <odd> <inq> <pred> <err> <64 bytes hex> *)
      match args with
      | [and_; afam; aodd; ainq; apred; aerr; ablk] =>
        let st := {| k_odd := N_of_dec aodd; k_inq := N_of_dec ainq; k_pred := N_of_dec apred; k_err := N_of_dec aerr |} in
        let blk := map b2n (arg_bytes ablk) in
        let '(st', m) := if arg_bool afam then mask_block_full_avx2 (arg_bool and_) st blk
                         else mask_block_full (arg_bool and_) st blk in
        dec_of_N (km_odd_ends m) ++ sp ++ dec_of_N (km_quote_mask m) ++ sp ++ dec_of_N (km_quote_bits m) ++ sp ++
        dec_of_N (km_whitespace m) ++ sp ++ dec_of_N (km_structurals_in m) ++ sp ++ dec_of_N (km_structurals m) ++ sp ++
        show_kstate st'
      | _ => lit "badargs"
      end
    else if bytes_eqb op (lit "maskslice") then
      (* maskslice <nd> <message hex> : increments, carried, position, final state *)
      match args with
      | [and_; amsg] =>
        let msg := map b2n (arg_bytes amsg) in
        let '(st', incs, carried, pos) :=
          mask_slice (S (length msg / 64)) (arg_bool and_) kstate_init 0 (2 ^ 64 - 1) msg [] in
        join 44 (map dec_of_N incs) ++ sp ++ dec_of_N carried ++ sp ++ dec_of_N pos ++ sp ++ show_kstate st'
      | _ => lit "badargs"
      end
    else lit "badop"
  | [] => lit "badop"
  end.

Definition handle_all4 (req : bytes) : bytes :=
  let r := handle_all3 req in
  if bytes_eqb r (lit "badop") then handle4 req else r.
