(* FloatFmt.v — float printing (C18, used by C10).
   [shortest]: the digit generator BY SPECIFICATION: the shortest decimal that
   parses back (correct rounding, Spec.Json.dec_to_float) to the same float64,
   and among the decimals of that length the one closest to the exact value.
   simdjson-go's ftoaryu.go (Go's Ryu code) is modelled by this specification,
   not verified.  [fmt_float]: appendFloat's ES6 format switch, appendFloatF /
   fmtF digit placement, strconv's %e layout and the e-0N clean-up. *)
From SJ Require Import Model.Base Model.RefTables Spec.Json Model.Iter.
From Coq Require Import Floats.SpecFloat.
Open Scope Z_scope.

(* smallest p with num/den < 10^p, for num, den > 0 *)
Fixpoint adjust_p (fuel : nat) (num den : Z) (p : Z) : Z :=
  match fuel with
  | O => p
  | S f =>
    let lt := if 0 <=? p then num <? 10 ^ p * den else num * 10 ^ (- p) <? den in       (* x < 10^p *)
    let ge := if 0 <=? p - 1 then 10 ^ (p - 1) * den <=? num else den <=? num * 10 ^ (1 - p) in  (* x >= 10^(p-1) *)
    if negb lt then adjust_p f num den (p + 1)
    else if negb ge then adjust_p f num den (p - 1)
    else p
  end.

Definition zdigits (z : Z) : Z := match z with Zpos q => ndigits q | _ => 1 end.

(* floor (num / (den * 10^k)) *)
Definition scaled_floor (num den k : Z) : Z :=
  if 0 <=? k then num / (den * 10 ^ k) else (num * 10 ^ (- k)) / den.

(* is candidate c*10^k closer to x = num/den than (c+1)*10^k ?  compares
   2x with (2c+1) * 10^k ; returns Lt if x is below the midpoint *)
Definition cmp_mid (num den c k : Z) : comparison :=
  if 0 <=? k then (2 * num) ?= ((2 * c + 1) * 10 ^ k * den)
  else (2 * num * 10 ^ (- k)) ?= ((2 * c + 1) * den).

Fixpoint strip_zeros (c : Z) (k : Z) (fuel : nat) : Z * Z :=
  match fuel with
  | O => (c, k)
  | S f => if (c mod 10 =? 0) && negb (c =? 0) then strip_zeros (c / 10) (k + 1) f else (c, k)
  end.

Fixpoint digits_of (fuel : nat) (c : Z) (acc : list N) : list N :=
  match fuel with
  | O => acc
  | S f => if c <? 10 then Z.to_N c :: acc else digits_of f (c / 10) (Z.to_N (c mod 10) :: acc)
  end.

(* search n = 1 .. 17 *)
Fixpoint shortest_search (fuel : nat) (n : Z) (bits : N) (num den p : Z) : Z * Z :=
  match fuel with
  | O => (0, 0)
  | S f =>
    let k := p - n in
    let lo := scaled_floor num den k in
    let hi := lo + 1 in
    let ok c := match c with
                | Zpos q => (bits_of_sf (dec_to_float false (Zpos q) k) =? bits)%N
                | _ => false
                end in
    let oklo := ok lo in
    let okhi := ok hi in
    if oklo && okhi then
      match cmp_mid num den lo k with
      | Lt => (lo, k)
      | Gt => (hi, k)
      | Eq => if Z.even lo then (lo, k) else (hi, k)
      end
    else if oklo then (lo, k)
    else if okhi then (hi, k)
    else shortest_search f (n + 1) bits num den p
  end.

(* digits d1 d2 ... dn and decimal point position dp: value = 0.d1...dn * 10^dp *)
Definition shortest (bits : N) : list N * Z :=
  match sf_of_bits bits with
  | S754_finite _ m e =>
    let num := if 0 <=? e then Zpos m * 2 ^ e else Zpos m in
    let den := if 0 <=? e then 1 else 2 ^ (- e) in
    let p := adjust_p 40 num den (zdigits num - zdigits den) in
    let '(c, k) := shortest_search 18 1 (bits mod 9223372036854775808)%N num den p in
    let '(c', k') := strip_zeros c k 20 in
    let ds := digits_of 25 c' [] in
    (ds, k' + Z.of_nat (length ds))
  | _ => ([0%N], 1)
  end.

Definition dig (d : N) : byte := n2b (48 + d).

(* fmtF with prec = max(nd - dp, 0) *)
Definition fmt_f (neg : bool) (ds : list N) (dp : Z) : bytes :=
  let nd := Z.of_nat (length ds) in
  let sign := if neg then [n2b 45] else [] in
  let intpart :=
    if 0 <? dp then
      map dig (firstn (Z.to_nat (Z.min nd dp)) ds) ++ repeat_b (n2b 48) (Z.to_nat (dp - Z.min nd dp))
    else [n2b 48] in
  let prec := Z.max (nd - dp) 0 in
  let frac :=
    if 0 <? prec then
      n2b 46 :: map (fun i => let j := dp + Z.of_nat i in
                              if (0 <=? j) && (j <? nd) then dig (nth (Z.to_nat j) ds 0%N) else n2b 48)
                    (seq 0 (Z.to_nat prec))
    else [] in
  sign ++ intpart ++ frac.

(* strconv %e with shortest digits: d.ddde+XX (at least two exponent digits),
   then appendFloat's clean-up of e-0X to e-X *)
Definition fmt_e (neg : bool) (ds : list N) (dp : Z) : bytes :=
  let sign := if neg then [n2b 45] else [] in
  let first := match ds with d :: _ => [dig d] | [] => [n2b 48] end in
  let rest := match ds with
              | _ :: r => match r with [] => [] | _ => n2b 46 :: map dig r end
              | [] => []
              end in
  let ex := dp - 1 in
  let esign := if ex <? 0 then 45%N else 43%N in
  let ea := Z.abs ex in
  let edigits := dec_of_N (Z.to_N ea) in
  let epad := if ea <? 10 then (if ex <? 0 then edigits else n2b 48 :: edigits) else edigits in
  sign ++ first ++ rest ++ [n2b 101; n2b esign] ++ epad.

(* ES6 thresholds as float64 bit patterns: 1e-6 and 1e21 *)
Definition bits_1em6 : N := 4517329193108106637.    (* 0x3EB0C6F7A0B5ED8D *)
Definition bits_1e21 : N := 4921056587992461136.    (* 0x444B1AE4D6E2EF50 *)

(* appendFloat: None = "INF or NaN number found" *)
Definition fmt_float (bits : N) : option bytes :=
  let f := sf_of_bits bits in
  match f with
  | S754_nan | S754_infinity _ => None
  | _ =>
    let neg := (two63 <=? bits)%N in
    let ab := (bits mod two63)%N in
    let '(ds, dp) := shortest bits in
    if (ab =? 0)%N || ((bits_1em6 <=? ab)%N && (ab <? bits_1e21)%N)
    then Some (fmt_f neg ds dp)
    else Some (fmt_e neg ds dp)
  end.
