(* Oracle2.v — protocol operations on an explicit (tape, strings, message)
   state: read paths, in-place edits, lookups, bulk accessors; each answer
   also says whether the model agrees with the abstract specification
   (Spec/EditSpec.v) on this case, i.e. an instance of the refinement theorems. *)
From SJ Require Import Model.Base Model.RefTables Spec.Json Spec.EditSpec Model.Tape Model.Iter Model.Walk Model.Edit Model.WF Model.Oracle.
From Coq Require Strings.String.
Import String.StringSyntax.
Open Scope string_scope.
Open Scope N_scope.

Fixpoint N_of_hex_aux (l : bytes) (acc : N) : N :=
  match l with
  | [] => acc
  | b :: r => N_of_hex_aux r (acc * 16 + match hexval (b2n b) with Some v => v | None => 0 end)
  end.
Definition N_of_hex (l : bytes) : N := N_of_hex_aux l 0.

Fixpoint words_of_hex (fuel : nat) (l : bytes) : list N :=
  match fuel with
  | O => []
  | S f => match l with
           | [] => []
           | _ => N_of_hex (firstn 16 l) :: words_of_hex f (skipn 16 l)
           end
  end.
Definition arg_words (a : bytes) : list N :=
  match a with
  | [b] => if b2n b =? 45 then [] else words_of_hex (S (length a)) a
  | _ => words_of_hex (S (length a)) a
  end.

Definition mk_pj (t s m : bytes) : pjson :=
  {| pj_tape := arg_words t; pj_strings := arg_bytes s; pj_msg := arg_bytes m |}.

(* split at a given separator byte *)
Fixpoint split_at (sep : N) (l : bytes) (cur : bytes) : list bytes :=
  match l with
  | [] => [rev cur]
  | b :: r => if b2n b =? sep then rev cur :: split_at sep r [] else split_at sep r (b :: cur)
  end.
Definition arg_list (a : bytes) : list bytes :=   (* hex,hex,... ; "-" = empty list ; "." = one empty string *)
  match a with
  | [b] => if b2n b =? 45 then [] else map arg_bytes (split_at 44 a [])
  | _ => map (fun x => match x with [c] => if b2n c =? 46 then [] else arg_bytes x | _ => arg_bytes x end) (split_at 44 a [])
  end.
Definition arg_path (a : bytes) : list nat :=
  match a with
  | [b] => if b2n b =? 45 then [] else map (fun x => N.to_nat (N_of_dec x)) (split_at 46 a [])
  | _ => map (fun x => N.to_nat (N_of_dec x)) (split_at 46 a [])
  end.
Definition arg_bools (a : bytes) : list bool := map (fun b => b2n b =? 49) a.
Definition arg_Z (a : bytes) : Z :=
  match a with
  | b :: r => if b2n b =? 45 then (- Z.of_N (N_of_dec r))%Z else Z.of_N (N_of_dec a)
  | [] => 0%Z
  end.

(* lexicographic order on byte strings *)
Fixpoint bytes_ltb (a b : bytes) : bool :=
  match a, b with
  | [], [] => false
  | [], _ => true
  | _, [] => false
  | x :: r, y :: s => if b2n x <? b2n y then true else if b2n y <? b2n x then false else bytes_ltb r s
  end.
Fixpoint ins_sorted {A} (k : bytes) (v : A) (l : list (bytes * A)) : list (bytes * A) :=
  match l with
  | [] => [(k, v)]
  | (k', v') :: r => if bytes_ltb k k' then (k, v) :: l else (k', v') :: ins_sorted k v r
  end.
Definition sort_keys {A} (l : list (bytes * A)) : list (bytes * A) :=
  fold_left (fun acc kv => ins_sorted (fst kv) (snd kv) acc) l [].

Fixpoint show_ival (v : ival) : bytes :=
  match v with
  | INil => lit1 110
  | IBool true => lit1 116
  | IBool false => lit1 102
  | IInt z => lit1 105 ++ dec_of_Z z ++ lit1 59
  | IUint u => lit1 117 ++ dec_of_N u ++ lit1 59
  | IFloat b => lit1 100 ++ hex16_of_N b ++ lit1 59
  | IStr s => lit1 115 ++ hex_of_bytes s ++ lit1 59
  | IArr l => lit1 91 ++ flat_map show_ival l ++ lit1 93
  | IMap l => lit1 123 ++ flat_map (fun kv => lit1 107 ++ hex_of_bytes (fst kv) ++ lit1 59 ++ snd kv)
                                   (sort_keys (map (fun kv => (fst kv, show_ival (snd kv))) l)) ++ lit1 125
  end.

Definition show_out {A} (sh : A -> bytes) (o : outcome A) : bytes :=
  match o with
  | Ok a => sh a
  | Err => lit "ERR"
  | Crash => lit "CRASH"
  | OutOfFuel => lit "FUEL"
  end.

(* position k: k calls of AdvanceInto from pj.Iter() *)
Fixpoint nth_into (k : nat) (pj : pjson) (i : iter) : outcome iter :=
  match k with
  | O => Ok i
  | S k' => do r <- advance_into pj i; nth_into k' pj (fst r)
  end.

Definition docs_eqb (a b : list doc) : bool := bytes_eqb (show_docs a) (show_docs b).

Definition show_found (pj : pjson) (f : outcome found) : bytes :=
  match f with
  | Ok (Found ty i) =>
    lit "found " ++ dec_of_N ty ++ sp ++
    (if ty =? TypeNone then lit "-" else show_out show_doc (walk_value (S (S (length (pj_tape pj)))) pj i))
  | Ok NotFound => lit "notfound"
  | Ok OtherErr => lit "othererr"
  | Err => lit "ERR"
  | Crash => lit "CRASH"
  | OutOfFuel => lit "FUEL"
  end.

Definition type_of_doc (d : doc) : N :=
  match d with
  | DNull => TypeNull | DBool _ => TypeBool | DStr _ => TypeString
  | DNum (NInt _) => TypeInt | DNum (NUint _) => TypeUint | DNum (NFloat _ _) => TypeFloat
  | DArr _ => TypeArray | DObj _ => TypeObject
  end.
Definition show_lookup (l : lookup) : bytes :=
  match l with
  | LFound d => lit "found " ++ dec_of_N (type_of_doc d) ++ sp ++ show_doc d
  | LNotFound => lit "notfound"
  | LOtherErr => lit "othererr"
  end.

Definition handle2 (req : bytes) : bytes :=
  match split_sp req with
  | op :: at_ :: as_ :: am :: args =>
    let pj := mk_pj at_ as_ am in
    let den := denote (pj_msg pj) (pj_strings pj) (pj_tape pj) in
    if bytes_eqb op (lit "reads") then
      lit "den=" ++ (match den with Some l => show_docs l | None => lit "NONE" end) ++
      lit " walk=" ++ show_out show_docs (walk_doc pj) ++
      lit " iface=" ++ show_out (fun l => flat_map (fun v => show_ival v ++ lit1 124) l) (interface_doc pj) ++
      lit " wf=" ++ (if wf_check false pj then lit "1" else lit "0") ++
      lit " wfnop=" ++ (if wf_check true pj then lit "1" else lit "0")
    else if bytes_eqb op (lit "edit") then
      match args with
      | ak :: apath :: eop :: eargs =>
        let k := N.to_nat (N_of_dec ak) in
        let p := arg_path apath in
        match nth_into k pj (iter0 pj) with
        | Ok i =>
          (* result: new state, callback record, abstract function *)
          let res : outcome (pjson * bytes) * (doc -> option doc) :=
            if bytes_eqb eop (lit "null") then
              ((do r <- set_null pj i; Ok (fst r, lit "-")), abs_set_null)
            else if bytes_eqb eop (lit "bool") then
              let b := match eargs with a :: _ => arg_bool a | [] => false end in
              ((do r <- set_bool pj i b; Ok (fst r, lit "-")), abs_set_bool b)
            else if bytes_eqb eop (lit "int") then
              let z := match eargs with a :: _ => arg_Z a | [] => 0%Z end in
              ((do r <- set_int pj i z; Ok (fst r, lit "-")), abs_set_scalar (DNum (NInt z)))
            else if bytes_eqb eop (lit "uint") then
              let u := match eargs with a :: _ => N_of_dec a | [] => 0 end in
              ((do r <- set_uint pj i u; Ok (fst r, lit "-")), abs_set_scalar (DNum (NUint u)))
            else if bytes_eqb eop (lit "float") then
              let b := match eargs with a :: _ => N_of_hex a | [] => 0 end in
              ((do r <- set_float pj i b; Ok (fst r, lit "-")), abs_set_scalar (DNum (NFloat b 0)))
            else if bytes_eqb eop (lit "str") then
              let s := match eargs with a :: _ => arg_bytes a | [] => [] end in
              ((do r <- set_string pj i s; Ok (fst r, lit "-")), abs_set_scalar (DStr s))
            else if bytes_eqb eop (lit "delarr") then
              let dec := match eargs with a :: _ => arg_bools a | [] => [] end in
              ((do a <- iter_array i; do r <- arr_delete pj a dec; Ok (fst r, dec_of_N (N.of_nat (snd r)))),
               abs_delete_arr dec)
            else if bytes_eqb eop (lit "delobj") then
              let only := match eargs with a :: _ => arg_list a | [] => [] end in
              let dec := match eargs with
                         | _ :: a :: _ => (match a with [c] => if b2n c =? 78 then None else Some (arg_bools a) | _ => Some (arg_bools a) end)
                         | _ => None
                         end in
              ((do o <- iter_object i; do r <- obj_delete pj o only dec;
                Ok (fst r, match snd r with [] => lit "-" | l => join 44 (map show_bytes l) end)),
               abs_delete_obj only dec)
            else (Err, fun _ => None) in
          match fst res with
          | Ok (pj', cb) =>
            let den' := denote (pj_msg pj') (pj_strings pj') (pj_tape pj') in
            let ref :=
              match den, den' with
              | Some d0, Some d1 =>
                match upd_docs p (snd res) d0 with
                | Some dexp => if docs_eqb dexp d1 then lit "1" else lit "0"
                | None => lit "0"
                end
              | _, _ => lit "-"
              end in
            lit "ok " ++ show_words (pj_tape pj') ++ sp ++ show_bytes (pj_strings pj') ++ lit " cb=" ++ cb ++ lit " ref=" ++ ref
          | Err =>
            (* the call returned an error: the abstract function must refuse as well *)
            lit "err ref=" ++
            match den with
            | Some d0 => match get_docs p d0 with
                         | Some v => match snd res v with None => lit "1" | Some _ => lit "0" end
                         | None => lit "-"
                         end
            | None => lit "-"
            end
          | Crash => lit "crash"
          | OutOfFuel => lit "fuel"
          end
        | _ => lit "badpos"
        end
      | _ => lit "badargs"
      end
    else if bytes_eqb op (lit "find") then
      match args with
      | ak :: apath :: kind :: akeys :: _ =>
        let k := N.to_nat (N_of_dec ak) in
        let keys := arg_list akeys in
        let absd := match den with Some d0 => get_docs (arg_path apath) d0 | None => None end in
        match nth_into k pj (iter0 pj) with
        | Ok i =>
          if bytes_eqb kind (lit "key") then
            let key := match keys with x :: _ => x | [] => [] end in
            let m := match iter_object i with Ok o => find_key pj o key | Err => Err | Crash => Crash | OutOfFuel => OutOfFuel end in
            show_found pj m ++ lit " abs=" ++
            match absd with
            | Some (DObj l) => show_lookup (match abs_find_key l key with Some v => LFound v | None => LNotFound end)
            | _ => lit "-"
            end
          else if bytes_eqb kind (lit "path") then
            let m := match iter_object i with Ok o => find_path pj o keys | Err => Err | Crash => Crash | OutOfFuel => OutOfFuel end in
            show_found pj m ++ lit " abs=" ++
            match absd with Some d => show_lookup (abs_find_path d keys) | None => lit "-" end
          else if bytes_eqb kind (lit "elem") then
            show_found pj (find_element pj i keys) ++ lit " abs=" ++
            match absd with Some d => show_lookup (abs_find_path d keys) | None => lit "-" end
          else if bytes_eqb kind (lit "each") then
            let m := match iter_object i with Ok o => obj_foreach pj o keys | Err => Err | Crash => Crash | OutOfFuel => OutOfFuel end in
            show_out (fun l => lit "cbs " ++ flat_map (fun kv => lit1 107 ++ hex_of_bytes (fst kv) ++ lit1 59 ++
                                    show_out show_doc (walk_value (S (S (length (pj_tape pj)))) pj (snd kv))) l ++ lit1 46) m ++
            lit " abs=" ++
            match absd with
            | Some (DObj l) => lit "cbs " ++ flat_map (fun kv => lit1 107 ++ hex_of_bytes (fst kv) ++ lit1 59 ++ show_doc (snd kv)) (abs_foreach l keys) ++ lit1 46
            | _ => lit "-"
            end
          else if bytes_eqb kind (lit "parse") then
            (* Object.Parse: names and types of the members, in order, without descending *)
            let m := match iter_object i with Ok o => obj_parse pj o | Err => Err | Crash => Crash | OutOfFuel => OutOfFuel end in
            show_out (fun l => lit "els " ++ flat_map (fun e => lit1 107 ++ hex_of_bytes (fst (fst e)) ++ lit1 59 ++
                                    dec_of_N (snd (fst e)) ++ lit1 44) l ++ lit1 46) m
          else lit "badkind"
        | _ => lit "badpos"
        end
      | _ => lit "badargs"
      end
    else if bytes_eqb op (lit "conv") then
      match args with
      | ak :: _ =>
        match nth_into (N.to_nat (N_of_dec ak)) pj (iter0 pj) with
        | Ok i =>
          lit "int=" ++ show_out dec_of_Z (iter_int pj i) ++
          lit " uint=" ++ show_out dec_of_N (iter_uint pj i) ++
          lit " float=" ++ show_out hex16_of_N (iter_float pj i)
        | _ => lit "badpos"
        end
      | _ => lit "badargs"
      end
    else if bytes_eqb op (lit "asnum") then
      match args with
      | ak :: kind :: _ =>
        match nth_into (N.to_nat (N_of_dec ak)) pj (iter0 pj) with
        | Ok i =>
          match iter_array i with
          | Ok a =>
            if bytes_eqb kind (lit "str") then
              show_out (fun l => lit "ok " ++ join 44 (map show_bytes l)) (as_string pj a)
            else
              let kd := if bytes_eqb kind (lit "float") then KFloat else if bytes_eqb kind (lit "int") then KInt else KUint in
              show_out (fun l => lit "ok " ++ join 44 (map dec_of_Z l)) (as_num kd pj a)
          | _ => lit "notarray"
          end
        | _ => lit "badpos"
        end
      | _ => lit "badargs"
      end
    else lit "badop"
  | _ => lit "badop"
  end.

Definition handle_all (req : bytes) : bytes :=
  let r := handle req in
  if bytes_eqb r (lit "badop") then handle2 req else r.
