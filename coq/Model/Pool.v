(* Model/Pool.v -- executable model of goroutines that share nothing but
   sync.Pool object pools (parsed_serialize.go: zEncFast, s2FastWriters,
   s2Writers, s2Readers and their use in encBlock / decBlock).
   Definitions only; the theorems are in Proofs/PoolProofs.v.

   What is modelled
   ----------------
   * A codec object (s2.Writer, zstd.Encoder, s2.Reader) is an abstract state
     machine with hidden state: [reset], [write x], [close] (which yields an
     output).  Nothing is assumed about it here; the contract "after Reset the
     output depends only on what is written afterwards" is a hypothesis of the
     theorems, not of the model.
   * sync.Pool: [Get] returns any pooled object *or* a fresh one (the runtime
     may drop pooled objects and keeps per-P caches, so which one is returned
     is an oracle: the [choice] component of a schedule entry); [Put] adds the
     object to the pool.  Get removes the object from the pool, so an object
     is held by at most one goroutine: this is the ownership sync.Pool gives.
   * A goroutine runs a straight-line program of pool/codec operations on the
     object it holds; its observable behaviour is the list of outputs of its
     Close operations (what encBlock's closure returns as dst.Bytes()).
   * The global step picks a goroutine that has a pending operation (any
     interleaving: the schedule is a list of goroutine indices).

   The discipline read off encBlock:
       enc := pool.Get(); enc.Reset(dst); ...writes...; enc.Close();
       enc.Reset(nil); pool.Put(enc)
   [disc_step] below accepts exactly the programs in which every use of an
   object obtained by Get starts with Reset.

   Not modelled: the destination buffer (outputs are returned as values),
   errors returned by Close, use of an object after Put (not expressible: Put
   clears the goroutine's reference, as the closure in encBlock does by
   returning). *)

From Coq Require Import List Arith Bool PeanoNat.
Import ListNotations.

Inductive op (X : Type) :=
| OGet
| OReset
| OWrite (x : X)
| OClose
| OPut.
Arguments OGet {X}.
Arguments OReset {X}.
Arguments OWrite {X} x.
Arguments OClose {X}.
Arguments OPut {X}.

(* ------------------------------------------------------------------ *)
(* The discipline                                                      *)
(* ------------------------------------------------------------------ *)

(* Idle: holds nothing.  Fresh: holds an object just obtained from the pool,
   state unknown.  Ready: holds an object that has been Reset since Get. *)
Inductive dstate := Idle | Fresh | Ready.

Definition disc_step {X} (d : dstate) (o : op X) : option dstate :=
  match d, o with
  | Idle, OGet => Some Fresh
  | Fresh, OReset => Some Ready
  | Fresh, OPut => Some Idle
  | Ready, OReset => Some Ready
  | Ready, OWrite _ => Some Ready
  | Ready, OClose => Some Ready
  | Ready, OPut => Some Idle
  | _, _ => None
  end.

Fixpoint disc_run {X} (d : dstate) (p : list (op X)) : option dstate :=
  match p with
  | [] => Some d
  | o :: r => match disc_step d o with
              | Some d' => disc_run d' r
              | None => None
              end
  end.

Definition disciplined {X} (p : list (op X)) : bool :=
  match disc_run Idle p with Some _ => true | None => false end.

(* ------------------------------------------------------------------ *)
(* Goroutines and pools                                                *)
(* ------------------------------------------------------------------ *)

Section Pool.
  Variables X Y C : Type.          (* inputs, outputs, codec states *)
  Variable fresh : C.              (* what the pool's New function returns *)
  Variable reset : C -> C.
  Variable write : X -> C -> C.
  Variable close : C -> Y * C.     (* output and the state left behind *)

  (* local state of a goroutine: the object it holds and its outputs so far *)
  Definition lstate : Type := option C * list Y.

  (* one operation; [got] is the object Get would return; the third component
     is the object handed back to the pool, if any.  Operations that need an
     object and find none are no-ops (in Go: a nil dereference; they cannot
     occur in a disciplined program). *)
  Definition lstep (o : op X) (l : lstate) (got : C) : lstate * option C :=
    let '(h, outs) := l in
    match o with
    | OGet => ((Some got, outs), None)
    | OReset => ((option_map reset h, outs), None)
    | OWrite x => ((option_map (write x) h, outs), None)
    | OClose =>
        match h with
        | Some c => let '(y, c') := close c in ((Some c', outs ++ [y]), None)
        | None => (l, None)
        end
    | OPut => ((None, outs), h)
    end.

  (* a goroutine alone: every Get finds the pool empty or is served New() *)
  Fixpoint solo_state (p : list (op X)) (l : lstate) : lstate :=
    match p with
    | [] => l
    | o :: r => solo_state r (fst (lstep o l fresh))
    end.
  Definition solo_outs (p : list (op X)) : list Y := snd (solo_state p (None, [])).

  Record thread := mkthread { prog : list (op X); loc : lstate }.
  Record gstate := mkg { pool : list C; threads : list thread }.

  Definition ginit (progs : list (list (op X))) : gstate :=
    {| pool := []; threads := map (fun p => mkthread p (None, [])) progs |}.

  (* remove the i-th element *)
  Fixpoint take_nth (i : nat) (l : list C) : option (C * list C) :=
    match l, i with
    | [], _ => None
    | c :: r, O => Some (c, r)
    | c :: r, S k => match take_nth k r with
                     | Some (x, r') => Some (x, c :: r')
                     | None => None
                     end
    end.

  (* Get with oracle [choice]: 0 = a fresh object, S i = the i-th pooled one
     (fresh when there is none) *)
  Definition pool_get (pl : list C) (choice : nat) : C * list C :=
    match choice with
    | O => (fresh, pl)
    | S i => match take_nth i pl with
             | Some (c, pl') => (c, pl')
             | None => (fresh, pl)
             end
    end.

  Fixpoint set_nth (i : nat) (t : thread) (l : list thread) : list thread :=
    match l, i with
    | [], _ => []
    | _ :: r, O => t :: r
    | x :: r, S k => x :: set_nth k t r
    end.

  (* one global step: goroutine [tid] executes its next operation; an entry
     naming a finished or non-existent goroutine is a stutter *)
  Definition gstep (s : gstate) (e : nat * nat) : gstate :=
    let '(tid, choice) := e in
    match nth_error (threads s) tid with
    | None => s
    | Some t =>
        match prog t with
        | [] => s
        | o :: rest =>
            let '(got, pl) := match o with
                              | OGet => pool_get (pool s) choice
                              | _ => (fresh, pool s)
                              end in
            let '(l', put) := lstep o (loc t) got in
            {| pool := match put with Some c => c :: pl | None => pl end;
               threads := set_nth tid (mkthread rest l') (threads s) |}
        end
    end.

  Definition grun (s : gstate) (sched : list (nat * nat)) : gstate :=
    fold_left gstep sched s.

  (* outputs of goroutine [tid] *)
  Definition outs_of (s : gstate) (tid : nat) : list Y :=
    match nth_error (threads s) tid with
    | Some t => snd (loc t)
    | None => []
    end.

  Definition done (s : gstate) : bool :=
    forallb (fun t => match prog t with [] => true | _ => false end) (threads s).

  (* what can be observed of a codec from now on: the outputs of any sequence
     of writes and closes *)
  Inductive cop := CWrite (x : X) | CClose.
  Fixpoint observe (ops : list cop) (c : C) : list Y :=
    match ops with
    | [] => []
    | CWrite x :: r => observe r (write x c)
    | CClose :: r => let '(y, c') := close c in y :: observe r c'
    end.
End Pool.

Arguments CWrite {X} x.
Arguments CClose {X}.

(* ------------------------------------------------------------------ *)
(* A concrete codec for the examples                                   *)
(* ------------------------------------------------------------------ *)

(* hidden state = everything written since the last Reset; Close emits it and
   leaves it in place (so an object that is not Reset carries its history) *)
Definition hist_fresh : list nat := [].
Definition hist_reset (_ : list nat) : list nat := [].
Definition hist_write (x : nat) (h : list nat) : list nat := h ++ [x].
Definition hist_close (h : list nat) : list nat * list nat := (h, h).

Definition hrun := grun nat (list nat) (list nat) hist_fresh hist_reset hist_write hist_close.
Definition hinit := ginit nat (list nat) (list nat).
Definition houts := outs_of nat (list nat) (list nat).
Definition hsolo := solo_outs nat (list nat) (list nat) hist_fresh hist_reset hist_write hist_close.

(* round-robin schedule over n goroutines, k rounds, always taking the first
   pooled object *)
Fixpoint round_robin (n k : nat) : list (nat * nat) :=
  match k with
  | O => []
  | S k' => map (fun i => (i, 1)) (seq 0 n) ++ round_robin n k'
  end.
