(* Base.v — bytes, machine words and small list utilities shared by the
   model.  Definitions only; proofs live under Proofs/. *)
From Coq Require Export List NArith ZArith Bool Lia.
From Coq.Strings Require Export Byte.
Export ListNotations.
Open Scope N_scope.

Definition bytes := list byte.

Definition b2n (b : byte) : N := Byte.to_N b.

(* total conversion N -> byte (low eight bits) *)
Definition n2b (n : N) : byte :=
  match Byte.of_N (n mod 256) with Some b => b | None => x00 end.

Definition beq (a b : byte) : bool := Byte.eqb a b.

(* ASCII codes used all over the model *)
Definition cQUOTE : N := 34.   (* double quote *)
Definition cBSLASH : N := 92.  (* backslash *)
Definition cLBRACE : N := 123.
Definition cRBRACE : N := 125.
Definition cLBRACK : N := 91.
Definition cRBRACK : N := 93.
Definition cCOMMA : N := 44.
Definition cCOLON : N := 58.
Definition cSPACE : N := 32.
Definition cTAB : N := 9.
Definition cLF : N := 10.
Definition cCR : N := 13.
Definition cMINUS : N := 45.
Definition cPLUS : N := 43.
Definition cDOT : N := 46.
Definition c0 : N := 48.
Definition c9 : N := 57.
Definition c_e : N := 101.
Definition c_E : N := 69.
Definition c_u : N := 117.
Definition c_t : N := 116.
Definition c_f : N := 102.
Definition c_n : N := 110.

Definition is_digit (c : N) : bool := (c0 <=? c) && (c <=? c9).
Definition is_json_ws (c : N) : bool :=
  (c =? cSPACE) || (c =? cTAB) || (c =? cLF) || (c =? cCR).
Definition is_markup (c : N) : bool :=
  (c =? cLBRACE) || (c =? cRBRACE) || (c =? cLBRACK) || (c =? cRBRACK) ||
  (c =? cCOMMA) || (c =? cCOLON).

(* 64- and 32-bit wrap-around *)
Definition two64 : N := 18446744073709551616.
Definition two63 : N := 9223372036854775808.
Definition two32 : N := 4294967296.
Definition w64 (n : N) : N := n mod two64.
Definition w32 (n : N) : N := n mod two32.
(* two's-complement reading of a 64-bit word *)
Definition s64 (n : N) : Z := if n <? two63 then Z.of_N n else (Z.of_N n - Z.of_N two64)%Z.
(* two's-complement encoding of an integer known to be in [-2^63, 2^64) *)
Definition u64_of_Z (z : Z) : N := Z.to_N (z mod (Z.of_N two64)).

(* outcome of a modelled Go function: a value, a returned error, a run-time
   panic (index out of range etc.) or exhausted fuel. The last two are never
   confused with a normal result. *)
Inductive outcome (A : Type) : Type :=
| Ok (a : A)
| Err
| Crash
| OutOfFuel.
Arguments Ok {A} a.
Arguments Err {A}.
Arguments Crash {A}.
Arguments OutOfFuel {A}.

Definition obind {A B} (o : outcome A) (f : A -> outcome B) : outcome B :=
  match o with
  | Ok a => f a
  | Err => Err
  | Crash => Crash
  | OutOfFuel => OutOfFuel
  end.
Notation "'do' x <- o ; k" := (obind o (fun x => k)) (at level 200, x pattern, o at level 100, k at level 200).

Definition is_ok {A} (o : outcome A) : bool := match o with Ok _ => true | _ => false end.

(* list helpers *)
Fixpoint repeat_b (b : byte) (n : nat) : bytes :=
  match n with O => [] | S k => b :: repeat_b b k end.

(* first n elements, padded with d when the list is short *)
Fixpoint take_pad {A} (d : A) (n : nat) (l : list A) : list A :=
  match n with
  | O => []
  | S k => match l with
           | [] => d :: take_pad d k []
           | x :: r => x :: take_pad d k r
           end
  end.

Definition nth_b (l : bytes) (i : nat) : N := b2n (nth i l x00).

(* index of the first element satisfying p *)
Fixpoint find_idx {A} (p : A -> bool) (l : list A) : option nat :=
  match l with
  | [] => None
  | x :: r => if p x then Some O else option_map S (find_idx p r)
  end.

(* functional update of position i *)
Fixpoint upd_nth {A} (i : nat) (f : A -> A) (l : list A) : list A :=
  match l, i with
  | [], _ => []
  | x :: r, O => f x :: r
  | x :: r, S k => x :: upd_nth k f r
  end.

(* hex and decimal printing / parsing for the oracle protocol *)
Definition hexdigit (n : N) : byte :=
  if n <? 10 then n2b (48 + n) else n2b (87 + n).
Definition hex_of_byte (b : byte) : bytes :=
  let n := b2n b in [hexdigit (n / 16); hexdigit (n mod 16)].
Definition hex_of_bytes (l : bytes) : bytes := flat_map hex_of_byte l.

Definition hexval (c : N) : option N :=
  if is_digit c then Some (c - 48)
  else if (97 <=? c) && (c <=? 102) then Some (c - 87)
  else if (65 <=? c) && (c <=? 70) then Some (c - 55)
  else None.

Fixpoint bytes_of_hex (l : bytes) : bytes :=
  match l with
  | a :: b :: r =>
      match hexval (b2n a), hexval (b2n b) with
      | Some x, Some y => n2b (x * 16 + y) :: bytes_of_hex r
      | _, _ => []
      end
  | _ => []
  end.

Fixpoint N_of_dec_aux (l : bytes) (acc : N) : N :=
  match l with
  | [] => acc
  | b :: r => N_of_dec_aux r (acc * 10 + (b2n b - 48))
  end.
Definition N_of_dec (l : bytes) : N := N_of_dec_aux l 0.

(* decimal printing by fuelled division *)
Fixpoint dec_of_N_aux (fuel : nat) (n : N) (acc : bytes) : bytes :=
  match fuel with
  | O => acc
  | S k => let acc' := n2b (48 + n mod 10) :: acc in
           if n <? 10 then acc' else dec_of_N_aux k (n / 10) acc'
  end.
Definition dec_of_N (n : N) : bytes := dec_of_N_aux (S (N.to_nat (N.size n))) n [].

Definition dec_of_Z (z : Z) : bytes :=
  match z with
  | Zneg p => n2b 45 :: dec_of_N (Npos p)
  | _ => dec_of_N (Z.to_N z)
  end.

Fixpoint hex_of_N_aux (digits : nat) (n : N) (acc : bytes) : bytes :=
  match digits with
  | O => acc
  | S k => hex_of_N_aux k (n / 16) (hexdigit (n mod 16) :: acc)
  end.
Definition hex16_of_N (n : N) : bytes := hex_of_N_aux 16 n [].

(* split a byte list at spaces *)
Fixpoint split_sp_aux (l : bytes) (cur : bytes) : list bytes :=
  match l with
  | [] => [rev cur]
  | b :: r => if b2n b =? 32 then rev cur :: split_sp_aux r [] else split_sp_aux r (b :: cur)
  end.
Definition split_sp (l : bytes) : list bytes := split_sp_aux l [].

Definition bytes_eqb (a b : bytes) : bool :=
  (length a =? length b)%nat && forallb (fun p => beq (fst p) (snd p)) (combine a b).

(* ASCII literal helper: list of codes to bytes *)
Definition of_codes (l : list N) : bytes := map n2b l.
