(* Oracle.v — the line protocol of the correspondence check, written in
   Gallina so that the OCaml driver only moves bytes: one request line in, one
   canonical answer line out. *)
From SJ Require Import Model.Base Model.RefTables Spec.Json Model.Number Model.Str
     Model.Stage1 Model.Stage2 Model.Driver Model.Tape Model.Ring.
From Coq Require Strings.String.
Import String.StringSyntax.
Open Scope string_scope.
Open Scope N_scope.

Definition lit (s : String.string) : bytes := String.list_byte_of_string s.
Definition sp : bytes := [n2b 32].

Definition arg_bytes (a : bytes) : bytes :=
  match a with
  | [b] => if b2n b =? 45 then [] else bytes_of_hex a
  | _ => bytes_of_hex a
  end.
Definition show_bytes (l : bytes) : bytes := match l with [] => [n2b 45] | _ => hex_of_bytes l end.
Definition arg_bool (a : bytes) : bool := N_of_dec a =? 1.

Definition show_words (l : list N) : bytes :=
  match l with [] => [n2b 45] | _ => flat_map hex16_of_N l end.

Fixpoint join (sep : N) (l : list bytes) : bytes :=
  match l with
  | [] => []
  | [x] => x
  | x :: r => x ++ n2b sep :: join sep r
  end.

Definition show_nats (l : list nat) : bytes := join 44 (map (fun n => dec_of_N (N.of_nat n)) l).

Definition show_sres_doc (r : sres doc) : bytes :=
  match r with
  | SOk d => lit "ok " ++ show_doc d
  | SInvalid => lit "invalid"
  | SOut => lit "out"
  | SFuel => lit "fuel"
  end.

Definition show_sres_docs (r : sres (list doc)) : bytes :=
  match r with
  | SOk l => lit "ok " ++ show_docs l
  | SInvalid => lit "invalid"
  | SOut => lit "out"
  | SFuel => lit "fuel"
  end.

Definition show_parsed (o : outcome parsed) : bytes :=
  match o with
  | Ok p =>
    lit "ok " ++ show_words (p_tape p) ++ sp ++ show_bytes (p_strings p) ++ sp ++
    match denote (p_msg p) (p_strings p) (p_tape p) with
    | Some l => show_docs l
    | None => lit "nodenote"
    end
  | Err => lit "err"
  | Crash => lit "crash"
  | OutOfFuel => lit "fuel"
  end.

Definition handle (req : bytes) : bytes :=
  match split_sp req with
  | op :: args =>
    if bytes_eqb op (lit "str") then
      match args with
      | [amax; acopy; aidx; amem] =>
        match parse_string_model (arg_bytes amem) (N_of_dec aidx) (N.to_nat (N_of_dec amax)) (arg_bool acopy) 0 (S (S (length (arg_bytes amem)))) with
        | Ok r => lit "ok " ++ hex16_of_N (ps_word r) ++ sp ++ dec_of_N (ps_len r) ++ sp ++ show_bytes (ps_app r)
        | Err => lit "err"
        | Crash => lit "crash"
        | OutOfFuel => lit "fuel"
        end
      | _ => lit "badargs"
      end
    else if bytes_eqb op (lit "unesc") then
      match args with
      | [abody] =>
        let body := arg_bytes abody in
        match spec_string (S (length body)) body [] with
        | SOk (d, rest) => lit "ok " ++ show_bytes d ++ sp ++ dec_of_N (N.of_nat (length rest))
        | SInvalid => lit "invalid"
        | SOut => lit "out"
        | SFuel => lit "fuel"
        end
      | _ => lit "badargs"
      end
    else if bytes_eqb op (lit "num") then
      match args with
      | [abuf] =>
        match parse_number_model (arg_bytes abuf) with
        | Some (w1, w2) => lit "ok " ++ hex16_of_N w1 ++ sp ++ hex16_of_N w2
        | None => lit "none"
        end
      | _ => lit "badargs"
      end
    else if bytes_eqb op (lit "numspec") then
      match args with
      | [abuf] =>
        match lex_number (arg_bytes abuf) with
        | Some (l, rest) =>
          match num_spec l with
          | Some n => lit "ok " ++ show_num n ++ sp ++ dec_of_N (N.of_nat (length rest))
          | None => lit "nonfinite"
          end
        | None => lit "nolex"
        end
      | _ => lit "badargs"
      end
    else if bytes_eqb op (lit "spec") then
      match args with
      | [a] => show_sres_doc (spec_parse (arg_bytes a))
      | _ => lit "badargs"
      end
    else if bytes_eqb op (lit "specnd") then
      match args with
      | [a] => show_sres_docs (nd_spec (arg_bytes a))
      | _ => lit "badargs"
      end
    else if bytes_eqb op (lit "parse") then
      match args with
      | [and_; acopy; a] => show_parsed (parse_message (arg_bool and_) (arg_bool acopy) (arg_bytes a))
      | _ => lit "badargs"
      end
    else if bytes_eqb op (lit "s1") then
      match args with
      | [and_; a] =>
        let o := s1_buffers (arg_bool and_) (arg_bytes a) in
        (if o_ok o then lit "1 " else lit "0 ") ++
        match o_bufs o with
        | [] => lit "-"
        | _ => join 47 (map show_nats (bufs_incs 0 (o_bufs o)))
        end
      | _ => lit "badargs"
      end
    else if bytes_eqb op (lit "ring") then
      (* ring <S> <CAP> <n> <events as letters A S T W R F> :
         replays a recorded pipeline trace through the transition system.
         <n> = number of A letters of the trace.  The producer's failure path
         needs no letter of its own: a T that follows the last A with no S in
         between (A ... T) abandons the buffer of that A; the A stays in the
         trace.  Output: sent = number of S, abandoned = 1 iff more A than S. *)
      match args with
      | [aS; aC; an; aevs] =>
        let evs := flat_map (fun b => let c := b2n b in
                     if c =? 65 then [Acquire] else if c =? 83 then [Send] else if c =? 84 then [SendTerm]
                     else if c =? 87 then [RecvWait] else if c =? 82 then [Recv] else if c =? 70 then [Fail2] else []) aevs in
        let S := N.to_nat (N_of_dec aS) in
        let CAP := N.to_nat (N_of_dec aC) in
        let s0 := Ring.init (N.to_nat (N_of_dec an)) in
        match Ring.run S CAP s0 evs with
        | None => lit "rejected"
        | Some s =>
          lit "ok safe=" ++ (if run_all_safe S CAP s0 evs then lit "1" else lit "0") ++
          lit " final=" ++ (if Ring.final s then lit "1" else lit "0") ++
          lit " consumed=" ++ dec_of_N (N.of_nat (length (consumed s))) ++
          lit " inorder=" ++ (if list_nat_eqb (consumed s) (seq 0 (length (consumed s))) then lit "1" else lit "0") ++
          lit " sent=" ++ dec_of_N (N.of_nat (n_sent evs)) ++
          lit " abandoned=" ++ (if producer_abandoned evs then lit "1" else lit "0")
        end
      | _ => lit "badargs"
      end
    else lit "badop"
  | [] => lit "empty"
  end.

(* ------------------------------------------------------------------ *)
(* ring op: replay of recorded traces, producer failure path included  *)
(* ------------------------------------------------------------------ *)

(* the trace recorded from the real code on a stage-1 failure in the second
   buffer: acquire, wait, send, acquire, TERMINATOR (buffer 1 withheld), ... *)
Example ring_op_abandon_real_trace :
  handle (lit "ring 16 14 2 AWSATRWR") = lit "ok safe=1 final=1 consumed=1 inorder=1 sent=1 abandoned=1".
Proof. vm_compute. reflexivity. Qed.

(* nothing outstanding / first buffer abandoned *)
Example ring_op_abandon_first :
  handle (lit "ring 16 14 1 ATWR") = lit "ok safe=1 final=1 consumed=0 inorder=1 sent=0 abandoned=1".
Proof. vm_compute. reflexivity. Qed.

(* one and several buffers outstanding when the producer gives up *)
Example ring_op_abandon_one_outstanding :
  handle (lit "ring 16 14 2 ASATWRWR") = lit "ok safe=1 final=1 consumed=1 inorder=1 sent=1 abandoned=1".
Proof. vm_compute. reflexivity. Qed.
Example ring_op_abandon_many_outstanding :
  handle (lit "ring 16 14 5 ASASASASATWRWRWRWRWR") = lit "ok safe=1 final=1 consumed=4 inorder=1 sent=4 abandoned=1".
Proof. vm_compute. reflexivity. Qed.

(* both stages fail: consumer after the producer, and before it *)
Example ring_op_abandon_then_fail2 :
  handle (lit "ring 16 14 5 ASASASASATWRFWRWRWRWR") = lit "ok safe=1 final=1 consumed=1 inorder=1 sent=4 abandoned=1".
Proof. vm_compute. reflexivity. Qed.
Example ring_op_fail2_then_abandon :
  handle (lit "ring 16 14 3 ASWRFASWRATWR") = lit "ok safe=1 final=1 consumed=1 inorder=1 sent=2 abandoned=1".
Proof. vm_compute. reflexivity. Qed.

(* unchanged behaviour on a run without producer failure; a terminator before
   the last acquire of the run is still rejected *)
Example ring_op_plain :
  handle (lit "ring 16 14 2 ASASTWRWRWR") = lit "ok safe=1 final=1 consumed=2 inorder=1 sent=2 abandoned=0".
Proof. vm_compute. reflexivity. Qed.
Example ring_op_early_terminator_rejected :
  handle (lit "ring 16 14 3 ASATWRWR") = lit "rejected".
Proof. vm_compute. reflexivity. Qed.
