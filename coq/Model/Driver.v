(* Driver.v — model of parseMessage / Parse / ParseND: Go's bytes.TrimSpace,
   stage 1, stage 2, and the outcome the two stages determine together. *)
From SJ Require Import Model.Base Model.RefTables Model.Stage1 Model.Stage2.
Open Scope N_scope.

(* bytes.TrimSpace: ASCII \t \n \v \f \r and space, plus the Unicode White_Space
   code points, recognised by their UTF-8 encodings (U+0085, U+00A0, U+1680,
   U+2000..U+200A, U+2028, U+2029, U+202F, U+205F, U+3000). *)
Definition ascii_space (c : N) : bool :=
  (c =? 9) || (c =? 10) || (c =? 11) || (c =? 12) || (c =? 13) || (c =? 32).

(* number of bytes of the white-space rune the list starts with, 0 if none *)
Definition space_prefix (s : bytes) : nat :=
  match s with
  | a :: r =>
    let ca := b2n a in
    if ascii_space ca then 1%nat
    else match r with
    | b :: r2 =>
      let cb := b2n b in
      if (ca =? 194) && ((cb =? 133) || (cb =? 160)) then 2%nat
      else match r2 with
      | c :: _ =>
        let cc := b2n c in
        if (ca =? 225) && (cb =? 154) && (cc =? 128) then 3%nat
        else if (ca =? 226) && (cb =? 128) && (((128 <=? cc) && (cc <=? 138)) || (cc =? 168) || (cc =? 169) || (cc =? 175)) then 3%nat
        else if (ca =? 226) && (cb =? 129) && (cc =? 159) then 3%nat
        else if (ca =? 227) && (cb =? 128) && (cc =? 128) then 3%nat
        else 0%nat
      | [] => 0%nat
      end
    | [] => 0%nat
    end
  | [] => 0%nat
  end.

(* the same looking at the end of the list: [r] is the list reversed *)
Definition space_suffix_rev (r : bytes) : nat :=
  match r with
  | a :: t =>
    if ascii_space (b2n a) then 1%nat
    else match t with
    | b :: t2 =>
      if (space_prefix [b; a] =? 2)%nat then 2%nat
      else match t2 with
      | c :: _ => if (space_prefix [c; b; a] =? 3)%nat then 3%nat else 0%nat
      | [] => 0%nat
      end
    | [] => 0%nat
    end
  | [] => 0%nat
  end.

Fixpoint trim_left (fuel : nat) (s : bytes) : bytes :=
  match fuel with
  | O => s
  | S f => match space_prefix s with
           | O => s
           | n => trim_left f (skipn n s)
           end
  end.

Fixpoint trim_right_rev (fuel : nat) (r : bytes) : bytes :=
  match fuel with
  | O => r
  | S f => match space_suffix_rev r with
           | O => r
           | n => trim_right_rev f (skipn n r)
           end
  end.

Definition trim_space_go (s : bytes) : bytes :=
  let l := trim_left (S (length s)) s in
  rev (trim_right_rev (S (length l)) (rev l)).

Record parsed := {
  p_msg : bytes;       (* pj.Message *)
  p_tape : list N;     (* pj.Tape *)
  p_strings : bytes    (* pj.Strings.B *)
}.

(* parseMessage: both stages are evaluated as in the concurrent path (stage 2
   runs on whatever stage 1 handed over even when stage 1 finally fails); the
   sequential path differs only in not running stage 2 after a stage-1
   failure, which cannot change the returned outcome. *)
Definition parse_message (nd copy : bool) (msg0 : bytes) : outcome parsed :=
  let msg := trim_space_go msg0 in
  let o := s1_buffers nd msg in
  let bufs := bufs_incs 0 (o_bufs o) in
  match run2 copy msg bufs with
  | Crash => Crash
  | OutOfFuel => OutOfFuel
  | Err => Err
  | Ok m =>
    if o_ok o then Ok {| p_msg := msg; p_tape := final_tape m; p_strings := final_strings m |}
    else Err
  end.

Definition parse_model (copy : bool) (b : bytes) : outcome parsed := parse_message false copy b.
Definition parsend_model (copy : bool) (b : bytes) : outcome parsed := parse_message true copy b.
