(* Marshal.v — model of Iter.MarshalJSONBuffer (iterative, explicit stack),
   Array.MarshalJSONBuffer, escapeBytes and the scalar printers. *)
From SJ Require Import Model.Base Model.RefTables Spec.Json Model.Tape Model.Iter Model.Walk Model.FloatFmt.
Open Scope Z_scope.

(* escapeBytes *)
Definition escape_byte (b : byte) : bytes :=
  let c := b2n b in
  if (shouldEscape_ref c =? 0)%N then [b]
  else if (c =? 8)%N then of_codes [92; 98]%N
  else if (c =? 12)%N then of_codes [92; 102]%N
  else if (c =? 10)%N then of_codes [92; 110]%N
  else if (c =? 13)%N then of_codes [92; 114]%N
  else if (c =? 34)%N then of_codes [92; 34]%N
  else if (c =? 9)%N then of_codes [92; 116]%N
  else if (c =? 92)%N then of_codes [92; 92]%N
  else of_codes [92; 117; 48; 48]%N ++ [n2b (valToHex_ref (c / 16)%N); n2b (valToHex_ref (c mod 16)%N)].
Definition escape_bytes (s : bytes) : bytes := flat_map escape_byte s.

Definition quote_str (s : bytes) : bytes := n2b 34 :: escape_bytes s ++ [n2b 34].

Inductive frame := FNone | FArray | FObject | FRoot.

Definition lit_bytes (l : list N) : bytes := of_codes l.

(* out is accumulated reversed, chunk by chunk *)
Definition emit (out : bytes) (s : bytes) : bytes := rev s ++ out.

Fixpoint marshal_loop (fuel : nat) (pj : pjson) (i : iter) (stack : list frame) (out : bytes) : outcome bytes :=
  match fuel with
  | O => OutOfFuel
  | S f =>
    let top := match stack with t :: _ => t | [] => FNone end in
    (* key names *)
    let keyed : outcome (iter * bytes) :=
      match top with
      | FObject =>
        if negb (i_t i =? TagObjectEnd)%N then
          do sb <- string_bytes pj i;
          do tg <- peek_next_tag pj i;
          if (tg =? TagEnd)%N then Err
          else do r <- advance_into pj i; Ok (fst r, emit out (quote_str sb ++ [n2b 58]))
        else Ok (i, out)
      | _ => Ok (i, out)
      end in
    do ko <- keyed;
    let '(i, out) := ko in
    let t := i_t i in
    (* after a scalar or a closing tag: separators *)
    let after (i : iter) (stack : list frame) (out : bytes) : outcome bytes :=
      do tg <- peek_next_tag pj i;
      if (tg =? TagEnd)%N then
        (match stack with _ :: _ :: _ => Err | _ => Ok (rev out) end)
      else
        do r <- advance_into pj i;
        let i' := fst r in
        let top' := match stack with t :: _ => t | [] => FNone end in
        let out' :=
          match top' with
          | FArray => if (i_t i' =? TagArrayEnd)%N then out else emit out [n2b 44]
          | FObject => if (i_t i' =? TagObjectEnd)%N then out else emit out [n2b 44]
          | _ => out
          end in
        marshal_loop f pj i' stack out' in
    if (t =? TagRoot)%N then
      let is_open := i_off i <? Z.of_N (i_cur i) in
      match stack with
      | _ :: _ :: _ =>
        if is_open then Err
        else match top with
             | FRoot =>
               do tg <- peek_next_tag pj i;
               let out' := if (tg =? TagEnd)%N then out else emit out [n2b 10] in
               after i (tl stack) out'
             | FNone => Ok (rev out)
             | _ => Err
             end
      | _ =>
        (* a closing root right after the value the iterator stood on (the iterators
           ParsedJson.ForEach hands out): done (fix F20) *)
        if negb is_open && negb (match out with [] => true | _ => false end) then Ok (rev out) else
        let i0 := if is_open then set_i i (i_off i) 0 (i_cur i) (i_t i) else i in
        do r <- advance_into pj i0;
        marshal_loop f pj (fst r) (FRoot :: stack) out
      end
    else if (t =? TagString)%N then
      do sb <- string_bytes pj i; after i stack (emit out (quote_str sb))
    else if (t =? TagInteger)%N then
      do z <- iter_int pj i; after i stack (emit out (dec_of_Z z))
    else if (t =? TagUint)%N then
      do u <- iter_uint pj i; after i stack (emit out (dec_of_N u))
    else if (t =? TagFloat)%N then
      do b <- iter_float pj i;
      match fmt_float b with
      | Some s => after i stack (emit out s)
      | None => Err
      end
    else if (t =? TagNull)%N then after i stack (emit out (lit_bytes [110; 117; 108; 108]%N))
    else if (t =? TagBoolTrue)%N then after i stack (emit out (lit_bytes [116; 114; 117; 101]%N))
    else if (t =? TagBoolFalse)%N then after i stack (emit out (lit_bytes [102; 97; 108; 115; 101]%N))
    else if (t =? TagObjectStart)%N then
      do r <- advance_into pj i; marshal_loop f pj (fst r) (FObject :: stack) (emit out [n2b 123])
    else if (t =? TagObjectEnd)%N then
      match top with
      | FObject => after i (tl stack) (emit out [n2b 125])
      | _ => Err
      end
    else if (t =? TagArrayStart)%N then
      do r <- advance_into pj i; marshal_loop f pj (fst r) (FArray :: stack) (emit out [n2b 91])
    else if (t =? TagArrayEnd)%N then
      match top with
      | FArray => after i (tl stack) (emit out [n2b 93])
      | _ => Err
      end
    else if (t =? TagEnd)%N then
      do tg <- peek_next_tag pj i;
      if (tg =? TagEnd)%N then Err
      else do r <- advance_into pj i; marshal_loop f pj (fst r) stack out
    else after i stack out
  end.

Definition marshal_iter (pj : pjson) (i : iter) : outcome bytes :=
  marshal_loop (3 * S (length (pj_tape pj)) + 8) pj i [FNone] [].

(* Array.MarshalJSONBuffer *)
Definition marshal_array (pj : pjson) (a : cont) : outcome bytes :=
  let it := cont_iter a in
  (* the loop leaves the iterator where the Go code tests PeekNextTag() != TagArrayEnd *)
  (fix go (fuel : nat) (it : iter) (out : bytes) : outcome bytes :=
     match fuel with
     | O => OutOfFuel
     | S f =>
       do r <- advance_iter pj it;
       let fin (it' : iter) (out : bytes) : outcome bytes :=
         do tg <- peek_next_tag pj it';
         if (tg =? TagArrayEnd)%N then Ok (n2b 91 :: out ++ [n2b 93]) else Err in
       match r with
       | (it', None, _) => fin it' out
       | (it', Some el, ty) =>
         if (ty =? TypeNone)%N then
           (* no (remaining) elements: AdvanceIter consumed the closing tag (fix F16) *)
           if (i_t it' =? TagArrayEnd)%N then Ok (n2b 91 :: out ++ [n2b 93]) else fin it' out
         else
           do s <- marshal_iter pj el;
           do tg <- peek_next_tag pj it';
           if (tg =? TagArrayEnd)%N then fin it' (out ++ s) else go f it' (out ++ s ++ [n2b 44])
       end
     end) (cont_fuel a) it [].
