(* Serialize.v — model of parsed_serialize.go.
   [ser_core]: the tag/value split of Serialize over an abstract string hash
   (runtime.memhash, different in every process): relative container offsets
   with 64-bit wrap for closing roots, tagFloatWithFlag, string de-duplication
   through a table of stringSize buckets holding offset+1.
   [deser_core]: the tape reconstruction of Deserialize with its bounds checks.
   [deser_blob]: the framing of a serialized blob (version byte, varints, block
   headers) for blobs whose blocks are stored uncompressed; compressed blocks
   need the codec, which is a parameter of the theorems and is reported as
   NeedsCodec by the executable model. *)
From SJ Require Import Model.Base Model.RefTables Model.Iter.
Open Scope N_scope.

Definition stringSize : N := 16384.
Definition serializedVersion : N := 3.

(* ---- Serialize ------------------------------------------------------ *)
Section Ser.
Variable hash : bytes -> N.

Record ser_st := {
  ss_tags : bytes;          (* reversed *)
  ss_vals : list N;         (* reversed, one entry per 8-byte value *)
  ss_strbuf : bytes;        (* s.stringBuf, in order *)
  ss_table : list (N * N)   (* bucket -> offset+1 (latest first) *)
}.

Definition table_get (t : list (N * N)) (h : N) : N :=
  match find (fun p => fst p =? h) t with Some p => snd p | None => 0 end.

(* indexString *)
Definition index_string (st : ser_st) (sb : bytes) : ser_st * N :=
  let h := hash sb mod stringSize in
  let slot := table_get (ss_table st) h in
  let len := N.of_nat (length sb) in
  let blen := N.of_nat (length (ss_strbuf st)) in
  let hit :=
    if (slot =? 0) then false
    else
      let off := slot - 1 in
      if off + len <=? blen
      then bytes_eqb (firstn (N.to_nat len) (skipn (N.to_nat off) (ss_strbuf st))) sb
      else false in
  if hit then (st, slot - 1)
  else
    ({| ss_tags := ss_tags st; ss_vals := ss_vals st; ss_strbuf := ss_strbuf st ++ sb;
        ss_table := (h, w32 (blen + 1)) :: ss_table st |}, blen).

Definition push_tag (st : ser_st) (t : N) : ser_st :=
  {| ss_tags := n2b t :: ss_tags st; ss_vals := ss_vals st; ss_strbuf := ss_strbuf st; ss_table := ss_table st |}.
Definition push_val (st : ser_st) (v : N) : ser_st :=
  {| ss_tags := ss_tags st; ss_vals := v :: ss_vals st; ss_strbuf := ss_strbuf st; ss_table := ss_table st |}.

(* the main loop over the tape; [rest] is the tape from index off on *)
Fixpoint ser_loop (fuel : nat) (pj : pjson) (off : N) (rest : list N) (st : ser_st) : outcome ser_st :=
  match fuel with
  | O => OutOfFuel
  | S f =>
    match rest with
    | [] => Ok st
    | entry :: r =>
      let t := word_tag entry in
      let payload := word_val entry in
      if t =? TagNop then ser_loop f pj (off + 1) r (push_tag st t)
      else if t =? TagString then
        match r with
        | len :: r' =>
          match string_byte_at pj payload len with
          | Ok sb =>
            let '(st1, o) := index_string st sb in
            ser_loop f pj (off + 2) r' (push_tag (push_val (push_val st1 o) (N.of_nat (length sb))) t)
          | Err => Crash      (* panic(err) *)
          | Crash => Crash
          | OutOfFuel => OutOfFuel
          end
        | [] => Crash
        end
      else if (t =? TagUint) || (t =? TagInteger) then
        match r with
        | v :: r' => ser_loop f pj (off + 2) r' (push_tag (push_val st v) t)
        | [] => Crash
        end
      else if t =? TagFloat then
        match r with
        | v :: r' =>
          if payload =? 0 then ser_loop f pj (off + 2) r' (push_tag (push_val st v) t)
          else ser_loop f pj (off + 2) r' (push_tag (push_val (push_val st entry) v) tagFloatWithFlag)
        | [] => Crash
        end
      else if (t =? TagNull) || (t =? TagBoolTrue) || (t =? TagBoolFalse) then
        ser_loop f pj (off + 1) r (push_tag st t)
      else if (t =? TagObjectStart) || (t =? TagArrayStart) || (t =? TagRoot) then
        (* payload - off in uint64 *)
        ser_loop f pj (off + 1) r (push_tag (push_val st (w64 (payload + two64 - off))) t)
      else if (t =? TagObjectEnd) || (t =? TagArrayEnd) || (t =? TagEnd) then
        ser_loop f pj (off + 1) r (push_tag st t)
      else Crash      (* panic: unknown tag *)
    end
  end.

Definition ser_core (pj : pjson) : outcome (bytes * list N * bytes) :=
  match ser_loop (S (length (pj_tape pj))) pj 0 (pj_tape pj)
                 {| ss_tags := []; ss_vals := []; ss_strbuf := []; ss_table := [] |} with
  | Ok st => Ok (rev (ss_tags st), rev (ss_vals st), ss_strbuf st)
  | Err => Err | Crash => Crash | OutOfFuel => OutOfFuel
  end.
End Ser.

(* ---- Deserialize: tape reconstruction ------------------------------- *)
Record de_st := {
  d_tape : list N;
  d_off : N;
  d_vals : list N;     (* remaining 8-byte values *)
  d_vrem : N;          (* remaining value BYTES (values may end with a partial word) *)
  d_skips : N
}.

Definition tape_set (t : list N) (i : N) (w : N) : list N := upd_nth (N.to_nat i) (fun _ => w) t.

Fixpoint flush_nops (k : nat) (t : list N) (off : N) (n : N) : list N * N :=
  match k with
  | O => (t, off)
  | S k' => if n =? 0 then (t, off) else flush_nops k' (tape_set t off (mk_word TagNop n)) (off + 1) (n - 1)
  end.

Definition take_val (st : de_st) : option (N * de_st) :=
  if d_vrem st <? 8 then None
  else match d_vals st with
       | v :: r => Some (v, {| d_tape := d_tape st; d_off := d_off st; d_vals := r; d_vrem := d_vrem st - 8; d_skips := d_skips st |})
       | [] => None
       end.

Definition set_tape_off (st : de_st) (t : list N) (off : N) : de_st :=
  {| d_tape := t; d_off := off; d_vals := d_vals st; d_vrem := d_vrem st; d_skips := d_skips st |}.

(* result: Ok tape | Err (an error is returned; dst may be partially written) *)
Fixpoint deser_loop (fuel : nat) (tags : bytes) (st : de_st) : outcome de_st :=
  match fuel with
  | O => OutOfFuel
  | S f =>
    match tags with
    | [] => Ok st
    | tb :: tr =>
      let len := N.of_nat (length (d_tape st)) in
      if d_off st =? len then Err
      else
        let t := b2n tb in
        (* pending NOPs are written before any other tag *)
        let flushed : option de_st :=
          if (0 <? d_skips st) && negb (t =? TagNop) then
            if len - d_off st <? d_skips st then None
            else
              let '(tp, off') := flush_nops (N.to_nat (d_skips st)) (d_tape st) (d_off st) (d_skips st) in
              if off' =? len then None
              else Some {| d_tape := tp; d_off := off'; d_vals := d_vals st; d_vrem := d_vrem st; d_skips := 0 |}
          else Some st in
        match flushed with
        | None => Err
        | Some st =>
          let off := d_off st in
          let tagDst := mk_word t 0 in
          if t =? TagNop then
            deser_loop f tr {| d_tape := d_tape st; d_off := off; d_vals := d_vals st; d_vrem := d_vrem st; d_skips := d_skips st + 1 |}
          else if t =? TagString then
            if d_vrem st <? 16 then Err
            else if len <=? off + 1 then Err
            else match take_val st with
                 | Some (so, st1) =>
                   match take_val st1 with
                   | Some (sl, st2) =>
                     (* an offset that does not fit below the tag byte is rejected (fix F18);
                        then tagDst | sOffset *)
                     if JSONVALUEMASK <? so then Err
                     else deser_loop f tr (set_tape_off st2 (tape_set (tape_set (d_tape st2) off (N.lor tagDst so)) (off + 1) sl) (off + 2))
                   | None => Err
                   end
                 | None => Err
                 end
          else if (t =? TagFloat) || (t =? TagInteger) || (t =? TagUint) then
            if d_vrem st <? 8 then Err
            else if len <=? off + 1 then Err
            else match take_val st with
                 | Some (v, st1) => deser_loop f tr (set_tape_off st1 (tape_set (tape_set (d_tape st1) off tagDst) (off + 1) v) (off + 2))
                 | None => Err
                 end
          else if t =? tagFloatWithFlag then
            if d_vrem st <? 16 then Err
            else if len <=? off + 1 then Err
            else match take_val st with
                 | Some (w0, st1) =>
                   match take_val st1 with
                   | Some (w1, st2) =>
                     if negb (w0 / two56 =? TagFloat) then Err
                     else deser_loop f tr (set_tape_off st2 (tape_set (tape_set (d_tape st2) off w0) (off + 1) w1) (off + 2))
                   | None => Err
                   end
                 | None => Err
                 end
          else if (t =? TagNull) || (t =? TagBoolTrue) || (t =? TagBoolFalse) || (t =? TagEnd) then
            deser_loop f tr (set_tape_off st (tape_set (d_tape st) off tagDst) (off + 1))
          else if (t =? TagObjectStart) || (t =? TagArrayStart) then
            match take_val st with
            | Some (v, st1) =>
              let val := w64 (v + off) in
              if (len <? val) || (val <=? off) then Err
              else
                let tp := tape_set (d_tape st1) off (N.lor tagDst val) in
                let tp2 := tape_set tp (val - 1) (N.lor (mk_word (tagOpenToClose_ref t) 0) off) in
                deser_loop f tr (set_tape_off st1 tp2 (off + 1))
            | None => Err
            end
          else if t =? TagRoot then
            match take_val st with
            | Some (v, st1) =>
              let val := w64 (v + off) in
              if len <? val then Err
              else deser_loop f tr (set_tape_off st1 (tape_set (d_tape st1) off (N.lor tagDst val)) (off + 1))
            | None => Err
            end
          else if (t =? TagObjectEnd) || (t =? TagArrayEnd) then
            match nth_error (d_tape st) (N.to_nat off) with
            | Some w => if (w / two56) =? t then deser_loop f tr (set_tape_off st (d_tape st) (off + 1)) else Err
            | None => Crash
            end
          else Err
        end
    end
  end.

(* [vals_bytes] is the values section as bytes (little-endian 8-byte words,
   possibly with a trailing partial word) *)
Fixpoint le_words (fuel : nat) (b : bytes) : list N :=
  match fuel with
  | O => []
  | S f =>
    match b with
    | b0 :: b1 :: b2 :: b3 :: b4 :: b5 :: b6 :: b7 :: r =>
      (b2n b0 + 256 * (b2n b1 + 256 * (b2n b2 + 256 * (b2n b3 + 256 * (b2n b4 + 256 * (b2n b5 + 256 * (b2n b6 + 256 * b2n b7))))))) :: le_words f r
    | _ => []
    end
  end.

Definition deser_core (init_tape : list N) (tags vals_bytes : bytes) : outcome (list N) :=
  let st0 := {| d_tape := init_tape; d_off := 0; d_vals := le_words (S (length vals_bytes)) vals_bytes;
                d_vrem := N.of_nat (length vals_bytes); d_skips := 0 |} in
  match deser_loop (S (length tags)) tags st0 with
  | Ok st =>
    let len := N.of_nat (length (d_tape st)) in
    (* trailing NOPs *)
    let fin : option (list N * N) :=
      if 0 <? d_skips st then
        if len - d_off st <? d_skips st then None
        else Some (flush_nops (N.to_nat (d_skips st)) (d_tape st) (d_off st) (d_skips st))
      else Some (d_tape st, d_off st) in
    match fin with
    | None => Err
    | Some (tp, off) =>
      if negb (off =? len) then Err
      else if 0 <? d_vrem st then Err
      else Ok tp
    end
  | Err => Err | Crash => Crash | OutOfFuel => OutOfFuel
  end.

(* ---- framing --------------------------------------------------------- *)
(* binary.ReadUvarint: Err on EOF or overflow *)
Fixpoint read_uvarint (fuel : nat) (b : bytes) (x : N) (s : N) (i : nat) : option (N * bytes) :=
  match fuel with
  | O => None
  | S f =>
    match b with
    | [] => None
    | c :: r =>
      let v := b2n c in
      if (i =? 10)%nat then None                     (* MaxVarintLen64 exceeded *)
      else if v <? 128 then
        if (i =? 9)%nat && (1 <? v) then None        (* overflow *)
        else Some (N.lor x (N.shiftl v s), r)
      else read_uvarint f r (N.lor x (N.shiftl (N.land v 127) s)) (s + 7) (S i)
    end
  end.
Definition uvarint (b : bytes) : option (N * bytes) :=
  match read_uvarint 11 b 0 0 0 with
  | Some (v, r) => Some (w64 v, r)
  | None => None
  end.

Inductive blk := BRaw (data : bytes) | BEmpty | BCodec | BErr.

(* decBlock for a destination of dlen bytes *)
Definition dec_block (b : bytes) (dlen : N) : blk * bytes :=
  match uvarint b with
  | None => (BErr, b)
  | Some (size, r) =>
    if N.of_nat (length r) <? size then (BErr, r)
    else if (size =? 0) && (dlen =? 0) then (BEmpty, r)
    else if size <? 1 then (BErr, r)
    else match r with
         | [] => (BErr, r)
         | tb :: r1 =>
           let n := N.to_nat (size - 1) in
           let data := firstn n r1 in
           let r2 := skipn n r1 in
           let t := b2n tb in
           if t =? 0 then (if N.of_nat (length data) =? dlen then (BRaw data, r2) else (BErr, r2))
           else if (t =? 1) || (t =? 2) then (BCodec, r2)
           else (BErr, r2)
         end
  end.

Inductive deser_res :=
| DOk (tape : list N) (strings msg : bytes)
| DErr
| DCrash
| DFuel
| DNeedsCodec
| DTooBig.

Definition limit : N := 4194304.   (* sizes above 4 MiB are outside the claim *)

(* Deserialize into a fresh destination *)
Definition deser_blob (src : bytes) : deser_res :=
  match src with
  | [] => DErr
  | v :: r0 =>
    if serializedVersion <? b2n v then DErr
    else match uvarint r0 with
    | None => DErr
    | Some (c, r1) =>
      (* int(c) > br.Len() with int conversion: values >= 2^63 are negative *)
      if (c <? two63) && (N.of_nat (length r1) <? c) then DErr
      else match uvarint r1 with
      | None => DErr
      | Some (ts, r2) =>
        if limit <? ts then DTooBig else
        match uvarint r2 with
        | None => DErr
        | Some (ss, r3) =>
          if limit <? ss then DTooBig else
          match dec_block r3 ss with
          | (BErr, _) => DErr
          | (BCodec, _) => DNeedsCodec
          | (sb, r4) =>
            match uvarint r4 with
            | None => DErr
            | Some (ms, r5) =>
              if limit <? ms then DTooBig else
              match dec_block r5 ms with
              | (BErr, _) => DErr
              | (BCodec, _) => DNeedsCodec
              | (mb, r6) =>
                match uvarint r6 with
                | None => DErr
                | Some (tgs, r7) =>
                  if limit <? tgs then DTooBig else
                  match dec_block r7 tgs with
                  | (BErr, _) => DErr
                  | (BCodec, _) => DNeedsCodec
                  | (tb, r8) =>
                    match uvarint r8 with
                    | None => DErr
                    | Some (vs, r9) =>
                      if limit <? vs then DTooBig else
                      match dec_block r9 vs with
                      | (BErr, _) => DErr
                      | (BCodec, _) => DNeedsCodec
                      | (vb, _) =>
                        let data_of (b : blk) (n : N) := match b with BRaw d => d | _ => repeat_b x00 (N.to_nat n) end in
                        match deser_core (repeat 0 (N.to_nat ts)) (data_of tb tgs) (data_of vb vs) with
                        | Ok tp => DOk tp (data_of sb ss) (data_of mb ms)
                        | Err => DErr
                        | Crash => DCrash
                        | OutOfFuel => DFuel
                        end
                      end
                    end
                  end
                end
              end
            end
          end
        end
      end
    end
  end.

(* ---- hash-independent check of a serialization ------------------------ *)
(* Given the sections an actual Serialize call produced (tags, values as
   8-byte words, de-duplicated string buffer), check that they encode the
   tape: same tag stream as ser_core for ANY hash, same values except string
   offsets, and every string reference resolves to the string's bytes. *)
Fixpoint ser_check_loop (fuel : nat) (pj : pjson) (off : N) (rest : list N) (tags : bytes) (vals : list N) (strbuf : bytes) : bool :=
  match fuel with
  | O => false
  | S f =>
    match rest with
    | [] => match tags, vals with [], [] => true | _, _ => false end
    | entry :: r =>
      let t := word_tag entry in
      let payload := word_val entry in
      match tags with
      | [] => false
      | tg :: tags' =>
        let g := b2n tg in
        if t =? TagString then
          match r, vals with
          | len :: r', o :: l :: vals' =>
            match string_byte_at pj payload len with
            | Ok sb =>
              (g =? TagString) && (l =? N.of_nat (length sb)) && (o + l <=? N.of_nat (length strbuf)) &&
              bytes_eqb (firstn (N.to_nat l) (skipn (N.to_nat o) strbuf)) sb &&
              ser_check_loop f pj (off + 2) r' tags' vals' strbuf
            | _ => false
            end
          | _, _ => false
          end
        else if (t =? TagUint) || (t =? TagInteger) || ((t =? TagFloat) && (payload =? 0)) then
          match r, vals with
          | v :: r', v' :: vals' => (g =? t) && (v =? v') && ser_check_loop f pj (off + 2) r' tags' vals' strbuf
          | _, _ => false
          end
        else if t =? TagFloat then
          match r, vals with
          | v :: r', e' :: v' :: vals' => (g =? tagFloatWithFlag) && (e' =? entry) && (v =? v') && ser_check_loop f pj (off + 2) r' tags' vals' strbuf
          | _, _ => false
          end
        else if (t =? TagObjectStart) || (t =? TagArrayStart) || (t =? TagRoot) then
          match vals with
          | v' :: vals' => (g =? t) && (v' =? w64 (payload + two64 - off)) && ser_check_loop f pj (off + 1) r tags' vals' strbuf
          | [] => false
          end
        else if (t =? TagNop) || (t =? TagNull) || (t =? TagBoolTrue) || (t =? TagBoolFalse) ||
                (t =? TagObjectEnd) || (t =? TagArrayEnd) || (t =? TagEnd) then
          (g =? t) && ser_check_loop f pj (off + 1) r tags' vals strbuf
        else false
      end
    end
  end.

Definition ser_check (pj : pjson) (tags vals_bytes strbuf : bytes) : bool :=
  ((length vals_bytes mod 8 =? 0)%nat) &&
  ser_check_loop (S (length (pj_tape pj))) pj 0 (pj_tape pj) tags (le_words (S (length vals_bytes)) vals_bytes) strbuf.
