(* Edit.v — model of the in-place edit API: Iter.Set* and Object/Array
   DeleteElems, with their exact tape writes. *)
From SJ Require Import Model.Base Model.RefTables Spec.Json Model.Tape Model.Iter Model.Walk.
Open Scope Z_scope.

(* Tape[off] = w on a view of length len *)
Definition wr (pj : pjson) (len off : Z) (w : N) : outcome pjson :=
  if (0 <=? off) && (off <? len) && (off <? Z.of_nat (length (pj_tape pj))) then
    Ok {| pj_tape := upd_nth (Z.to_nat off) (fun _ => w) (pj_tape pj); pj_strings := pj_strings pj; pj_msg := pj_msg pj |}
  else Crash.

Definition is_numstr (t : N) : bool := is2 t.
Definition is_atom (t : N) : bool := ((t =? TagBoolTrue) || (t =? TagBoolFalse) || (t =? TagNull))%N.

Definition set2 (pj : pjson) (i : iter) (w0 w1 : N) (t' cur' : N) : outcome (pjson * iter) :=
  if is_numstr (i_t i) then
    do p1 <- wr pj (i_len i) (i_off i - 1) w0;
    do p2 <- wr p1 (i_len i) (i_off i) w1;
    Ok (p2, set_i i (i_off i) (i_add i) cur' t')
  else Err.

Definition set_float (pj : pjson) (i : iter) (bits : N) := set2 pj i (mk_word TagFloat 0) bits TagFloat 0%N.
Definition set_int (pj : pjson) (i : iter) (z : Z) := set2 pj i (mk_word TagInteger 0) (u64_of_Z z) TagInteger (u64_of_Z z).
Definition set_uint (pj : pjson) (i : iter) (u : N) := set2 pj i (mk_word TagUint 0) u TagUint u.

Definition set_string (pj : pjson) (i : iter) (v : bytes) : outcome (pjson * iter) :=
  if is_numstr (i_t i) then
    let cur := (mk_word TagString STRINGBUFBIT + N.of_nat (length (pj_strings pj)))%N in
    do p1 <- wr pj (i_len i) (i_off i - 1) cur;
    do p2 <- wr p1 (i_len i) (i_off i) (N.of_nat (length v));
    Ok ({| pj_tape := pj_tape p2; pj_strings := pj_strings p2 ++ v; pj_msg := pj_msg p2 |},
        set_i i (i_off i) (i_add i) cur TagString)
  else Err.

Definition set_bool (pj : pjson) (i : iter) (b : bool) : outcome (pjson * iter) :=
  if is_atom (i_t i) then
    let t := if b then TagBoolTrue else TagBoolFalse in
    do p1 <- wr pj (i_len i) (i_off i - 1) (mk_word t 0);
    Ok (p1, set_i i (i_off i) (i_add i) 0%N t)
  else Err.

Fixpoint fill_nops (k : nat) (pj : pjson) (len j endp : Z) : outcome pjson :=
  match k with
  | O => Ok pj
  | S k' =>
    if endp <=? j then Ok pj
    else do p1 <- wr pj len j (mk_word TagNop (Z.to_N (endp - j))); fill_nops k' p1 len (j + 1) endp
  end.

Definition set_null (pj : pjson) (i : iter) : outcome (pjson * iter) :=
  let t := i_t i in
  if is_atom t then
    do p1 <- wr pj (i_len i) (i_off i - 1) (mk_word TagNull 0);
    Ok (p1, set_i i (i_off i) (i_add i) 0%N TagNull)
  else if is_numstr t then
    do p1 <- wr pj (i_len i) (i_off i - 1) (mk_word TagNull 0);
    do p2 <- wr p1 (i_len i) (i_off i) (mk_word TagNop 1);
    Ok (p2, set_i i (i_off i) (i_add i) 0%N TagNull)
  else if is_open t then
    let add := Z.of_N (i_cur i) - i_off i in
    do p1 <- wr pj (i_len i) (i_off i - 1) (mk_word TagNull 0);
    do p2 <- fill_nops (Z.to_nat (Z.of_N (i_cur i) - i_off i)) p1 (i_len i) (i_off i) (Z.of_N (i_cur i));
    Ok (p2, set_i i (i_off i) add 0%N TagNull)
  else Err.

(* the NOP fill of DeleteElems: words startO .. end-1, payload = distance to end *)
Definition delete_span (pj : pjson) (len startO endp : Z) : outcome pjson :=
  fill_nops (Z.to_nat (endp - startO)) pj len startO endp.

(* Array.DeleteElems; [decide] answers the callback, one entry per element
   visited (false when exhausted).  Returns the new state and the number of
   callbacks made. *)
Fixpoint arr_delete_loop (fuel : nat) (pj : pjson) (it : iter) (decide : list bool) (ncb : nat) : outcome (pjson * nat) :=
  match fuel with
  | O => OutOfFuel
  | S f =>
    do r <- advance pj it;
    let '(it', t) := r in
    if t_is t TypeNone then Ok (pj, ncb)
    else
      let '(d, rest) := match decide with [] => (false, []) | x :: r => (x, r) end in
      if d then
        do p1 <- delete_span pj (i_len it') (i_off it' - 1) (i_off it' + i_add it');
        arr_delete_loop f p1 it' rest (S ncb)
      else arr_delete_loop f pj it' rest (S ncb)
  end.
Definition arr_delete (pj : pjson) (a : cont) (decide : list bool) : outcome (pjson * nat) :=
  arr_delete_loop (cont_fuel a) pj (cont_iter a) decide 0.

(* Object.DeleteElems with optional key filter; [decide = None] is fn == nil *)
Fixpoint obj_delete_loop (fuel : nat) (pj : pjson) (tmp : iter) (only : list bytes) (nkeys : nat) (n : nat)
         (decide : option (list bool)) (cbs : list bytes) : outcome (pjson * list bytes) :=
  match fuel with
  | O => OutOfFuel
  | S f =>
    do r <- advance pj tmp;
    let '(tmp, typ) := r in
    if negb (t_is typ TypeString) || (i_len tmp <=? i_off tmp + 1) then
      (if t_is typ TypeNone then Ok (pj, rev cbs) else Err)
    else
      let startO := i_off tmp - 1 in
      do len <- rd pj (i_len tmp) (i_off tmp);
      do name <- string_byte_at pj (i_cur tmp) len;
      if (0 <? nkeys)%nat && negb (existsb (bytes_eqb name) only) then
        do r2 <- advance pj tmp;
        let '(tmp2, t2) := r2 in
        if t_is t2 TypeNone then Ok (pj, rev cbs) else obj_delete_loop f pj tmp2 only nkeys n decide cbs
      else
        do r2 <- advance pj tmp;
        let '(tmp2, t2) := r2 in
        if t_is t2 TypeNone then Ok (pj, rev cbs)
        else
          let '(d, decide', cbs') :=
            match decide with
            | None => (true, None, cbs)
            | Some [] => (false, Some [], name :: cbs)
            | Some (x :: rest) => (x, Some rest, name :: cbs)
            end in
          do p1 <- (if d then delete_span pj (i_len tmp2) startO (i_off tmp2 + i_add tmp2) else Ok pj);
          if (S n =? nkeys)%nat then Ok (p1, rev cbs') else obj_delete_loop f p1 tmp2 only nkeys (S n) decide' cbs'
  end.
Definition obj_delete (pj : pjson) (o : cont) (only : list bytes) (decide : option (list bool)) : outcome (pjson * list bytes) :=
  obj_delete_loop (cont_fuel o) pj (cont_iter o) only (distinct_count only []) 0 decide [].
