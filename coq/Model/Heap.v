(* Model/Heap.v -- a store of buffers with identities, ParsedJson objects as
   triples of buffer ids, ParsedJson.Clone, the in-place edits of Iter.Set*,
   and a small reader of tapes that shows which buffer a string word points
   into.  Definitions only; the theorems are in Proofs/HeapProofs.v.

   What is modelled (parsed_json.go)
   ---------------------------------
   * A buffer id stands for one backing array ([]byte or []uint64; both are
     lists of N here).  [caps] is the capacity of the array, [bufs] the
     contents of the slice the owner holds.
   * ParsedJson = (Message, Tape, Strings.B)  ->  three ids.
   * Clone(dst): for each of the three buffers, if dst is given and
     cap(dst.X) >= len(src.X) the destination's array is re-sliced and
     overwritten ([write_buf]); otherwise make() returns a new array
     ([alloc], whose id is fresh).  dst == nil is [None].
   * Iter.SetInt / SetUInt / SetFloat / SetBool / SetNull write tape words in
     place ([ESet], one per word written); SetString / SetStringBytes
     additionally append to Strings.B ([EAppend]).  No edit ever writes the
     Message.  An append that outgrows the capacity moves Strings.B to a new
     array in Go; the TStrings object is shared by pointer, so the object
     still sees one logical buffer: the id is kept (the old array, which no
     one else may reference under the disjointness precondition, is dropped).
   * stringByteAt: a string word's payload has STRINGBUFBIT (bit 55) set when
     it points into Strings.B and clear when it points into Message.  With
     WithCopyStrings(true) (the default) stage 2 sets the bit on every string
     word. *)

From SJ Require Import Model.Base Model.RefTables.
Open Scope nat_scope.

(* ------------------------------------------------------------------ *)
(* Stores                                                              *)
(* ------------------------------------------------------------------ *)

Record store := mkstore {
  bufs : nat -> list N;      (* contents *)
  caps : nat -> nat;         (* capacity of the backing array *)
  next_id : nat              (* ids below this one are allocated *)
}.

Definition empty_store : store :=
  {| bufs := fun _ => []; caps := fun _ => 0; next_id := 0 |}.

Definition upd {A} (f : nat -> A) (k : nat) (v : A) : nat -> A :=
  fun i => if Nat.eqb i k then v else f i.

(* overwrite the contents of an existing buffer *)
Definition write_buf (st : store) (id : nat) (v : list N) : store :=
  {| bufs := upd (bufs st) id v;
     caps := upd (caps st) id (Nat.max (caps st id) (length v));
     next_id := next_id st |}.

(* make(): a new array *)
Definition alloc (st : store) (v : list N) : nat * store :=
  (next_id st,
   {| bufs := upd (bufs st) (next_id st) v;
      caps := upd (caps st) (next_id st) (length v);
      next_id := S (next_id st) |}).

(* make([]T, 0, c) *)
Definition alloc_cap (st : store) (c : nat) : nat * store :=
  (next_id st,
   {| bufs := upd (bufs st) (next_id st) [];
      caps := upd (caps st) (next_id st) c;
      next_id := S (next_id st) |}).

(* ------------------------------------------------------------------ *)
(* Objects                                                             *)
(* ------------------------------------------------------------------ *)

Record pj := mkpj { msg_id : nat; tape_id : nat; str_id : nat }.

Definition ids (p : pj) : list nat := [msg_id p; tape_id p; str_id p].

(* what the object denotes can only depend on this *)
Definition view (p : pj) (st : store) : list N * list N * list N :=
  (bufs st (msg_id p), bufs st (tape_id p), bufs st (str_id p)).

Definition disjoint_b (a b : list nat) : bool :=
  forallb (fun i => negb (existsb (Nat.eqb i) b)) a.

Fixpoint nodup_b (l : list nat) : bool :=
  match l with
  | [] => true
  | x :: r => negb (existsb (Nat.eqb x) r) && nodup_b r
  end.

(* the object's buffers are allocated and pairwise distinct *)
Definition wf_b (st : store) (p : pj) : bool :=
  nodup_b (ids p) && forallb (fun i => i <? next_id st) (ids p).

(* ------------------------------------------------------------------ *)
(* Clone                                                               *)
(* ------------------------------------------------------------------ *)

Definition copy_buf (st : store) (src : nat) (dst : option nat) : nat * store :=
  let v := bufs st src in
  match dst with
  | Some d => if length v <=? caps st d then (d, write_buf st d v) else alloc st v
  | None => alloc st v
  end.

(* same order as the Go code: Tape, Message, Strings *)
Definition clone (st : store) (src : pj) (dst : option pj) : pj * store :=
  let '(t, st1) := copy_buf st (tape_id src) (option_map tape_id dst) in
  let '(m, st2) := copy_buf st1 (msg_id src) (option_map msg_id dst) in
  let '(s, st3) := copy_buf st2 (str_id src) (option_map str_id dst) in
  ({| msg_id := m; tape_id := t; str_id := s |}, st3).

(* ------------------------------------------------------------------ *)
(* Edits                                                               *)
(* ------------------------------------------------------------------ *)

Inductive edit :=
| ESet (i : nat) (w : N)        (* Tape[i] = w *)
| EAppend (bs : list N).        (* Strings.B = append(Strings.B, bs...) *)

Definition apply_edit (p : pj) (e : edit) (st : store) : store :=
  match e with
  | ESet i w => write_buf st (tape_id p) (upd_nth i (fun _ => w) (bufs st (tape_id p)))
  | EAppend bs => write_buf st (str_id p) (bufs st (str_id p) ++ bs)
  end.

Definition apply_edits (p : pj) (es : list edit) (st : store) : store :=
  fold_left (fun s e => apply_edit p e s) es st.

(* edits on two objects, interleaved: true = first object *)
Definition apply_mixed (p q : pj) (es : list (bool * edit)) (st : store) : store :=
  fold_left (fun s (be : bool * edit) => apply_edit (if fst be then p else q) (snd be) s) es st.

Definition edits_of (who : bool) (es : list (bool * edit)) : list edit :=
  map snd (filter (fun be : bool * edit => Bool.eqb (fst be) who) es).

(* the same edits as a pure function of the object's own three buffers *)
Definition edit_view (e : edit) (v : list N * list N * list N) : list N * list N * list N :=
  let '(m, t, s) := v in
  match e with
  | ESet i w => (m, upd_nth i (fun _ => w) t, s)
  | EAppend bs => (m, t, s ++ bs)
  end.

(* SetStringBytes at tape index i (the tag word is at i-1): two words, one append *)
Definition set_string (p : pj) (i : nat) (v : list N) (st : store) : list edit :=
  [ESet (i - 1) (mk_word TagString STRINGBUFBIT + N.of_nat (length (bufs st (str_id p))))%N;
   ESet i (N.of_nat (length v));
   EAppend v].

(* ------------------------------------------------------------------ *)
(* A small reader of tapes                                             *)
(* ------------------------------------------------------------------ *)

Definition nslice (l : list N) (off len : N) : option (list N) :=
  if (off + len <=? N.of_nat (length l))%N
  then Some (firstn (N.to_nat len) (skipn (N.to_nat off) l))
  else None.

(* ParsedJson.stringByteAt *)
Definition nstring_at (msg strs : list N) (payload len : N) : option (list N) :=
  if (N.land payload STRINGBUFBIT =? 0)%N then nslice msg payload len
  else nslice strs (N.land payload STRINGBUFMASK) len.

Inductive item :=
| IStr (s : option (list N))     (* a string value (None: out of range) *)
| IWord (w : N).                 (* any other tape word *)

(* reads the tape left to right; a word with the string tag is followed by its length *)
Fixpoint read_tape (msg strs : list N) (tape : list N) : list item :=
  match tape with
  | [] => []
  | w :: rest =>
      if (word_tag w =? TagString)%N then
        match rest with
        | len :: rest' => IStr (nstring_at msg strs (word_val w) len) :: read_tape msg strs rest'
        | [] => [IStr None]
        end
      else IWord w :: read_tape msg strs rest
  end.

(* every string word points into the string buffer *)
Fixpoint all_copy (tape : list N) : bool :=
  match tape with
  | [] => true
  | w :: rest =>
      if (word_tag w =? TagString)%N then
        negb (N.land (word_val w) STRINGBUFBIT =? 0)%N &&
        match rest with
        | _ :: rest' => all_copy rest'
        | [] => true
        end
      else all_copy rest
  end.

Definition read_pj (p : pj) (st : store) : list item :=
  read_tape (bufs st (msg_id p)) (bufs st (str_id p)) (bufs st (tape_id p)).
