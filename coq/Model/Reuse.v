(* Model/Reuse.v -- what a reused internalParsedJson carries from one call of
   parseMessage to the next (parse_json_amd64.go: initialize, parseMessage).
   Definitions only; the theorems are in Proofs/ReuseProofs.v.

   What is modelled
   ----------------
   The fields of internalParsedJson, split in three groups:

   (a) reset by initialize / parseMessage before anything reads them:
         Message               = bytes.TrimSpace(msg)
         Tape                  = Tape[:0]          (or a new array)
         Strings.B             = Strings.B[:0]     (or a new TStrings)
         containingScopeOffset = [:0]              (or a new array)
         indexesChan           = indexChan{}
         buffersOffset         = ^uint64(0)
         ndjson                = 0 / 1
         copyStrings           = true, then the options (newInternalParsedJson)
       Only the *capacities* of Tape, Strings.B and containingScopeOffset
       survive; they are kept in the model ([f_caps]) to show that nothing
       reads them.
   (b) NOT reset: indexChans, the channel between the two stages.  It is
       created at the first call (capacity indexSlots-2 = 14, fixed from then
       on) and kept; whatever it contains at entry is received by stage 2 as
       if stage 1 of the *current* call had sent it.
   (c) NOT reset but never read before written: buffers, the ring of index
       buffers (Model/Ring.v, [ring]); see [ring_start] below.

   [parse] runs an abstract [core] (stage 1 + stage 2 + the drain paths) that
   is given the fields of group (a) and the channel contents, nothing else.

   The channel's evolution during a call is the Ring model: [ring_start n q0]
   is Ring.init with the channel pre-filled with q0 (and arbitrary ring
   contents r0); the sequential path of parseMessage (inputs up to 8 KiB:
   stage 1 runs to completion, then stage 2 or a drain loop) is a family of
   Ring schedules, the concurrent path is every Ring schedule. *)

From SJ Require Import Model.Base Model.Driver Model.Ring.
Open Scope nat_scope.

(* ------------------------------------------------------------------ *)
(* The object                                                          *)
(* ------------------------------------------------------------------ *)

(* a channel element: [Some k] = index buffer k, [None] = the terminator
   (indexChan{index: -1}) *)
Definition citem := option nat.

(* group (a) *)
Record fields := mkfields {
  f_message : bytes;
  f_tape : list N;
  f_strings : bytes;
  f_scopes : list N;
  f_indexesChan : N;          (* abstract value of the current index buffer; 0 = indexChan{} *)
  f_buffersOffset : N;
  f_ndjson : bool;
  f_copyStrings : bool
}.

Record istate := mkistate {
  i_fields : fields;
  i_caps : nat * nat * nat;            (* cap(Tape), cap(Strings.B), cap(containingScopeOffset) *)
  i_chan : option (list citem)         (* indexChans: nil, or a channel and its contents *)
}.

Record call := mkcall { c_msg : bytes; c_nd : bool; c_copy : bool }.

(* a zero-valued internalParsedJson *)
Definition fresh : istate :=
  {| i_fields := {| f_message := []; f_tape := []; f_strings := []; f_scopes := [];
                    f_indexesChan := 0%N; f_buffersOffset := 0%N;
                    f_ndjson := false; f_copyStrings := false |};
     i_caps := (0, 0, 0);
     i_chan := None |}.

Definition chan_contents (s : istate) : list citem :=
  match i_chan s with Some q => q | None => [] end.

(* the invariant between calls: the channel is empty (or not yet created) *)
Definition reuse_inv_b (s : istate) : bool :=
  match chan_contents s with [] => true | _ => false end.

Definition maxdepth : nat := 128.

(* newInternalParsedJson's copyStrings + parseMessage up to the first stage *)
Definition reset (s : istate) (c : call) : istate :=
  let msg := trim_space_go (c_msg c) in
  let size := length msg in
  let '(ct, cs, cd) := i_caps s in
  {| i_fields := {| f_message := msg; f_tape := []; f_strings := []; f_scopes := [];
                    f_indexesChan := 0%N;
                    f_buffersOffset := 18446744073709551615%N;
                    f_ndjson := c_nd c; f_copyStrings := c_copy c |};
     i_caps := (Nat.max ct (size * 15 / 100),
                (if Nat.max 128 (size / 10) <=? cs then cs else Nat.max 128 (size / 10)),
                Nat.max cd maxdepth);
     i_chan := match i_chan s with
               | None => Some []            (* make(chan indexChan, indexSlots-2) *)
               | Some q => Some q           (* kept as it is *)
               end |}.

Section Parse.
  Variable result : Type.
  (* stage 1, stage 2 and the drain loops: reads the fields and receives from
     the channel; returns the error / success, the fields and what is left in
     the channel *)
  Variable core : fields -> list citem -> result * fields * list citem.

  Definition run (s : istate) : result * istate :=
    let '(r, f, q) := core (i_fields s) (chan_contents s) in
    (r, {| i_fields := f; i_caps := i_caps s; i_chan := Some q |}).

  Definition parse (s : istate) (c : call) : result * istate := run (reset s c).
End Parse.

(* ------------------------------------------------------------------ *)
(* The channel during one call: the Ring model                         *)
(* ------------------------------------------------------------------ *)

Definition indexSlots : nat := 16.
Definition chanCap : nat := indexSlots - 2.

(* Ring.init with the channel holding q0 and the ring slots holding r0 at
   entry; [ring_start n [] (fun _ => 0)] is [Ring.init n] *)
Definition ring_start (n : nat) (q0 : list citem) (r0 : nat -> nat) : Ring.st :=
  {| produced := 0; filling := None; term_sent := false; queue := q0;
     held := None; waiting := false; finished := false; failed := false;
     ring := r0; consumed := []; n_total := n |}.

(* --- the sequential path (len(Message) <= 8 KiB) as Ring schedules --- *)

(* findStructuralIndices on its own: n buffers, then the terminator *)
Definition seq_stage1 (n : nat) : list ev := rep_evs n [Acquire; Send] ++ [SendTerm].

Definition recv1 : list ev := [RecvWait; Recv].

(* unifiedMachine succeeds: it has received the n buffers and the terminator
   (every "goto succeed" is guarded by "done") *)
Definition seq_ok (n : nat) : list ev := seq_stage1 n ++ rep_evs (S n) recv1.

(* unifiedMachine fails after receiving j <= n buffers; then
       for { select { case idx := <-pj.indexChans: if idx.index == -1 { return }
                      default: return } }
   stage 1 has finished, so every receive succeeds until the terminator *)
Definition seq_fail2 (n j : nat) : list ev :=
  seq_stage1 n ++ rep_evs j recv1 ++ [Fail2] ++ rep_evs (S n - j) recv1.

(* unifiedMachine fails having already received the terminator (the sanity
   check under "succeed:"; "Already drained" in parseMessage): the select
   takes the default branch at once, the channel trace is that of [seq_ok] *)
Definition seq_fail2_late (n : nat) : list ev := seq_ok n.

(* findStructuralIndices fails (it still sends the terminator, after n' buffers):
       for idx := range pj.indexChans { if idx.index == -1 { break } }
   stage 2 never runs *)
Definition seq_fail1 (n' : nat) : list ev :=
  seq_stage1 n' ++ [Fail2] ++ rep_evs (S n') recv1.

(* channel contents after a schedule, from an empty channel *)
Definition chan_after (n : nat) (evs : list ev) : option (list citem) :=
  option_map queue (Ring.run indexSlots chanCap (Ring.init n) evs).

Definition clean_final (n : nat) (evs : list ev) : bool :=
  match Ring.run indexSlots chanCap (Ring.init n) evs with
  | Some s => final s && match queue s with [] => true | _ => false end
  | None => false
  end.

(* every sequential path, for every number of buffers the channel can take
   without a consumer (n + 1 <= 14) and every failure point *)
Definition seq_paths_clean_b : bool :=
  forallb (fun n =>
    clean_final n (seq_ok n) && clean_final n (seq_fail2_late n) && clean_final n (seq_fail1 n) &&
    forallb (fun j => clean_final n (seq_fail2 n j)) (seq 0 (S n)))
  (seq 0 chanCap).

(* a concrete [core] for the examples: the result is what stage 2 received
   (buffer ids, until the terminator), given that stage 1 sends n buffers =
   one per 4 message bytes, and a terminator; all through the channel *)
Fixpoint recv_until_term (q : list citem) : list nat * list citem :=
  match q with
  | [] => ([], [])
  | None :: r => ([], r)
  | Some k :: r => let '(l, r') := recv_until_term r in (k :: l, r')
  end.

Definition toy_core (f : fields) (q : list citem) : list nat * fields * list citem :=
  let n := length (f_message f) / 4 in
  let '(got, rest) := recv_until_term (q ++ map Some (seq 0 n) ++ [None]) in
  (got, f, rest).
