(* Model/Stream.v -- executable model of ParseNDStream (simdjson_amd64.go):
   the producer loop that cuts the reader's byte stream into chunks, and the
   forwarder goroutine that hands the per-chunk results to the caller in queue
   order.  Definitions only; the theorems are in Proofs/StreamProofs.v.

   What is modelled
   ----------------
   Producer (the second goroutine of ParseNDStream):

       for {
           n, err := buf.Read(tmp)                    (1)
           if err != nil && err != io.EOF { queueError(err); return }
           tmp = tmp[:n]
           if err != io.EOF {
               b, err2 := buf.ReadBytes('\n')         (2)
               if err2 != nil && err2 != io.EOF { queueError(err2); return }
               tmp = append(tmp, b...); err = err2
           }
           if len(bytes.TrimSpace(tmp)) > 0 { queue <- cell; go parse(tmp) }   (3)
           if err != nil { queueError(err); return }  (4)
       }

   The reader is abstract: it holds the bytes it will still deliver ([rem])
   and the condition it reports once they are exhausted ([FEOF] = io.EOF,
   [FErr] = any other error).  A failure "at offset k" is the reader that
   delivers the first k bytes of the stream and then reports [FErr].

   (1) [Read] returns a non-empty fragment whose size is chosen by an oracle
       (the list [sizes], one entry per call, clamped to 1 .. remaining), or,
       when nothing is left, zero bytes and the end condition.
   (2) [ReadBytes('\n')] returns the bytes up to and including the next LF, or
       everything that is left together with the end condition.
   (3) one chunk = Read result ++ ReadBytes result.  [produce] returns *all*
       chunks; the ones Go's bytes.TrimSpace empties ([go_blank]) are skipped
       by [delivered] (this is the repaired behaviour: the original code
       queued them and ParseND failed on them).
   (4) a reader error other than io.EOF drops the bytes gathered in the
       current iteration, exactly as the two early returns do.

   Not modelled: the size of [tmp] (10 MiB; a size in [sizes] is arbitrary),
   the sync.Pool of tmp buffers and the reuse channel (no observable effect),
   the bound [conc] on the queue (it restricts the schedules, never enlarges
   them). *)

From SJ Require Import Model.Base Spec.Json Model.Driver.
Open Scope nat_scope.

(* ------------------------------------------------------------------ *)
(* The producer                                                        *)
(* ------------------------------------------------------------------ *)

(* how the stream ended: io.EOF, another reader error, or the model's fuel ran
   out (proved impossible for the fuel [chunks] supplies) *)
Inductive final := FEOF | FErr | FFuel.

Definition final_eqb (a b : final) : bool :=
  match a, b with
  | FEOF, FEOF | FErr, FErr | FFuel, FFuel => true
  | _, _ => false
  end.

Definition is_lf (b : byte) : bool := (b2n b =? cLF)%N.

(* bufio.Reader.ReadBytes('\n') on the bytes still available:
   (bytes returned, bytes left, delimiter found) *)
Fixpoint read_line (s : bytes) : bytes * bytes * bool :=
  match s with
  | [] => ([], [], false)
  | b :: r =>
      if is_lf b then ([b], r, true)
      else let '(l, r', f) := read_line r in (b :: l, r', f)
  end.

(* number of bytes the next Read returns, given the oracle and the number of
   bytes available (> 0): the oracle's wish clamped to 1 .. avail; everything
   when the oracle is exhausted *)
Definition read_size (sizes : list nat) (avail : nat) : nat :=
  match sizes with
  | [] => avail
  | n :: _ => Nat.min (Nat.max 1 n) avail
  end.

(* the producer loop: all chunks in order (blank ones included) and the
   condition queued after them *)
Fixpoint produce (fuel : nat) (endk : final) (sizes : list nat) (rem : bytes)
  : list bytes * final :=
  match fuel with
  | O => ([], FFuel)
  | S f =>
      match rem with
      | [] => ([], endk)                       (* Read: 0 bytes and the end condition *)
      | _ :: _ =>
          let n := read_size sizes (length rem) in
          let a := firstn n rem in
          let '(b, rest, found) := read_line (skipn n rem) in
          if found then
            let '(cs, e) := produce f endk (tl sizes) rest in ((a ++ b) :: cs, e)
          else
            match endk with
            | FEOF => ([a ++ b], FEOF)         (* last chunk, then io.EOF *)
            | e => ([], e)                     (* ReadBytes failed: tmp is dropped *)
            end
      end
  end.

(* fail_at = Some k: the reader breaks after k bytes *)
Definition chunks (sizes : list nat) (fail_at : option nat) (stream : bytes)
  : list bytes * final :=
  match fail_at with
  | None => produce (S (length stream)) FEOF sizes stream
  | Some k => produce (S (length stream)) FErr sizes (firstn k stream)
  end.

(* len(bytes.TrimSpace(tmp)) == 0 *)
Definition go_blank (c : bytes) : bool :=
  match trim_space_go c with [] => true | _ => false end.

(* the chunks that get a queue cell and a parser goroutine *)
Definition delivered (cs : list bytes) : list bytes :=
  filter (fun c => negb (go_blank c)) cs.

(* the specification's reading of one chunk: its documents, line by line *)
Definition chunk_docs (c : bytes) : sres (list doc) := nd_lines (split_lf c) [].

(* what the consumer of the result channel sees when every chunk is parsed as
   the specification says: one entry per delivered chunk, then the final
   condition *)
Definition stream_results (sizes : list nat) (fail_at : option nat) (stream : bytes)
  : list (sres (list doc)) * final :=
  let '(cs, e) := chunks sizes fail_at stream in
  (map nd_spec (delivered cs), e).

(* concatenation of the documents of a list of results (None when one of them
   is not SOk) *)
Fixpoint all_docs (rs : list (sres (list doc))) : option (list doc) :=
  match rs with
  | [] => Some []
  | SOk d :: r => match all_docs r with Some ds => Some (d ++ ds) | None => None end
  | _ :: _ => None
  end.

Definition ends_lf (c : bytes) : bool :=
  match rev c with b :: _ => is_lf b | [] => false end.

(* ------------------------------------------------------------------ *)
(* The forwarder                                                       *)
(* ------------------------------------------------------------------ *)

(*     for items := range queue {
           i := <-items
           select { case res <- i: default: if !end { res <- i } }
           if i.Error != nil { end = true }
       }

   The queue is a sequence of cells; cell i is created by the producer
   ([EEnq]), filled at an arbitrary later moment by its parser goroutine
   ([EFill i]) and popped by the forwarder only when it is the head and filled.
   Before an error has been forwarded the send blocks until it succeeds
   ([EForward]); afterwards the send is non-blocking and the item is either
   taken ([EForward]) or lost ([EDrop]).  What a cell will contain is
   determined by its chunk, hence the list [results] is a parameter. *)

Section Forwarder.
  Variable R : Type.
  Variable is_err : R -> bool.

  Inductive fev := EEnq | EFill (i : nat) | EForward | EDrop.

  Record fwd := mkfwd {
    enq : nat;              (* cells created so far *)
    filled : list nat;      (* indices of the cells whose result has arrived *)
    next : nat;             (* index of the queue head *)
    out : list R;           (* what was sent on res, oldest first *)
    ended : bool            (* the forwarder's [end] flag *)
  }.

  Definition finit : fwd :=
    {| enq := 0; filled := []; next := 0; out := []; ended := false |}.

  Definition mem (i : nat) (l : list nat) : bool := existsb (Nat.eqb i) l.

  Definition fstep (results : list R) (s : fwd) (e : fev) : option fwd :=
    match e with
    | EEnq =>
        if enq s <? length results
        then Some {| enq := S (enq s); filled := filled s; next := next s;
                     out := out s; ended := ended s |}
        else None
    | EFill i =>
        if (i <? enq s) && negb (mem i (filled s))
        then Some {| enq := enq s; filled := i :: filled s; next := next s;
                     out := out s; ended := ended s |}
        else None
    | EForward =>
        if (next s <? enq s) && mem (next s) (filled s) then
          match nth_error results (next s) with
          | Some r => Some {| enq := enq s; filled := filled s; next := S (next s);
                              out := out s ++ [r];
                              ended := ended s || is_err r |}
          | None => None
          end
        else None
    | EDrop =>
        if (next s <? enq s) && mem (next s) (filled s) && ended s then
          match nth_error results (next s) with
          | Some r => Some {| enq := enq s; filled := filled s; next := S (next s);
                              out := out s; ended := true |}
          | None => None
          end
        else None
    end.

  Fixpoint frun (results : list R) (s : fwd) (evs : list fev) : option fwd :=
    match evs with
    | [] => Some s
    | e :: r => match fstep results s e with
                | Some s' => frun results s' r
                | None => None
                end
    end.

  (* the results up to and including the first error *)
  Fixpoint upto_err (l : list R) : list R :=
    match l with
    | [] => []
    | r :: t => if is_err r then [r] else r :: upto_err t
    end.

  (* l is obtained from m by deleting elements *)
  Fixpoint sublist_b (eqb : R -> R -> bool) (l m : list R) : bool :=
    match l, m with
    | [], _ => true
    | _ :: _, [] => false
    | x :: l', y :: m' => if eqb x y then sublist_b eqb l' m' else sublist_b eqb l m'
    end.
End Forwarder.

Arguments enq {R} _.
Arguments filled {R} _.
Arguments next {R} _.
Arguments out {R} _.
Arguments ended {R} _.
Arguments finit {R}.

(* ------------------------------------------------------------------ *)
(* Producer and forwarder together                                     *)
(* ------------------------------------------------------------------ *)

(* what a queue cell ends up holding: Stream{Value: &parsed}, the wrapped
   parse error, or the reader's final condition (io.EOF included) *)
Inductive cell :=
| CVal (p : parsed)
| CParseErr
| CEnd (e : final).

Definition cell_is_err (c : cell) : bool :=
  match c with CVal _ => false | _ => true end.

(* the parser goroutine: pj.copyStrings = true; pj.parseMessage(tmp, true) *)
Definition parse_chunk (c : bytes) : cell :=
  match parsend_model true c with
  | Ok p => CVal p
  | _ => CParseErr
  end.

(* the cells ParseNDStream's producer queues, in queue order *)
Definition queue_cells (sizes : list nat) (fail_at : option nat) (stream : bytes) : list cell :=
  let '(cs, e) := chunks sizes fail_at stream in
  map parse_chunk (delivered cs) ++ [CEnd e].
