(* RefTables.v — readable reference definitions of every lookup table and
   constant the model uses.  Tie/*.v proves, on every run, that the tables and
   constants regenerated from /repo's source (gen/*.v) are equal to these. *)
From SJ Require Import Model.Base.
Open Scope N_scope.

(* parse_string_amd64.s: digittoval — hex digit value, 0xff for anything else *)
Definition digittoval_ref (c : N) : N :=
  match hexval c with Some v => v | None => 255 end.

(* parse_string_amd64.s: escape_map — byte produced by "\c", 0 = illegal *)
Definition escape_map_ref (c : N) : N :=
  if c =? 34 then 34        (* quote *)
  else if c =? 47 then 47   (* \/ *)
  else if c =? 92 then 92   (* \\ *)
  else if c =? 98 then 8    (* \b *)
  else if c =? 102 then 12  (* \f *)
  else if c =? 110 then 10  (* \n *)
  else if c =? 114 then 13  (* \r *)
  else if c =? 116 then 9   (* \t *)
  else 0.

(* stage2: structuralOrWhitespaceNegated — 0 exactly for the bytes that may
   follow true/false/null *)
Definition follow_ref (c : N) : N :=
  if is_json_ws c || is_markup c then 0 else 1.

(* parse_number.go: flag bits and class table *)
Definition fPART : N := 1.
Definition fFLOATONLY : N := 2.
Definition fMINUS : N := 4.
Definition fEOV : N := 8.
Definition fDIGIT : N := 16.
Definition fMUSTDIGIT : N := 32.

Definition isNumberRune_ref (c : N) : N :=
  if is_digit c then fPART + fDIGIT
  else if c =? cDOT then fPART + fFLOATONLY + fMUSTDIGIT
  else if c =? cPLUS then fPART
  else if c =? cMINUS then fPART + fMINUS + fMUSTDIGIT
  else if (c =? c_e) || (c =? c_E) then fPART + fFLOATONLY
  else if (c =? cCOMMA) || (c =? cRBRACE) || (c =? cRBRACK) || is_json_ws c || (c =? cCOLON)
  then fEOV
  else 0.

Definition jsonMarkup_ref (c : N) : N := if is_markup c then 1 else 0.

(* tags *)
Definition TagString : N := 34.
Definition TagInteger : N := 108.
Definition TagUint : N := 117.
Definition TagFloat : N := 100.
Definition TagNull : N := 110.
Definition TagBoolTrue : N := 116.
Definition TagBoolFalse : N := 102.
Definition TagObjectStart : N := 123.
Definition TagObjectEnd : N := 125.
Definition TagArrayStart : N := 91.
Definition TagArrayEnd : N := 93.
Definition TagRoot : N := 114.
Definition TagNop : N := 78.
Definition TagEnd : N := 0.
Definition tagFloatWithFlag : N := 101.

(* Type enumeration of parsed_json.go *)
Definition TypeNone : N := 0.
Definition TypeNull : N := 1.
Definition TypeString : N := 2.
Definition TypeInt : N := 3.
Definition TypeUint : N := 4.
Definition TypeFloat : N := 5.
Definition TypeBool : N := 6.
Definition TypeObject : N := 7.
Definition TypeArray : N := 8.
Definition TypeRoot : N := 9.

Definition TagToType_ref (t : N) : N :=
  if t =? TagString then TypeString
  else if t =? TagInteger then TypeInt
  else if t =? TagUint then TypeUint
  else if t =? TagFloat then TypeFloat
  else if t =? TagNull then TypeNull
  else if (t =? TagBoolTrue) || (t =? TagBoolFalse) then TypeBool
  else if t =? TagObjectStart then TypeObject
  else if t =? TagArrayStart then TypeArray
  else if t =? TagRoot then TypeRoot
  else TypeNone.

Definition tagOpenToClose_ref (t : N) : N :=
  if t =? TagObjectStart then TagObjectEnd
  else if t =? TagArrayStart then TagArrayEnd
  else if t =? TagRoot then TagRoot
  else 0.

Definition shouldEscape_ref (c : N) : N :=
  if (c <? 32) || (c =? 34) || (c =? 92) then 1 else 0.

Definition valToHex_ref (v : N) : N := b2n (hexdigit v).

(* tape word layout *)
Definition JSONTAGOFFSET : N := 56.
Definition JSONVALUEMASK : N := 72057594037927935.      (* 2^56 - 1 *)
Definition STRINGBUFBIT : N := 36028797018963968.       (* 2^55 *)
Definition STRINGBUFMASK : N := 36028797018963967.      (* 2^55 - 1 *)
Definition two56 : N := 72057594037927936.

Definition mk_word (tag payload : N) : N := tag * two56 + payload.
Definition word_tag (w : N) : N := w / two56.
Definition word_val (w : N) : N := w mod two56.

(* stage-1 / driver constants *)
Definition indexSlots : N := 16.
Definition indexSize : N := 1536.
Definition indexSizeWithSafetyBuffer : N := 1408.
Definition chanCap : N := 14.
Definition syncThreshold : N := 8192.
Definition maxIntLen : N := 20.
Definition FloatOverflowedInteger : N := 1.

Definition retAddressShift : N := 2.
Definition retStart : N := 1.
Definition retObject : N := 2.
Definition retArray : N := 3.
