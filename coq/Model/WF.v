(* WF.v — executable well-formedness of a tape as documented (property C17):
   root pairs, properly nested containers with mutual start/end pointers,
   strings with in-range flag/offset/length, numbers followed by their payload
   word, no other tags; NOP runs (only when [nops] is allowed) in which every
   word of a run points at the run's end, inside the enclosing container. *)
From SJ Require Import Model.Base Model.RefTables Model.Tape Model.Iter.
Open Scope N_scope.

Section WF.
Variables (nmsg nstr : N) (nops : bool).

Definition str_ok (payload len : N) : bool :=
  if N.land payload STRINGBUFBIT =? 0 then payload + len <=? nmsg
  else (N.land payload STRINGBUFMASK) + len <=? nstr.

(* a run of NOPs at the head of rest (index i): returns the position after it.
   Every word j of the run carries payload (target - j). *)
Fixpoint nop_run (fuel : nat) (i : N) (rest : list N) (target : N) : option (N * list N) :=
  match fuel with
  | O => None
  | S f =>
    if i =? target then Some (i, rest)
    else match rest with
         | w :: r => if (word_tag w =? TagNop) && (word_val w =? target - i) && (i <? target) then nop_run f (i + 1) r target else None
         | [] => None
         end
  end.

Fixpoint skip_runs (fuel : nat) (i : N) (rest : list N) : option (N * list N) :=
  match fuel with
  | O => None
  | S f =>
    match rest with
    | w :: _ =>
      if word_tag w =? TagNop then
        if negb nops || (word_val w =? 0) then None
        else match nop_run (S (N.to_nat (word_val w))) i rest (i + word_val w) with
             | Some (j, r) => skip_runs f j r
             | None => None
             end
      else Some (i, rest)
    | [] => Some (i, rest)
    end
  end.

Fixpoint wf_value (fuel : nat) (i : N) (rest : list N) {struct fuel} : option (N * list N) :=
  match fuel with
  | O => None
  | S f =>
    match rest with
    | [] => None
    | w :: r =>
      let t := word_tag w in
      let v := word_val w in
      if t =? TagString then
        match r with len :: r' => if str_ok v len then Some (i + 2, r') else None | [] => None end
      else if (t =? TagInteger) || (t =? TagUint) then
        match r with _ :: r' => if v =? 0 then Some (i + 2, r') else None | [] => None end
      else if t =? TagFloat then
        match r with _ :: r' => Some (i + 2, r') | [] => None end
      else if (t =? TagNull) || (t =? TagBoolTrue) || (t =? TagBoolFalse) then
        if v =? 0 then Some (i + 1, r) else None
      else if t =? TagArrayStart then wf_elems f i (i + 1) r v
      else if t =? TagObjectStart then wf_members f i (i + 1) r v
      else None
    end
  end
with wf_elems (fuel : nat) (start i : N) (rest : list N) (endp1 : N) {struct fuel} : option (N * list N) :=
  match fuel with
  | O => None
  | S f =>
    match skip_runs f i rest with
    | None => None
    | Some (i', rest') =>
      match rest' with
      | [] => None
      | w :: r =>
        if word_tag w =? TagArrayEnd then
          if (word_val w =? start) && (i' + 1 =? endp1) then Some (i' + 1, r) else None
        else match wf_value f i' rest' with
             | Some (j, r') => if j <? endp1 then wf_elems f start j r' endp1 else None
             | None => None
             end
      end
    end
  end
with wf_members (fuel : nat) (start i : N) (rest : list N) (endp1 : N) {struct fuel} : option (N * list N) :=
  match fuel with
  | O => None
  | S f =>
    match skip_runs f i rest with
    | None => None
    | Some (i', rest') =>
      match rest' with
      | [] => None
      | w :: r =>
        if word_tag w =? TagObjectEnd then
          if (word_val w =? start) && (i' + 1 =? endp1) then Some (i' + 1, r) else None
        else if word_tag w =? TagString then
          match r with
          | len :: r1 =>
            if str_ok (word_val w) len then
              match skip_runs f (i' + 2) r1 with
              | Some (i2, r2) =>
                match wf_value f i2 r2 with
                | Some (j, r') => if j <? endp1 then wf_members f start j r' endp1 else None
                | None => None
                end
              | None => None
              end
            else None
          | [] => None
          end
        else None
      end
    end
  end.

Fixpoint wf_roots (fuel : nat) (i : N) (rest : list N) : bool :=
  match fuel with
  | O => false
  | S f =>
    match skip_runs f i rest with
    | None => false
    | Some (i', rest') =>
      match rest' with
      | [] => true
      | w :: r =>
        if word_tag w =? TagRoot then
          match skip_runs f (i' + 1) r with
          | Some (i1, r1) =>
            match wf_value f i1 r1 with
            | Some (j, r2) =>
              match skip_runs f j r2 with
              | Some (j', c :: r3) =>
                (word_tag c =? TagRoot) && (word_val c =? i') && (word_val w =? j' + 1) && wf_roots f (j' + 1) r3
              | _ => false
              end
            | None => false
            end
          | None => false
          end
        else false
      end
    end
  end.
End WF.

Definition wf_check (nops : bool) (pj : pjson) : bool :=
  wf_roots (N.of_nat (length (pj_msg pj))) (N.of_nat (length (pj_strings pj))) nops
           (S (S (length (pj_tape pj)))) 0 (pj_tape pj).
