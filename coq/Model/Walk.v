(* Walk.v — the read paths a user drives: plain traversal (Advance / Root /
   Array.Iter / NextElementBytes), Interface()/Map(), ForEach, FindKey,
   FindPath, FindElement, and the bulk accessors of Array.  Each function
   drives the modelled API of Iter.v exactly the way the Go method (or the
   harness's walker) does. *)
From SJ Require Import Model.Base Model.RefTables Spec.Json Model.Tape Model.Iter.
Open Scope Z_scope.

Definition t_is (a b : N) : bool := (a =? b)%N.

(* ---- plain traversal (the harness's dumpDoc) ----------------------- *)
Fixpoint walk_value (fuel : nat) (pj : pjson) (i : iter) {struct fuel} : outcome doc :=
  match fuel with
  | O => OutOfFuel
  | S f =>
    let ty := iter_type i in
    if t_is ty TypeNull then Ok DNull
    else if t_is ty TypeBool then do b <- iter_bool i; Ok (DBool b)
    else if t_is ty TypeInt then do z <- iter_int pj i; Ok (DNum (NInt z))
    else if t_is ty TypeUint then do u <- iter_uint pj i; Ok (DNum (NUint u))
    else if t_is ty TypeFloat then do bf <- iter_float_flags pj i; Ok (DNum (NFloat (fst bf) (snd bf)))
    else if t_is ty TypeString then do s <- string_bytes pj i; Ok (DStr s)
    else if t_is ty TypeArray then
      do a <- iter_array i;
      (fix elems (k : nat) (it : iter) (acc : list doc) : outcome doc :=
         match k with
         | O => OutOfFuel
         | S k' =>
           do r <- advance pj it;
           let '(it', t) := r in
           if t_is t TypeNone then Ok (DArr (rev acc))
           else do d <- walk_value f pj it'; elems k' it' (d :: acc)
         end) fuel (cont_iter a) []
    else if t_is ty TypeObject then
      do o <- iter_object i;
      (fix members (k : nat) (ob : cont) (acc : list (bytes * doc)) : outcome doc :=
         match k with
         | O => OutOfFuel
         | S k' =>
           do r <- next_element (cont_fuel ob) pj ob;
           match r with
           | (_, None) => Ok (DObj (rev acc))
           | (ob', Some (name, el, _)) =>
             do d <- walk_value f pj el; members k' ob' ((name, d) :: acc)
           end
         end) fuel o []
    else Err
  end.

Fixpoint walk_roots (fuel : nat) (pj : pjson) (it : iter) (acc : list doc) : outcome (list doc) :=
  match fuel with
  | O => OutOfFuel
  | S f =>
    do r <- advance pj it;
    let '(it', t) := r in
    if t_is t TypeNone then Ok (rev acc)
    else if negb (t_is t TypeRoot) then Err
    else
      do rr <- iter_root pj it';
      do d <- walk_value (S (length (pj_tape pj))) pj (fst rr);
      walk_roots f pj it' (d :: acc)
  end.

Definition walk_doc (pj : pjson) : outcome (list doc) :=
  walk_roots (S (length (pj_tape pj))) pj (iter0 pj) [].

(* ---- Interface() / Map() ------------------------------------------- *)
Inductive ival :=
| INil | IBool (b : bool) | IInt (z : Z) | IUint (n : N) | IFloat (bits : N) | IStr (s : bytes)
| IArr (l : list ival) | IMap (l : list (bytes * ival)).

(* map assignment dst[name] = v *)
Fixpoint map_set (k : bytes) (v : ival) (l : list (bytes * ival)) : list (bytes * ival) :=
  match l with
  | [] => [(k, v)]
  | (k', v') :: r => if bytes_eqb k k' then (k, v) :: r else (k', v') :: map_set k v r
  end.

Fixpoint interface_val (fuel : nat) (pj : pjson) (i : iter) {struct fuel} : outcome ival :=
  match fuel with
  | O => OutOfFuel
  | S f =>
    let ty := TagToType_ref (i_t i) in
    if t_is ty TypeUint then do u <- iter_uint pj i; Ok (IUint u)
    else if t_is ty TypeInt then do z <- iter_int pj i; Ok (IInt z)
    else if t_is ty TypeFloat then do b <- iter_float pj i; Ok (IFloat b)
    else if t_is ty TypeNull then Ok INil
    else if t_is ty TypeString then do s <- string_bytes pj i; Ok (IStr s)
    else if t_is ty TypeBool then Ok (IBool (t_is (i_t i) TagBoolTrue))
    else if t_is ty TypeArray then
      do a <- iter_array i;
      (fix elems (k : nat) (it : iter) (acc : list ival) : outcome ival :=
         match k with
         | O => OutOfFuel
         | S k' =>
           do r <- advance pj it;
           let '(it', t) := r in
           if t_is t TypeNone then Ok (IArr (rev acc))
           else do d <- interface_val f pj it'; elems k' it' (d :: acc)
         end) fuel (cont_iter a) []
    else if t_is ty TypeObject then
      do o <- iter_object i;
      (fix members (k : nat) (ob : cont) (acc : list (bytes * ival)) : outcome ival :=
         match k with
         | O => OutOfFuel
         | S k' =>
           do r <- next_element (cont_fuel ob) pj ob;
           match r with
           | (_, None) => Ok (IMap acc)
           | (ob', Some (name, el, _)) =>
             do d <- interface_val f pj el; members k' ob' (map_set name d acc)
           end
         end) fuel o []
    else Err
  end.

(* Iter.Interface() called on pj.Iter(): TypeNone -> Advance -> TypeRoot loop *)
Fixpoint interface_roots (fuel : nat) (pj : pjson) (i : iter) (acc : list ival) : outcome (list ival) :=
  match fuel with
  | O => OutOfFuel
  | S f =>
    do rr <- iter_root pj i;
    let '(obj, typ) := rr in
    if t_is typ TypeNone then Ok (rev acc)
    else
      do e <- interface_val (S (length (pj_tape pj))) pj obj;
      do r <- advance pj i;
      let '(i', t) := r in
      if t_is t TypeRoot then interface_roots f pj i' (e :: acc) else Ok (rev (e :: acc))
  end.

Definition interface_doc (pj : pjson) : outcome (list ival) :=
  let i := iter0 pj in
  do tg <- peek_next_tag pj i;
  if t_is tg TagEnd then Err
  else
    do r <- advance pj i;
    let '(i', _) := r in
    if t_is (TagToType_ref (i_t i')) TypeRoot then interface_roots (S (length (pj_tape pj))) pj i' []
    else Err.

(* ---- Object lookups ------------------------------------------------- *)
Inductive found :=
| Found (ty : N) (i : iter)
| NotFound        (* nil / ErrPathNotFound *)
| OtherErr.

(* FindKey *)
Fixpoint find_key_loop (fuel : nat) (pj : pjson) (tmp : iter) (key : bytes) : outcome found :=
  match fuel with
  | O => OutOfFuel
  | S f =>
    do r <- advance pj tmp;
    let '(tmp, typ) := r in
    if negb (t_is typ TypeString) || (i_len tmp <=? i_off tmp + 1) then Ok NotFound
    else
      do len <- rd pj (i_len tmp) (i_off tmp);
      if negb (len =? N.of_nat (length key))%N then
        do r2 <- advance pj tmp;
        let '(tmp2, t2) := r2 in
        if t_is t2 TypeNone then Ok NotFound else find_key_loop f pj tmp2 key
      else
        match string_byte_at pj (i_cur tmp) len with
        | Ok name =>
          if negb (bytes_eqb name key) then
            do r2 <- advance pj tmp; find_key_loop f pj (fst r2) key
          else
            match advance_iter pj tmp with
            | Ok (_, Some d, ty) => Ok (Found ty d)
            | Ok (_, None, ty) => Ok (Found ty (move_to_end tmp))
            | Err => Ok NotFound
            | Crash => Crash
            | OutOfFuel => OutOfFuel
            end
        | Err => Ok NotFound
        | Crash => Crash
        | OutOfFuel => OutOfFuel
        end
  end.

Definition find_key (pj : pjson) (o : cont) (key : bytes) : outcome found :=
  find_key_loop (cont_fuel o) pj (cont_iter o) key.

(* FindPath *)
Fixpoint find_path_loop (fuel : nat) (pj : pjson) (tmp : iter) (key : bytes) (path : list bytes) : outcome found :=
  match fuel with
  | O => OutOfFuel
  | S f =>
    do r <- advance pj tmp;
    let '(tmp, typ) := r in
    if negb (t_is typ TypeString) || (i_len tmp <=? i_off tmp + 1) then Ok NotFound
    else
      do len <- rd pj (i_len tmp) (i_off tmp);
      if negb (len =? N.of_nat (length key))%N then
        do r2 <- advance pj tmp;
        let '(tmp2, t2) := r2 in
        if t_is t2 TypeNone then Ok NotFound else find_path_loop f pj tmp2 key path
      else
        match string_byte_at pj (i_cur tmp) len with
        | Ok name =>
          if negb (bytes_eqb name key) then
            do r2 <- advance pj tmp; find_path_loop f pj (fst r2) key path
          else
            match path with
            | [] =>
              match advance_iter pj tmp with
              | Ok (_, Some d, ty) => Ok (Found ty d)
              | Ok (_, None, ty) => Ok (Found ty (move_to_end tmp))
              | Err => Ok OtherErr
              | Crash => Crash
              | OutOfFuel => OutOfFuel
              end
            | k2 :: rest =>
              (* tmp.AdvanceIter(&tmp): i and dst are the same *)
              match advance_iter pj tmp with
              | Ok (i1, Some d, ty) =>
                if negb (t_is ty TypeObject) then Ok OtherErr
                else find_path_loop f pj d k2 rest
              | Ok (i1, None, ty) => Ok OtherErr
              | Err => Ok OtherErr
              | Crash => Crash
              | OutOfFuel => OutOfFuel
              end
            end
        | Err => Ok OtherErr
        | Crash => Crash
        | OutOfFuel => OutOfFuel
        end
  end.

Definition find_path (pj : pjson) (o : cont) (path : list bytes) : outcome found :=
  match path with
  | [] => Ok NotFound
  | k :: rest => find_path_loop (S (S (length (pj_tape pj))) * S (length path)) pj (cont_iter o) k rest
  end.

(* Iter.FindElement *)
Fixpoint find_element_loop (fuel : nat) (pj : pjson) (cp : iter) (path : list bytes) : outcome found :=
  match fuel with
  | O => OutOfFuel
  | S f =>
    if t_is (i_t cp) TagObjectStart then
      match iter_object cp with
      | Ok o => find_path pj o path
      | Err => Ok OtherErr
      | Crash => Crash
      | OutOfFuel => OutOfFuel
      end
    else if t_is (i_t cp) TagRoot then
      match iter_root pj cp with
      | Ok (cp', _) => find_element_loop f pj cp' path
      | Err => Ok OtherErr
      | Crash => Crash
      | OutOfFuel => OutOfFuel
      end
    else if t_is (i_t cp) TagEnd then
      do r <- advance_into pj cp;
      let '(cp', tag) := r in
      if t_is tag TagEnd then Ok NotFound else find_element_loop f pj cp' path
    else Ok OtherErr
  end.

Definition find_element (pj : pjson) (i : iter) (path : list bytes) : outcome found :=
  match path with
  | [] => Ok NotFound
  | _ => find_element_loop (S (S (length (pj_tape pj)))) pj i path
  end.

(* Object.ForEach with an optional key filter (empty list = no filter; the Go
   map's size is the number of distinct keys).  Returns the callbacks made. *)
Fixpoint distinct_count (l : list bytes) (seen : list bytes) : nat :=
  match l with
  | [] => length seen
  | k :: r => if existsb (bytes_eqb k) seen then distinct_count r seen else distinct_count r (k :: seen)
  end.

Fixpoint obj_foreach_loop (fuel : nat) (pj : pjson) (tmp : iter) (only : list bytes) (nkeys : nat) (n : nat)
         (acc : list (bytes * iter)) : outcome (list (bytes * iter)) :=
  match fuel with
  | O => OutOfFuel
  | S f =>
    do r <- advance pj tmp;
    let '(tmp, typ) := r in
    if negb (t_is typ TypeString) || (i_len tmp <=? i_off tmp + 1) then
      (if t_is typ TypeNone then Ok (rev acc) else Err)
    else
      do len <- rd pj (i_len tmp) (i_off tmp);
      do name <- string_byte_at pj (i_cur tmp) len;
      if (0 <? nkeys)%nat && negb (existsb (bytes_eqb name) only) then
        do r2 <- advance pj tmp;
        let '(tmp2, t2) := r2 in
        if t_is t2 TypeNone then Ok (rev acc) else obj_foreach_loop f pj tmp2 only nkeys n acc
      else
        do r2 <- advance pj tmp;
        let '(tmp2, t2) := r2 in
        if t_is t2 TypeNone then Ok (rev acc)
        else
          let acc' := (name, tmp2) :: acc in
          if (S n =? nkeys)%nat then Ok (rev acc') else obj_foreach_loop f pj tmp2 only nkeys (S n) acc'
  end.

Definition obj_foreach (pj : pjson) (o : cont) (only : list bytes) : outcome (list (bytes * iter)) :=
  obj_foreach_loop (cont_fuel o) pj (cont_iter o) only (distinct_count only []) 0 [].

(* Array.ForEach: the iterators passed to the callback *)
Fixpoint arr_foreach_loop (fuel : nat) (pj : pjson) (it : iter) (acc : list iter) : outcome (list iter) :=
  match fuel with
  | O => OutOfFuel
  | S f =>
    do r <- advance pj it;
    let '(it', t) := r in
    if t_is t TypeNone then Ok (rev acc) else arr_foreach_loop f pj it' (it' :: acc)
  end.
Definition arr_foreach (pj : pjson) (a : cont) : outcome (list iter) :=
  arr_foreach_loop (cont_fuel a) pj (cont_iter a) [].

(* ---- Array bulk accessors ------------------------------------------- *)
Inductive numkind := KFloat | KInt | KUint.

Fixpoint as_num_loop (fuel : nat) (k : numkind) (pj : pjson) (a : cont) (acc : list Z) : outcome (list Z) :=
  match fuel with
  | O => OutOfFuel
  | S f =>
    if c_len a <=? c_off a then Err else    (* corrupt input: array is not terminated *)
    do w <- rd pj (c_len a) (c_off a);
    let tag := word_tag w in
    let off := c_off a + 1 in
    if t_is tag TagArrayEnd then Ok (rev acc)
    else if t_is tag TagFloat || t_is tag TagInteger || t_is tag TagUint then
      if c_len a <=? off then Err
      else
        do v <- rd pj (c_len a) off;
        let i := {| i_len := c_len a; i_off := off; i_add := 1; i_cur := 0%N; i_t := tag |} in
        let res : outcome Z :=
          match k with
          | KFloat => do b <- iter_float pj i; Ok (Z.of_N b)
          | KInt => iter_int pj i
          | KUint => do u <- iter_uint pj i; Ok (Z.of_N u)
          end in
        do x <- res;
        as_num_loop f k pj {| c_len := c_len a; c_off := off + 1 |} (x :: acc)
    else if t_is tag TagNop then
      (* deleted elements: skip to the next live entry (fix F15) *)
      let skip := Z.of_N (word_val w) in
      if skip <=? 0 then Err
      else as_num_loop f k pj {| c_len := c_len a; c_off := off + (skip - 1) |} acc
    else Err
  end.
Definition as_num (k : numkind) (pj : pjson) (a : cont) : outcome (list Z) :=
  as_num_loop (cont_fuel a) k pj a [].

(* AsString: every element must be a string *)
Fixpoint as_string_loop (fuel : nat) (pj : pjson) (it : iter) (acc : list bytes) : outcome (list bytes) :=
  match fuel with
  | O => OutOfFuel
  | S f =>
    do r <- advance_iter pj it;
    match r with
    | (it', None, _) => Ok (rev acc)
    | (it', Some el, ty) =>
      if t_is ty TypeNone then Ok (rev acc)
      else if t_is ty TypeString then do s <- string_bytes pj el; as_string_loop f pj it' (s :: acc)
      else Err
    end
  end.
Definition as_string (pj : pjson) (a : cont) : outcome (list bytes) :=
  as_string_loop (cont_fuel a) pj (cont_iter a) [].

(* ---- Object.Parse ---------------------------------------------------- *)
(* Elements.Elements: (Name, Type, Iter) in order *)
Fixpoint obj_parse_loop (k : nat) (pj : pjson) (ob : cont) (acc : list (bytes * N * iter))
  : outcome (list (bytes * N * iter)) :=
  match k with
  | O => OutOfFuel
  | S k' =>
    do r <- next_element (cont_fuel ob) pj ob;
    match r with
    | (_, None) => Ok (rev acc)
    | (ob', Some (name, el, ty)) => obj_parse_loop k' pj ob' ((name, ty, el) :: acc)
    end
  end.
Definition obj_parse (pj : pjson) (o : cont) : outcome (list (bytes * N * iter)) :=
  obj_parse_loop (cont_fuel o) pj o [].
