(* Tape.v — the abstraction function from a tape (+ string buffer + message)
   to abstract documents, the canonical printer used by the correspondence
   check, and the executable tape well-formedness check of property C17. *)
From SJ Require Import Model.Base Model.RefTables Spec.Json.
Open Scope N_scope.

Definition slice (l : bytes) (off len : N) : option bytes :=
  if off + len <=? N.of_nat (length l)
  then Some (firstn (N.to_nat len) (skipn (N.to_nat off) l))
  else None.

(* ParsedJson.stringByteAt *)
Definition string_at (msg strings : bytes) (payload len : N) : option bytes :=
  if N.land payload STRINGBUFBIT =? 0 then slice msg payload len
  else slice strings (N.land payload STRINGBUFMASK) len.

Section Denote.
Variables (msg strings : bytes).

(* [rest] is the tape from index [i] on.  Skip a run of NOPs the way the
   iterators do: jump by the payload. *)
Fixpoint skip_nops (fuel : nat) (i : N) (rest : list N) : option (N * list N) :=
  match fuel with
  | O => None
  | S f =>
    match rest with
    | w :: _ =>
      if word_tag w =? TagNop then
        let k := word_val w in
        if k =? 0 then None else skip_nops f (i + k) (skipn (N.to_nat k) rest)
      else Some (i, rest)
    | [] => Some (i, rest)
    end
  end.

(* value at the head of [rest] (index i) -> document and position after it *)
Fixpoint den_value (fuel : nat) (i : N) (rest : list N) {struct fuel} : option (doc * N * list N) :=
  match fuel with
  | O => None
  | S f =>
    match rest with
    | [] => None
    | w :: r =>
      let t := word_tag w in
      let v := word_val w in
      if t =? TagString then
        match r with
        | len :: r' => match string_at msg strings v len with
                       | Some s => Some (DStr s, i + 2, r')
                       | None => None
                       end
        | [] => None
        end
      else if t =? TagInteger then
        match r with x :: r' => Some (DNum (NInt (s64 x)), i + 2, r') | [] => None end
      else if t =? TagUint then
        match r with x :: r' => Some (DNum (NUint x), i + 2, r') | [] => None end
      else if t =? TagFloat then
        match r with x :: r' => Some (DNum (NFloat x v), i + 2, r') | [] => None end
      else if t =? TagNull then Some (DNull, i + 1, r)
      else if t =? TagBoolTrue then Some (DBool true, i + 1, r)
      else if t =? TagBoolFalse then Some (DBool false, i + 1, r)
      else if t =? TagArrayStart then
        match den_elems f (i + 1) r [] with
        | Some (l, j, r') => if j =? v then Some (DArr l, j, r') else None
        | None => None
        end
      else if t =? TagObjectStart then
        match den_members f (i + 1) r [] with
        | Some (l, j, r') => if j =? v then Some (DObj l, j, r') else None
        | None => None
        end
      else None
    end
  end
with den_elems (fuel : nat) (i : N) (rest : list N) (acc : list doc) {struct fuel} : option (list doc * N * list N) :=
  match fuel with
  | O => None
  | S f =>
    match skip_nops f i rest with
    | None => None
    | Some (i', rest') =>
      match rest' with
      | [] => None
      | w :: r =>
        if word_tag w =? TagArrayEnd then Some (rev acc, i' + 1, r)
        else match den_value f i' rest' with
             | Some (d, j, r') => den_elems f j r' (d :: acc)
             | None => None
             end
      end
    end
  end
with den_members (fuel : nat) (i : N) (rest : list N) (acc : list (bytes * doc)) {struct fuel} : option (list (bytes * doc) * N * list N) :=
  match fuel with
  | O => None
  | S f =>
    match skip_nops f i rest with
    | None => None
    | Some (i', rest') =>
      match rest' with
      | [] => None
      | w :: r =>
        if word_tag w =? TagObjectEnd then Some (rev acc, i' + 1, r)
        else if word_tag w =? TagString then
          match r with
          | len :: r1 =>
            match string_at msg strings (word_val w) len with
            | Some k =>
              match skip_nops f (i' + 2) r1 with
              | Some (i2, r2) =>
                match den_value f i2 r2 with
                | Some (d, j, r') => den_members f j r' ((k, d) :: acc)
                | None => None
                end
              | None => None
              end
            | None => None
            end
          | [] => None
          end
        else None
      end
    end
  end.

(* the sequence of roots *)
Fixpoint den_roots (fuel : nat) (i : N) (rest : list N) (acc : list doc) : option (list doc) :=
  match fuel with
  | O => None
  | S f =>
    match skip_nops f i rest with
    | None => None
    | Some (i', rest') =>
      match rest' with
      | [] => Some (rev acc)
      | w :: r =>
        if word_tag w =? TagRoot then
          match skip_nops f (i' + 1) r with
          | Some (i1, r1) =>
            match den_value f i1 r1 with
            | Some (d, j, r2) =>
              match skip_nops f j r2 with
              | Some (j', c :: r3) =>
                if (word_tag c =? TagRoot) && (word_val c =? i') && (word_val w =? j' + 1)
                then den_roots f (j' + 1) r3 (d :: acc) else None
              | _ => None
              end
            | None => None
            end
          | None => None
          end
        else None
      end
    end
  end.
End Denote.

Definition denote (msg strings : bytes) (tape : list N) : option (list doc) :=
  den_roots msg strings (S (length tape)) 0 tape [].

(* ------------------------------------------------------------------ *)
(* canonical printing of documents                                     *)

Definition lit1 (c : N) : bytes := [n2b c].

Definition show_num (n : num) : bytes :=
  match n with
  | NInt z => lit1 105 ++ dec_of_Z z ++ lit1 59
  | NUint u => lit1 117 ++ dec_of_N u ++ lit1 59
  | NFloat b fl => lit1 100 ++ hex16_of_N b ++ lit1 58 ++ dec_of_N fl ++ lit1 59
  end.

Fixpoint show_doc (d : doc) : bytes :=
  match d with
  | DNull => lit1 110
  | DBool true => lit1 116
  | DBool false => lit1 102
  | DNum n => show_num n
  | DStr s => lit1 115 ++ hex_of_bytes s ++ lit1 59
  | DArr l => lit1 91 ++ flat_map show_doc l ++ lit1 93
  | DObj l => lit1 123 ++ flat_map (fun kv => lit1 107 ++ hex_of_bytes (fst kv) ++ lit1 59 ++ show_doc (snd kv)) l ++ lit1 125
  end.

Definition show_docs (l : list doc) : bytes := flat_map (fun d => show_doc d ++ lit1 124) l.
