(* SerSteps.v — one-step equations for Serialize ([ser3]) and Deserialize
   ([deser_loop]) per kind of tape item. *)
From Coq Require Import ZifyBool ZifyN ZifyNat.
From SJ Require Import Model.Base Model.RefTables Spec.Json Model.Tape Model.Iter Model.WF Model.Serialize.
From SJ Require Import Proofs.StrArith Proofs.Stage2Base Proofs.DeserSafe Proofs.SerBase Proofs.SerFlat.
Open Scope N_scope.

(* ------------------------------------------------------------------ *)
(* Deserialize states with whole value words only                      *)

Definition mkst (D : list N) (off : N) (vl : list N) (s : N) : de_st :=
  {| d_tape := D; d_off := off; d_vals := vl; d_vrem := 8 * N.of_nat (length vl); d_skips := s |}.

Lemma take_val_mkst D off v vl s : take_val (mkst D off (v :: vl) s) = Some (v, mkst D off vl s).
Proof.
  unfold take_val, mkst. cbn [d_vrem d_vals d_tape d_off d_skips].
  replace (8 * N.of_nat (length (v :: vl)) <? 8) with false by (cbn [length]; lia).
  f_equal. f_equal. f_equal. cbn [length]. lia.
Qed.

Definition deser_body (f : nat) (tr : bytes) (t len : N) (st : de_st) : outcome de_st :=
          let off := d_off st in
          let tagDst := mk_word t 0 in
          if t =? TagNop then
            deser_loop f tr {| d_tape := d_tape st; d_off := off; d_vals := d_vals st; d_vrem := d_vrem st; d_skips := d_skips st + 1 |}
          else if t =? TagString then
            if d_vrem st <? 16 then Err
            else if len <=? off + 1 then Err
            else match take_val st with
                 | Some (so, st1) =>
                   match take_val st1 with
                   | Some (sl, st2) =>
                     if JSONVALUEMASK <? so then Err
                     else deser_loop f tr (set_tape_off st2 (tape_set (tape_set (d_tape st2) off (N.lor tagDst so)) (off + 1) sl) (off + 2))
                   | None => Err
                   end
                 | None => Err
                 end
          else if (t =? TagFloat) || (t =? TagInteger) || (t =? TagUint) then
            if d_vrem st <? 8 then Err
            else if len <=? off + 1 then Err
            else match take_val st with
                 | Some (v, st1) => deser_loop f tr (set_tape_off st1 (tape_set (tape_set (d_tape st1) off tagDst) (off + 1) v) (off + 2))
                 | None => Err
                 end
          else if t =? tagFloatWithFlag then
            if d_vrem st <? 16 then Err
            else if len <=? off + 1 then Err
            else match take_val st with
                 | Some (w0, st1) =>
                   match take_val st1 with
                   | Some (w1, st2) =>
                     if negb (w0 / two56 =? TagFloat) then Err
                     else deser_loop f tr (set_tape_off st2 (tape_set (tape_set (d_tape st2) off w0) (off + 1) w1) (off + 2))
                   | None => Err
                   end
                 | None => Err
                 end
          else if (t =? TagNull) || (t =? TagBoolTrue) || (t =? TagBoolFalse) || (t =? TagEnd) then
            deser_loop f tr (set_tape_off st (tape_set (d_tape st) off tagDst) (off + 1))
          else if (t =? TagObjectStart) || (t =? TagArrayStart) then
            match take_val st with
            | Some (v, st1) =>
              let val := w64 (v + off) in
              if (len <? val) || (val <=? off) then Err
              else
                let tp := tape_set (d_tape st1) off (N.lor tagDst val) in
                let tp2 := tape_set tp (val - 1) (N.lor (mk_word (tagOpenToClose_ref t) 0) off) in
                deser_loop f tr (set_tape_off st1 tp2 (off + 1))
            | None => Err
            end
          else if t =? TagRoot then
            match take_val st with
            | Some (v, st1) =>
              let val := w64 (v + off) in
              if len <? val then Err
              else deser_loop f tr (set_tape_off st1 (tape_set (d_tape st1) off (N.lor tagDst val)) (off + 1))
            | None => Err
            end
          else if (t =? TagObjectEnd) || (t =? TagArrayEnd) then
            match nth_error (d_tape st) (N.to_nat off) with
            | Some w => if (w / two56) =? t then deser_loop f tr (set_tape_off st (d_tape st) (off + 1)) else Err
            | None => Crash
            end
          else Err.

Lemma deser_loop_body f tb tr st :
  deser_loop (S f) (tb :: tr) st =
    let len := N.of_nat (length (d_tape st)) in
    if d_off st =? len then Err
    else match do_flush (b2n tb) st with
         | None => Err
         | Some st1 => deser_body f tr (b2n tb) len st1
         end.
Proof. reflexivity. Qed.

Lemma do_flush_0 t D off vl : do_flush t (mkst D off vl 0) = Some (mkst D off vl 0).
Proof. reflexivity. Qed.

(* a step on a state without pending NOPs and a non-full tape *)
Lemma deser_loop_step0 f t tr D off vl : t < 256 -> off < N.of_nat (length D) ->
  deser_loop (S f) (n2b t :: tr) (mkst D off vl 0) = deser_body f tr t (N.of_nat (length D)) (mkst D off vl 0).
Proof.
  intros Ht Hoff. rewrite deser_loop_body. cbv zeta. cbn [mkst d_tape d_off].
  replace (off =? N.of_nat (length D)) with false by lia.
  rewrite b2n_n2b_small by exact Ht.
  change (do_flush t {| d_tape := D; d_off := off; d_vals := vl; d_vrem := 8 * N.of_nat (length vl); d_skips := 0 |})
    with (do_flush t (mkst D off vl 0)).
  rewrite do_flush_0. reflexivity.
Qed.

Lemma step_nop f tr D off vl s : off < N.of_nat (length D) ->
  deser_loop (S f) (n2b TagNop :: tr) (mkst D off vl s) = deser_loop f tr (mkst D off vl (s + 1)).
Proof.
  intros Hoff. rewrite deser_loop_body. cbv zeta. cbn [mkst d_tape d_off].
  replace (off =? N.of_nat (length D)) with false by lia.
  rewrite b2n_n2b_small by (unfold TagNop; lia).
  unfold do_flush. change (TagNop =? TagNop) with true. cbn [negb]. rewrite andb_false_r.
  reflexivity.
Qed.

Lemma steps_nops : forall k f tr D off vl s, off < N.of_nat (length D) ->
  deser_loop (k + f) (repeat (n2b TagNop) k ++ tr) (mkst D off vl s) = deser_loop f tr (mkst D off vl (s + N.of_nat k)).
Proof.
  induction k as [|k IH]; intros f tr D off vl s Hoff.
  - cbn [plus repeat app]. rewrite N.add_0_r. reflexivity.
  - cbn [plus repeat app]. rewrite step_nop by exact Hoff. rewrite IH by exact Hoff.
    f_equal. f_equal. lia.
Qed.

Lemma do_flush_k t D off vl k : 0 < k -> (t =? TagNop) = false ->
  off + k < N.of_nat (length D) ->
  do_flush t (mkst D off vl k) = Some (mkst (fst (flush_nops (N.to_nat k) D off k)) (off + k) vl 0).
Proof.
  intros Hk Ht Hb. unfold do_flush. cbn [mkst d_skips d_tape d_off d_vals d_vrem].
  replace (0 <? k) with true by lia. rewrite Ht. cbn [negb andb].
  replace (N.of_nat (length D) - off <? k) with false by lia.
  pose proof (flush_nops_off (N.to_nat k) D off k (N2Nat.id _)) as Ho.
  destruct (flush_nops (N.to_nat k) D off k) as [tp off']. cbn [fst snd] in *. subst off'.
  replace (off + k =? N.of_nat (length D)) with false by lia. reflexivity.
Qed.

Lemma step_flush f tb tr D off vl k : 0 < k -> (b2n tb =? TagNop) = false ->
  off + k < N.of_nat (length D) ->
  deser_loop (S f) (tb :: tr) (mkst D off vl k) =
  deser_loop (S f) (tb :: tr) (mkst (fst (flush_nops (N.to_nat k) D off k)) (off + k) vl 0).
Proof.
  intros Hk Ht Hb. rewrite !deser_loop_body. cbv zeta.
  rewrite do_flush_k by assumption. rewrite do_flush_0.
  cbn [mkst d_tape d_off].
  rewrite flush_nops_length.
  replace (off =? N.of_nat (length D)) with false by lia.
  replace (off + k =? N.of_nat (length D)) with false by lia.
  reflexivity.
Qed.

Lemma step_string f tr D off so sl vs : off + 2 <= N.of_nat (length D) -> so <= JSONVALUEMASK ->
  deser_loop (S f) (n2b TagString :: tr) (mkst D off (so :: sl :: vs) 0) =
  deser_loop f tr (mkst (tape_set (tape_set D off (N.lor (mk_word TagString 0) so)) (off + 1) sl) (off + 2) vs 0).
Proof.
  intros Hb Hso. rewrite deser_loop_step0 by (unfold TagString; lia).
  unfold deser_body. cbv zeta.
  change (TagString =? TagNop) with false. change (TagString =? TagString) with true. cbv iota.
  cbn [mkst d_vrem d_off].
  replace (8 * N.of_nat (length (so :: sl :: vs)) <? 16) with false by (cbn [length]; lia).
  replace (N.of_nat (length D) <=? off + 1) with false by lia.
  fold (mkst D off (so :: sl :: vs) 0). rewrite !take_val_mkst.
  replace (JSONVALUEMASK <? so) with false by lia. reflexivity.
Qed.

Lemma step_num f tr t D off v vs : t = TagFloat \/ t = TagInteger \/ t = TagUint ->
  off + 2 <= N.of_nat (length D) ->
  deser_loop (S f) (n2b t :: tr) (mkst D off (v :: vs) 0) =
  deser_loop f tr (mkst (tape_set (tape_set D off (mk_word t 0)) (off + 1) v) (off + 2) vs 0).
Proof.
  intros Ht Hb.
  assert (Hcase : (t =? TagNop) = false /\ (t =? TagString) = false /\
                  (t =? TagFloat) || (t =? TagInteger) || (t =? TagUint) = true /\ t < 256).
  { destruct Ht as [ -> | [ -> | -> ] ]; repeat split. }
  destruct Hcase as (E1 & E2 & E3 & E4).
  rewrite deser_loop_step0 by lia.
  unfold deser_body. cbv zeta. rewrite E1, E2, E3.
  cbn [mkst d_vrem d_off].
  replace (8 * N.of_nat (length (v :: vs)) <? 8) with false by (cbn [length]; lia).
  replace (N.of_nat (length D) <=? off + 1) with false by lia.
  fold (mkst D off (v :: vs) 0). rewrite !take_val_mkst. reflexivity.
Qed.

Lemma step_fltflag f tr D off w0 w1 vs : off + 2 <= N.of_nat (length D) -> word_tag w0 = TagFloat ->
  deser_loop (S f) (n2b tagFloatWithFlag :: tr) (mkst D off (w0 :: w1 :: vs) 0) =
  deser_loop f tr (mkst (tape_set (tape_set D off w0) (off + 1) w1) (off + 2) vs 0).
Proof.
  intros Hb Hw. rewrite deser_loop_step0 by (unfold tagFloatWithFlag; lia).
  unfold deser_body. cbv zeta.
  change (tagFloatWithFlag =? TagNop) with false. change (tagFloatWithFlag =? TagString) with false.
  change ((tagFloatWithFlag =? TagFloat) || (tagFloatWithFlag =? TagInteger) || (tagFloatWithFlag =? TagUint)) with false.
  change (tagFloatWithFlag =? tagFloatWithFlag) with true. cbv iota.
  cbn [mkst d_vrem d_off].
  replace (8 * N.of_nat (length (w0 :: w1 :: vs)) <? 16) with false by (cbn [length]; lia).
  replace (N.of_nat (length D) <=? off + 1) with false by lia.
  fold (mkst D off (w0 :: w1 :: vs) 0). rewrite !take_val_mkst.
  unfold word_tag in Hw. rewrite Hw. change (negb (TagFloat =? TagFloat)) with false. cbv iota. reflexivity.
Qed.

Lemma step_atom f tr t D off vs : t = TagNull \/ t = TagBoolTrue \/ t = TagBoolFalse ->
  off + 1 <= N.of_nat (length D) ->
  deser_loop (S f) (n2b t :: tr) (mkst D off vs 0) =
  deser_loop f tr (mkst (tape_set D off (mk_word t 0)) (off + 1) vs 0).
Proof.
  intros Ht Hb.
  assert (Hcase : (t =? TagNop) = false /\ (t =? TagString) = false /\
                  (t =? TagFloat) || (t =? TagInteger) || (t =? TagUint) = false /\
                  (t =? tagFloatWithFlag) = false /\
                  (t =? TagNull) || (t =? TagBoolTrue) || (t =? TagBoolFalse) || (t =? TagEnd) = true /\ t < 256).
  { destruct Ht as [ -> | [ -> | -> ] ]; repeat split. }
  destruct Hcase as (E1 & E2 & E3 & E4 & E5 & E6).
  rewrite deser_loop_step0 by lia.
  unfold deser_body. cbv zeta. rewrite E1, E2, E3, E4, E5. reflexivity.
Qed.

Lemma w64_roundtrip payload off : payload < two64 -> off < two64 ->
  w64 (w64 (payload + two64 - off) + off) = payload.
Proof.
  intros Hp Ho. unfold w64, two64 in *.
  destruct (N.le_gt_cases off payload) as [Hle|Hgt].
  - replace (payload + 18446744073709551616 - off) with ((payload - off) + 1 * 18446744073709551616) by lia.
    rewrite N.mod_add by discriminate. rewrite (N.mod_small (payload - off)) by lia.
    replace (payload - off + off) with payload by lia. apply N.mod_small. lia.
  - rewrite (N.mod_small (payload + 18446744073709551616 - off)) by lia.
    replace (payload + 18446744073709551616 - off + off) with (payload + 1 * 18446744073709551616) by lia.
    rewrite N.mod_add by discriminate. apply N.mod_small. lia.
Qed.

Lemma step_open f tr t D off payload vs : t = TagObjectStart \/ t = TagArrayStart ->
  off < payload -> payload <= N.of_nat (length D) -> N.of_nat (length D) < two56 ->
  deser_loop (S f) (n2b t :: tr) (mkst D off (w64 (payload + two64 - off) :: vs) 0) =
  deser_loop f tr (mkst (tape_set (tape_set D off (mk_word t payload)) (payload - 1) (mk_word (tagOpenToClose_ref t) off)) (off + 1) vs 0).
Proof.
  intros Ht Hlt Hle Hlen.
  assert (Hcase : (t =? TagNop) = false /\ (t =? TagString) = false /\
                  (t =? TagFloat) || (t =? TagInteger) || (t =? TagUint) = false /\
                  (t =? tagFloatWithFlag) = false /\
                  (t =? TagNull) || (t =? TagBoolTrue) || (t =? TagBoolFalse) || (t =? TagEnd) = false /\
                  (t =? TagObjectStart) || (t =? TagArrayStart) = true /\ t < 256).
  { destruct Ht as [ -> | -> ]; repeat split. }
  destruct Hcase as (E1 & E2 & E3 & E4 & E5 & E6 & E7).
  rewrite deser_loop_step0 by lia.
  unfold deser_body. cbv zeta. rewrite E1, E2, E3, E4, E5, E6.
  rewrite take_val_mkst. cbn [mkst d_off d_tape].
  rewrite w64_roundtrip by (unfold two56, two64 in *; lia).
  replace ((N.of_nat (length D) <? payload) || (payload <=? off)) with false by lia.
  rewrite !lor_mk by lia. reflexivity.
Qed.

Lemma step_root f tr D off payload vs :
  payload <= N.of_nat (length D) -> off < N.of_nat (length D) -> N.of_nat (length D) < two56 ->
  deser_loop (S f) (n2b TagRoot :: tr) (mkst D off (w64 (payload + two64 - off) :: vs) 0) =
  deser_loop f tr (mkst (tape_set D off (mk_word TagRoot payload)) (off + 1) vs 0).
Proof.
  intros Hle Hoff Hlen.
  rewrite deser_loop_step0 by (unfold TagRoot; lia).
  unfold deser_body. cbv zeta.
  change (TagRoot =? TagNop) with false. change (TagRoot =? TagString) with false.
  change ((TagRoot =? TagFloat) || (TagRoot =? TagInteger) || (TagRoot =? TagUint)) with false.
  change (TagRoot =? tagFloatWithFlag) with false.
  change ((TagRoot =? TagNull) || (TagRoot =? TagBoolTrue) || (TagRoot =? TagBoolFalse) || (TagRoot =? TagEnd)) with false.
  change ((TagRoot =? TagObjectStart) || (TagRoot =? TagArrayStart)) with false.
  change (TagRoot =? TagRoot) with true. cbv iota.
  rewrite take_val_mkst. cbn [mkst d_off d_tape].
  rewrite w64_roundtrip by (unfold two56, two64 in *; lia).
  replace (N.of_nat (length D) <? payload) with false by lia.
  rewrite !lor_mk by lia. reflexivity.
Qed.

Lemma step_close f tr t D off q vs : t = TagObjectEnd \/ t = TagArrayEnd ->
  get D off = Some (mk_word t q) -> q < two56 ->
  deser_loop (S f) (n2b t :: tr) (mkst D off vs 0) = deser_loop f tr (mkst D (off + 1) vs 0).
Proof.
  intros Ht Hget Hq.
  assert (Hcase : (t =? TagNop) = false /\ (t =? TagString) = false /\
                  (t =? TagFloat) || (t =? TagInteger) || (t =? TagUint) = false /\
                  (t =? tagFloatWithFlag) = false /\
                  (t =? TagNull) || (t =? TagBoolTrue) || (t =? TagBoolFalse) || (t =? TagEnd) = false /\
                  (t =? TagObjectStart) || (t =? TagArrayStart) = false /\ (t =? TagRoot) = false /\
                  (t =? TagObjectEnd) || (t =? TagArrayEnd) = true /\ t < 256).
  { destruct Ht as [ -> | -> ]; repeat split. }
  destruct Hcase as (E1 & E2 & E3 & E4 & E5 & E6 & E7 & E8 & E9).
  pose proof (get_lt _ _ _ Hget) as Hoff.
  rewrite deser_loop_step0 by lia.
  unfold deser_body. cbv zeta. rewrite E1, E2, E3, E4, E5, E6, E7, E8.
  cbn [mkst d_off d_tape]. unfold get in Hget. rewrite Hget.
  fold (word_tag (mk_word t q)). rewrite word_tag_mk by exact Hq. rewrite N.eqb_refl. reflexivity.
Qed.

(* the final flush of deser_core *)
Definition deser_fin (st : de_st) : outcome (list N) :=
    let len := N.of_nat (length (d_tape st)) in
    let fin : option (list N * N) :=
      if 0 <? d_skips st then
        if len - d_off st <? d_skips st then None
        else Some (flush_nops (N.to_nat (d_skips st)) (d_tape st) (d_off st) (d_skips st))
      else Some (d_tape st, d_off st) in
    match fin with
    | None => Err
    | Some (tp, off) =>
      if negb (off =? len) then Err
      else if 0 <? d_vrem st then Err
      else Ok tp
    end.

Lemma deser_core_fin init tags vb :
  deser_core init tags vb =
  match deser_loop (S (length tags)) tags
          {| d_tape := init; d_off := 0; d_vals := le_words (S (length vb)) vb;
             d_vrem := N.of_nat (length vb); d_skips := 0 |} with
  | Ok st => deser_fin st
  | Err => Err | Crash => Crash | OutOfFuel => OutOfFuel
  end.
Proof. reflexivity. Qed.

Lemma deser_fin_0 D off : off = N.of_nat (length D) -> deser_fin (mkst D off [] 0) = Ok D.
Proof.
  intros ->. unfold deser_fin. cbn [mkst d_skips d_tape d_off d_vrem length].
  change (0 <? 0) with false. cbv iota. rewrite N.eqb_refl. cbn [negb].
  change (0 <? 8 * N.of_nat 0) with false. reflexivity.
Qed.

Lemma deser_fin_k D off k : 0 < k -> off + k = N.of_nat (length D) ->
  deser_fin (mkst D off [] k) = Ok (fst (flush_nops (N.to_nat k) D off k)).
Proof.
  intros Hk Hb. unfold deser_fin. cbn [mkst d_skips d_tape d_off d_vrem length].
  replace (0 <? k) with true by lia.
  replace (N.of_nat (length D) - off <? k) with false by lia.
  pose proof (flush_nops_off (N.to_nat k) D off k (N2Nat.id _)) as Ho.
  destruct (flush_nops (N.to_nat k) D off k) as [tp off']. cbn [fst snd] in *. subst off'.
  replace (off + k =? N.of_nat (length D)) with true by lia. cbn [negb].
  change (0 <? 8 * N.of_nat 0) with false. reflexivity.
Qed.

(* ------------------------------------------------------------------ *)
(* Serialize, per item                                                  *)

Section Ser.
Variable hash : bytes -> N.
Variable pj : pjson.

Lemma ser3_nop off w r sb tbl : word_tag w = TagNop ->
  ser3 hash pj off (w :: r) sb tbl = emit [n2b TagNop] [] (ser3 hash pj (off + 1) r sb tbl).
Proof. intros H. rewrite ser3_cons. cbv zeta. rewrite H. reflexivity. Qed.

Lemma ser3_str off w len r sb tbl : word_tag w = TagString ->
  ser3 hash pj off (w :: len :: r) sb tbl =
  match string_byte_at pj (word_val w) len with
  | Ok s => let '(sb1, tbl1, o) := idx hash sb tbl s in
            emit [n2b TagString] [o; N.of_nat (length s)] (ser3 hash pj (off + 2) r sb1 tbl1)
  | Err => Crash | Crash => Crash | OutOfFuel => OutOfFuel
  end.
Proof. intros H. rewrite ser3_cons. cbv zeta. rewrite H. reflexivity. Qed.

Lemma ser3_num off w v r sb tbl : word_tag w = TagInteger \/ word_tag w = TagUint ->
  ser3 hash pj off (w :: v :: r) sb tbl = emit [n2b (word_tag w)] [v] (ser3 hash pj (off + 2) r sb tbl).
Proof. intros [H|H]; rewrite ser3_cons; cbv zeta; rewrite H; reflexivity. Qed.

Lemma ser3_flt off w v r sb tbl : word_tag w = TagFloat ->
  ser3 hash pj off (w :: v :: r) sb tbl =
  if word_val w =? 0 then emit [n2b TagFloat] [v] (ser3 hash pj (off + 2) r sb tbl)
  else emit [n2b tagFloatWithFlag] [w; v] (ser3 hash pj (off + 2) r sb tbl).
Proof. intros H. rewrite ser3_cons. cbv zeta. rewrite H. reflexivity. Qed.

Lemma ser3_atom off w r sb tbl : word_tag w = TagNull \/ word_tag w = TagBoolTrue \/ word_tag w = TagBoolFalse ->
  ser3 hash pj off (w :: r) sb tbl = emit [n2b (word_tag w)] [] (ser3 hash pj (off + 1) r sb tbl).
Proof. intros [H|[H|H]]; rewrite ser3_cons; cbv zeta; rewrite H; reflexivity. Qed.

Lemma ser3_open off w r sb tbl : is_opent (word_tag w) ->
  ser3 hash pj off (w :: r) sb tbl =
  emit [n2b (word_tag w)] [w64 (word_val w + two64 - off)] (ser3 hash pj (off + 1) r sb tbl).
Proof. intros [H|[H|H]]; rewrite ser3_cons; cbv zeta; rewrite H; reflexivity. Qed.

Lemma ser3_close off w r sb tbl : word_tag w = TagObjectEnd \/ word_tag w = TagArrayEnd ->
  ser3 hash pj off (w :: r) sb tbl = emit [n2b (word_tag w)] [] (ser3 hash pj (off + 1) r sb tbl).
Proof. intros [H|H]; rewrite ser3_cons; cbv zeta; rewrite H; reflexivity. Qed.

Lemma emit_emit a b c d o : emit a b (emit c d o) = emit (a ++ c) (b ++ d) o.
Proof. destruct o as [[[x y] z]| | |]; cbn [emit]; try reflexivity. rewrite !app_assoc. reflexivity. Qed.

Lemma nrun_all_nop : forall k, N.of_nat k < two56 -> Forall (fun w => word_tag w = TagNop) (nrun k).
Proof.
  induction k as [|k IH]; intros Hk; [constructor|].
  cbn [nrun]. constructor; [apply word_tag_mk; exact Hk|]. apply IH. lia.
Qed.

Lemma nruns_all_nop ns : nruns ns -> Forall (fun w => word_tag w = TagNop) ns.
Proof.
  induction 1 as [|k ns Hk Hk2 Hns IH]; [constructor|].
  apply Forall_app. split; [apply nrun_all_nop; exact Hk2|exact IH].
Qed.

Lemma ser3_nops : forall ns off r sb tbl, Forall (fun w => word_tag w = TagNop) ns ->
  ser3 hash pj off (ns ++ r) sb tbl =
  emit (repeat (n2b TagNop) (length ns)) [] (ser3 hash pj (off + N.of_nat (length ns)) r sb tbl).
Proof.
  induction ns as [|w ns IH]; intros off r sb tbl Hall.
  - cbn [app length repeat]. rewrite N.add_0_r.
    destruct (ser3 hash pj off r sb tbl) as [[[x y] z]| | |]; reflexivity.
  - inversion Hall as [|? ? Hw Hns]; subst. cbn [app]. rewrite ser3_nop by exact Hw.
    rewrite IH by exact Hns. rewrite emit_emit. cbn [length repeat app].
    replace (off + 1 + N.of_nat (length ns)) with (off + N.of_nat (S (length ns))) by lia. reflexivity.
Qed.

End Ser.
