(* TotalS1.v — what stage 1 hands to stage 2, for ARBITRARY input bytes
   (either mode): non-empty index buffers whose concatenation is a prefix of
   the structural positions of the plain fold [s1_fold]; these positions are
   strictly increasing and inside the message; every handed position that
   holds a double quote is the opening quote of a string that is closed
   inside the message ([qscan] finds its closing quote); and when the verdict
   is [true] the last handed position holds a closing brace or bracket. *)
From Coq Require Import ZifyBool ZifyN ZifyNat.
From SJ Require Import Model.Base Model.RefTables Spec.Json Model.Stage1.
From SJ Require Import Proofs.StrProofs Proofs.Stage1Proofs Proofs.Stage1Buffers.
From SJ Require Import Proofs.TotalDefs Proofs.TotalStr.
Open Scope N_scope.
Ltac Zify.zify_post_hook ::= Z.div_mod_to_equations.

(* ------------------------------------------------------------------ *)
(* per-byte facts, from any state                                      *)

(* reachable states: right after a backslash the pseudo-predecessor flag is off *)
Definition st_ok (st : s1st) : Prop := s_bsodd st = true -> s_pred st = false.

Lemma st_ok_init : st_ok s1_init.
Proof. intros H. discriminate H. Qed.

Lemma st_ok_step nd st c : st_ok (fst (s1_step nd st c)).
Proof.
  unfold st_ok, s1_step. cbn [fst s_bsodd s_pred].
  destruct (c =? cBSLASH) eqn:Eb; [|discriminate].
  apply N.eqb_eq in Eb. subst c. intros _. reflexivity.
Qed.

(* a structural double quote opens a string *)
Lemma step_quote_struct nd st : st_ok st -> snd (s1_step nd st cQUOTE) = true ->
  s_instr (fst (s1_step nd st cQUOTE)) = true /\ s_bsodd (fst (s1_step nd st cQUOTE)) = false.
Proof.
  destruct st as [bo ins pr er]. unfold st_ok. cbn [s_bsodd s_pred]. intros Hok.
  destruct bo.
  - rewrite (Hok eq_refl). destruct ins, nd; vm_compute; intros H; try discriminate H.
  - destruct ins, pr, nd; vm_compute; intros H; try discriminate H; split; reflexivity.
Qed.

(* inside a string, not after a backslash, not at a quote *)
Lemma step_in nd st c : s_instr st = true -> s_bsodd st = false -> (c =? cQUOTE) = false ->
  snd (s1_step nd st c) = false /\ s_instr (fst (s1_step nd st c)) = true /\
  s_bsodd (fst (s1_step nd st c)) = (c =? cBSLASH).
Proof.
  destruct st as [bo ins pr er]. cbn [s_bsodd s_instr]. intros -> -> Hq.
  unfold s1_step. cbn [s_bsodd s_instr s_pred s_err fst snd]. rewrite Hq.
  destruct (c =? cBSLASH), (is_markup c), (is_json_ws c), pr, nd, (c =? cLF); cbn; auto.
Qed.

(* inside a string, right after an odd run of backslashes *)
Lemma step_esc nd st c : s_instr st = true -> s_bsodd st = true ->
  snd (s1_step nd st c) = false /\ s_instr (fst (s1_step nd st c)) = true /\
  s_bsodd (fst (s1_step nd st c)) = false.
Proof.
  destruct st as [bo ins pr er]. cbn [s_bsodd s_instr]. intros -> ->.
  unfold s1_step. cbn [s_bsodd s_instr s_pred s_err fst snd].
  destruct (c =? cBSLASH) eqn:Eb; destruct (c =? cQUOTE) eqn:Eq;
    try (exfalso; unfold cBSLASH, cQUOTE in *; lia);
    destruct (is_markup c), (is_json_ws c), pr, nd, (c =? cLF); cbn; auto.
Qed.

(* ------------------------------------------------------------------ *)
(* an unclosed string swallows the rest of the message                 *)

Lemma s1_fold_nostruct nd st p b r :
  snd (s1_step nd st (b2n b)) = false ->
  s1_fold nd st p (b :: r) = s1_fold nd (fst (s1_step nd st (b2n b))) (S p) r.
Proof. intros H. cbn [s1_fold]. rewrite H. reflexivity. Qed.

Lemma fold_unclosed nd : forall n r st p,
  (length r <= n)%nat -> s_instr st = true -> s_bsodd st = false -> qscan r = None ->
  snd (s1_fold nd st p r) = [] /\ s_instr (fst (s1_fold nd st p r)) = true.
Proof.
  induction n as [|n IH]; intros r st p Hn Hi Hb Hq.
  - destruct r; [|cbn [length] in Hn; lia]. cbn [s1_fold fst snd]. auto.
  - destruct r as [|b r1]; [cbn [s1_fold fst snd]; auto|].
    cbn [qscan] in Hq. cbn [length] in Hn.
    destruct (b2n b =? cQUOTE) eqn:Eq; [discriminate|].
    destruct (step_in nd st (b2n b) Hi Hb Eq) as (S1 & S2 & S3).
    rewrite (s1_fold_nostruct nd st p b r1 S1).
    destruct (b2n b =? cBSLASH) eqn:Ebs.
    + destruct r1 as [|e r2].
      * cbn [s1_fold fst snd]. auto.
      * cbn [length] in Hn.
        destruct (step_esc nd (fst (s1_step nd st (b2n b))) (b2n e) S2 S3) as (T1 & T2 & T3).
        rewrite (s1_fold_nostruct nd _ (S p) e r2 T1).
        apply IH; try assumption; [lia|].
        destruct (qscan r2); [discriminate|reflexivity].
    + apply IH; try assumption; [lia|].
      destruct (qscan r1); [discriminate|reflexivity].
Qed.

(* every structural double quote that is followed by another structural, or
   by a final state outside strings, is closed *)
Lemma fold_closed nd msg : forall bs pre st,
  msg = pre ++ bs -> st_ok st ->
  forall a q b, snd (s1_fold nd st (length pre) bs) = a ++ q :: b ->
  nth_b msg q = cQUOTE ->
  (b <> [] \/ s_instr (fst (s1_fold nd st (length pre) bs)) = false) ->
  qscan (skipn (S q) msg) <> None.
Proof.
  induction bs as [|x r IH]; intros pre st Hmsg Hok a q b Hsplit Hq Hleave.
  { cbn [s1_fold snd] in Hsplit. destruct a; discriminate. }
  assert (Hmsg' : msg = (pre ++ [x]) ++ r) by (rewrite <- app_assoc; exact Hmsg).
  assert (Hlen' : length (pre ++ [x]) = S (length pre)) by (rewrite app_length; cbn [length]; lia).
  cbn [s1_fold] in Hsplit, Hleave.
  destruct (snd (s1_step nd st (b2n x))) eqn:Es.
  - cbn [consp fst snd] in Hsplit, Hleave.
    destruct a as [|a0 a'].
    + cbn [app] in Hsplit. injection Hsplit as Hq0 Hb.
      (* the quote is this byte *)
      assert (Hx : b2n x = cQUOTE).
      { rewrite <- Hq, <- Hq0, Hmsg. pose proof (nth_b_app_r pre (x :: r) 0) as E.
        rewrite Nat.add_0_r in E. rewrite E. reflexivity. }
      assert (Hsk : skipn (S q) msg = r).
      { rewrite <- Hq0, Hmsg', <- Hlen'. rewrite skipn_app, Nat.sub_diag, skipn_all. reflexivity. }
      rewrite Hsk. intros Hnone.
      rewrite Hx in Es.
      destruct (step_quote_struct nd st Hok Es) as [I1 I2].
      rewrite Hx in Hb, Hleave.
      destruct (fold_unclosed nd (length r) r _ (S (length pre)) (le_n _) I1 I2 Hnone) as [F1 F2].
      destruct Hleave as [Hne|Hout].
      * apply Hne. rewrite <- Hb. exact F1.
      * rewrite F2 in Hout. discriminate.
    + cbn [app] in Hsplit. injection Hsplit as _ Hsplit.
      rewrite <- Hlen' in Hsplit, Hleave.
      exact (IH (pre ++ [x]) _ Hmsg' (st_ok_step nd st (b2n x)) a' q b Hsplit Hq Hleave).
  - rewrite <- Hlen' in Hsplit, Hleave.
    exact (IH (pre ++ [x]) _ Hmsg' (st_ok_step nd st (b2n x)) a q b Hsplit Hq Hleave).
Qed.

(* a closed string hides everything up to and including its closing quote *)
Lemma step_close nd st : s_instr st = true -> s_bsodd st = false ->
  snd (s1_step nd st cQUOTE) = false.
Proof.
  destruct st as [bo ins pr er]. cbn [s_bsodd s_instr]. intros -> ->.
  destruct pr, er, nd; vm_compute; reflexivity.
Qed.

Lemma fold_closed_skip nd : forall n r st p k,
  (length r <= n)%nat -> s_instr st = true -> s_bsodd st = false -> qscan r = Some k ->
  forall q, In q (snd (s1_fold nd st p r)) -> (p + k < q)%nat.
Proof.
  induction n as [|n IH]; intros r st p k Hn Hi Hb Hq q Hin.
  - destruct r; [discriminate Hq|cbn [length] in Hn; lia].
  - destruct r as [|b r1]; [discriminate Hq|].
    cbn [qscan] in Hq. cbn [length] in Hn.
    destruct (b2n b =? cQUOTE) eqn:Eq.
    + injection Hq as <-. apply N.eqb_eq in Eq.
      pose proof (step_close nd st Hi Hb) as S1. rewrite <- Eq in S1.
      rewrite (s1_fold_nostruct nd st p b r1 S1) in Hin.
      apply s1_fold_range in Hin. lia.
    + destruct (step_in nd st (b2n b) Hi Hb Eq) as (S1 & S2 & S3).
      rewrite (s1_fold_nostruct nd st p b r1 S1) in Hin.
      destruct (b2n b =? cBSLASH) eqn:Ebs.
      * destruct r1 as [|e r2]; [discriminate Hq|].
        cbn [length] in Hn.
        destruct (step_esc nd (fst (s1_step nd st (b2n b))) (b2n e) S2 S3) as (T1 & T2 & T3).
        rewrite (s1_fold_nostruct nd _ (S p) e r2 T1) in Hin.
        destruct (qscan r2) as [k'|] eqn:Ek; [|discriminate Hq].
        cbn [option_map] in Hq. injection Hq as <-.
        assert (L : (S (S p) + k' < q)%nat).
        { eapply (IH r2); [|exact T2|exact T3|exact Ek|exact Hin]. lia. }
        lia.
      * destruct (qscan r1) as [k'|] eqn:Ek; [|discriminate Hq].
        cbn [option_map] in Hq. injection Hq as <-.
        assert (L : (S p + k' < q)%nat).
        { eapply (IH r1); [|exact S2|exact S3|exact Ek|exact Hin]. lia. }
        lia.
Qed.

(* the structural that follows an opening quote lies beyond the closing quote *)
Lemma fold_after_string nd msg : forall bs pre st,
  msg = pre ++ bs -> st_ok st ->
  forall a p p' b k, snd (s1_fold nd st (length pre) bs) = a ++ p :: p' :: b ->
  nth_b msg p = cQUOTE -> qscan (skipn (S p) msg) = Some k -> (p + k < p')%nat.
Proof.
  induction bs as [|x r IH]; intros pre st Hmsg Hok a p p' b k Hsplit Hq Hk.
  { cbn [s1_fold snd] in Hsplit. destruct a; discriminate. }
  assert (Hmsg' : msg = (pre ++ [x]) ++ r) by (rewrite <- app_assoc; exact Hmsg).
  assert (Hlen' : length (pre ++ [x]) = S (length pre)) by (rewrite app_length; cbn [length]; lia).
  cbn [s1_fold] in Hsplit.
  destruct (snd (s1_step nd st (b2n x))) eqn:Es.
  - cbn [consp fst snd] in Hsplit.
    destruct a as [|a0 a'].
    + cbn [app] in Hsplit. injection Hsplit as Hq0 Hb.
      assert (Hx : b2n x = cQUOTE).
      { rewrite <- Hq, <- Hq0, Hmsg. pose proof (nth_b_app_r pre (x :: r) 0) as E.
        rewrite Nat.add_0_r in E. rewrite E. reflexivity. }
      assert (Hsk : skipn (S p) msg = r).
      { rewrite <- Hq0, Hmsg', <- Hlen'. rewrite skipn_app, Nat.sub_diag, skipn_all. reflexivity. }
      rewrite Hsk in Hk. rewrite Hx in Es.
      destruct (step_quote_struct nd st Hok Es) as [I1 I2].
      rewrite Hx in Hb.
      assert (Hin : In p' (p' :: b)) by (left; reflexivity).
      rewrite <- Hb in Hin.
      pose proof (fold_closed_skip nd (length r) r _ (S (length pre)) k (le_n _) I1 I2 Hk p' Hin) as L.
      lia.
    + cbn [app] in Hsplit. injection Hsplit as _ Hsplit.
      rewrite <- Hlen' in Hsplit.
      exact (IH (pre ++ [x]) _ Hmsg' (st_ok_step nd st (b2n x)) a' p p' b k Hsplit Hq Hk).
  - rewrite <- Hlen' in Hsplit.
    exact (IH (pre ++ [x]) _ Hmsg' (st_ok_step nd st (b2n x)) a p p' b k Hsplit Hq Hk).
Qed.

(* ------------------------------------------------------------------ *)
(* positions are strictly increasing and inside the message            *)

Lemma fold_incr nd : forall bs st p, incr_from p (snd (s1_fold nd st p bs)).
Proof.
  induction bs as [|b r IH]; intros st p; [exact I|].
  cbn [s1_fold]. destruct (snd (s1_step nd st (b2n b))).
  - cbn [consp snd incr_from]. split; [lia|apply IH].
  - eapply incr_from_weaken; [|apply IH]. lia.
Qed.

Lemma fold_inrange nd bs st :
  Forall (fun q => (q < length bs)%nat) (snd (s1_fold nd st 0 bs)).
Proof.
  apply Forall_forall. intros q Hq. apply s1_fold_range in Hq. lia.
Qed.

(* ------------------------------------------------------------------ *)
(* the outer loop of findStructuralIndices, on arbitrary blocks        *)

Definition is_closer_at (msg : bytes) (q : nat) : Prop :=
  nth_b msg q = cRBRACE \/ nth_b msg q = cRBRACK.

Definition last_markup (msg : bytes) (l : list nat) : Prop :=
  l = [] \/ exists h q, l = h ++ [q] /\ is_markup (nth_b msg q) = true.

Lemma s1_loop_gen msg fin : forall fuel rem blocks stripped sent total,
  (0 < rem)%nat -> length blocks = ((rem + 63) / 64)%nat -> Forall nonempty sent ->
  (stripped = None -> last_markup msg (concat (rev sent))) ->
  let o := s1_loop fuel msg fin rem blocks stripped sent total in
  let all := concat (rev sent) ++ (match stripped with Some p => [p] | None => [] end) ++ concat blocks in
  Forall nonempty (o_bufs o) /\
  (exists rest, all = concat (o_bufs o) ++ rest /\
     (rest = [] -> s_instr fin = false \/ last_markup msg (concat (o_bufs o)))) /\
  (o_ok o = true -> exists h q, concat (o_bufs o) = h ++ [q] /\ is_closer_at msg q).
Proof.
  induction fuel as [|f IH]; intros rem blocks stripped sent total Hrem Hlen Hsent Hlm; cbv zeta.
  { cbn [s1_loop o_bufs o_ok]. split; [apply Forall_rev; exact Hsent|]. split; [|discriminate].
    eexists. split; [reflexivity|]. intros E. right. apply Hlm.
    destruct stripped; [discriminate E|reflexivity]. }
  rewrite s1_loop_S.
  replace (rem =? 0)%nat with false by lia.
  set (cur0 := match stripped with Some p => [p] | None => [] end).
  cbv zeta.
  destruct (take_blocks (rem / 64) blocks cur0 0) as [[cur1 k] blocks1] eqn:Etb.
  apply take_blocks_spec in Etb. destruct Etb as (taken & Hbl & Hc1 & Hk & Hkle & Hor).
  cbn [Nat.add] in Hk. subst k.
  assert (Hlen1 : length blocks1 = ((rem + 63) / 64 - length taken)%nat).
  { rewrite <- Hlen, Hbl, app_length. lia. }
  assert (Hnone : cur0 ++ concat blocks = [] -> last_markup msg (concat (rev sent))).
  { intros E. apply Hlm. unfold cur0 in E. destruct stripped; [discriminate E|reflexivity]. }
  destruct (rem - 64 * length taken <=? 64)%nat eqn:Efin.
  - (* the message is completed in this round *)
    apply Nat.leb_le in Efin.
    assert (Hall : exists all2, (let '(cur2, processed, blocks2) :=
                     match blocks1 with
                     | b :: rest => if (0 <? rem - 64 * length taken)%nat then (cur1 ++ b, rem, rest)
                                    else (cur1, (64 * length taken)%nat, blocks1)
                     | [] => (cur1, (64 * length taken)%nat, blocks1)
                     end in (cur2, processed)) = (all2, rem) /\ all2 = cur0 ++ concat blocks).
    { destruct blocks1 as [|b rest].
      - exists cur1. split; [|rewrite Hc1, Hbl, app_nil_r; reflexivity].
        f_equal. cbn [length] in Hlen1. lia.
      - destruct (0 <? rem - 64 * length taken)%nat eqn:Epos.
        + exists (cur1 ++ b). split; [reflexivity|].
          assert (rest = []).
          { cbn [length] in Hlen1. apply Nat.ltb_lt in Epos. destruct rest; [reflexivity|cbn [length] in Hlen1; lia]. }
          subst rest. rewrite Hc1, Hbl, concat_app. cbn [concat]. rewrite app_nil_r, app_assoc. reflexivity.
        + cbn [length] in Hlen1. apply Nat.ltb_ge in Epos. lia. }
    destruct Hall as (all2 & Hall & Eall).
    destruct (match blocks1 with
              | b :: rest => if (0 <? rem - 64 * length taken)%nat then (cur1 ++ b, rem, rest)
                             else (cur1, (64 * length taken)%nat, blocks1)
              | [] => (cur1, (64 * length taken)%nat, blocks1)
              end) as [[cur2 processed] blocks2].
    injection Hall as -> ->.
    destruct (rev all2) as [|lastp before] eqn:Erev.
    + (* no structural at all *)
      cbn [o_bufs o_ok]. split; [apply Forall_rev; exact Hsent|]. split; [|discriminate].
      exists (cur0 ++ concat blocks). split; [reflexivity|].
      intros E. right. apply Hnone. exact E.
    + assert (Eall2 : all2 = rev before ++ [lastp]).
      { rewrite <- (rev_involutive all2), Erev. reflexivity. }
      rewrite Nat.eqb_refl. cbv zeta.
      destruct (s_instr fin || negb ((byte_at msg lastp =? cRBRACE) || (byte_at msg lastp =? cRBRACK))) eqn:Ebad.
      * cbn [o_bufs o_ok]. split; [apply Forall_rev; exact Hsent|]. split; [|discriminate].
        exists (cur0 ++ concat blocks). split; [reflexivity|].
        intros E. exfalso. rewrite <- Eall, Eall2 in E. destruct (rev before); discriminate E.
      * apply orb_false_iff in Ebad. destruct Ebad as [Hin Hcl]. apply negb_false_iff in Hcl.
        cbn [o_bufs o_ok]. split; [|split].
        -- cbn [rev]. apply Forall_app. split; [apply Forall_rev; exact Hsent|].
           constructor; [|constructor]. unfold nonempty. rewrite Eall2. destruct (rev before); discriminate.
        -- exists []. rewrite concat_rev_cons, app_nil_r, Eall. split; [reflexivity|].
           intros _. left. exact Hin.
        -- intros _. exists (concat (rev sent) ++ rev before), lastp.
           rewrite concat_rev_cons, Eall2, app_assoc. split; [reflexivity|].
           unfold is_closer_at. unfold byte_at in Hcl. apply orb_true_iff in Hcl.
           destruct Hcl as [Hcl|Hcl]; apply N.eqb_eq in Hcl; auto.
  - (* more blocks remain: the buffer is full *)
    apply Nat.leb_gt in Efin.
    assert (HT : (T_nat <= length cur1)%nat).
    { destruct Hor as [Hor|[Hor|Hor]]; [exact Hor|lia|]. rewrite Hor in Hlen1. cbn [length] in Hlen1. lia. }
    assert (Hcur0 : (length cur0 <= 1)%nat) by (unfold cur0; destruct stripped; cbn [length]; lia).
    destruct (rev cur1) as [|lastp before] eqn:Erev.
    { apply (f_equal (@length nat)) in Erev. rewrite rev_length in Erev. cbn [length] in Erev. rewrite T_nat_val in HT. lia. }
    assert (Ec1 : cur1 = rev before ++ [lastp]).
    { rewrite <- (rev_involutive cur1), Erev. reflexivity. }
    assert (Hbefore : before <> []).
    { intros E. rewrite E in Ec1. rewrite Ec1 in HT. cbn [rev app length] in HT. rewrite T_nat_val in HT. lia. }
    replace (64 * length taken =? rem)%nat with false by lia.
    assert (Hrem' : (0 < rem - 64 * length taken)%nat) by lia.
    assert (Hlen' : length blocks1 = ((rem - 64 * length taken + 63) / 64)%nat) by lia.
    assert (Eallsplit : cur0 ++ concat blocks = cur1 ++ concat blocks1).
    { rewrite Hbl, concat_app, app_assoc, <- Hc1. reflexivity. }
    destruct (negb (is_markup (byte_at msg lastp))) eqn:Emk.
    + (* strip and carry *)
      specialize (IH (rem - 64 * length taken)%nat blocks1 (Some lastp) (rev before :: sent) (total + length before)%nat
                     Hrem' Hlen').
      cbv zeta in IH. destruct IH as (A & B & C).
      { constructor; [|exact Hsent]. intros E. apply Hbefore. rewrite <- (rev_involutive before), E. reflexivity. }
      { discriminate. }
      split; [exact A|]. split; [|exact C].
      rewrite concat_rev_cons in B. rewrite Eallsplit, Ec1. rewrite <- !app_assoc in B |- *. exact B.
    + apply negb_false_iff in Emk.
      specialize (IH (rem - 64 * length taken)%nat blocks1 None (cur1 :: sent) (total + length cur1)%nat
                     Hrem' Hlen').
      cbv zeta in IH. destruct IH as (A & B & C).
      { constructor; [|exact Hsent]. intros E. rewrite E in HT. cbn [length] in HT. rewrite T_nat_val in HT. lia. }
      { intros _. right. exists (concat (rev sent) ++ rev before), lastp.
        rewrite concat_rev_cons, Ec1, app_assoc. split; [reflexivity|exact Emk]. }
      split; [exact A|]. split; [|exact C].
      rewrite concat_rev_cons in B. rewrite Eallsplit. cbn [app] in B. rewrite <- !app_assoc in B. exact B.
Qed.

(* ------------------------------------------------------------------ *)
(* the whole of stage 1                                                *)

Definition strings_closed (msg : bytes) (ps : list nat) : Prop :=
  Forall (fun p => nth_b msg p = cQUOTE -> qscan (skipn (S p) msg) <> None) ps.

Theorem s1_facts nd msg :
  let o := s1_buffers nd msg in
  let ps := concat (o_bufs o) in
  Forall nonempty (o_bufs o) /\
  incr_from 0 ps /\
  Forall (fun p => (p < length msg)%nat) ps /\
  strings_closed msg ps /\
  (o_ok o = true -> exists h q, ps = h ++ [q] /\ is_closer_at msg q).
Proof.
  cbv zeta. unfold s1_buffers, s1_all.
  destruct (s1_blocks_spec nd (S (length msg / 64)) s1_init 0 msg) as (blocks & Hb & Hcat & Hl & _); [lia|].
  rewrite Hb.
  destruct (Nat.eq_dec (length msg) 0) as [Hz|Hnz].
  { apply length_zero_iff_nil in Hz. subst msg.
    cbn [length] in Hl. destruct blocks; [|discriminate Hl].
    cbn [length s1_loop Nat.eqb o_bufs o_ok rev concat]. repeat split; try constructor.
    rewrite andb_false_r. discriminate. }
  set (fin := fst (s1_fold nd s1_init 0 msg)) in *.
  set (full := snd (s1_fold nd s1_init 0 msg)) in *.
  assert (Hrem : (0 < length msg)%nat) by lia.
  destruct (s1_loop_gen msg fin (S (length blocks)) (length msg) blocks None [] 0%nat Hrem Hl)
    as (A & (rest & B1 & B2) & C).
  { constructor. }
  { intros _. left. reflexivity. }
  cbv zeta in A, B1, B2, C. cbn [rev concat app] in B1. rewrite Hcat in B1.
  set (o := s1_loop (S (length blocks)) msg fin (length msg) blocks None [] 0) in *.
  set (ps := concat (o_bufs o)) in *.
  pose proof (fold_incr nd msg s1_init 0%nat) as Hinc. fold full in Hinc.
  pose proof (fold_inrange nd msg s1_init) as Hrange. fold full in Hrange.
  rewrite B1 in Hinc, Hrange.
  split; [exact A|]. split; [apply incr_from_app in Hinc; tauto|].
  split; [apply Forall_app in Hrange; tauto|]. split; [|exact C].
  unfold strings_closed. apply Forall_forall. intros p Hp Hq.
  apply in_split in Hp. destruct Hp as (a & b & Hps).
  apply (fold_closed nd msg msg [] s1_init eq_refl st_ok_init a p (b ++ rest)).
  - cbn [length]. fold full. rewrite B1, Hps, <- app_assoc. reflexivity.
  - exact Hq.
  - cbn [length]. fold fin.
    destruct b as [|b1 b']; [|left; discriminate].
    destruct rest as [|r1 rest']; [|left; discriminate].
    destruct (B2 eq_refl) as [Hin|[Hnil|(h & q & Hhq & Hmk)]].
    + right. exact Hin.
    + rewrite Hps in Hnil. destruct a; discriminate.
    + exfalso. rewrite Hps in Hhq. apply app_inj_tail in Hhq. destruct Hhq as [_ <-].
      rewrite Hq in Hmk. discriminate.
Qed.

(* the handed position after an opening quote lies beyond the closing quote *)
Theorem s1_disjoint nd msg :
  let ps := concat (o_bufs (s1_buffers nd msg)) in
  forall a p p' b k, ps = a ++ p :: p' :: b -> nth_b msg p = cQUOTE ->
    qscan (skipn (S p) msg) = Some k -> (p + k < p')%nat.
Proof.
  cbv zeta. unfold s1_buffers, s1_all.
  destruct (s1_blocks_spec nd (S (length msg / 64)) s1_init 0 msg) as (blocks & Hb & Hcat & Hl & _); [lia|].
  rewrite Hb.
  destruct (Nat.eq_dec (length msg) 0) as [Hz|Hnz].
  { apply length_zero_iff_nil in Hz. subst msg.
    cbn [length] in Hl. destruct blocks; [|discriminate Hl].
    cbn [length s1_loop Nat.eqb o_bufs o_ok rev concat]. intros a p p' b k E. destruct a; discriminate E. }
  assert (Hrem : (0 < length msg)%nat) by lia.
  destruct (s1_loop_gen msg (fst (s1_fold nd s1_init 0 msg)) (S (length blocks)) (length msg) blocks None [] 0%nat Hrem Hl)
    as (_ & (rest & B1 & _) & _).
  { constructor. }
  { intros _. left. reflexivity. }
  cbv zeta in B1. cbn [rev concat app] in B1. rewrite Hcat in B1.
  intros a p p' b k Hps Hq Hk.
  apply (fold_after_string nd msg msg [] s1_init eq_refl st_ok_init a p p' (b ++ rest) k); try assumption.
  cbn [length]. rewrite B1, Hps, <- app_assoc. reflexivity.
Qed.

Print Assumptions s1_facts.
Print Assumptions s1_disjoint.
