(* TrimProofs.v — Go's bytes.TrimSpace and the specification's JSON trim agree
   on every input the specification accepts (more generally: whenever the
   JSON-trimmed text starts and ends with a byte that is neither 0x0b, 0x0c
   nor >= 0x80). *)
From Coq Require Import ZifyBool ZifyN ZifyNat.
From SJ Require Import Model.Base Model.RefTables Spec.Json Model.Driver.
Open Scope N_scope.

(* a byte at which both trims stop *)
Definition stopb (c : N) : bool := negb (is_json_ws c) && negb (edge_unclaimed c).

Lemma stopb_not_space c : stopb c = true -> ascii_space c = false /\ c < 128.
Proof.
  unfold stopb, is_json_ws, edge_unclaimed, ascii_space, cSPACE, cTAB, cLF, cCR. lia.
Qed.

Lemma ws_ascii_space c : is_json_ws c = true -> ascii_space c = true.
Proof. unfold is_json_ws, ascii_space, cSPACE, cTAB, cLF, cCR. lia. Qed.

Definition head_stop (s : bytes) : Prop :=
  match s with [] => True | b :: _ => stopb (b2n b) = true end.

(* ------------------------------------------------------------------ *)
(* skip_ws                                                             *)

Lemma skip_ws_split s : exists w, s = w ++ skip_ws s /\ Forall (fun b => is_json_ws (b2n b) = true) w.
Proof.
  induction s as [|b r IH].
  - exists []. split; [reflexivity|constructor].
  - cbn [skip_ws]. destruct (is_json_ws (b2n b)) eqn:E.
    + destruct IH as (w & Hw & Hall). exists (b :: w). split.
      * cbn [app]. f_equal. exact Hw.
      * constructor; assumption.
    + exists []. split; [reflexivity|constructor].
Qed.

Lemma skip_ws_head s b r : skip_ws s = b :: r -> is_json_ws (b2n b) = false.
Proof.
  induction s as [|a s IH]; cbn [skip_ws]; [discriminate|].
  destruct (is_json_ws (b2n a)) eqn:E; [exact IH|].
  intros H. injection H as <- <-. exact E.
Qed.

Lemma skip_ws_length s : (length (skip_ws s) <= length s)%nat.
Proof.
  induction s as [|a s IH]; cbn [skip_ws length]; [lia|].
  destruct (is_json_ws (b2n a)); cbn [length]; lia.
Qed.

Lemma skip_ws_idem s : skip_ws (skip_ws s) = skip_ws s.
Proof.
  induction s as [|a s IH]; [reflexivity|]. cbn [skip_ws].
  destruct (is_json_ws (b2n a)) eqn:E; [exact IH|]. cbn [skip_ws]. rewrite E. reflexivity.
Qed.

Lemma skip_ws_nonws b r : is_json_ws (b2n b) = false -> skip_ws (b :: r) = b :: r.
Proof. intros E. cbn [skip_ws]. rewrite E. reflexivity. Qed.

(* ------------------------------------------------------------------ *)
(* the left trim                                                       *)

Lemma space_prefix_stop b r : stopb (b2n b) = true -> space_prefix (b :: r) = 0%nat.
Proof.
  intros H. apply stopb_not_space in H. destruct H as [Ha Hlt].
  unfold space_prefix. rewrite Ha.
  destruct r as [|b1 r1]; [reflexivity|].
  replace (b2n b =? 194) with false by lia. cbn [andb].
  destruct r1 as [|b2 r2]; [reflexivity|].
  replace (b2n b =? 225) with false by lia.
  replace (b2n b =? 226) with false by lia.
  replace (b2n b =? 227) with false by lia.
  reflexivity.
Qed.

Lemma space_prefix_ws b r : is_json_ws (b2n b) = true -> space_prefix (b :: r) = 1%nat.
Proof. intros H. unfold space_prefix. rewrite (ws_ascii_space _ H). reflexivity. Qed.

Lemma trim_left_skip_ws : forall s fuel,
  (length s < fuel)%nat -> head_stop (skip_ws s) -> trim_left fuel s = skip_ws s.
Proof.
  induction s as [|b r IH]; intros fuel Hf Hs.
  - destruct fuel; reflexivity.
  - destruct fuel as [|f]; [cbn [length] in Hf; lia|].
    cbn [skip_ws] in *. cbn [trim_left].
    destruct (is_json_ws (b2n b)) eqn:E.
    + rewrite (space_prefix_ws _ _ E). cbn [skipn]. apply IH; [cbn [length] in Hf; lia|exact Hs].
    + cbn [head_stop] in Hs. rewrite (space_prefix_stop _ _ Hs). reflexivity.
Qed.

(* ------------------------------------------------------------------ *)
(* the right trim (on the reversed list)                               *)

Lemma space_suffix_rev_stop a t : stopb (b2n a) = true -> space_suffix_rev (a :: t) = 0%nat.
Proof.
  intros H. apply stopb_not_space in H. destruct H as [Ha Hlt].
  unfold space_suffix_rev. rewrite Ha.
  destruct t as [|b t2]; [reflexivity|].
  assert (E2 : (space_prefix [b; a] =? 2)%nat = false).
  { unfold space_prefix. destruct (ascii_space (b2n b)); [reflexivity|].
    replace (b2n a =? 133) with false by lia.
    replace (b2n a =? 160) with false by lia.
    rewrite andb_false_r. reflexivity. }
  rewrite E2.
  destruct t2 as [|c t3]; [reflexivity|].
  assert (E3 : (space_prefix [c; b; a] =? 3)%nat = false).
  { unfold space_prefix. destruct (ascii_space (b2n c)); [reflexivity|].
    destruct ((b2n c =? 194) && ((b2n b =? 133) || (b2n b =? 160))); [reflexivity|].
    replace (b2n a =? 128) with false by lia.
    replace (b2n a =? 159) with false by lia.
    replace (128 <=? b2n a) with false by lia.
    replace (b2n a =? 168) with false by lia.
    replace (b2n a =? 169) with false by lia.
    replace (b2n a =? 175) with false by lia.
    rewrite !andb_false_r. reflexivity. }
  rewrite E3. reflexivity.
Qed.

Lemma space_suffix_rev_ws a t : is_json_ws (b2n a) = true -> space_suffix_rev (a :: t) = 1%nat.
Proof. intros H. unfold space_suffix_rev. rewrite (ws_ascii_space _ H). reflexivity. Qed.

Lemma trim_right_rev_skip_ws : forall r fuel,
  (length r < fuel)%nat -> head_stop (skip_ws r) -> trim_right_rev fuel r = skip_ws r.
Proof.
  induction r as [|a t IH]; intros fuel Hf Hs.
  - destruct fuel; reflexivity.
  - destruct fuel as [|f]; [cbn [length] in Hf; lia|].
    cbn [skip_ws] in *. cbn [trim_right_rev].
    destruct (is_json_ws (b2n a)) eqn:E.
    + rewrite (space_suffix_rev_ws _ _ E). cbn [skipn]. apply IH; [cbn [length] in Hf; lia|exact Hs].
    + cbn [head_stop] in Hs. rewrite (space_suffix_rev_stop _ _ Hs). reflexivity.
Qed.

(* ------------------------------------------------------------------ *)
(* the two trims agree                                                 *)

Lemma rtrim_ws_split u : exists w, u = rtrim_ws u ++ w /\ Forall (fun b => is_json_ws (b2n b) = true) w.
Proof.
  unfold rtrim_ws. destruct (skip_ws_split (rev u)) as (w & Hw & Hall).
  exists (rev w). split.
  - rewrite <- rev_app_distr, <- Hw, rev_involutive. reflexivity.
  - apply Forall_rev. exact Hall.
Qed.

Lemma last_rev_head (t : bytes) : last t x00 = hd x00 (rev t).
Proof.
  induction t as [|a t IH]; [reflexivity|].
  destruct t as [|b t']; [reflexivity|].
  change (last (a :: b :: t') x00) with (last (b :: t') x00). rewrite IH.
  cbn [rev]. destruct (rev t' ++ [b]) eqn:E.
  - destruct (rev t'); discriminate.
  - reflexivity.
Qed.

Theorem trim_agree_gen (bs : bytes) :
  let t := rtrim_ws (skip_ws bs) in
  match t with
  | [] => True
  | b :: _ => edge_unclaimed (b2n b) = false /\ edge_unclaimed (b2n (last t x00)) = false
  end ->
  t <> [] ->
  trim_space_go bs = t.
Proof.
  intros t Hedge Hne.
  set (u := skip_ws bs) in *.
  destruct (rtrim_ws_split u) as (w2 & Hu & Hw2). fold t in Hu.
  destruct t as [|b0 t0] eqn:Et; [congruence|]. destruct Hedge as [He1 He2].
  assert (Hhead : head_stop u).
  { rewrite Hu. cbn [app head_stop]. unfold stopb. rewrite He1.
    assert (Hn : is_json_ws (b2n b0) = false).
    { cbn [app] in Hu. eapply skip_ws_head. exact Hu. }
    rewrite Hn. reflexivity. }
  unfold trim_space_go.
  rewrite (trim_left_skip_ws bs (S (length bs))); [|lia|].
  2:{ fold u. exact Hhead. }
  fold u.
  rewrite (trim_right_rev_skip_ws (rev u) (S (length u))); [|rewrite rev_length; lia|].
  - change (rev (skip_ws (rev u))) with (rtrim_ws u). exact Et.
  - (* the head of skip_ws (rev u) is the last byte of t *)
    assert (Hr : skip_ws (rev u) = rev (b0 :: t0)).
    { unfold t, rtrim_ws in Et. rewrite <- Et, rev_involutive. reflexivity. }
    rewrite Hr. rewrite last_rev_head in He2.
    destruct (rev (b0 :: t0)) as [|a r'] eqn:Erev; [exact I|].
    cbn [hd] in He2. cbn [head_stop]. unfold stopb. rewrite He2.
    rewrite (skip_ws_head _ _ _ Hr). reflexivity.
Qed.

Theorem trim_agree (bs : bytes) (d : doc) :
  spec_parse bs = SOk d -> trim_space_go bs = rtrim_ws (skip_ws bs).
Proof.
  unfold spec_parse. intros H.
  apply trim_agree_gen.
  - cbv zeta. destruct (rtrim_ws (skip_ws bs)) as [|b t0] eqn:Et; [exact I|].
    destruct (edge_unclaimed (b2n b) || edge_unclaimed (b2n (last (b :: t0) x00))) eqn:E; [discriminate|].
    apply orb_false_iff in E. exact E.
  - destruct (rtrim_ws (skip_ws bs)); [discriminate|discriminate].
Qed.

Print Assumptions trim_agree.
