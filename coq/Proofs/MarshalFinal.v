(* MarshalFinal.v — property C10 assembled: MarshalJSON emits valid JSON
   denoting the same document.

     (a) REFINEMENT   marshal_iter pj (iter0 pj) = marshal_spec ds  whenever the
                      tape denotes ds (NOP gaps included): the text
                      print_docs ds, or the error outcome exactly when a
                      float is not finite (or there is no root at all).
     (b) VALIDITY     the text is JSON / NDJSON for the specification and
                      denotes redoc d, which is d up to num_equiv.
     (c) FIXED POINT  printing redoc d gives the same text, unless d contains
                      the float -0.0 (refuted example below; finding K2).
     (d) END TO END   the modelled parser accepts the text, its tape denotes
                      redoc d, and marshalling that tape reproduces the text.

   Which texts are re-parsable: both Parse (spec_parse) and ParseND (nd_spec,
   which applies spec_parse to every non-blank line) require an object or an
   array at every root; the theorems of (b)-(d) therefore assume container
   roots.  A single root can be re-read by Parse or by ParseND, several roots
   only by ParseND. *)
From Coq Require Import ZArith NArith List Bool Lia.
From Coq.Strings Require Import Byte.
From SJ Require Import Model.Base Model.RefTables Spec.Json Model.Tape Model.Iter Model.Driver Model.FloatFmt.
From SJ Require Import Proofs.TapeSeg Proofs.TapeDen Proofs.TapeProofs Proofs.AcceptProofs Proofs.NdProofs
     Proofs.EscapeProofs Proofs.FloatFmtProofs.
From SJ Require Import Model.Marshal Proofs.MarshalProofsBase Proofs.MarshalProofsRefine
     Proofs.MarshalProofsNum Proofs.MarshalProofsText Proofs.MarshalProofsTape Proofs.MarshalProofsArray Proofs.MarshalProofsSpecOk.
Import ListNotations.
Local Open Scope N_scope.

(* ------------------------------------------------------------------ *)
(* (a) refinement                                                       *)

Theorem C10a_marshal_refines : forall pj ds,
  denote (pj_msg pj) (pj_strings pj) (pj_tape pj) = Some ds ->
  marshal_iter pj (iter0 pj) = marshal_spec ds.
Proof. exact marshal_refines. Qed.

(* in the task's words: tape_ok pj (the strict structure checked by wf_check)
   is more than enough *)
Corollary C10a_marshal_refines_tape_ok : forall pj, tape_ok pj ->
  exists ds, roots_seg (pj_msg pj) (pj_strings pj) true true 0 (pj_tape pj) ds /\
             (ds <> [] -> denote (pj_msg pj) (pj_strings pj) (pj_tape pj) = Some ds) /\
             marshal_iter pj (iter0 pj) = marshal_spec ds.
Proof.
  intros pj (ds & H). exists ds. split; [exact H|]. split.
  - intros Hne. eapply roots_seg_denote; [exact H|exact Hne].
  - eapply marshal_refines_seg. exact H.
Qed.

Corollary C10a_tape_ok_any : forall pj ds,
  roots_seg (pj_msg pj) (pj_strings pj) true true 0 (pj_tape pj) ds ->
  marshal_iter pj (iter0 pj) = marshal_spec ds.
Proof. intros pj ds H. eapply marshal_refines_seg. exact H. Qed.

(* unfolded: the three possible outcomes *)
Theorem C10a_outcomes : forall pj ds,
  denote (pj_msg pj) (pj_strings pj) (pj_tape pj) = Some ds ->
  (ds <> [] -> forallb fin_doc ds = true -> marshal_iter pj (iter0 pj) = Ok (pr_docs ds)) /\
  (forallb fin_doc ds = false -> marshal_iter pj (iter0 pj) = Err) /\
  (ds = [] -> marshal_iter pj (iter0 pj) = Err) /\
  marshal_iter pj (iter0 pj) <> Crash /\ marshal_iter pj (iter0 pj) <> OutOfFuel.
Proof.
  intros pj ds H. pose proof (marshal_never_crashes pj ds H) as [N1 N2].
  rewrite (marshal_refines pj ds H) in *. unfold marshal_spec, print_docs.
  repeat split; try assumption.
  - intros Hne Hf. destruct ds; [congruence|]. rewrite Hf. reflexivity.
  - intros Hf. destruct ds; [reflexivity|]. rewrite Hf. reflexivity.
  - intros ->. reflexivity.
Qed.

(* a non-finite float yields an error, never output: fin_doc fails exactly
   on the floats appendFloat rejects *)
Theorem C10a_error_iff_nonfinite_float : forall b fl,
  fin_doc (DNum (NFloat b fl)) = false <-> sf_is_finite (sf_of_bits b) = false.
Proof.
  intros b fl. cbn [fin_doc fin_num]. rewrite <- fmt_float_none_iff.
  destruct (fmt_float b); split; congruence.
Qed.

Lemma pr_docs_single d : pr_docs [d] = pr_doc d.
Proof. unfold pr_docs. cbn [map join_with app]. apply app_nil_r. Qed.

(* ------------------------------------------------------------------ *)
(* (b) validity and same document                                       *)

Theorem C10b_value_valid : forall d rest f,
  doc_okb d = true -> NumLex.rest_ok rest = true -> (length (pr_doc d) < f)%nat ->
  spec_value f (pr_doc d ++ rest) = SOk (redoc d, rest) /\ doc_equiv d (redoc d).
Proof.
  intros d rest f Hok Hr Hf. split; [apply spec_value_pr; assumption|apply redoc_equiv; exact Hok].
Qed.

Theorem C10b_text_valid : forall d,
  doc_okb d = true -> is_container d = true ->
  spec_parse (pr_doc d) = SOk (redoc d) /\ doc_equiv d (redoc d).
Proof. intros d Hok Hc. split; [apply spec_parse_pr; assumption|apply redoc_equiv; exact Hok]. Qed.

Lemma docs_equiv ds : docs_okb ds = true -> Forall2 doc_equiv ds (map redoc ds).
Proof.
  induction ds as [|d ds IH]; intros Hok; [constructor|].
  cbn [docs_okb forallb] in Hok. apply andb_true_iff in Hok. destruct Hok as [H1 H2].
  apply andb_true_iff in H1. destruct H1 as [Hd _].
  cbn [map]. constructor; [apply redoc_equiv; exact Hd|apply IH; exact H2].
Qed.

Theorem C10b_ndtext_valid : forall ds,
  ds <> [] -> docs_okb ds = true ->
  nd_spec (pr_docs ds) = SOk (map redoc ds) /\ Forall2 doc_equiv ds (map redoc ds).
Proof. intros ds Hne Hok. split; [apply nd_spec_pr; assumption|apply docs_equiv; exact Hok]. Qed.

(* a scalar root is printed, but neither Parse nor ParseND reads it back *)
Example scalar_root_not_reparsable :
  spec_parse (pr_doc (DNum (NInt 1))) = SInvalid /\ nd_spec (pr_docs [DNum (NInt 1)]) = SInvalid.
Proof. vm_compute. split; reflexivity. Qed.

(* ------------------------------------------------------------------ *)
(* (c) fixed point                                                      *)

Theorem C10c_fixed_point : forall d,
  doc_okb d = true -> no_negzero d = true -> print_doc (redoc d) = print_doc d.
Proof.
  intros d Hok Hnz. unfold print_doc. destruct (fin_redoc d Hok) as [A B].
  rewrite A, B, (pr_redoc d Hok Hnz). reflexivity.
Qed.

Lemma pr_redocs ds : docs_okb ds = true -> forallb no_negzero ds = true ->
  map pr_doc (map redoc ds) = map pr_doc ds.
Proof.
  induction ds as [|d ds IH]; intros Hok Hnz; [reflexivity|].
  cbn [docs_okb forallb] in Hok, Hnz. apply andb_true_iff in Hok, Hnz.
  destruct Hok as [H1 H2]. destruct Hnz as [N1 N2].
  apply andb_true_iff in H1. destruct H1 as [Hd _].
  cbn [map]. f_equal; [apply pr_redoc; assumption|apply IH; assumption].
Qed.

Lemma fin_redocs ds : docs_okb ds = true ->
  forallb fin_doc (map redoc ds) = true /\ forallb fin_doc ds = true.
Proof.
  induction ds as [|d ds IH]; intros Hok; [split; reflexivity|].
  cbn [docs_okb forallb] in Hok. apply andb_true_iff in Hok. destruct Hok as [H1 H2].
  apply andb_true_iff in H1. destruct H1 as [Hd _].
  destruct (fin_redoc d Hd) as [A B]. destruct (IH H2) as [C D].
  cbn [map forallb]. rewrite A, B, C, D. split; reflexivity.
Qed.

Theorem C10c_fixed_point_docs : forall ds,
  docs_okb ds = true -> forallb no_negzero ds = true ->
  print_docs (map redoc ds) = print_docs ds.
Proof.
  intros ds Hok Hnz. unfold print_docs, pr_docs. destruct (fin_redocs ds Hok) as [A B].
  rewrite A, B, (pr_redocs ds Hok Hnz). reflexivity.
Qed.

(* K2: the exception is real *)
Example C10c_negzero_refuted :
  let d := DArr [DNum (NFloat two63 0)] in
  doc_okb d = true /\ is_container d = true /\ no_negzero d = false /\
  print_doc d = Some ["["; "-"; "0"; "]"]%byte /\
  spec_parse ["["; "-"; "0"; "]"]%byte = SOk (DArr [DNum (NInt 0)]) /\
  redoc d = DArr [DNum (NInt 0)] /\
  print_doc (redoc d) = Some ["["; "0"; "]"]%byte.
Proof. vm_compute. repeat split. Qed.

(* ------------------------------------------------------------------ *)
(* (d) end to end with the modelled parser                               *)

Definition pj_of (p : parsed) : pjson :=
  {| pj_tape := p_tape p; pj_strings := p_strings p; pj_msg := p_msg p |}.

(* one root, re-read by Parse *)
Theorem C10d_roundtrip_parse : forall copy pj d,
  denote (pj_msg pj) (pj_strings pj) (pj_tape pj) = Some [d] ->
  doc_okb d = true -> is_container d = true ->
  N.of_nat (length (pr_doc d)) < 2 ^ 55 ->
  marshal_iter pj (iter0 pj) = Ok (pr_doc d) /\
  exists p, parse_model copy (pr_doc d) = Ok p /\
    denote (p_msg p) (p_strings p) (p_tape p) = Some [redoc d] /\
    doc_equiv d (redoc d) /\
    (no_negzero d = true -> marshal_iter (pj_of p) (iter0 (pj_of p)) = Ok (pr_doc d)).
Proof.
  intros copy pj d Hden Hok Hc Hlen.
  destruct (fin_redoc d Hok) as [Fr Fd].
  split.
  { rewrite (marshal_refines pj [d] Hden). unfold marshal_spec, print_docs. cbn [forallb].
    rewrite Fd, pr_docs_single. reflexivity. }
  destruct (parse_accepts_valid copy (pr_doc d) (redoc d) Hlen (spec_parse_pr d Hok Hc)) as (p & Hp & Hd).
  exists p. split; [exact Hp|]. split; [exact Hd|]. split; [apply redoc_equiv; exact Hok|].
  intros Hnz. rewrite (marshal_refines (pj_of p) [redoc d] Hd).
  unfold marshal_spec, print_docs. cbn [forallb]. rewrite Fr, pr_docs_single, (pr_redoc d Hok Hnz).
  reflexivity.
Qed.

(* any number of roots, re-read by ParseND *)
Theorem C10d_roundtrip_parsend : forall copy pj ds,
  denote (pj_msg pj) (pj_strings pj) (pj_tape pj) = Some ds ->
  ds <> [] -> docs_okb ds = true ->
  N.of_nat (length (pr_docs ds)) < 2 ^ 55 ->
  marshal_iter pj (iter0 pj) = Ok (pr_docs ds) /\
  exists p, parsend_model copy (pr_docs ds) = Ok p /\
    denote (p_msg p) (p_strings p) (p_tape p) = Some (map redoc ds) /\
    Forall2 doc_equiv ds (map redoc ds) /\
    (forallb no_negzero ds = true -> marshal_iter (pj_of p) (iter0 (pj_of p)) = Ok (pr_docs ds)).
Proof.
  intros copy pj ds Hden Hne Hok Hlen.
  destruct (fin_redocs ds Hok) as [Fr Fd].
  split.
  { rewrite (marshal_refines pj ds Hden). unfold marshal_spec, print_docs.
    destruct ds; [congruence|]. rewrite Fd. reflexivity. }
  destruct (parsend_accepts_valid copy (pr_docs ds) (map redoc ds) Hlen (nd_spec_pr ds Hne Hok))
    as (p & Hp & Hd).
  exists p. split; [exact Hp|]. split; [exact Hd|]. split; [apply docs_equiv; exact Hok|].
  intros Hnz. rewrite (marshal_refines (pj_of p) (map redoc ds) Hd).
  unfold marshal_spec, print_docs. rewrite Fr.
  destruct ds as [|d ds']; [congruence|]. cbn [map].
  change (redoc d :: map redoc ds') with (map redoc (d :: ds')).
  unfold pr_docs. rewrite (pr_redocs (d :: ds') Hok Hnz). reflexivity.
Qed.

(* the same for a tape of 64-bit words (every real tape), edited or not: the
   only hypotheses left are the ones the property names — strings and keys
   are well-formed UTF-8 and floats are finite — plus container roots *)
Lemma docs_okb_and ds : forallb doc_okb ds = true -> forallb is_container ds = true -> docs_okb ds = true.
Proof.
  induction ds as [|d ds IH]; intros H1 H2; [reflexivity|].
  cbn [forallb docs_okb] in *. apply andb_true_iff in H1, H2. destruct H1 as [A B]. destruct H2 as [C D].
  rewrite A, C. apply IH; assumption.
Qed.

Theorem C10d_roundtrip_tape : forall copy pj ds,
  denote (pj_msg pj) (pj_strings pj) (pj_tape pj) = Some ds -> ds <> [] ->
  words64 (pj_tape pj) -> forallb doc_txtb ds = true -> forallb is_container ds = true ->
  N.of_nat (length (pr_docs ds)) < 2 ^ 55 ->
  marshal_iter pj (iter0 pj) = Ok (pr_docs ds) /\
  nd_spec (pr_docs ds) = SOk (map redoc ds) /\
  exists p, parsend_model copy (pr_docs ds) = Ok p /\
    denote (p_msg p) (p_strings p) (p_tape p) = Some (map redoc ds) /\
    Forall2 doc_equiv ds (map redoc ds) /\
    (forallb no_negzero ds = true -> marshal_iter (pj_of p) (iter0 (pj_of p)) = Ok (pr_docs ds)).
Proof.
  intros copy pj ds Hden Hne Hw Ht Hc Hlen.
  pose proof (docs_okb_and ds (docs_okb_of_tape pj ds Hden Hw Ht) Hc) as Hok.
  destruct (C10d_roundtrip_parsend copy pj ds Hden Hne Hok Hlen) as (A & B).
  split; [exact A|]. split; [apply nd_spec_pr; assumption|exact B].
Qed.

(* freshly parsed input: no hypothesis on the document at all.  Whatever
   Parse accepts is marshalled to a valid JSON text denoting the same
   document up to num_equiv; Parse accepts that text, and marshalling the new
   tape reproduces it byte for byte (unless the document contains -0.0) *)
Theorem C10_parse_marshal_parse : forall copy bs d,
  N.of_nat (length bs) < 2 ^ 55 -> spec_parse bs = SOk d ->
  N.of_nat (length (pr_doc d)) < 2 ^ 55 ->
  exists p, parse_model copy bs = Ok p /\
    denote (p_msg p) (p_strings p) (p_tape p) = Some [d] /\
    marshal_iter (pj_of p) (iter0 (pj_of p)) = Ok (pr_doc d) /\
    spec_parse (pr_doc d) = SOk (redoc d) /\ doc_equiv d (redoc d) /\
    exists p', parse_model copy (pr_doc d) = Ok p' /\
      denote (p_msg p') (p_strings p') (p_tape p') = Some [redoc d] /\
      (no_negzero d = true -> marshal_iter (pj_of p') (iter0 (pj_of p')) = Ok (pr_doc d)).
Proof.
  intros copy bs d Hlen Hsp Hlen'.
  destruct (spec_parse_doc_okb bs d Hsp) as [Hok Hc].
  destruct (parse_accepts_valid copy bs d Hlen Hsp) as (p & Hp & Hd).
  destruct (C10d_roundtrip_parse copy (pj_of p) d Hd Hok Hc Hlen') as (Hm & p' & Hp' & Hd' & He & Hfix).
  exists p. split; [exact Hp|]. split; [exact Hd|]. split; [exact Hm|].
  split; [apply spec_parse_pr; assumption|]. split; [exact He|].
  exists p'. split; [exact Hp'|]. split; [exact Hd'|exact Hfix].
Qed.

Theorem C10_parsend_marshal_parsend : forall copy bs ds,
  N.of_nat (length bs) < 2 ^ 55 -> nd_spec bs = SOk ds ->
  N.of_nat (length (pr_docs ds)) < 2 ^ 55 ->
  exists p, parsend_model copy bs = Ok p /\
    denote (p_msg p) (p_strings p) (p_tape p) = Some ds /\
    marshal_iter (pj_of p) (iter0 (pj_of p)) = Ok (pr_docs ds) /\
    nd_spec (pr_docs ds) = SOk (map redoc ds) /\ Forall2 doc_equiv ds (map redoc ds) /\
    exists p', parsend_model copy (pr_docs ds) = Ok p' /\
      denote (p_msg p') (p_strings p') (p_tape p') = Some (map redoc ds) /\
      (forallb no_negzero ds = true -> marshal_iter (pj_of p') (iter0 (pj_of p')) = Ok (pr_docs ds)).
Proof.
  intros copy bs ds Hlen Hsp Hlen'.
  destruct (nd_spec_docs_okb bs ds Hsp) as [Hok Hne].
  destruct (parsend_accepts_valid copy bs ds Hlen Hsp) as (p & Hp & Hd).
  destruct (C10d_roundtrip_parsend copy (pj_of p) ds Hd Hne Hok Hlen') as (Hm & p' & Hp' & Hd' & He & Hfix).
  exists p. split; [exact Hp|]. split; [exact Hd|]. split; [exact Hm|].
  split; [apply nd_spec_pr; assumption|]. split; [exact He|].
  exists p'. split; [exact Hp'|]. split; [exact Hd'|exact Hfix].
Qed.

(* ------------------------------------------------------------------ *)
(* other iterators, Array.MarshalJSONBuffer                              *)

(* an iterator on one value whose view ends with that value (AdvanceIter,
   FindElement, ForEach): the text of the value *)
Theorem C10_value_iterator : forall pj strict adj pre v X d w r it,
  pj_tape pj = pre ++ v ++ X ->
  val_seg (pj_msg pj) (pj_strings pj) strict adj (nlen pre) v d -> v = w :: r ->
  on_word it (length pre) w -> i_len it = Z.of_nat (length pre + length v) ->
  marshal_iter pj it = value_spec d.
Proof. exact marshal_value_iter. Qed.

Theorem C10_array_marshal : forall pj strict adj pre w body e X l,
  pj_tape pj = pre ++ (w :: body ++ [e]) ++ X ->
  items (pj_msg pj) (pj_strings pj) strict adj (nlen pre + 1) body l -> word_tag e = TagArrayEnd ->
  word_val w = nlen pre + nlen body + 2 ->
  marshal_array pj {| c_len := Z.of_N (word_val w); c_off := Z.of_nat (length pre) + 1 |} =
    value_spec (DArr l).
Proof. exact marshal_array_any. Qed.

(* ------------------------------------------------------------------ *)
(* the hypotheses are satisfiable: concrete instances                    *)

(* a hand-written tape for [1,true] with a two-word NOP gap (what deleting an
   element leaves): 0 root, 1 '[', 2-3 int 1, 4-5 NOP NOP, 6 true, 7 ']', 8 root *)
Definition ex_tape : list N :=
  [mk_word TagRoot 9; mk_word TagArrayStart 8; mk_word TagInteger 0; 1;
   mk_word TagNop 2; mk_word TagNop 1; mk_word TagBoolTrue 0; mk_word TagArrayEnd 1;
   mk_word TagRoot 0].
Definition ex_pj : pjson := {| pj_tape := ex_tape; pj_strings := []; pj_msg := [] |}.
Definition ex_d : doc := DArr [DNum (NInt 1); DBool true].

Example ex_denote : denote (pj_msg ex_pj) (pj_strings ex_pj) (pj_tape ex_pj) = Some [ex_d].
Proof. vm_compute. reflexivity. Qed.
Example ex_hyps : doc_okb ex_d = true /\ is_container ex_d = true /\ no_negzero ex_d = true /\
                  N.of_nat (length (pr_doc ex_d)) < 2 ^ 55.
Proof. vm_compute. repeat split. Qed.
Example ex_marshal : marshal_iter ex_pj (iter0 ex_pj) = Ok ["["; "1"; ","; "t"; "r"; "u"; "e"; "]"]%byte.
Proof. vm_compute. reflexivity. Qed.

(* two roots, one float that prints as an integer, a uint below 2^63, strings with escapes *)
Definition ex_ds : list doc :=
  [DObj [([n2b 107; n2b 10], DNum (NFloat (Json.bits_of_sf (Json.dec_to_float false 1 0)) 0));
         ([], DStr [n2b 34; n2b 195; n2b 169])];
   DArr [DNum (NUint 5); DNum (NUint 18446744073709551615); DNum (NFloat (Json.bits_of_sf (Json.dec_to_float true 15 (-1))) 0); DNull]].
Example ex_ds_hyps : ex_ds <> [] /\ docs_okb ex_ds = true /\ forallb no_negzero ex_ds = true /\
                     N.of_nat (length (pr_docs ex_ds)) < 2 ^ 55.
Proof. split; [discriminate|]. vm_compute. repeat split. Qed.
Example ex_ds_reparse :
  match parsend_model false (pr_docs ex_ds) with
  | Ok p => denote (p_msg p) (p_strings p) (p_tape p) = Some (map redoc ex_ds) /\
            marshal_iter (pj_of p) (iter0 (pj_of p)) = Ok (pr_docs ex_ds)
  | _ => False
  end.
Proof. vm_compute. split; reflexivity. Qed.

(* a non-finite float on the tape: error, no output *)
Definition ex_inf_pj : pjson :=
  {| pj_tape := [mk_word TagRoot 6; mk_word TagArrayStart 5; mk_word TagFloat 0; 9218868437227405312;
                 mk_word TagArrayEnd 1; mk_word TagRoot 0];
     pj_strings := []; pj_msg := [] |}.
Example ex_inf : denote (pj_msg ex_inf_pj) (pj_strings ex_inf_pj) (pj_tape ex_inf_pj)
                   = Some [DArr [DNum (NFloat 9218868437227405312 0)]] /\
                 marshal_iter ex_inf_pj (iter0 ex_inf_pj) = Err.
Proof. vm_compute. split; reflexivity. Qed.

(* K2 end to end with the modelled parser: [-0.0] -> "[-0]" -> [0] -> "[0]" *)
Example ex_negzero_pipeline :
  match parse_model false ["["; "-"; "0"; "."; "0"; "]"]%byte with
  | Ok p =>
    marshal_iter (pj_of p) (iter0 (pj_of p)) = Ok ["["; "-"; "0"; "]"]%byte /\
    match parse_model false ["["; "-"; "0"; "]"]%byte with
    | Ok p' => marshal_iter (pj_of p') (iter0 (pj_of p')) = Ok ["["; "0"; "]"]%byte
    | _ => False
    end
  | _ => False
  end.
Proof. vm_compute. split; reflexivity. Qed.

(* an iterator moved onto the top-level value by two AdvanceInto calls keeps the
   whole tape as its scope; so does the iterator ParsedJson.ForEach hands out
   (its scope ends with the closing root word).  MarshalJSON prints the value and
   runs into the closing root: before fix F20 that was an error ("no content
   queued in iterator"), now the value's text is the result. *)
Example ex_inner_iterator_marshals :
  (do r1 <- advance_into ex_pj (iter0 ex_pj); do r2 <- advance_into ex_pj (fst r1);
   marshal_iter ex_pj (fst r2)) = Ok ["["; "1"; ","; "t"; "r"; "u"; "e"; "]"]%byte /\
  (do r1 <- advance_into ex_pj (iter0 ex_pj); marshal_iter ex_pj (fst r1))
    = Ok ["["; "1"; ","; "t"; "r"; "u"; "e"; "]"]%byte.
Proof. vm_compute. split; reflexivity. Qed.

(* the iterator ParsedJson.ForEach passes to its callback: AdvanceIter on the root (the
   destination's scope ends with the closing root word), then AdvanceInto *)
Example ex_foreach_iterator_marshals :
  (do r <- advance_iter ex_pj (iter0 ex_pj);
   match r with
   | (_, Some d, _) => do r2 <- advance_into ex_pj d; marshal_iter ex_pj (fst r2)
   | _ => Err
   end) = Ok ["["; "1"; ","; "t"; "r"; "u"; "e"; "]"]%byte.
Proof. vm_compute. reflexivity. Qed.

Print Assumptions C10a_marshal_refines.
Print Assumptions C10b_text_valid.
Print Assumptions C10b_ndtext_valid.
Print Assumptions C10c_fixed_point.
Print Assumptions C10d_roundtrip_parse.
Print Assumptions C10d_roundtrip_parsend.
Print Assumptions C10d_roundtrip_tape.
Print Assumptions C10_parse_marshal_parse.
Print Assumptions C10_parsend_marshal_parsend.
Print Assumptions C10_value_iterator.
Print Assumptions C10_array_marshal.
