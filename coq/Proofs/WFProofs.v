(* WFProofs.v — property C17 on the model: every tape the model of Parse /
   ParseND produces, for ARBITRARY input below 2^55 bytes (no specification
   hypothesis), passes the executable well-formedness check [wf_check]
   (no NOPs): root pairs, containers with mutual start/end pointers, strings
   in range, numbers followed by their payload word.
   Machine level: Proofs/WFMachine.v ([run2_wf]); stage-1 facts: Proofs/TotalS1.v
   ([s1_facts], [s1_disjoint]); the string kernel stops where stage 1 says the
   string ends: Proofs/TotalStr.v ([str_loop_stop]). *)
From Coq Require Import ZifyBool ZifyN ZifyNat.
From SJ Require Import Model.Base Model.RefTables Spec.Json Model.Str Model.Stage1 Model.Stage2 Model.Driver
  Model.Tape Model.Iter Model.WF.
From SJ Require Import Proofs.Stage1Buffers Proofs.Stage2Base.
From SJ Require Import Proofs.TotalDefs Proofs.TotalStr Proofs.TotalS1 Proofs.WFMachine.
Open Scope N_scope.

(* bytes.TrimSpace never lengthens *)
Lemma trim_left_length : forall fuel s, (length (trim_left fuel s) <= length s)%nat.
Proof.
  induction fuel as [|f IH]; intros s; cbn [trim_left]; [lia|].
  destruct (space_prefix s) as [|n]; [lia|].
  etransitivity; [apply IH|]. rewrite skipn_length. lia.
Qed.

Lemma trim_right_rev_length : forall fuel s, (length (trim_right_rev fuel s) <= length s)%nat.
Proof.
  induction fuel as [|f IH]; intros s; cbn [trim_right_rev]; [lia|].
  destruct (space_suffix_rev s) as [|n]; [lia|].
  etransitivity; [apply IH|]. rewrite skipn_length. lia.
Qed.

Lemma trim_space_go_length s : (length (trim_space_go s) <= length s)%nat.
Proof.
  unfold trim_space_go. rewrite rev_length.
  etransitivity; [apply trim_right_rev_length|]. rewrite rev_length. apply trim_left_length.
Qed.

(* strings handed to stage 2 do not overlap: the position handed after an
   opening quote lies beyond the place where the string kernel stops *)
Lemma s1_str_disjoint nd msg : str_disjoint msg (concat (o_bufs (s1_buffers nd msg))).
Proof.
  intros a p p' b n dec Hps Hq Hloop.
  destruct (s1_facts nd msg) as (_ & _ & _ & Hcl & _). cbv zeta in Hcl.
  unfold strings_closed in Hcl. rewrite Forall_forall in Hcl.
  assert (Hin : In p (concat (o_bufs (s1_buffers nd msg)))).
  { rewrite Hps. apply in_or_app. right. left. reflexivity. }
  specialize (Hcl p Hin Hq).
  destruct (qscan (skipn (S p) msg)) as [k|] eqn:Ek; [|congruence].
  pose proof (str_loop_stop _ _ _ _ _ _ _ Ek Hloop) as Hn. cbn [Nat.add] in Hn. subst n.
  exact (s1_disjoint nd msg a p p' b k Hps Hq Ek).
Qed.

Theorem parse_message_wf : forall nd copy bs p, N.of_nat (length bs) < 2 ^ 55 ->
  parse_message nd copy bs = Ok p ->
  wf_check false {| pj_tape := p_tape p; pj_strings := p_strings p; pj_msg := p_msg p |} = true.
Proof.
  intros nd copy bs p Hlen. unfold parse_message. cbv zeta.
  set (msg := trim_space_go bs).
  assert (Hlm : N.of_nat (length msg) < 2 ^ 55).
  { pose proof (trim_space_go_length bs) as L. fold msg in L. lia. }
  destruct (s1_facts nd msg) as (Hne & Hinc & Hrange & _ & Hok). cbv zeta in *.
  destruct (run2 copy msg (bufs_incs 0 (o_bufs (s1_buffers nd msg)))) as [m| | |] eqn:Er; try discriminate.
  destruct (o_ok (s1_buffers nd msg)) eqn:Eo; [|discriminate].
  intros H. injection H as <-. cbn [p_tape p_strings p_msg].
  apply (run2_wf copy msg (o_bufs (s1_buffers nd msg)) m Hlm Hne Hinc Hrange); [|apply s1_str_disjoint|exact Er].
  destruct (Hok eq_refl) as (h & q & Hhq & Hc). exists h, q. split; [exact Hhq|exact Hc].
Qed.

Lemma parse_model_unfold copy bs : parse_model copy bs = parse_message false copy bs.
Proof. reflexivity. Qed.
Lemma parsend_model_unfold copy bs : parsend_model copy bs = parse_message true copy bs.
Proof. reflexivity. Qed.

(* the statement asked for: Parse on texts the specification accepts *)
Theorem parse_wf : forall copy bs d, N.of_nat (length bs) < 2^55 -> spec_parse bs = SOk d ->
  forall p, parse_model copy bs = Ok p ->
  wf_check false {| pj_tape := p_tape p; pj_strings := p_strings p; pj_msg := p_msg p |} = true.
Proof. intros copy bs d Hlen _ p H. rewrite parse_model_unfold in H. apply (parse_message_wf false copy bs p Hlen). exact H. Qed.

(* and without the specification hypothesis, for both entry points *)
Theorem parse_model_wf : forall copy bs p, N.of_nat (length bs) < 2^55 -> parse_model copy bs = Ok p ->
  wf_check false {| pj_tape := p_tape p; pj_strings := p_strings p; pj_msg := p_msg p |} = true.
Proof. intros copy bs p Hlen H. rewrite parse_model_unfold in H. apply (parse_message_wf false copy bs p Hlen). exact H. Qed.

Theorem parsend_model_wf : forall copy bs p, N.of_nat (length bs) < 2^55 -> parsend_model copy bs = Ok p ->
  wf_check false {| pj_tape := p_tape p; pj_strings := p_strings p; pj_msg := p_msg p |} = true.
Proof. intros copy bs p Hlen H. rewrite parsend_model_unfold in H. apply (parse_message_wf true copy bs p Hlen). exact H. Qed.

(* ------------------------------------------------------------------ *)
(* examples                                                            *)

From SJ Require Import Model.Oracle.
Import String.StringSyntax.
Open Scope string_scope.

Definition wf_on (nd copy : bool) (bs : bytes) : option bool :=
  match parse_message nd copy bs with
  | Ok p => Some (wf_check false {| pj_tape := p_tape p; pj_strings := p_strings p; pj_msg := p_msg p |})
  | _ => None
  end.

Example ex_wf_1 :
  map (fun t => (wf_on false true t, wf_on false false t, wf_on true false t))
    [lit "{""a"":[1,-2.5,true,null,""x\néy"",{""b"":""c""}],""d"":[[],{}]}";
     lit "[""\udc00""]";      (* accepted by the model although not by the specification *)
     lit "[1 2]"]
  = [(Some true, Some true, Some true); (Some true, Some true, Some true); (None, None, None)].
Proof. vm_compute. reflexivity. Qed.

Definition nd_doc : bytes :=
  lit "{""a"":1}" ++ [n2b 13; n2b 10; n2b 10; n2b 32; n2b 10] ++ lit "[""x\ty"", 2]" ++ [n2b 10] ++ lit "{}".
Example ex_wf_nd : (wf_on true true nd_doc, wf_on true false nd_doc, wf_on false false nd_doc)
  = (Some true, Some true, None).
Proof. vm_compute. reflexivity. Qed.

Print Assumptions parse_message_wf.
Print Assumptions parse_wf.
