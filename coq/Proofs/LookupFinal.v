(* LookupFinal.v — property C12: lookup, filtered iteration and bulk accessors
   agree with plain traversal.  Final statements; the proofs are in
   LookupBase / LookupFind / LookupPath / LookupEach / LookupNum / LookupBulk /
   LookupIface / LookupTop.

   Setting.  [tape_ok pj] (TapeProofs) is the traversal invariant: strict
   structure, NOP runs left by deletions allowed, no NOP between a key and its
   value.  On such a tape
     - [denotes true true pj it d]: the iterator it stands on a value whose
       segment reads as the document d; plain traversal from it returns d
       (C12_denotes_walk);
     - [obj_at true true pj o l] / [arr_at true true pj a l]: the Object o /
       Array a is the one Iter.Object() / Iter.Array() returns on an iterator
       denoting DObj l / DArr l (C12_object_of / C12_array_of); there is one
       for every object / array of the document (C12_obj_at_path /
       C12_arr_at_path), and the first root is reached by Advance + Root()
       (C12_root_value).
   The theorems only use the structure below the container, so they are
   stated for obj_at / arr_at / denotes directly. *)
From SJ Require Import Model.Base Model.RefTables Spec.Json Spec.EditSpec Model.Tape
     Model.Iter Model.Walk Model.Edit Model.WF.
From SJ Require Import Proofs.TapeBase Proofs.TapeSeg Proofs.TapeDen Proofs.TapePath
     Proofs.TapeEdit Proofs.TapeIter Proofs.TapeDelete Proofs.TapeWF Proofs.TapeWalk
     Proofs.TapeProofs
     Proofs.LookupBase Proofs.LookupFind Proofs.LookupPath Proofs.LookupEach Proofs.LookupNum
     Proofs.LookupBulk Proofs.LookupIface Proofs.LookupTop Proofs.LookupParse.
From Coq Require Import Lia ZifyBool ZifyN ZifyNat Floats.SpecFloat.
Open Scope N_scope.

Definition sized (pj : pjson) : Prop :=
  N.of_nat (length (pj_msg pj)) < two64 /\ N.of_nat (length (pj_strings pj)) < two64.

Notation DEN := (denotes true true).
Notation OBJ := (obj_at true true).
Notation ARR := (arr_at true true).

(* ---- the setting ---------------------------------------------------- *)

Theorem C12_denotes_walk pj it d :
  sized pj -> DEN pj it d -> walk_value (S (length (pj_tape pj))) pj it = Ok d.
Proof. intros (Bm & Bs). exact (denotes_walk true pj it d Bm Bs). Qed.

Theorem C12_denotes_type pj it d : DEN pj it d -> iter_type it = doc_type d.
Proof. exact (denotes_type true true pj it d). Qed.

Theorem C12_object_of pj it l :
  DEN pj it (DObj l) -> exists o, iter_object it = Ok o /\ OBJ pj o l.
Proof. exact (denotes_object true true pj it l). Qed.

Theorem C12_array_of pj it l :
  DEN pj it (DArr l) -> exists a, iter_array it = Ok a /\ ARR pj a l.
Proof. exact (denotes_array true true pj it l). Qed.

Theorem C12_obj_at_path pj ds p l :
  tape_ok pj -> denote (pj_msg pj) (pj_strings pj) (pj_tape pj) = Some ds ->
  get_docs p ds = Some (DObj l) -> exists o, OBJ pj o l.
Proof. exact (obj_at_path pj ds p l). Qed.

Theorem C12_arr_at_path pj ds p l :
  tape_ok pj -> denote (pj_msg pj) (pj_strings pj) (pj_tape pj) = Some ds ->
  get_docs p ds = Some (DArr l) -> exists a, ARR pj a l.
Proof. exact (arr_at_path pj ds p l). Qed.

Theorem C12_root_value pj d ds :
  sized pj -> tape_ok pj ->
  denote (pj_msg pj) (pj_strings pj) (pj_tape pj) = Some (d :: ds) ->
  exists r it, advance pj (iter0 pj) = Ok (r, TypeRoot) /\
               iter_root pj r = Ok (it, doc_type d) /\ DEN pj it d.
Proof.
  intros (Bm & Bs) Hok Hden. apply (root_value_denotes pj d ds Bm Bs). apply tape_ok_roots; auto.
Qed.

(* ---- 1. FindKey ------------------------------------------------------ *)

(* the first member with the key, as an element of that member's type whose
   iterator denotes that member's value; nil when there is none *)
Theorem C12_find_key pj o l key :
  sized pj -> OBJ pj o l ->
  exists r, find_key pj o key = Ok r /\
    match abs_find_key l key with
    | Some d => exists it, r = Found (doc_type d) it /\ DEN pj it d
    | None => r = NotFound
    end.
Proof.
  intros (Bm & Bs) (pre & sub & post & Ht & Hv & Hc).
  exact (find_key_refines true true pj o key pre sub post l Bm Bs Ht Hv Hc).
Qed.

Lemma abs_find_key_none l key : abs_find_key l key = None <-> ~ In key (map fst l).
Proof.
  induction l as [|[k v] l IH]; cbn [abs_find_key map fst In]; [tauto|].
  destruct (bytes_eqb key k) eqn:E.
  - apply bytes_eqb_true_iff in E. subst. split; [discriminate|]. intros H. exfalso. apply H. now left.
  - apply bytes_eqb_false_iff in E. rewrite IH. split.
    + intros H [H1|H1]; [congruence|contradiction].
    + intros H H1. apply H. now right.
Qed.

Corollary C12_find_key_nil pj o l key :
  sized pj -> OBJ pj o l ->
  (find_key pj o key = Ok NotFound <-> ~ In key (map fst l)).
Proof.
  intros Hs Ho. destruct (C12_find_key pj o l key Hs Ho) as (r & E & H).
  rewrite <- abs_find_key_none. rewrite E.
  destruct (abs_find_key l key) as [d|].
  - destruct H as (it & -> & _). split; discriminate.
  - subst r. split; reflexivity.
Qed.

(* ---- 2. FindPath / FindElement --------------------------------------- *)

Theorem C12_find_path pj o l path :
  sized pj -> OBJ pj o l ->
  exists r, find_path pj o path = Ok r /\
    match abs_find_path (DObj l) path with
    | LFound d => exists it, r = Found (doc_type d) it /\ DEN pj it d
    | LNotFound => r = NotFound        (* ErrPathNotFound *)
    | LOtherErr => r = OtherErr        (* the path runs through a non-object *)
    end.
Proof.
  intros (Bm & Bs) (pre & sub & post & Ht & Hv & Hc).
  exact (find_path_refines true true pj o path pre sub post l Bm Bs Ht Hv Hc).
Qed.

(* the three outcomes are told apart exactly *)
Corollary C12_find_path_outcomes pj o l path :
  sized pj -> OBJ pj o l ->
  (find_path pj o path = Ok NotFound <-> abs_find_path (DObj l) path = LNotFound) /\
  (find_path pj o path = Ok OtherErr <-> abs_find_path (DObj l) path = LOtherErr) /\
  ((exists ty it, find_path pj o path = Ok (Found ty it)) <->
   (exists d, abs_find_path (DObj l) path = LFound d)).
Proof.
  intros Hs Ho. destruct (C12_find_path pj o l path Hs Ho) as (r & E & H). rewrite E.
  destruct (abs_find_path (DObj l) path) as [d| |].
  - destruct H as (it & -> & _). repeat split; try discriminate; eauto.
  - subst r. repeat split; try discriminate; try reflexivity.
    + intros (ty & it & H). discriminate H.
    + intros (d & H). discriminate H.
  - subst r. repeat split; try discriminate; try reflexivity.
    + intros (ty & it & H). discriminate H.
    + intros (d & H). discriminate H.
Qed.

(* Iter.FindElement on an iterator standing on a value *)
Theorem C12_find_element pj it d path :
  sized pj -> DEN pj it d ->
  exists r, find_element pj it path = Ok r /\
    match abs_find_path d path with
    | LFound x => exists it', r = Found (doc_type x) it' /\ DEN pj it' x
    | LNotFound => r = NotFound
    | LOtherErr => r = OtherErr
    end.
Proof. intros (Bm & Bs). exact (find_element_value true true pj it d path Bm Bs). Qed.

(* ... and on a fresh pj.Iter(): the lookup is made in the first root *)
Theorem C12_find_element_top pj ds path :
  sized pj -> tape_ok pj -> denote (pj_msg pj) (pj_strings pj) (pj_tape pj) = Some ds ->
  exists r, find_element pj (iter0 pj) path = Ok r /\
    match (match ds with [] => LNotFound | d :: _ => abs_find_path d path end) with
    | LFound x => exists it', r = Found (doc_type x) it' /\ DEN pj it' x
    | LNotFound => r = NotFound
    | LOtherErr => r = OtherErr
    end.
Proof.
  intros (Bm & Bs) Hok Hden.
  exact (find_element_iter0 true pj ds path Bm Bs (tape_ok_roots pj ds Hok Hden)).
Qed.

(* ---- 3. Object.ForEach ------------------------------------------------ *)

Notation CB := (callback_for true true).

(* keys unique within the object: exactly the members whose key is in the
   filter (all members for an empty filter), in order, each with its own key
   and an iterator denoting its own value *)
Theorem C12_obj_foreach pj o l only :
  sized pj -> OBJ pj o l -> NoDup (map fst l) ->
  exists cbs, obj_foreach pj o only = Ok cbs /\ Forall2 (CB pj) cbs (abs_foreach l only).
Proof.
  intros (Bm & Bs) (pre & sub & post & Ht & Hv & Hc).
  exact (obj_foreach_unique true true pj o only pre sub post l Bm Bs Ht Hv Hc).
Qed.

Theorem C12_obj_foreach_all pj o l :
  sized pj -> OBJ pj o l ->
  exists cbs, obj_foreach pj o [] = Ok cbs /\ Forall2 (CB pj) cbs l.
Proof.
  intros (Bm & Bs) (pre & sub & post & Ht & Hv & Hc).
  exact (obj_foreach_all true true pj o pre sub post l Bm Bs Ht Hv Hc).
Qed.

(* outside the claim (keys not unique): the loop stops after as many callbacks
   as there are distinct keys in the filter *)
Theorem C12_obj_foreach_duplicates pj o l only :
  sized pj -> OBJ pj o l -> only <> [] ->
  exists cbs, obj_foreach pj o only = Ok cbs /\
    Forall2 (CB pj) cbs (firstn (distinct_count only []) (filter (in_filter only) l)).
Proof.
  intros (Bm & Bs) (pre & sub & post & Ht & Hv & Hc).
  exact (obj_foreach_duplicates true true pj o only pre sub post l Bm Bs Ht Hv Hc).
Qed.

(* ---- 4. Array.ForEach and the bulk accessors -------------------------- *)

Theorem C12_arr_foreach pj a l :
  ARR pj a l -> exists its, arr_foreach pj a = Ok its /\ Forall2 (DEN pj) its l.
Proof.
  intros (pre & sub & post & Ht & Hv & Hc).
  exact (arr_foreach_refines true true pj a pre sub post l Ht Hv Hc).
Qed.

(* the typed accessors on a denoting iterator *)
Theorem C12_accessors pj it d :
  sized pj -> words64 pj -> DEN pj it d ->
  iter_int pj it = doc_int d /\ iter_uint pj it = doc_uint d /\
  iter_float pj it = doc_float d /\ string_bytes pj it = doc_string d.
Proof.
  intros (Bm & Bs) H64 Hd. repeat split.
  - exact (iter_int_denotes true true pj it d Hd).
  - exact (iter_uint_denotes true true pj it d H64 Hd).
  - exact (iter_float_denotes true true pj it d Hd).
  - exact (string_bytes_denotes true true pj it d Bm Bs Hd).
Qed.

(* AsString: the strings, or an error when an element is not a string; equal
   to mapping Iter.StringBytes over what ForEach yields *)
Theorem C12_as_string pj a l :
  sized pj -> ARR pj a l ->
  as_string pj a = omap doc_string l /\
  as_string pj a = (do its <- arr_foreach pj a; omap (string_bytes pj) its).
Proof.
  intros (Bm & Bs) (pre & sub & post & Ht & Hv & Hc). split.
  - exact (as_string_refines true true pj a pre sub post l Bm Bs Ht Hv Hc).
  - exact (as_string_is_foreach true true pj a pre sub post l Bm Bs Ht Hv Hc).
Qed.

(* AsFloat / AsInteger / AsUint64 (after the fix F15: NOP runs left by deleted
   elements are skipped, as Advance does): the conversions of the elements, or
   an error when an element is not a number or does not fit; equal to mapping
   Iter.Float / Int / Uint over what ForEach yields *)
Theorem C12_as_num k pj a l :
  words64 pj -> ARR pj a l ->
  as_num k pj a = omap (elem_num k) l /\
  as_num k pj a = (do its <- arr_foreach pj a; omap (iter_num k pj) its).
Proof. exact (as_num_at true true k pj a l). Qed.

(* the exact ranges of the conversions; v = p/q is the value of the float *)
Theorem C12_float_to_int bits p q :
  sf_frac (sf_of_bits bits) = Some (p, q) ->
  (0 < q)%Z /\
  ((- two63z * q <= p < two63z * q)%Z -> conv_int (NFloat bits 0) = Ok (p ÷ q)%Z) /\
  (~ (- two63z * q <= p < two63z * q)%Z -> conv_int (NFloat bits 0) = Err).
Proof.
  intros H. split; [eapply sf_frac_pos; eauto|]. exact (float_to_int_range bits p q H).
Qed.

Theorem C12_float_to_uint bits p q :
  sf_frac (sf_of_bits bits) = Some (p, q) ->
  ((0 <= p < two64z * q)%Z -> conv_uint (NFloat bits 0) = Ok (Z.to_N (p ÷ q))) /\
  (~ (0 <= p < two64z * q)%Z -> conv_uint (NFloat bits 0) = Err).
Proof. exact (float_to_uint_range bits p q). Qed.

Theorem C12_int_conversions :
  (forall u, (u < two63 -> conv_int (NUint u) = Ok (Z.of_N u)) /\
             (two63 <= u -> conv_int (NUint u) = Err)) /\
  (forall z, ((0 <= z)%Z -> conv_uint (NInt z) = Ok (Z.to_N z)) /\
             ((z < 0)%Z -> conv_uint (NInt z) = Err)) /\
  (forall z, conv_int (NInt z) = Ok z) /\ (forall u, conv_uint (NUint u) = Ok u) /\
  (forall z, conv_float (NInt z) = Ok (float_of_Z z)) /\
  (forall u, conv_float (NUint u) = Ok (float_of_Z (Z.of_N u))) /\
  (forall b f, conv_float (NFloat b f) = Ok b).
Proof.
  split; [exact uint_to_int_range|]. split; [exact int_to_uint_range|].
  repeat split; reflexivity.
Qed.

(* ---- 5. Interface() / Map() ------------------------------------------- *)

Theorem C12_interface_val pj it d :
  sized pj -> DEN pj it d ->
  interface_val (S (length (pj_tape pj))) pj it = Ok (doc_ival d).
Proof. intros (Bm & Bs). exact (interface_val_denotes true pj it d Bm Bs). Qed.

Theorem C12_interface_doc pj ds :
  sized pj -> tape_ok pj -> denote (pj_msg pj) (pj_strings pj) (pj_tape pj) = Some ds ->
  interface_doc pj = match ds with [] => Err | _ => Ok (map doc_ival ds) end.
Proof.
  intros (Bm & Bs) Hok Hden.
  exact (interface_doc_ok pj Bm Bs ds (tape_ok_roots pj ds Hok Hden)).
Qed.

(* objects become maps: the last duplicate wins, as in Go's dst[name] = v *)
Theorem C12_map_last_wins l k :
  doc_ival (DObj l) = IMap (members_ival l []) /\
  map_get k (members_ival l []) = option_map doc_ival (abs_find_last l k None).
Proof.
  split; [apply doc_ival_obj|]. rewrite members_ival_get.
  destruct (abs_find_last l k None); reflexivity.
Qed.

(* Object.Parse / Elements.Lookup (the loop is defined in LookupParse.v over the
   modelled NextElementBytes; it is not part of Model/Walk.v): one element per
   member with its name, type and an iterator denoting its value; Lookup
   returns the LAST member with the key, which is FindKey's member when keys
   are unique *)
Theorem C12_parse pj o l :
  sized pj -> OBJ pj o l ->
  exists els, obj_parse pj o = Ok els /\ Forall2 (element_for true pj) els l.
Proof. intros (Bm & Bs). exact (obj_parse_refines true pj o l Bm Bs). Qed.

Theorem C12_parse_lookup pj o l key :
  sized pj -> OBJ pj o l -> NoDup (map fst l) ->
  exists els, obj_parse pj o = Ok els /\
    match elements_lookup els key None, abs_find_key l key with
    | Some (ty, it), Some d => ty = doc_type d /\ DEN pj it d
    | None, None => True
    | _, _ => False
    end.
Proof.
  intros (Bm & Bs) Ho Hnd.
  destruct (parse_lookup_last true pj o l key Bm Bs Ho) as (els & E & H).
  exists els. split; [exact E|]. rewrite <- (abs_find_last_unique l key Hnd). exact H.
Qed.

(* ---- 6. totality ------------------------------------------------------- *)

Theorem C12_total_object pj o l :
  sized pj -> OBJ pj o l ->
  (forall key, total (find_key pj o key)) /\
  (forall path, total (find_path pj o path)) /\
  (forall only, total (obj_foreach pj o only)).
Proof.
  intros Hs Ho. repeat split.
  - intros key. destruct (C12_find_key pj o l key Hs Ho) as (r & E & _). eapply total_ok; eauto.
  - intros path. destruct (C12_find_path pj o l path Hs Ho) as (r & E & _). eapply total_ok; eauto.
  - intros only. destruct Hs as (Bm & Bs). destruct Ho as (pre & sub & post & Ht & Hv & Hc).
    destruct (obj_foreach_refines true true pj o only pre sub post l Bm Bs Ht Hv Hc) as (cbs & E & _).
    eapply total_ok; eauto.
Qed.

Theorem C12_total_array pj a l :
  sized pj -> words64 pj -> ARR pj a l ->
  total (arr_foreach pj a) /\ total (as_string pj a) /\ (forall k, total (as_num k pj a)).
Proof.
  intros Hs H64 Ha. repeat split.
  - destruct (C12_arr_foreach pj a l Ha) as (its & E & _). eapply total_ok; eauto.
  - destruct (C12_as_string pj a l Hs Ha) as (-> & _). apply omap_total. apply doc_string_total.
  - intros k. eapply as_num_total; eauto.
Qed.

Theorem C12_total_iter pj it d :
  sized pj -> DEN pj it d ->
  (forall path, total (find_element pj it path)) /\
  total (interface_val (S (length (pj_tape pj))) pj it) /\
  total (walk_value (S (length (pj_tape pj))) pj it).
Proof.
  intros Hs Hd. repeat split.
  - intros path. destruct (C12_find_element pj it d path Hs Hd) as (r & E & _). eapply total_ok; eauto.
  - rewrite (C12_interface_val pj it d Hs Hd). exact I.
  - rewrite (C12_denotes_walk pj it d Hs Hd). exact I.
Qed.

Theorem C12_total_top pj ds :
  sized pj -> tape_ok pj -> denote (pj_msg pj) (pj_strings pj) (pj_tape pj) = Some ds ->
  (forall path, total (find_element pj (iter0 pj) path)) /\ total (interface_doc pj).
Proof.
  intros Hs Hok Hden. split.
  - intros path. destruct (C12_find_element_top pj ds path Hs Hok Hden) as (r & E & _).
    eapply total_ok; eauto.
  - rewrite (C12_interface_doc pj ds Hs Hok Hden). destruct ds; exact I.
Qed.

Print Assumptions C12_find_key.
Print Assumptions C12_find_path.
Print Assumptions C12_find_element.
Print Assumptions C12_find_element_top.
Print Assumptions C12_obj_foreach.
Print Assumptions C12_obj_foreach_duplicates.
Print Assumptions C12_arr_foreach.
Print Assumptions C12_accessors.
Print Assumptions C12_as_string.
Print Assumptions C12_as_num.
Print Assumptions C12_float_to_int.
Print Assumptions C12_float_to_uint.
Print Assumptions C12_interface_val.
Print Assumptions C12_interface_doc.
Print Assumptions C12_map_last_wins.
Print Assumptions C12_parse_lookup.
Print Assumptions C12_total_object.
Print Assumptions C12_total_array.
Print Assumptions C12_total_iter.
Print Assumptions C12_total_top.
Print Assumptions C12_root_value.
Print Assumptions C12_obj_at_path.
