(* Proofs/PoolProofs.v -- property C20: goroutines working on their own
   objects and sharing only sync.Pool pools do not influence each other,
   provided each use of a pooled object starts with Reset.
   Model: Model/Pool.v. *)
From Coq Require Import List Arith Bool PeanoNat Lia.
From SJ Require Import Model.Pool.
Import ListNotations.

(* ------------------------------------------------------------------ *)
(* list plumbing                                                       *)
(* ------------------------------------------------------------------ *)

Lemma disc_run_app {X} (d : dstate) (a b : list (op X)) :
  disc_run d (a ++ b) =
  match disc_run d a with Some d' => disc_run d' b | None => None end.
Proof.
  revert d. induction a as [|o a IH]; intros d; [reflexivity|].
  cbn [app disc_run]. destruct (disc_step d o); [apply IH|reflexivity].
Qed.

Ltac split4 := split; [assumption|split; [assumption|split; assumption]].

Section PoolProofs.
  Variables X Y C : Type.
  Variable fresh : C.
  Variable reset : C -> C.
  Variable write : X -> C -> C.
  Variable close : C -> Y * C.

  Notation lstate := (lstate Y C).
  Notation lstep := (lstep X Y C reset write close).
  Notation solo_state := (solo_state X Y C fresh reset write close).
  Notation solo_outs := (solo_outs X Y C fresh reset write close).
  Notation thread := (thread X Y C).
  Notation gstate := (gstate X Y C).
  Notation gstep := (gstep X Y C fresh reset write close).
  Notation grun := (grun X Y C fresh reset write close).
  Notation ginit := (ginit X Y C).
  Notation outs_of := (outs_of X Y C).
  Notation observe := (observe X Y C write close).
  Notation set_nth := (set_nth X Y C).

  (* two codec states nobody can tell apart from now on *)
  Definition obs_eq (c1 c2 : C) : Prop := forall ops, observe ops c1 = observe ops c2.

  (* THE CODEC CONTRACT (s2.Writer.Reset, zstd.Encoder.Reset, s2.Reader.Reset):
     after Reset, the behaviour depends only on what is done afterwards *)
  Hypothesis reset_contract : forall c1 c2, obs_eq (reset c1) (reset c2).

  Lemma obs_eq_write (x : X) (c1 c2 : C) : obs_eq c1 c2 -> obs_eq (write x c1) (write x c2).
  Proof. intros H ops. exact (H (CWrite x :: ops)). Qed.

  Lemma obs_eq_close (c1 c2 : C) :
    obs_eq c1 c2 -> fst (close c1) = fst (close c2) /\ obs_eq (snd (close c1)) (snd (close c2)).
  Proof.
    intros H. split.
    - specialize (H [CClose]). cbn [Pool.observe] in H.
      destruct (close c1), (close c2). cbn [fst]. congruence.
    - intros ops. specialize (H (CClose :: ops)). cbn [Pool.observe] in H.
      destruct (close c1), (close c2). cbn [snd]. congruence.
  Qed.

  Lemma solo_state_app (a b : list (op X)) (l : lstate) :
    solo_state (a ++ b) l = solo_state b (solo_state a l).
  Proof.
    revert l. induction a as [|o a IH]; intros l; [reflexivity|].
    cbn [app Pool.solo_state]. apply IH.
  Qed.

  Lemma nth_set_same (i : nat) (t t0 : thread) (l : list thread) :
    nth_error l i = Some t0 -> nth_error (set_nth i t l) i = Some t.
  Proof.
    revert i. induction l as [|x l IH]; intros i H; [destruct i; discriminate H|].
    destruct i as [|i]; [reflexivity|]. cbn [nth_error Pool.set_nth] in *. exact (IH i H).
  Qed.

  Lemma nth_set_other (i j : nat) (t : thread) (l : list thread) :
    i <> j -> nth_error (set_nth i t l) j = nth_error l j.
  Proof.
    revert i j. induction l as [|x l IH]; intros i j H; [destruct i; reflexivity|].
    destruct i as [|i], j as [|j]; try reflexivity; [congruence|].
    cbn [nth_error Pool.set_nth]. apply IH. congruence.
  Qed.

  (* ---------------------------------------------------------------- *)
  (* the local simulation                                              *)
  (* ---------------------------------------------------------------- *)

  (* relation between the goroutine's local state in the concurrent run and in
     its solo run, indexed by the discipline state: equal outputs; when an
     object is held and has been Reset, indistinguishable objects; when it has
     just been obtained, *no* relation between the two objects *)
  Definition sim (d : dstate) (l l' : lstate) : Prop :=
    snd l = snd l' /\
    match d with
    | Idle => fst l = None /\ fst l' = None
    | Fresh => fst l <> None /\ fst l' <> None
    | Ready => exists c c', fst l = Some c /\ fst l' = Some c' /\ obs_eq c c'
    end.

  Lemma sim_step (d d' : dstate) (o : op X) (l l' : lstate) (g g' : C) :
    disc_step d o = Some d' -> sim d l l' ->
    sim d' (fst (lstep o l g)) (fst (lstep o l' g')).
  Proof.
    intros Hd [Ho Hs]. destruct l as [h outs], l' as [h' outs'].
    cbn [fst snd] in *. subst outs'.
    destruct d, o; cbn [disc_step] in Hd; try discriminate Hd;
      injection Hd as <-; cbn [Pool.lstep fst snd].
    - (* Idle, Get *)
      split; [reflexivity|]. split; discriminate.
    - (* Fresh, Reset *)
      destruct Hs as [H1 H2].
      destruct h as [c|]; [|congruence]. destruct h' as [c'|]; [|congruence].
      split; [reflexivity|]. exists (reset c), (reset c').
      repeat split. apply reset_contract.
    - (* Fresh, Put *)
      split; [reflexivity|]. split; reflexivity.
    - (* Ready, Reset *)
      destruct Hs as (c & c' & -> & -> & He).
      split; [reflexivity|]. exists (reset c), (reset c').
      repeat split. apply reset_contract.
    - (* Ready, Write *)
      destruct Hs as (c & c' & -> & -> & He).
      split; [reflexivity|]. exists (write x c), (write x c').
      repeat split. apply obs_eq_write. exact He.
    - (* Ready, Close *)
      destruct Hs as (c & c' & -> & -> & He).
      destruct (obs_eq_close c c' He) as [Hy Hc].
      destruct (close c) as [y c1], (close c') as [y' c1']. cbn [fst snd] in *. subst y'.
      split; [reflexivity|]. exists c1, c1'. repeat split. exact Hc.
    - (* Ready, Put *)
      split; [reflexivity|]. split; reflexivity.
  Qed.

  (* ---------------------------------------------------------------- *)
  (* the invariant of one disciplined goroutine among arbitrary others  *)
  (* ---------------------------------------------------------------- *)

  Section OneThread.
    Variable tid : nat.
    Variable p : list (op X).
    Hypothesis p_disc : disciplined p = true.

    Definition TInv (s : gstate) : Prop :=
      exists t pre d,
        nth_error (threads X Y C s) tid = Some t /\
        p = pre ++ prog X Y C t /\
        disc_run Idle pre = Some d /\
        sim d (loc X Y C t) (solo_state pre (None, [])).

    Lemma tinv_step (s : gstate) (e : nat * nat) : TInv s -> TInv (gstep s e).
    Proof.
      intros (t & pre & d & Hn & Hp & Hd & Hs). destruct e as [i ch].
      unfold Pool.gstep.
      destruct (Nat.eq_dec i tid) as [->|Hne].
      - rewrite Hn. destruct (prog X Y C t) as [|o rest] eqn:Ep.
        + exists t, pre, d. rewrite Ep. split4.
        + (* the discipline allows o in state d *)
          assert (Hdo : exists d', disc_step d o = Some d').
          { unfold disciplined in p_disc. rewrite Hp, disc_run_app, Hd in p_disc.
            cbn [disc_run] in p_disc.
            destruct (disc_step d o) as [d'|]; [exists d'; reflexivity|discriminate p_disc]. }
          destruct Hdo as (d' & Hdo).
          destruct (match o with OGet => pool_get C fresh (pool X Y C s) ch
                            | _ => (fresh, pool X Y C s) end) as [got pl].
          pose proof (sim_step d d' o _ _ got fresh Hdo Hs) as Hs'.
          destruct (lstep o (loc X Y C t) got) as [l1 put] eqn:El. cbn [fst] in Hs'.
          exists (mkthread X Y C rest l1), (pre ++ [o]), d'.
          cbn [threads prog loc]. split; [exact (nth_set_same _ _ _ _ Hn)|].
          split; [rewrite <- app_assoc; exact Hp|].
          split; [rewrite disc_run_app, Hd; cbn [disc_run]; rewrite Hdo; reflexivity|].
          rewrite solo_state_app. cbn [Pool.solo_state]. exact Hs'.
      - destruct (nth_error (threads X Y C s) i) as [ti|] eqn:Ei;
          [|exists t, pre, d; split4].
        destruct (prog X Y C ti) as [|o rest]; [exists t, pre, d; split4|].
        destruct (match o with OGet => pool_get C fresh (pool X Y C s) ch
                          | _ => (fresh, pool X Y C s) end) as [got pl].
        destruct (lstep o (loc X Y C ti) got) as [l1 put].
        exists t, pre, d. cbn [threads].
        rewrite (nth_set_other _ _ _ _ Hne). split4.
    Qed.

    Lemma tinv_run (sched : list (nat * nat)) (s : gstate) : TInv s -> TInv (grun s sched).
    Proof.
      revert s. induction sched as [|e sched IH]; intros s H; [exact H|].
      unfold Pool.grun. cbn [fold_left]. apply IH. apply tinv_step. exact H.
    Qed.
  End OneThread.

  Lemma tinv_init (progs : list (list (op X))) (tid : nat) (p : list (op X)) :
    nth_error progs tid = Some p -> TInv tid p (ginit progs).
  Proof.
    intros H. exists (mkthread X Y C p (None, [])), [], Idle.
    cbn [threads Pool.ginit prog loc app]. split.
    - rewrite nth_error_map, H. reflexivity.
    - repeat split; reflexivity.
  Qed.

  (* ===== pool_noninterference =====
     For every schedule and whatever the other goroutines do, at every moment
     the outputs of a disciplined goroutine are those of the part of its
     program it has executed, run alone. *)
  Theorem pool_noninterference (progs : list (list (op X))) (sched : list (nat * nat))
          (tid : nat) (p : list (op X)) :
    nth_error progs tid = Some p ->
    disciplined p = true ->
    exists t pre,
      nth_error (threads X Y C (grun (ginit progs) sched)) tid = Some t /\
      p = pre ++ prog X Y C t /\
      outs_of (grun (ginit progs) sched) tid = solo_outs pre.
  Proof.
    intros Hn Hd.
    destruct (tinv_run tid p Hd sched _ (tinv_init progs tid p Hn))
      as (t & pre & d & Ht & Hp & _ & Ho & _).
    exists t, pre. split; [exact Ht|]. split; [exact Hp|].
    unfold Pool.outs_of. rewrite Ht. exact Ho.
  Qed.

  (* when the goroutine has finished: exactly its solo outputs *)
  Corollary pool_noninterference_done (progs : list (list (op X))) (sched : list (nat * nat))
            (tid : nat) (p : list (op X)) (t : thread) :
    nth_error progs tid = Some p ->
    disciplined p = true ->
    nth_error (threads X Y C (grun (ginit progs) sched)) tid = Some t ->
    prog X Y C t = [] ->
    outs_of (grun (ginit progs) sched) tid = solo_outs p.
  Proof.
    intros Hn Hd Ht Hp.
    destruct (pool_noninterference progs sched tid p Hn Hd) as (t' & pre & Ht' & Hpre & Ho).
    rewrite Ht in Ht'. injection Ht' as <-. rewrite Hp, app_nil_r in Hpre.
    rewrite Ho, Hpre. reflexivity.
  Qed.

  (* all goroutines disciplined, all finished: everybody got their solo outputs *)
  Corollary pool_noninterference_all (progs : list (list (op X))) (sched : list (nat * nat)) :
    forallb disciplined progs = true ->
    done X Y C (grun (ginit progs) sched) = true ->
    forall tid p, nth_error progs tid = Some p ->
                  outs_of (grun (ginit progs) sched) tid = solo_outs p.
  Proof.
    intros Hall Hdone tid p Hn.
    assert (Hd : disciplined p = true).
    { rewrite forallb_forall in Hall. apply Hall. exact (nth_error_In _ _ Hn). }
    destruct (pool_noninterference progs sched tid p Hn Hd) as (t & pre & Ht & Hpre & Ho).
    apply (pool_noninterference_done progs sched tid p t Hn Hd Ht).
    unfold Pool.done in Hdone. rewrite forallb_forall in Hdone.
    specialize (Hdone t (nth_error_In _ _ Ht)).
    destruct (prog X Y C t); [reflexivity|discriminate Hdone].
  Qed.

  (* [solo_outs] serves every Get a fresh object.  A goroutine running alone
     from an empty pool may also be served the objects it has Put itself: the
     outputs are the same (instance of the theorem with one goroutine), so
     "alone from an empty pool" is well defined *)
  Corollary alone_any_choice (p : list (op X)) (sched : list (nat * nat)) (t : thread) :
    disciplined p = true ->
    nth_error (threads X Y C (grun (ginit [p]) sched)) 0 = Some t ->
    prog X Y C t = [] ->
    outs_of (grun (ginit [p]) sched) 0 = solo_outs p.
  Proof.
    intros Hd Ht Hp.
    exact (pool_noninterference_done [p] sched 0 p t eq_refl Hd Ht Hp).
  Qed.
End PoolProofs.

(* ------------------------------------------------------------------ *)
(* The concrete history codec satisfies the contract                   *)
(* ------------------------------------------------------------------ *)

Lemma hist_contract (c1 c2 : list nat) :
  obs_eq nat (list nat) (list nat) hist_write hist_close (hist_reset c1) (hist_reset c2).
Proof. intros ops. reflexivity. Qed.

Theorem hist_noninterference (progs : list (list (op nat))) (sched : list (nat * nat))
        (tid : nat) (p : list (op nat)) :
  nth_error progs tid = Some p -> disciplined p = true ->
  exists pre rest, p = pre ++ rest /\ houts (hrun (hinit progs) sched) tid = hsolo pre.
Proof.
  intros Hn Hd.
  destruct (pool_noninterference nat (list nat) (list nat) hist_fresh hist_reset hist_write
              hist_close hist_contract progs sched tid p Hn Hd) as (t & pre & _ & Hp & Ho).
  exists pre, (prog _ _ _ t). split; [exact Hp|exact Ho].
Qed.

(* ------------------------------------------------------------------ *)
(* Non-vacuity and the refutation                                      *)
(* ------------------------------------------------------------------ *)

(* encBlock's discipline *)
Definition enc_prog (ws : list nat) : list (op nat) :=
  [OGet; OReset] ++ map OWrite ws ++ [OClose; OReset; OPut].

Example enc_prog_disciplined : disciplined (enc_prog [1; 2; 3] ++ enc_prog [4]) = true.
Proof. vm_compute. reflexivity. Qed.

(* three goroutines, two blocks each, round robin, always taking a pooled
   object when there is one: the objects migrate between goroutines, the
   outputs are the solo outputs *)
Definition ex_progs : list (list (op nat)) :=
  [enc_prog [1; 2] ++ enc_prog [3]; enc_prog [10] ++ enc_prog [11; 12]; enc_prog [20; 21; 22]].

Example ex_pool_run :
  let s := hrun (hinit ex_progs) (round_robin 3 20) in
  done _ _ _ s = true /\
  map (houts s) [0; 1; 2] = [[[1; 2]; [3]]; [[10]; [11; 12]]; [[20; 21; 22]]] /\
  map (houts s) [0; 1; 2] = map hsolo ex_progs /\
  length (pool _ _ _ s) = 3.
Proof. vm_compute. repeat split. Qed.

(* REFUTATION.  Goroutine 1 omits the Reset after Get (and relies on whoever
   used the object before having cleaned it); goroutine 0 follows the
   discipline of [disciplined] but does not clean before Put.  Sequential
   schedule, goroutine 1 is served the pooled object: it emits goroutine 0's
   history in front of its own data. *)
Definition leak_progs : list (list (op nat)) :=
  [[OGet; OReset; OWrite 7; OWrite 8; OClose; OPut];
   [OGet; OWrite 1; OClose; OPut]].

Definition leak_sched : list (nat * nat) :=
  [(0, 0); (0, 0); (0, 0); (0, 0); (0, 0); (0, 0); (1, 1); (1, 0); (1, 0); (1, 0)].

Example reset_matters :
  disciplined (nth 0 leak_progs []) = true /\
  disciplined (nth 1 leak_progs []) = false /\
  houts (hrun (hinit leak_progs) leak_sched) 1 = [[7; 8; 1]] /\
  hsolo (nth 1 leak_progs []) = [[1]] /\
  (* the disciplined goroutine is unaffected *)
  houts (hrun (hinit leak_progs) leak_sched) 0 = hsolo (nth 0 leak_progs []).
Proof. vm_compute. repeat split. Qed.

(* the same two programs under another interleaving (goroutine 1 first, or
   served a fresh object) do not leak: the defect is schedule dependent *)
Example reset_matters_other_schedule :
  houts (hrun (hinit leak_progs)
              [(1, 1); (1, 0); (1, 0); (1, 0); (0, 1); (0, 0); (0, 0); (0, 0); (0, 0); (0, 0)]) 1
  = [[1]].
Proof. vm_compute. reflexivity. Qed.

(* with the Reset after Get restored the leaking schedule is harmless *)
Example reset_restored :
  houts (hrun (hinit [nth 0 leak_progs []; [OGet; OReset; OWrite 1; OClose; OPut]])
              (leak_sched ++ [(1, 0)])) 1 = [[1]].
Proof. vm_compute. reflexivity. Qed.

Print Assumptions pool_noninterference.
Print Assumptions pool_noninterference_done.
Print Assumptions pool_noninterference_all.
Print Assumptions hist_noninterference.
Print Assumptions reset_matters.
