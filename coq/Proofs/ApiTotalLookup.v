(* ApiTotalLookup.v — FindKey, FindPath, FindElement, Object.ForEach,
   Array.ForEach, AsFloat/AsInteger/AsUint64 and AsString on ARBITRARY tapes:
   never Crash, never OutOfFuel with the model's own fuel, and every iterator
   handed back satisfies [iter_ok] again. *)
From SJ Require Import Model.Base Model.RefTables Spec.Json Model.Tape Model.Iter Model.Walk.
From SJ Require Import Proofs.ApiTotalBase.
From Coq Require Import Lia ZifyBool ZifyNat ZifyN.
Open Scope Z_scope.

Definition found_ok (pj : pjson) (r : found) : Prop :=
  match r with Found _ d => iter_ok pj d | _ => True end.

Lemma mu_le_tlen pj i : iter_ok pj i -> (mu i <= length (pj_tape pj))%nat.
Proof. intros ([H0 H1] & H2 & H3 & H4). unfold mu, pos, tlen in *. lia. Qed.

Lemma move_to_end_ok pj i : iter_ok pj i -> iter_ok pj (move_to_end i).
Proof. intros ([H0 H1] & H2 & H3 & H4). fin. Qed.

(* a step that answered a type other than TypeNone started inside the view *)
Lemma ty_post_inside i i' ty : ty_post i (pos i) i' ty -> ty <> TypeNone -> (0 < mu i)%nat.
Proof.
  intros [T1 T2] Hn. unfold mu. destruct (Z_lt_le_dec (pos i) (i_len i)) as [H|H]; [lia|].
  elim Hn. auto.
Qed.

Ltac adv_step pj tmp Hok tmp1 typ HA HT :=
  eapply okP_bind; [apply (advance_spec pj tmp Hok)|];
  intros [tmp1 typ] [HA HT]; cbn [fst snd] in HA, HT.

Lemma TypeString_not_None : TypeString <> TypeNone. Proof. discriminate. Qed.

(* ------------------------------------------------------------------ *)
(* FindKey                                                             *)

Lemma find_key_loop_spec : forall fuel pj tmp key,
  iter_ok pj tmp -> (mu tmp < fuel)%nat -> okP false (found_ok pj) (find_key_loop fuel pj tmp key).
Proof.
  induction fuel as [|f IH]; intros pj tmp key Hok Hf; [lia|].
  cbn [find_key_loop].
  adv_step pj tmp Hok tmp1 typ HA HT.
  pose proof (ap_ok _ _ _ _ HA) as Hok1.
  unfold t_is.
  destruct (N.eqb_spec typ TypeString) as [Ety|Ety]; cbn [negb orb]; [|exact I].
  destruct (i_len tmp1 <=? i_off tmp1 + 1) eqn:E1; [exact I|].
  assert (Hm : (mu tmp1 < mu tmp)%nat).
  { apply (adv_post_mu pj); [exact HA|]. apply (ty_post_inside _ _ _ HT). rewrite Ety. discriminate. }
  destruct Hok1 as ([K0 K1] & K2 & K3 & K4).
  destruct (rd_in pj (i_len tmp1) (i_off tmp1) K1) as (len & ->); [lia|]. cbn [obind].
  assert (Hok1 : iter_ok pj tmp1) by (unfold iter_ok; auto).
  destruct (negb (len =? N.of_nat (length key))%N).
  - adv_step pj tmp1 Hok1 tmp2 t2 HA2 HT2.
    destruct (t2 =? TypeNone)%N; [exact I|].
    apply IH; [apply (ap_ok _ _ _ _ HA2)|].
    pose proof (adv_post_mu_le _ _ _ HA2). lia.
  - pose proof (string_byte_at_spec pj (i_cur tmp1) len) as Hs.
    destruct (string_byte_at pj (i_cur tmp1) len) as [name| | |]; cbn [okP] in Hs; try tauto; try exact I.
    destruct (negb (bytes_eqb name key)).
    + adv_step pj tmp1 Hok1 tmp2 t2 HA2 HT2. cbn [fst].
      apply IH; [apply (ap_ok _ _ _ _ HA2)|].
      pose proof (adv_post_mu_le _ _ _ HA2). lia.
    + pose proof (advance_iter_spec pj tmp1 Hok1) as Hai.
      destruct (advance_iter pj tmp1) as [[[i1 [d|]] ty]| | |]; cbn [okP ai_post] in Hai; try tauto; try exact I.
      * cbn [okP found_ok]. destruct Hai as (_ & D & _). apply D.
      * cbn [okP found_ok]. apply move_to_end_ok; exact Hok1.
Qed.

Theorem find_key_total pj o key : cont_ok pj o -> okP false (found_ok pj) (find_key pj o key).
Proof.
  intros Ho. unfold find_key. apply find_key_loop_spec; [apply cont_iter_ok; exact Ho|].
  destruct Ho as [H1 H2]. unfold mu, pos, cont_fuel, cont_iter; cbn. lia.
Qed.

(* ------------------------------------------------------------------ *)
(* FindPath                                                            *)

Definition W (pj : pjson) : nat := S (S (length (pj_tape pj))).

Lemma find_path_loop_spec : forall fuel pj tmp key path,
  iter_ok pj tmp -> (mu tmp + W pj * length path < fuel)%nat ->
  okP false (found_ok pj) (find_path_loop fuel pj tmp key path).
Proof.
  induction fuel as [|f IH]; intros pj tmp key path Hok Hf; [lia|].
  cbn [find_path_loop].
  adv_step pj tmp Hok tmp1 typ HA HT.
  pose proof (ap_ok _ _ _ _ HA) as Hok1.
  unfold t_is.
  destruct (N.eqb_spec typ TypeString) as [Ety|Ety]; cbn [negb orb]; [|exact I].
  destruct (i_len tmp1 <=? i_off tmp1 + 1) eqn:E1; [exact I|].
  assert (Hm : (mu tmp1 < mu tmp)%nat).
  { apply (adv_post_mu pj); [exact HA|]. apply (ty_post_inside _ _ _ HT). rewrite Ety. discriminate. }
  destruct Hok1 as ([K0 K1] & K2 & K3 & K4).
  destruct (rd_in pj (i_len tmp1) (i_off tmp1) K1) as (len & ->); [lia|]. cbn [obind].
  assert (Hok1 : iter_ok pj tmp1) by (unfold iter_ok; auto).
  destruct (negb (len =? N.of_nat (length key))%N).
  - adv_step pj tmp1 Hok1 tmp2 t2 HA2 HT2.
    destruct (t2 =? TypeNone)%N; [exact I|].
    apply IH; [apply (ap_ok _ _ _ _ HA2)|].
    pose proof (adv_post_mu_le _ _ _ HA2). lia.
  - pose proof (string_byte_at_spec pj (i_cur tmp1) len) as Hs.
    destruct (string_byte_at pj (i_cur tmp1) len) as [name| | |]; cbn [okP] in Hs; try tauto; try exact I.
    destruct (negb (bytes_eqb name key)).
    + adv_step pj tmp1 Hok1 tmp2 t2 HA2 HT2. cbn [fst].
      apply IH; [apply (ap_ok _ _ _ _ HA2)|].
      pose proof (adv_post_mu_le _ _ _ HA2). lia.
    + pose proof (advance_iter_spec pj tmp1 Hok1) as Hai.
      destruct path as [|k2 rest].
      * destruct (advance_iter pj tmp1) as [[[i1 [d|]] ty]| | |]; cbn [okP ai_post] in Hai; try tauto; try exact I.
        -- cbn [okP found_ok]. destruct Hai as (_ & D & _). apply D.
        -- cbn [okP found_ok]. apply move_to_end_ok; exact Hok1.
      * destruct (advance_iter pj tmp1) as [[[i1 [d|]] ty]| | |]; cbn [okP ai_post] in Hai; try tauto; try exact I.
        destruct (negb (ty =? TypeObject)%N); [exact I|].
        destruct Hai as (_ & D & _). destruct D as (D1 & _).
        apply IH; [exact D1|].
        pose proof (mu_le_tlen pj d D1). cbn [length] in Hf. unfold W in *. lia.
Qed.

Theorem find_path_total pj o path : cont_ok pj o -> okP false (found_ok pj) (find_path pj o path).
Proof.
  intros Ho. unfold find_path. destruct path as [|k rest]; [exact I|].
  apply find_path_loop_spec; [apply cont_iter_ok; exact Ho|].
  pose proof (mu_le_tlen pj _ (cont_iter_ok pj o Ho)). cbn [length]. unfold W. lia.
Qed.

(* ------------------------------------------------------------------ *)
(* Iter.FindElement                                                    *)

(* AdvanceInto has no error return *)
Lemma advance_into_loop_no_err pj cp : forall n off, advance_into_loop n pj cp off <> Err.
Proof.
  induction n as [|n IH]; intros off; cbn [advance_into_loop]; [discriminate|].
  destruct (i_len cp <=? off); [discriminate|].
  unfold rd. destruct ((0 <=? off) && (off <? i_len cp)); [|discriminate].
  destruct (nth_error (pj_tape pj) (Z.to_nat off)) as [w|]; [|discriminate]. cbn [obind].
  destruct (word_tag w =? TagNop)%N; [|discriminate].
  destruct (word_val w =? 0)%N; [discriminate|apply IH].
Qed.

Lemma find_element_at_end f pj cp path :
  iter_ok pj cp -> i_t cp = TagEnd -> i_len cp <= pos cp ->
  find_element_loop (S f) pj cp path = Ok NotFound.
Proof.
  intros Hok Ht He. cbn [find_element_loop]. unfold t_is. rewrite Ht.
  change (TagEnd =? TagObjectStart)%N with false. change (TagEnd =? TagRoot)%N with false.
  change (TagEnd =? TagEnd)%N with true. cbv iota.
  pose proof (advance_into_spec pj cp Hok) as H.
  destruct (advance_into pj cp) as [[cp' tag]| | |] eqn:E; cbn [okP fst snd] in H; try tauto.
  - destruct H as (_ & T1 & _). rewrite (T1 He). cbn [obind]. reflexivity.
  - exfalso. exact (advance_into_loop_no_err pj cp _ _ E).
Qed.

Lemma find_element_loop_spec : forall fuel pj cp path q,
  iter_ok pj cp -> 0 <= q <= pos cp -> (i_t cp <> TagEnd -> q <= i_off cp) ->
  (Z.to_nat (i_len cp - q) + 1 < fuel)%nat ->
  okP false (found_ok pj) (find_element_loop fuel pj cp path).
Proof.
  induction fuel as [|f IH]; intros pj cp path q Hok Hq Hq2 Hf; [lia|].
  cbn [find_element_loop]. unfold t_is.
  destruct (N.eqb_spec (i_t cp) TagObjectStart) as [Eo|Eo].
  { pose proof (iter_object_spec pj cp Hok) as H.
    destruct (iter_object cp) as [o| | |]; cbn [okP] in H; try tauto; try exact I.
    apply find_path_total. apply H. }
  destruct (N.eqb_spec (i_t cp) TagRoot) as [Er|Er].
  { pose proof (iter_root_spec pj cp Hok) as H.
    destruct (iter_root pj cp) as [[cp' ty]| | |]; cbn [okP] in H; try tauto; try exact I.
    unfold root_post in H. cbn [fst snd] in H.
    destruct H as (R1 & R2 & R3 & R4 & R5 & R6 & R7 & R8).
    assert (Hqo : q <= i_off cp) by (apply Hq2; rewrite Er; discriminate).
    destruct (N.eq_dec (i_t cp') TagEnd) as [Ee|Ee].
    - destruct (Z_lt_le_dec (i_off cp) (i_len cp')) as [Hlt|Hle].
      + specialize (R5 Hlt).
        apply (IH pj cp' path (q + 1)); auto; try lia; try (intros Hx; now elim Hx).
      + (* the restricted view is empty: the next step answers TagEnd *)
        destruct f as [|f]; [lia|].
        rewrite find_element_at_end; auto; [exact I|].
        apply R6; exact Hle.
    - specialize (R7 Ee).
      apply (IH pj cp' path (i_off cp')); auto; try lia.
      destruct R1 as ([A0 A1] & A2 & A3 & A4). unfold pos. lia. }
  destruct (N.eqb_spec (i_t cp) TagEnd) as [Ee|Ee]; [|exact I].
  pose proof (advance_into_spec pj cp Hok) as H.
  destruct (advance_into pj cp) as [[cp' tag]| | |]; cbn [okP fst snd obind] in *; try tauto.
  destruct H as (HA & T1 & T2 & T3).
  destruct (N.eqb_spec tag TagEnd) as [Et|Et]; [exact I|].
  specialize (T2 Et). destruct T2 as (T2a & T2b).
  pose proof (ap_ok _ _ _ _ HA) as Hok'. pose proof (ap_len _ _ _ _ HA) as Hlen'.
  apply (IH pj cp' path (i_off cp')); auto; try lia.
  destruct Hok' as ([A0 A1] & A2 & A3 & A4). unfold pos. lia.
Qed.

Theorem find_element_total pj i path : iter_ok pj i -> okP false (found_ok pj) (find_element pj i path).
Proof.
  intros Hok. unfold find_element. destruct path as [|k rest]; [exact I|].
  pose proof Hok as ([H0 H1] & H2 & H3 & H4).
  apply (find_element_loop_spec _ pj i (k :: rest) 0); auto; unfold pos, tlen in *; try lia.
Qed.

(* ------------------------------------------------------------------ *)
(* Object.ForEach / Array.ForEach                                      *)

Definition iters_ok (pj : pjson) (l : list (bytes * iter)) : Prop := Forall (fun x => iter_ok pj (snd x)) l.

Lemma iters_ok_rev pj l : iters_ok pj l -> iters_ok pj (rev l).
Proof. unfold iters_ok. intros H. apply Forall_rev; exact H. Qed.

Lemma obj_foreach_loop_spec : forall fuel pj tmp only nkeys n acc,
  iter_ok pj tmp -> (mu tmp < fuel)%nat -> iters_ok pj acc ->
  okP false (iters_ok pj) (obj_foreach_loop fuel pj tmp only nkeys n acc).
Proof.
  induction fuel as [|f IH]; intros pj tmp only nkeys n acc Hok Hf Hacc; [lia|].
  cbn [obj_foreach_loop].
  adv_step pj tmp Hok tmp1 typ HA HT.
  pose proof (ap_ok _ _ _ _ HA) as Hok1.
  unfold t_is.
  destruct (N.eqb_spec typ TypeString) as [Ety|Ety]; cbn [negb orb].
  2:{ destruct (typ =? TypeNone)%N; [apply iters_ok_rev; exact Hacc|exact I]. }
  destruct (i_len tmp1 <=? i_off tmp1 + 1) eqn:E1.
  { destruct (typ =? TypeNone)%N; [apply iters_ok_rev; exact Hacc|exact I]. }
  assert (Hm : (mu tmp1 < mu tmp)%nat).
  { apply (adv_post_mu pj); [exact HA|]. apply (ty_post_inside _ _ _ HT). rewrite Ety. discriminate. }
  destruct Hok1 as ([K0 K1] & K2 & K3 & K4).
  destruct (rd_in pj (i_len tmp1) (i_off tmp1) K1) as (len & ->); [lia|]. cbn [obind].
  assert (Hok1 : iter_ok pj tmp1) by (unfold iter_ok; auto).
  pose proof (string_byte_at_spec pj (i_cur tmp1) len) as Hs.
  destruct (string_byte_at pj (i_cur tmp1) len) as [name| | |]; cbn [okP obind] in *; try tauto.
  destruct ((0 <? nkeys)%nat && negb (existsb (bytes_eqb name) only)).
  - adv_step pj tmp1 Hok1 tmp2 t2 HA2 HT2.
    destruct (t2 =? TypeNone)%N; [apply iters_ok_rev; exact Hacc|].
    apply IH; [apply (ap_ok _ _ _ _ HA2)| |exact Hacc].
    pose proof (adv_post_mu_le _ _ _ HA2). lia.
  - adv_step pj tmp1 Hok1 tmp2 t2 HA2 HT2.
    destruct (t2 =? TypeNone)%N; [apply iters_ok_rev; exact Hacc|].
    assert (Hacc' : iters_ok pj ((name, tmp2) :: acc)).
    { constructor; [exact (ap_ok _ _ _ _ HA2)|exact Hacc]. }
    destruct (S n =? nkeys)%nat; [apply iters_ok_rev; exact Hacc'|].
    apply IH; [apply (ap_ok _ _ _ _ HA2)| |exact Hacc'].
    pose proof (adv_post_mu_le _ _ _ HA2). lia.
Qed.

Theorem obj_foreach_total pj o only : cont_ok pj o -> okP false (iters_ok pj) (obj_foreach pj o only).
Proof.
  intros Ho. unfold obj_foreach. apply obj_foreach_loop_spec; [apply cont_iter_ok; exact Ho| |constructor].
  destruct Ho as [[H0 H1] H2]. unfold mu, pos, cont_fuel, cont_iter; cbn. lia.
Qed.

Lemma arr_foreach_loop_spec : forall fuel pj it acc,
  iter_ok pj it -> (mu it < fuel)%nat -> Forall (iter_ok pj) acc ->
  okP false (Forall (iter_ok pj)) (arr_foreach_loop fuel pj it acc).
Proof.
  induction fuel as [|f IH]; intros pj it acc Hok Hf Hacc; [lia|].
  cbn [arr_foreach_loop].
  adv_step pj it Hok it1 typ HA HT.
  unfold t_is.
  destruct (N.eqb_spec typ TypeNone) as [Ety|Ety]; [apply Forall_rev; exact Hacc|].
  assert (Hm : (mu it1 < mu it)%nat).
  { apply (adv_post_mu pj); [exact HA|]. apply (ty_post_inside _ _ _ HT). exact Ety. }
  apply IH; [exact (ap_ok _ _ _ _ HA)|lia|].
  constructor; [exact (ap_ok _ _ _ _ HA)|exact Hacc].
Qed.

Theorem arr_foreach_total pj a : cont_ok pj a -> okP false (Forall (iter_ok pj)) (arr_foreach pj a).
Proof.
  intros Ho. unfold arr_foreach. apply arr_foreach_loop_spec; [apply cont_iter_ok; exact Ho| |constructor].
  destruct Ho as [[H0 H1] H2]. unfold mu, pos, cont_fuel, cont_iter; cbn. lia.
Qed.

(* ------------------------------------------------------------------ *)
(* Array.AsFloat / AsInteger / AsUint64                                *)

Lemma as_num_loop_spec : forall fuel k pj a acc,
  cont_ok pj a -> (Z.to_nat (c_len a - c_off a) < fuel)%nat ->
  okP false top (as_num_loop fuel k pj a acc).
Proof.
  induction fuel as [|f IH]; intros k pj a acc [[Hl0 Hl] Ho] Hf; [lia|].
  cbn [as_num_loop].
  destruct (c_len a <=? c_off a) eqn:E; [exact I|].
  destruct (rd_in pj (c_len a) (c_off a) Hl) as (w & ->); [lia|]. cbn [obind]. cbv zeta.
  unfold t_is.
  destruct (word_tag w =? TagArrayEnd)%N; [exact I|].
  destruct ((word_tag w =? TagFloat)%N || (word_tag w =? TagInteger)%N || (word_tag w =? TagUint)%N).
  2:{ (* a NOP left by DeleteElems: skip count > 0 or an error *)
      destruct (word_tag w =? TagNop)%N; [|exact I].
      destruct (Z.of_N (word_val w) <=? 0) eqn:Es; [exact I|].
      apply IH; [unfold cont_ok; cbn; lia|cbn; lia]. }
  destruct (c_len a <=? c_off a + 1) eqn:E2; [exact I|].
  destruct (rd_in pj (c_len a) (c_off a + 1) Hl) as (v & ->); [lia|]. cbn [obind].
  set (i := {| i_len := c_len a; i_off := c_off a + 1; i_add := 1; i_cur := 0%N; i_t := word_tag w |}).
  assert (Hi : iter_ok pj i) by (unfold iter_ok, i; cbn; repeat split; lia).
  eapply okP_bind with (P := top).
  - destruct k.
    + eapply okP_bind; [apply (iter_float_spec pj i Hi)|]. intros; exact I.
    + apply (iter_int_spec pj i Hi).
    + eapply okP_bind; [apply (iter_uint_spec pj i Hi)|]. intros; exact I.
  - intros x _. apply IH; [unfold cont_ok; cbn; lia|cbn; lia].
Qed.

Theorem as_num_total k pj a : cont_ok pj a -> okP false top (as_num k pj a).
Proof.
  intros Ho. unfold as_num. apply as_num_loop_spec; [exact Ho|].
  destruct Ho as [[H0 H1] H2]. unfold cont_fuel. lia.
Qed.

(* ------------------------------------------------------------------ *)
(* Array.AsString                                                      *)

Lemma as_string_loop_spec : forall fuel pj it acc,
  iter_ok pj it -> (mu it < fuel)%nat -> okP false top (as_string_loop fuel pj it acc).
Proof.
  induction fuel as [|f IH]; intros pj it acc Hok Hf; [lia|].
  cbn [as_string_loop].
  eapply okP_bind; [apply (advance_iter_spec pj it Hok)|].
  intros [[it' [el|]] ty]; cbn [ai_post]; [|intros; exact I].
  intros (HA & D & Hty & Hr & _).
  unfold t_is. destruct (ty =? TypeNone)%N; [exact I|].
  destruct (ty =? TypeString)%N; [|exact I].
  eapply okP_bind; [apply (string_bytes_spec pj el); apply D|].
  intros s _. apply IH; [exact (ap_ok _ _ _ _ HA)|].
  assert (mu it' < mu it)%nat; [|lia].
  apply (adv_post_mu pj); [exact HA|]. unfold mu. lia.
Qed.

Theorem as_string_total pj a : cont_ok pj a -> okP false top (as_string pj a).
Proof.
  intros Ho. unfold as_string. apply as_string_loop_spec; [apply cont_iter_ok; exact Ho|].
  destruct Ho as [[H0 H1] H2]. unfold mu, pos, cont_fuel, cont_iter; cbn. lia.
Qed.
