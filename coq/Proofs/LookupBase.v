(* LookupBase.v — common notions for the lookup / filtered iteration / bulk
   accessor proofs (property C12): what it means for an iterator to denote a
   sub-document, AdvanceIter on segment-structured tapes, document types. *)
From SJ Require Import Model.Base Model.RefTables Spec.Json Spec.EditSpec Model.Tape
     Model.Iter Model.Walk Model.Edit Model.WF.
From SJ Require Import Proofs.TapeBase Proofs.TapeSeg Proofs.TapeDen Proofs.TapePath
     Proofs.TapeEdit Proofs.TapeIter Proofs.TapeDelete Proofs.TapeWF Proofs.TapeWalk.
From Coq Require Import Lia ZifyBool ZifyN ZifyNat.
Open Scope N_scope.

(* ------------------------------------------------------------------ *)
(* the Type() an iterator reports for a document                        *)

Definition doc_type (d : doc) : N :=
  match d with
  | DNull => TypeNull
  | DBool _ => TypeBool
  | DNum (NInt _) => TypeInt
  | DNum (NUint _) => TypeUint
  | DNum (NFloat _ _) => TypeFloat
  | DStr _ => TypeString
  | DArr _ => TypeArray
  | DObj _ => TypeObject
  end.

Lemma val_seg_type msg strings strict adj i w r d :
  val_seg msg strings strict adj i (w :: r) d -> TagToType_ref (word_tag w) = doc_type d.
Proof.
  intros H; inversion H; subst;
    match goal with Ht : word_tag w = _ |- _ => rewrite Ht end; reflexivity.
Qed.

Lemma val_seg_obj_tag msg strings strict adj i w r d :
  val_seg msg strings strict adj i (w :: r) d ->
  (word_tag w = TagObjectStart <-> exists l, d = DObj l).
Proof.
  intros H; inversion H; subst;
    match goal with Ht : word_tag w = _ |- _ => rewrite Ht end;
    (split; [intros E; try discriminate E; eexists; reflexivity
            |intros (l0 & E); try discriminate E; reflexivity]).
Qed.

(* ------------------------------------------------------------------ *)
(* an iterator denotes a document                                      *)

(* [it] stands on a value of the tape (as left by Advance, AdvanceIter,
   NextElement or Root) whose segment reads as the document d *)
Definition denotes (strict adj : bool) (pj : pjson) (it : iter) (d : doc) : Prop :=
  exists pre v post, pj_tape pj = pre ++ v ++ post /\
    val_seg (pj_msg pj) (pj_strings pj) strict adj (nlen pre) v d /\
    walk_iter it (nlen pre) v.

(* plain traversal from such an iterator returns the document *)
Theorem denotes_walk strict pj it d :
  N.of_nat (length (pj_msg pj)) < two64 -> N.of_nat (length (pj_strings pj)) < two64 ->
  denotes strict true pj it d ->
  walk_value (S (length (pj_tape pj))) pj it = Ok d.
Proof.
  intros Bm Bs (pre & v & post & Ht & Hv & Hw).
  apply (walk_value_ok pj strict Bm Bs (length v) (S (length (pj_tape pj)))
           ltac:(rewrite Ht; lens) v d pre post it); auto.
Qed.

Lemma denotes_type strict adj pj it d :
  denotes strict adj pj it d -> iter_type it = doc_type d.
Proof.
  intros (pre & v & post & Ht & Hv & Hw).
  rewrite (iter_type_ok _ _ _ Hw).
  destruct Hw as ((_ & _ & w & r & -> & -> & _) & _).
  eapply val_seg_type; eauto.
Qed.

(* ------------------------------------------------------------------ *)
(* AdvanceIter                                                          *)

Lemma advance_iter_loop_S f pj i off :
  advance_iter_loop (S f) pj i off =
    if (off =? i_len i)%Z then Ok (set_i i off 0 (i_cur i) TagEnd, None, TypeNone)
    else if (i_len i <? off)%Z then Err
    else
      do v <- rd pj (i_len i) off;
      let t := word_tag v in
      let cur := word_val v in
      let off1 := (off + 1)%Z in
      if (t =? TagNop)%N then
        if (cur =? 0)%N then Err
        else advance_iter_loop f pj i (off1 + Z.of_N cur - 1)
      else
        let i1 := with_calc false (set_i i off1 0 cur t) in
        if (i_add i1 <? 0)%Z then Err
        else
          let iend := (i_off i1 + i_add i1)%Z in
          let d := with_calc true i1 in
          if (i_len i1 <? iend)%Z then Err
          else Ok (i1, Some {| i_len := iend; i_off := i_off d; i_add := i_add d; i_cur := i_cur d; i_t := i_t d |}, TagToType_ref t).
Proof. reflexivity. Qed.

(* the restricted view AdvanceIter hands out *)
Definition sub_iter (i1 : iter) : iter :=
  let d := with_calc true i1 in
  {| i_len := i_off i1 + i_add i1; i_off := i_off d; i_add := i_add d; i_cur := i_cur d; i_t := i_t d |}.

Section AdvanceIter.
Variables (strict : bool).
Notation nops_seg := (nops_seg strict).

Lemma advance_iter_loop_skip pj i n : nops_seg n -> forall f pre X off,
  pj_tape pj = pre ++ n ++ X -> off = Z.of_nat (length pre) ->
  (off + Z.of_nat (length n) <= i_len i)%Z -> (length n < f)%nat ->
  exists f', (0 < f')%nat /\
    advance_iter_loop f pj i off = advance_iter_loop f' pj i (off + Z.of_nat (length n))%Z.
Proof.
  induction 1 as [|w junk rest Ht Hv Hrun Hrest IH]; intros f pre X off Htape Hoff Hlen Hf.
  - exists f. split; [cbn in Hf; lia|]. cbn [length]. f_equal. lia.
  - destruct f as [|f]; [lia|].
    cbn [length] in Hlen, Hf. rewrite app_length in Hlen, Hf.
    destruct (IH f (pre ++ w :: junk) X (off + Z.of_nat (length junk) + 1)%Z) as (f' & Hf' & E).
    + rewrite Htape. leq.
    + rewrite app_length. cbn [length]. lia.
    + lia.
    + lia.
    + exists f'. split; [exact Hf'|].
      rewrite advance_iter_loop_S.
      replace (off =? i_len i)%Z with false by lia.
      replace (i_len i <? off)%Z with false by lia.
      cbn [app] in Htape. rewrite <- app_assoc in Htape.
      rewrite (rd_app pj (i_len i) off pre w _ Htape Hoff) by lia.
      cbn [obind]. cbv zeta. rewrite Ht. change (TagNop =? TagNop) with true. cbv iota.
      replace (word_val w =? 0) with false by (rewrite Hv; lia).
      rewrite Hv.
      replace (off + 1 + Z.of_N (nlen junk + 1) - 1)%Z with (off + Z.of_nat (length junk) + 1)%Z
        by (unfold nlen; lia).
      rewrite E. f_equal. cbn [length]. rewrite app_length. lia.
Qed.

Lemma advance_iter_at pj it n w pre X :
  nops_seg n -> pj_tape pj = pre ++ n ++ w :: X -> word_tag w <> TagNop ->
  (i_off it + i_add it)%Z = Z.of_nat (length pre) ->
  (Z.of_nat (length pre) + Z.of_nat (length n) < i_len it)%Z ->
  advance_iter pj it =
    let i1 := land it (Z.of_nat (length pre) + Z.of_nat (length n) + 1) w in
    if (i_add i1 <? 0)%Z then Err
    else if (i_len i1 <? i_off i1 + i_add i1)%Z then Err
    else Ok (i1, Some (sub_iter i1), TagToType_ref (word_tag w)).
Proof.
  intros Hn Htape Hw Hoff Hlen. unfold advance_iter. rewrite Hoff.
  destruct (advance_iter_loop_skip pj it n Hn (fuel_of it) pre (w :: X) _ Htape eq_refl)
    as (f' & Hf' & ->).
  { lia. } { unfold fuel_of. lia. }
  destruct f' as [|f']; [lia|]. rewrite advance_iter_loop_S.
  replace (Z.of_nat (length pre) + Z.of_nat (length n) =? i_len it)%Z with false by lia.
  replace (i_len it <? Z.of_nat (length pre) + Z.of_nat (length n))%Z with false by lia.
  rewrite app_assoc in Htape.
  rewrite (rd_app pj (i_len it) _ (pre ++ n) w X Htape) by (rewrite ?app_length; lia).
  cbn [obind]. cbv zeta.
  replace (word_tag w =? TagNop) with false by (symmetry; apply N.eqb_neq; exact Hw).
  reflexivity.
Qed.

(* AdvanceIter at the end of the view *)
Lemma advance_iter_at_end pj it n pre :
  nops_seg n -> pj_tape pj = pre ++ n ->
  (i_off it + i_add it)%Z = Z.of_nat (length pre) ->
  i_len it = Z.of_nat (length pre + length n) ->
  exists it', advance_iter pj it = Ok (it', None, TypeNone).
Proof.
  intros Hn Ht Hoff Hlen. unfold advance_iter. rewrite Hoff.
  rewrite <- (app_nil_r n) in Ht.
  destruct (advance_iter_loop_skip pj it n Hn (fuel_of it) pre [] _ Ht eq_refl) as (f' & Hf' & ->).
  { rewrite Hlen. lia. } { unfold fuel_of. rewrite Hlen. lia. }
  destruct f' as [|f']; [lia|]. rewrite advance_iter_loop_S.
  replace (Z.of_nat (length pre) + Z.of_nat (length n) =? i_len it)%Z with true by lia.
  eexists. reflexivity.
Qed.

(* AdvanceIter onto the end word of an array or object *)
Lemma advance_iter_end pj it n e pre X :
  nops_seg n -> pj_tape pj = pre ++ n ++ e :: X ->
  (word_tag e = TagArrayEnd \/ word_tag e = TagObjectEnd) ->
  (i_off it + i_add it)%Z = Z.of_nat (length pre) ->
  (Z.of_nat (length pre) + Z.of_nat (length n) < i_len it)%Z ->
  exists it' el, advance_iter pj it = Ok (it', Some el, TypeNone).
Proof.
  intros Hn Ht He Hoff Hlen.
  assert (Hw : word_tag e <> TagNop) by (destruct He as [-> | ->]; discriminate).
  rewrite (advance_iter_at pj it n e pre X Hn Ht Hw Hoff Hlen).
  cbv zeta.
  assert (Ha : i_add (land it (Z.of_nat (length pre) + Z.of_nat (length n) + 1) e) = 0%Z).
  { unfold land, with_calc, set_i, calc_next. cbn [i_add i_off i_cur i_t].
    destruct He as [-> | ->]; reflexivity. }
  rewrite Ha.
  assert (Hl : i_len (land it (Z.of_nat (length pre) + Z.of_nat (length n) + 1) e) = i_len it) by reflexivity.
  assert (Ho : i_off (land it (Z.of_nat (length pre) + Z.of_nat (length n) + 1) e) =
               (Z.of_nat (length pre) + Z.of_nat (length n) + 1)%Z) by reflexivity.
  rewrite Hl, Ho.
  replace (0 <? 0)%Z with false by reflexivity.
  replace (i_len it <? Z.of_nat (length pre) + Z.of_nat (length n) + 1 + 0)%Z with false by lia.
  destruct He as [-> | ->]; eexists; eexists; reflexivity.
Qed.

End AdvanceIter.

Section AdvanceIterVal.
Variables (msg strings : bytes) (strict adj : bool).
Notation val_seg := (val_seg msg strings strict adj).
Notation nops_seg := (nops_seg strict).

(* AdvanceIter onto a value: the outer iterator moves as Advance does, the
   handed-out iterator is restricted to the value and stands on it *)
Lemma advance_iter_value pj it n w r d pre X :
  nops_seg n -> pj_tape pj = pre ++ n ++ (w :: r) ++ X ->
  val_seg (nlen pre + nlen n) (w :: r) d ->
  (i_off it + i_add it)%Z = Z.of_nat (length pre) ->
  (Z.of_nat (length pre) + Z.of_nat (length n) + Z.of_nat (length (w :: r)) <= i_len it)%Z ->
  let it' := land it (Z.of_nat (length pre) + Z.of_nat (length n) + 1) w in
  advance_iter pj it = Ok (it', Some (sub_iter it'), TagToType_ref (word_tag w)) /\
  iter_on it' (nlen pre + nlen n) (w :: r) /\
  i_add it' = Z.of_nat (length r) /\ i_len it' = i_len it /\
  TagToType_ref (word_tag w) <> TypeNone /\
  walk_iter (sub_iter it') (nlen pre + nlen n) (w :: r) /\
  i_len (sub_iter it') = (Z.of_nat (length pre) + Z.of_nat (length n) + Z.of_nat (length (w :: r)))%Z.
Proof.
  intros Hn Htape Hv Hoff Hlen it'.
  destruct (advance_value msg strings strict adj pj it n w r d pre X Hn Htape Hv Hoff Hlen)
    as (_ & Hon & Hadd & Hl' & Hty).
  fold it' in Hon, Hadd, Hl'.
  destruct (val_seg_head _ _ _ _ _ _ _ Hv) as (w' & r' & E & Htag). injection E as <- <-.
  assert (Hw : word_tag w <> TagNop).
  { intros E. rewrite E in Htag. discriminate Htag. }
  cbn [length] in Hlen. cbn [app] in Htape.
  rewrite (advance_iter_at strict pj it n w pre (r ++ X) Hn Htape Hw Hoff) by lia.
  cbv zeta. fold it'.
  pose proof Hon as (Hoff' & _ & _).
  replace (i_add it' <? 0)%Z with false by lia.
  replace (i_len it' <? i_off it' + i_add it')%Z with false by (rewrite Hoff', Hadd, Hl'; nl).
  split; [reflexivity|]. split; [exact Hon|]. split; [exact Hadd|]. split; [exact Hl'|].
  split; [exact Hty|].
  pose proof (calc_next_true_val _ _ _ _ _ _ _ _ (i_off it') Hv) as Hcn.
  assert (Ecur : i_cur it' = word_val w) by reflexivity.
  assert (Et : i_t it' = word_tag w) by reflexivity.
  split.
  - unfold walk_iter, iter_on, sub_iter, with_calc, set_i. cbn [i_off i_len i_add i_cur i_t].
    rewrite Ecur, Et, Hadd, Hoff'.
    split; [split; [reflexivity|split; [cbn [length]; nl|]]|].
    + exists w, r. repeat split.
    + rewrite Hoff' in Hcn. split; lia.
  - unfold sub_iter. cbn [i_len]. rewrite Hoff', Hadd. cbn [length]. nl.
Qed.

End AdvanceIterVal.

(* ------------------------------------------------------------------ *)
(* positions of containers                                             *)

(* the Object / Array value [c] obtained from an iterator standing on the
   container whose segment is sub at index |pre| *)
Definition cont_at (c : cont) (pre sub : list N) : Prop :=
  c_off c = (Z.of_N (nlen pre) + 1)%Z /\
  c_len c = (Z.of_N (nlen pre) + Z.of_nat (length sub))%Z.

Lemma iter_object_cont_at strict adj pj it pre sub l :
  iter_on it (nlen pre) sub ->
  val_seg (pj_msg pj) (pj_strings pj) strict adj (nlen pre) sub (DObj l) ->
  exists c, iter_object it = Ok c /\ cont_at c pre sub.
Proof.
  intros Hon Hv. eexists. split; [eapply iter_object_on; eauto|]. split; reflexivity.
Qed.

Lemma iter_array_cont_at strict adj pj it pre sub l :
  iter_on it (nlen pre) sub ->
  val_seg (pj_msg pj) (pj_strings pj) strict adj (nlen pre) sub (DArr l) ->
  exists c, iter_array it = Ok c /\ cont_at c pre sub.
Proof.
  intros Hon Hv. eexists. split; [eapply iter_array_on; eauto|]. split; reflexivity.
Qed.

(* bytes_eqb decides equality *)
Lemma bytes_eqb_true_iff a b : bytes_eqb a b = true <-> a = b.
Proof.
  split.
  - revert b. unfold bytes_eqb.
    induction a as [|x a IH]; intros [|y b] H; try reflexivity; cbn [length] in H;
      try (cbn in H; discriminate).
    apply andb_true_iff in H. destruct H as [Hl Hf]. cbn [combine forallb fst snd] in Hf.
    apply andb_true_iff in Hf. destruct Hf as [Hxy Hf].
    unfold beq in Hxy. apply Byte.byte_dec_bl in Hxy. subst y. f_equal.
    apply IH. rewrite Hf, andb_true_r. apply Nat.eqb_eq in Hl. apply Nat.eqb_eq. lia.
  - intros ->. unfold bytes_eqb. rewrite Nat.eqb_refl. cbn [andb].
    induction b as [|x b IH]; [reflexivity|]. cbn [combine forallb fst snd].
    rewrite IH, andb_true_r. unfold beq. apply Byte.byte_dec_lb. reflexivity.
Qed.

Lemma bytes_eqb_false_iff a b : bytes_eqb a b = false <-> a <> b.
Proof.
  split.
  - intros H E. apply bytes_eqb_true_iff in E. congruence.
  - intros H. destruct (bytes_eqb a b) eqn:E; [|reflexivity].
    apply bytes_eqb_true_iff in E. contradiction.
Qed.

Lemma bytes_eqb_sym a b : bytes_eqb a b = bytes_eqb b a.
Proof.
  destruct (bytes_eqb b a) eqn:E.
  - apply bytes_eqb_true_iff in E. subst. apply bytes_eqb_true_iff. reflexivity.
  - apply bytes_eqb_false_iff in E. apply bytes_eqb_false_iff. congruence.
Qed.
