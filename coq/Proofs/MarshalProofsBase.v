(* MarshalProofsBase.v — property C10, layer 0.
   The document-level printer print_doc / print_docs that Iter.MarshalJSONBuffer
   is shown to refine, a presentation of one iteration of marshal_loop as
   three named steps (key, tag switch, separator), and the iterator primitives
   PeekNextTag / AdvanceInto on segment-structured tapes. *)
From SJ Require Import Model.Base Model.RefTables Spec.Json Model.Tape Model.Iter Model.Walk
     Model.FloatFmt.
From SJ Require Import Proofs.TapeBase Proofs.TapeSeg Proofs.TapeDen Proofs.TapePath Proofs.TapeEdit
     Proofs.TapeIter Proofs.SerBase.
From SJ Require Import Model.Marshal.
From Coq Require Import ZifyBool ZifyN ZifyNat.
Open Scope Z_scope.

(* ------------------------------------------------------------------ *)
(* the document-level printer                                          *)

Definition bCOMMA : byte := n2b 44.
Definition bNL : byte := n2b 10.

(* x1 c x2 c ... xn ; [sep] says whether a separator precedes the first *)
Fixpoint join_with (c : byte) (sep : bool) (xs : list bytes) : bytes :=
  match xs with
  | [] => []
  | x :: r => (if sep then [c] else []) ++ x ++ join_with c true r
  end.

Definition pr_num (n : num) : bytes :=
  match n with
  | NInt z => dec_of_Z z
  | NUint u => dec_of_N u
  | NFloat b _ => match fmt_float b with Some s => s | None => [] end
  end.

Definition fin_num (n : num) : bool :=
  match n with
  | NFloat b _ => match fmt_float b with Some _ => true | None => false end
  | _ => true
  end.

Definition pr_member (k v : bytes) : bytes := quote_str k ++ [n2b 58] ++ v.

(* the text of a document all of whose floats are finite *)
Fixpoint pr_doc (d : doc) : bytes :=
  match d with
  | DNull => lit_bytes [110; 117; 108; 108]%N
  | DBool true => lit_bytes [116; 114; 117; 101]%N
  | DBool false => lit_bytes [102; 97; 108; 115; 101]%N
  | DNum n => pr_num n
  | DStr s => quote_str s
  | DArr l => n2b 91 :: join_with bCOMMA false (map pr_doc l) ++ [n2b 93]
  | DObj l => n2b 123 :: join_with bCOMMA false (map (fun kv => pr_member (fst kv) (pr_doc (snd kv))) l) ++ [n2b 125]
  end.

(* every float in the document is finite (appendFloat returns no error) *)
Fixpoint fin_doc (d : doc) : bool :=
  match d with
  | DNum n => fin_num n
  | DArr l => forallb fin_doc l
  | DObj l => forallb (fun kv => fin_doc (snd kv)) l
  | _ => true
  end.

Definition pr_elems (sep : bool) (l : list doc) : bytes := join_with bCOMMA sep (map pr_doc l).
Definition pr_members (sep : bool) (l : list (bytes * doc)) : bytes :=
  join_with bCOMMA sep (map (fun kv => pr_member (fst kv) (pr_doc (snd kv))) l).
Definition fin_members (l : list (bytes * doc)) : bool := forallb (fun kv => fin_doc (snd kv)) l.

(* None = MarshalJSON returns an error (a non-finite float) *)
Definition print_doc (d : doc) : option bytes := if fin_doc d then Some (pr_doc d) else None.

(* roots are separated (not terminated) by a newline *)
Definition pr_docs (ds : list doc) : bytes := join_with bNL false (map pr_doc ds).
Definition print_docs (ds : list doc) : option bytes :=
  if forallb fin_doc ds then Some (pr_docs ds) else None.

(* number of loop iterations spent on a value, minus one *)
Fixpoint cost (d : doc) : nat :=
  match d with
  | DArr l => S (list_sum (map (fun d => S (cost d)) l))
  | DObj l => S (list_sum (map (fun kv => S (cost (snd kv))) l))
  | _ => O
  end.
Definition cost_list (l : list doc) : nat := list_sum (map (fun d => S (cost d)) l).
Definition cost_mlist (l : list (bytes * doc)) : nat := list_sum (map (fun kv => S (cost (snd kv))) l).
Definition cost_roots (l : list doc) : nat := list_sum (map (fun d => (cost d + 3)%nat) l).

Lemma emit_emit out a b : emit (emit out a) b = emit out (a ++ b).
Proof. unfold emit. rewrite rev_app_distr, app_assoc. reflexivity. Qed.

Lemma emit_nil out : emit out [] = out.
Proof. reflexivity. Qed.

(* ------------------------------------------------------------------ *)
(* one iteration of marshal_loop in three steps                         *)

Definition top_of (stack : list frame) : frame := match stack with t :: _ => t | [] => FNone end.

(* "Write key names." *)
Definition keyed_step (pj : pjson) (i : iter) (stack : list frame) (out : bytes) : outcome (iter * bytes) :=
  match top_of stack with
  | FObject =>
    if negb (i_t i =? TagObjectEnd)%N then
      do sb <- string_bytes pj i;
      do tg <- peek_next_tag pj i;
      if (tg =? TagEnd)%N then Err
      else do r <- advance_into pj i; Ok (fst r, emit out (quote_str sb ++ [n2b 58]))
    else Ok (i, out)
  | _ => Ok (i, out)
  end.

(* "Output object separators" (when [sep]) on arriving at a word of tag t *)
Definition sep_out (sep : bool) (stack : list frame) (t : N) (out : bytes) : bytes :=
  if sep then
    match top_of stack with
    | FArray => if (t =? TagArrayEnd)%N then out else emit out [n2b 44]
    | FObject => if (t =? TagObjectEnd)%N then out else emit out [n2b 44]
    | _ => out
    end
  else out.

(* AdvanceInto, then the separators *)
Definition enter_step (ml : iter -> list frame -> bytes -> outcome bytes)
           (pj : pjson) (i : iter) (stack : list frame) (out : bytes) (sep : bool) : outcome bytes :=
  do r <- advance_into pj i;
  ml (fst r) stack (sep_out sep stack (i_t (fst r)) out).

(* what follows the tag switch for a scalar or a closing tag *)
Definition after_step (ml : iter -> list frame -> bytes -> outcome bytes)
           (pj : pjson) (i : iter) (stack : list frame) (out : bytes) : outcome bytes :=
  do tg <- peek_next_tag pj i;
  if (tg =? TagEnd)%N then
    (match stack with _ :: _ :: _ => Err | _ => Ok (rev out) end)
  else enter_step ml pj i stack out true.

(* the tag switch *)
Definition switch_step (ml : iter -> list frame -> bytes -> outcome bytes)
           (pj : pjson) (i : iter) (stack : list frame) (out : bytes) : outcome bytes :=
  let top := top_of stack in
  let t := i_t i in
  if (t =? TagRoot)%N then
    let is_open := i_off i <? Z.of_N (i_cur i) in
    match stack with
    | _ :: _ :: _ =>
      if is_open then Err
      else match top with
           | FRoot =>
             do tg <- peek_next_tag pj i;
             let out' := if (tg =? TagEnd)%N then out else emit out [n2b 10] in
             after_step ml pj i (tl stack) out'
           | FNone => Ok (rev out)
           | _ => Err
           end
    | _ =>
      (* a closing root right after the value the iterator stood on (the iterators
         ParsedJson.ForEach hands out): done (fix F20) *)
      if negb is_open && negb (match out with [] => true | _ => false end) then Ok (rev out) else
      let i0 := if is_open then set_i i (i_off i) 0 (i_cur i) (i_t i) else i in
      do r <- advance_into pj i0;
      ml (fst r) (FRoot :: stack) out
    end
  else if (t =? TagString)%N then
    do sb <- string_bytes pj i; after_step ml pj i stack (emit out (quote_str sb))
  else if (t =? TagInteger)%N then
    do z <- iter_int pj i; after_step ml pj i stack (emit out (dec_of_Z z))
  else if (t =? TagUint)%N then
    do u <- iter_uint pj i; after_step ml pj i stack (emit out (dec_of_N u))
  else if (t =? TagFloat)%N then
    do b <- iter_float pj i;
    match fmt_float b with
    | Some s => after_step ml pj i stack (emit out s)
    | None => Err
    end
  else if (t =? TagNull)%N then after_step ml pj i stack (emit out (lit_bytes [110; 117; 108; 108]%N))
  else if (t =? TagBoolTrue)%N then after_step ml pj i stack (emit out (lit_bytes [116; 114; 117; 101]%N))
  else if (t =? TagBoolFalse)%N then after_step ml pj i stack (emit out (lit_bytes [102; 97; 108; 115; 101]%N))
  else if (t =? TagObjectStart)%N then
    enter_step ml pj i (FObject :: stack) (emit out [n2b 123]) false
  else if (t =? TagObjectEnd)%N then
    match top with
    | FObject => after_step ml pj i (tl stack) (emit out [n2b 125])
    | _ => Err
    end
  else if (t =? TagArrayStart)%N then
    enter_step ml pj i (FArray :: stack) (emit out [n2b 91]) false
  else if (t =? TagArrayEnd)%N then
    match top with
    | FArray => after_step ml pj i (tl stack) (emit out [n2b 93])
    | _ => Err
    end
  else if (t =? TagEnd)%N then
    do tg <- peek_next_tag pj i;
    if (tg =? TagEnd)%N then Err
    else do r <- advance_into pj i; ml (fst r) stack out
  else after_step ml pj i stack out.

Lemma marshal_loop_S f pj i stack out :
  marshal_loop (S f) pj i stack out =
  do ko <- keyed_step pj i stack out;
  switch_step (marshal_loop f pj) pj (fst ko) stack (snd ko).
Proof.
  cbn [marshal_loop]. unfold keyed_step, top_of.
  destruct stack as [|[| | |] st]; try reflexivity.
  destruct (negb (i_t i =? TagObjectEnd)%N); [|reflexivity].
  destruct (string_bytes pj i) as [sb| | |]; try reflexivity. cbn [obind].
  destruct (peek_next_tag pj i) as [tg| | |]; try reflexivity. cbn [obind].
  destruct (tg =? TagEnd)%N; [reflexivity|].
  destruct (advance_into pj i) as [r| | |]; reflexivity.
Qed.

(* the switch at each tag *)
Lemma switch_string ml pj i stack out : i_t i = TagString ->
  switch_step ml pj i stack out =
  do sb <- string_bytes pj i; after_step ml pj i stack (emit out (quote_str sb)).
Proof. intros H. unfold switch_step. rewrite H. reflexivity. Qed.
Lemma switch_int ml pj i stack out : i_t i = TagInteger ->
  switch_step ml pj i stack out =
  do z <- iter_int pj i; after_step ml pj i stack (emit out (dec_of_Z z)).
Proof. intros H. unfold switch_step. rewrite H. reflexivity. Qed.
Lemma switch_uint ml pj i stack out : i_t i = TagUint ->
  switch_step ml pj i stack out =
  do u <- iter_uint pj i; after_step ml pj i stack (emit out (dec_of_N u)).
Proof. intros H. unfold switch_step. rewrite H. reflexivity. Qed.
Lemma switch_float ml pj i stack out : i_t i = TagFloat ->
  switch_step ml pj i stack out =
  do b <- iter_float pj i;
  match fmt_float b with
  | Some s => after_step ml pj i stack (emit out s)
  | None => Err
  end.
Proof. intros H. unfold switch_step. rewrite H. reflexivity. Qed.
Lemma switch_null ml pj i stack out : i_t i = TagNull ->
  switch_step ml pj i stack out = after_step ml pj i stack (emit out (lit_bytes [110; 117; 108; 108]%N)).
Proof. intros H. unfold switch_step. rewrite H. reflexivity. Qed.
Lemma switch_true ml pj i stack out : i_t i = TagBoolTrue ->
  switch_step ml pj i stack out = after_step ml pj i stack (emit out (lit_bytes [116; 114; 117; 101]%N)).
Proof. intros H. unfold switch_step. rewrite H. reflexivity. Qed.
Lemma switch_false ml pj i stack out : i_t i = TagBoolFalse ->
  switch_step ml pj i stack out = after_step ml pj i stack (emit out (lit_bytes [102; 97; 108; 115; 101]%N)).
Proof. intros H. unfold switch_step. rewrite H. reflexivity. Qed.
Lemma switch_obj ml pj i stack out : i_t i = TagObjectStart ->
  switch_step ml pj i stack out = enter_step ml pj i (FObject :: stack) (emit out [n2b 123]) false.
Proof. intros H. unfold switch_step. rewrite H. reflexivity. Qed.
Lemma switch_arr ml pj i stack out : i_t i = TagArrayStart ->
  switch_step ml pj i stack out = enter_step ml pj i (FArray :: stack) (emit out [n2b 91]) false.
Proof. intros H. unfold switch_step. rewrite H. reflexivity. Qed.
Lemma switch_obj_end ml pj i st out : i_t i = TagObjectEnd ->
  switch_step ml pj i (FObject :: st) out = after_step ml pj i st (emit out [n2b 125]).
Proof. intros H. unfold switch_step. rewrite H. reflexivity. Qed.
Lemma switch_arr_end ml pj i st out : i_t i = TagArrayEnd ->
  switch_step ml pj i (FArray :: st) out = after_step ml pj i st (emit out [n2b 93]).
Proof. intros H. unfold switch_step. rewrite H. reflexivity. Qed.
Lemma switch_end ml pj i stack out : i_t i = TagEnd ->
  switch_step ml pj i stack out =
  do tg <- peek_next_tag pj i;
  if (tg =? TagEnd)%N then Err
  else do r <- advance_into pj i; ml (fst r) stack out.
Proof. intros H. unfold switch_step. rewrite H. reflexivity. Qed.
Lemma switch_root_open ml pj i out : i_t i = TagRoot -> i_off i < Z.of_N (i_cur i) ->
  switch_step ml pj i [FNone] out =
  do r <- advance_into pj (set_i i (i_off i) 0 (i_cur i) (i_t i)); ml (fst r) [FRoot; FNone] out.
Proof.
  intros H Ho. unfold switch_step. rewrite H.
  change (TagRoot =? TagRoot)%N with true. cbv iota zeta.
  replace (i_off i <? Z.of_N (i_cur i)) with true by lia. reflexivity.
Qed.
Lemma switch_root_close ml pj i st out : i_t i = TagRoot -> Z.of_N (i_cur i) <= i_off i ->
  switch_step ml pj i (FRoot :: FNone :: st) out =
  do tg <- peek_next_tag pj i;
  after_step ml pj i (FNone :: st) (if (tg =? TagEnd)%N then out else emit out [n2b 10]).
Proof.
  intros H Ho. unfold switch_step. rewrite H.
  change (TagRoot =? TagRoot)%N with true. cbv iota zeta.
  replace (i_off i <? Z.of_N (i_cur i)) with false by lia. reflexivity.
Qed.

(* ------------------------------------------------------------------ *)
(* iterator primitives on structured tapes                              *)

Definition at_pos (it : iter) (p : nat) : Prop := i_off it + i_add it = Z.of_nat p.

(* the iterator produced by AdvanceInto landing on word w at index p *)
Definition entered (it : iter) (p : nat) (w : N) : iter :=
  with_calc true (set_i it (Z.of_nat p + 1) 0 (word_val w) (word_tag w)).

(* an iterator sitting on the word w at index p, as AdvanceInto leaves it *)
Definition on_word (it : iter) (p : nat) (w : N) : Prop :=
  i_off it = Z.of_nat p + 1 /\ i_cur it = word_val w /\ i_t it = word_tag w /\
  i_add it = (if is2 (word_tag w) then 1 else 0).

Lemma entered_on_word it p w : on_word (entered it p w) p w.
Proof.
  unfold on_word, entered, with_calc, set_i, calc_next. cbn [i_off i_cur i_t i_add].
  repeat split. destruct (is2 (word_tag w)); [reflexivity|]. destruct (is_open (word_tag w)); reflexivity.
Qed.
Lemma entered_len it p w : i_len (entered it p w) = i_len it.
Proof. reflexivity. Qed.

Lemma on_word_pos it p w : on_word it p w ->
  at_pos it (if is2 (word_tag w) then S (S p) else S p).
Proof.
  intros (Ho & _ & _ & Ha). unfold at_pos. rewrite Ho, Ha. destruct (is2 (word_tag w)); lia.
Qed.

Section Prims.
Variables (strict : bool).
Notation nops_seg := (nops_seg strict).

Lemma peek_loop_skip pj len n : nops_seg n -> forall f pre X off,
  pj_tape pj = pre ++ n ++ X -> off = Z.of_nat (length pre) ->
  (off + Z.of_nat (length n) <= len)%Z -> (length n < f)%nat ->
  exists f', (f - length n <= f')%nat /\
    peek_loop f pj len off = peek_loop f' pj len (off + Z.of_nat (length n))%Z.
Proof.
  induction 1 as [|w junk rest Ht Hv Hrun Hrest IH]; intros f pre X off Htape Hoff Hlen Hf.
  - exists f. split; [cbn [length]; lia|]. cbn [length]. f_equal. lia.
  - destruct f as [|f]; [lia|].
    cbn [length] in Hlen, Hf. rewrite app_length in Hlen, Hf.
    destruct (IH f (pre ++ w :: junk) X (off + Z.of_nat (length junk) + 1)%Z) as (f' & Hf' & E).
    + rewrite Htape. leq.
    + rewrite app_length. cbn [length]. lia.
    + lia.
    + lia.
    + exists f'. split; [cbn [length]; rewrite app_length; lia|].
      cbn [peek_loop].
      replace (len <=? off)%Z with false by lia.
      cbn [app] in Htape. rewrite <- app_assoc in Htape.
      rewrite (rd_app pj len off pre w _ Htape Hoff) by lia.
      cbn [obind]. rewrite Ht. change (TagNop =? TagNop)%N with true. cbv iota.
      replace (word_val w =? 0)%N with false by (rewrite Hv; lia).
      rewrite Hv.
      replace (off + Z.of_N (nlen junk + 1))%Z with (off + Z.of_nat (length junk) + 1)%Z
        by (unfold nlen; lia).
      rewrite E. f_equal. cbn [length]. rewrite app_length. lia.
Qed.

Lemma peek_at pj it n w pre X :
  nops_seg n -> pj_tape pj = pre ++ n ++ w :: X -> word_tag w <> TagNop ->
  at_pos it (length pre) ->
  (Z.of_nat (length pre) + Z.of_nat (length n) < i_len it)%Z ->
  peek_next_tag pj it = Ok (word_tag w).
Proof.
  intros Hn Htape Hw Hoff Hlen. unfold peek_next_tag. rewrite Hoff.
  destruct (peek_loop_skip pj (i_len it) n Hn (fuel_of it) pre (w :: X) _ Htape eq_refl)
    as (f' & Hf' & ->).
  { lia. } { unfold fuel_of. lia. }
  destruct f' as [|f']; [unfold fuel_of in Hf'; lia|]. cbn [peek_loop].
  replace (i_len it <=? Z.of_nat (length pre) + Z.of_nat (length n))%Z with false by lia.
  rewrite app_assoc in Htape.
  rewrite (rd_app pj (i_len it) _ (pre ++ n) w X Htape) by (rewrite ?app_length; lia).
  cbn [obind].
  replace (word_tag w =? TagNop)%N with false by (symmetry; apply N.eqb_neq; exact Hw).
  reflexivity.
Qed.

(* nothing but NOPs up to the end of the view *)
Lemma peek_at_end pj it n pre X :
  nops_seg n -> pj_tape pj = pre ++ n ++ X -> at_pos it (length pre) ->
  i_len it = Z.of_nat (length pre + length n) ->
  peek_next_tag pj it = Ok TagEnd.
Proof.
  intros Hn Htape Hoff Hlen. unfold peek_next_tag. rewrite Hoff.
  destruct (peek_loop_skip pj (i_len it) n Hn (fuel_of it) pre X _ Htape eq_refl)
    as (f' & Hf' & ->).
  { lia. } { unfold fuel_of. lia. }
  destruct f' as [|f']; [unfold fuel_of in Hf'; lia|]. cbn [peek_loop].
  replace (i_len it <=? Z.of_nat (length pre) + Z.of_nat (length n))%Z with true by lia.
  reflexivity.
Qed.

(* a NOP whose jump leaves the tape *)
Lemma peek_at_over pj it n w pre rest :
  nops_seg n -> pj_tape pj = pre ++ n ++ w :: rest -> word_tag w = TagNop ->
  (nlen rest + 1 < word_val w)%N ->
  at_pos it (length pre) -> i_len it = Z.of_nat (length (pj_tape pj)) ->
  peek_next_tag pj it = Ok TagEnd.
Proof.
  intros Hn Htape Ht Hv Hoff Hlen. unfold peek_next_tag. rewrite Hoff.
  assert (Hl : i_len it = Z.of_nat (length pre + length n + S (length rest))).
  { rewrite Hlen, Htape. rewrite !app_length. cbn [length]. lia. }
  destruct (peek_loop_skip pj (i_len it) n Hn (fuel_of it) pre (w :: rest) _ Htape eq_refl)
    as (f' & Hf' & ->).
  { lia. } { unfold fuel_of. lia. }
  destruct f' as [|[|f']]; try (unfold fuel_of in Hf'; lia). cbn [peek_loop].
  replace (i_len it <=? Z.of_nat (length pre) + Z.of_nat (length n))%Z with false by lia.
  rewrite app_assoc in Htape.
  rewrite (rd_app pj (i_len it) _ (pre ++ n) w rest Htape) by (rewrite ?app_length; lia).
  cbn [obind]. rewrite Ht. change (TagNop =? TagNop)%N with true. cbv iota.
  replace (word_val w =? 0)%N with false by lia.
  replace (i_len it <=? Z.of_nat (length pre) + Z.of_nat (length n) + Z.of_N (word_val w))%Z with true
    by (unfold nlen in Hv; lia).
  reflexivity.
Qed.

Lemma advance_into_on pj it n w pre X :
  nops_seg n -> pj_tape pj = pre ++ n ++ w :: X -> word_tag w <> TagNop ->
  at_pos it (length pre) ->
  (Z.of_nat (length pre) + Z.of_nat (length n) < i_len it)%Z ->
  advance_into pj it = Ok (entered it (length pre + length n) w, word_tag w).
Proof.
  intros Hn Htape Hw Hoff Hlen.
  rewrite (advance_into_at strict pj it n w pre X Hn Htape Hw Hoff Hlen).
  unfold entered. rewrite Nat2Z.inj_add. reflexivity.
Qed.

(* after_step, when a word follows *)
Lemma after_enter ml pj it n w pre X stack out :
  nops_seg n -> pj_tape pj = pre ++ n ++ w :: X -> word_tag w <> TagNop -> word_tag w <> TagEnd ->
  at_pos it (length pre) ->
  (Z.of_nat (length pre) + Z.of_nat (length n) < i_len it)%Z ->
  after_step ml pj it stack out = enter_step ml pj it stack out true.
Proof.
  intros Hn Htape Hw He Hoff Hlen. unfold after_step.
  rewrite (peek_at pj it n w pre X Hn Htape Hw Hoff Hlen). cbn [obind].
  replace (word_tag w =? TagEnd)%N with false by (symmetry; apply N.eqb_neq; exact He).
  reflexivity.
Qed.

End Prims.

(* reading the payload word of a two-word value *)
Lemma payload_on pj it pre w x X :
  pj_tape pj = pre ++ w :: x :: X -> i_off it = Z.of_nat (length pre) + 1 ->
  (Z.of_nat (length pre) + 2 <= i_len it)%Z ->
  payload pj it = Ok x.
Proof.
  intros Htape Ho Hlen. unfold payload.
  replace (i_len it <=? i_off it) with false by lia.
  apply (rd_app pj (i_len it) (i_off it) (pre ++ [w]) x X).
  - rewrite Htape, <- app_assoc. reflexivity.
  - rewrite app_length. cbn [length]. lia.
  - lia.
Qed.

Lemma string_bytes_on pj it pre w len X s :
  pj_tape pj = pre ++ w :: len :: X -> on_word it (length pre) w ->
  (Z.of_nat (length pre) + 2 <= i_len it)%Z ->
  word_tag w = TagString ->
  string_at (pj_msg pj) (pj_strings pj) (word_val w) len = Some s ->
  string_bytes pj it = Ok s.
Proof.
  intros Htape (Ho & Hc & Ht & _) Hlen Hw Hs. unfold string_bytes.
  rewrite Ht, Hw. change (negb (TagString =? TagString)%N) with false. cbv iota.
  replace (i_len it <=? i_off it) with false by lia.
  rewrite (rd_app pj (i_len it) (i_off it) (pre ++ [w]) len X).
  - cbn [obind]. rewrite Hc.
    pose proof (string_byte_at_string_at pj (word_val w) len) as H. rewrite Hs in H. exact H.
  - rewrite Htape, <- app_assoc. reflexivity.
  - rewrite app_length. cbn [length]. lia.
  - lia.
Qed.

(* ------------------------------------------------------------------ *)
(* small facts used by the refinement proof                             *)

Lemma entered_t it p w : i_t (entered it p w) = word_tag w.
Proof. reflexivity. Qed.

Lemma keyed_arr pj i st out : keyed_step pj i (FArray :: st) out = Ok (i, out).
Proof. reflexivity. Qed.
Lemma keyed_root pj i st out : keyed_step pj i (FRoot :: st) out = Ok (i, out).
Proof. reflexivity. Qed.
Lemma keyed_none pj i st out : keyed_step pj i (FNone :: st) out = Ok (i, out).
Proof. reflexivity. Qed.
Lemma keyed_obj_end pj i st out : i_t i = TagObjectEnd -> keyed_step pj i (FObject :: st) out = Ok (i, out).
Proof. intros H. unfold keyed_step. cbn [top_of]. rewrite H. reflexivity. Qed.

Definition sepc (sep : bool) : bytes := if sep then [bCOMMA] else [].

Lemma sep_out_arr_end sep st out : sep_out sep (FArray :: st) TagArrayEnd out = out.
Proof. destruct sep; reflexivity. Qed.
Lemma sep_out_obj_end sep st out : sep_out sep (FObject :: st) TagObjectEnd out = out.
Proof. destruct sep; reflexivity. Qed.
Lemma sep_out_arr_val sep st t out : t <> TagArrayEnd ->
  sep_out sep (FArray :: st) t out = emit out (sepc sep).
Proof.
  intros H. destruct sep; [|reflexivity]. unfold sep_out. cbn [top_of].
  replace (t =? TagArrayEnd)%N with false by (symmetry; apply N.eqb_neq; exact H). reflexivity.
Qed.
Lemma sep_out_obj_val sep st t out : t <> TagObjectEnd ->
  sep_out sep (FObject :: st) t out = emit out (sepc sep).
Proof.
  intros H. destruct sep; [|reflexivity]. unfold sep_out. cbn [top_of].
  replace (t =? TagObjectEnd)%N with false by (symmetry; apply N.eqb_neq; exact H). reflexivity.
Qed.
Lemma sep_out_root sep st t out : sep_out sep (FRoot :: st) t out = out.
Proof. destruct sep; reflexivity. Qed.
Lemma sep_out_none sep st t out : sep_out sep (FNone :: st) t out = out.
Proof. destruct sep; reflexivity. Qed.

Lemma val_tag_not t : is_val_tag t = true ->
  t <> TagNop /\ t <> TagEnd /\ t <> TagArrayEnd /\ t <> TagObjectEnd /\ t <> TagRoot.
Proof. intros H. repeat split; intros ->; discriminate H. Qed.

Lemma pr_elems_cons sep d l t :
  pr_elems sep (d :: l) ++ t = sepc sep ++ pr_doc d ++ pr_elems true l ++ t.
Proof. unfold pr_elems, sepc. cbn [map join_with]. rewrite <- !app_assoc. reflexivity. Qed.
Lemma pr_members_cons sep k d l t :
  pr_members sep ((k, d) :: l) ++ t =
  sepc sep ++ (quote_str k ++ [n2b 58]) ++ pr_doc d ++ pr_members true l ++ t.
Proof.
  unfold pr_members, sepc, pr_member. cbn [map join_with fst snd]. rewrite <- !app_assoc. reflexivity.
Qed.

(* either after_step (aft) or a plain AdvanceInto *)
Definition gstep (aft : bool) (ml : iter -> list frame -> bytes -> outcome bytes)
           (pj : pjson) (i : iter) (stack : list frame) (out : bytes) : outcome bytes :=
  if aft then after_step ml pj i stack out else enter_step ml pj i stack out false.

Lemma gstep_enter strict aft ml pj it n w pre X stack out :
  nops_seg strict n -> pj_tape pj = pre ++ n ++ w :: X -> word_tag w <> TagNop -> word_tag w <> TagEnd ->
  at_pos it (length pre) ->
  (Z.of_nat (length pre) + Z.of_nat (length n) < i_len it)%Z ->
  gstep aft ml pj it stack out = enter_step ml pj it stack out aft.
Proof.
  intros Hn Htape Hw He Hoff Hlen. destruct aft; [|reflexivity].
  apply (after_enter strict ml pj it n w pre X stack out Hn Htape Hw He Hoff Hlen).
Qed.
