(* LookupEach.v — Object.ForEach (with and without key filter) and
   Array.ForEach call back exactly the members / elements plain traversal
   yields (property C12, part 3 and the first half of part 4). *)
From SJ Require Import Model.Base Model.RefTables Spec.Json Spec.EditSpec Model.Tape
     Model.Iter Model.Walk Model.Edit Model.WF.
From SJ Require Import Proofs.TapeBase Proofs.TapeSeg Proofs.TapeDen Proofs.TapePath
     Proofs.TapeEdit Proofs.TapeIter Proofs.TapeDelete Proofs.TapeWF Proofs.TapeWalk
     Proofs.LookupBase Proofs.LookupFind.
From Coq Require Import Lia ZifyBool ZifyN ZifyNat.
Open Scope N_scope.

(* ------------------------------------------------------------------ *)
(* what the Go loop does, on the abstract member list                   *)

(* members visited by Object.ForEach: those whose key is listed (all, when
   no key is listed), until as many callbacks have been made as there are
   distinct keys listed *)
Fixpoint abs_foreach_go (l : list (bytes * doc)) (only : list bytes) (nkeys n : nat)
  : list (bytes * doc) :=
  match l with
  | [] => []
  | (k, v) :: r =>
    if (0 <? nkeys)%nat && negb (existsb (bytes_eqb k) only) then abs_foreach_go r only nkeys n
    else (k, v) :: (if (S n =? nkeys)%nat then [] else abs_foreach_go r only nkeys (S n))
  end.

Definition in_filter (only : list bytes) (kv : bytes * doc) : bool :=
  existsb (bytes_eqb (fst kv)) only.

Lemma abs_foreach_go_nofilter l only n : abs_foreach_go l only 0 n = l.
Proof.
  revert n. induction l as [|[k v] l IH]; intros n; [reflexivity|].
  cbn [abs_foreach_go]. change (0 <? 0)%nat with false. cbn [andb].
  change (S n =? 0)%nat with false. cbv iota. now rewrite IH.
Qed.

(* with a filter: the first (nkeys - n) listed members *)
Lemma abs_foreach_go_firstn only nkeys : (0 < nkeys)%nat -> forall l n, (n < nkeys)%nat ->
  abs_foreach_go l only nkeys n = firstn (nkeys - n) (filter (in_filter only) l).
Proof.
  intros Hk. induction l as [|[k v] l IH]; intros n Hn.
  - cbn [abs_foreach_go filter]. now rewrite firstn_nil.
  - cbn [abs_foreach_go filter]. unfold in_filter at 1. cbn [fst].
    replace (0 <? nkeys)%nat with true by lia. cbn [andb].
    destruct (existsb (bytes_eqb k) only) eqn:E; cbn [negb].
    + destruct (nkeys - n)%nat as [|m] eqn:Em; [lia|]. cbn [firstn]. f_equal.
      destruct (S n =? nkeys)%nat eqn:Es.
      * replace m with 0%nat by lia. reflexivity.
      * rewrite IH by lia. f_equal. lia.
    + apply IH. exact Hn.
Qed.

(* number of distinct keys *)
Fixpoint dedup_acc (l seen : list bytes) : list bytes :=
  match l with
  | [] => seen
  | k :: r => if existsb (bytes_eqb k) seen then dedup_acc r seen else dedup_acc r (k :: seen)
  end.

Lemma distinct_count_dedup l : forall seen, distinct_count l seen = length (dedup_acc l seen).
Proof.
  induction l as [|k r IH]; intros seen; [reflexivity|].
  cbn [distinct_count dedup_acc]. destruct (existsb (bytes_eqb k) seen); apply IH.
Qed.

Lemma existsb_bytes_In k l : existsb (bytes_eqb k) l = true <-> In k l.
Proof.
  rewrite existsb_exists. split.
  - intros (x & Hx & E). apply bytes_eqb_true_iff in E. now subst.
  - intros H. exists k. split; [exact H|]. apply bytes_eqb_true_iff. reflexivity.
Qed.

Lemma dedup_acc_incl l : forall seen x, In x l \/ In x seen -> In x (dedup_acc l seen).
Proof.
  induction l as [|k r IH]; intros seen x [H|H]; cbn [dedup_acc].
  - destruct H.
  - exact H.
  - destruct (existsb (bytes_eqb k) seen) eqn:E.
    + destruct H as [->|H]; [|apply IH; now left].
      apply IH. right. apply existsb_bytes_In. exact E.
    + destruct H as [->|H]; [apply IH; right; now left|apply IH; now left].
  - destruct (existsb (bytes_eqb k) seen); apply IH; right; [exact H|now right].
Qed.

Lemma distinct_count_pos k r : (0 < distinct_count (k :: r) [])%nat.
Proof.
  rewrite distinct_count_dedup.
  assert (H : In k (dedup_acc (k :: r) [])) by (apply dedup_acc_incl; left; now left).
  destruct (dedup_acc (k :: r) []); [destruct H|cbn [length]; lia].
Qed.

Lemma filter_keys_NoDup only (l : list (bytes * doc)) :
  NoDup (map fst l) -> NoDup (map fst (filter (in_filter only) l)).
Proof.
  induction l as [|a l IH]; intros H; [constructor|].
  cbn [map] in H. apply NoDup_cons_iff in H. destruct H as [Hni Hnd].
  cbn [filter]. destruct (in_filter only a); [|auto].
  cbn [map]. constructor; [|auto].
  intros Hin. apply Hni. apply in_map_iff in Hin. destruct Hin as (x & Ex & Hx).
  apply filter_In in Hx. destruct Hx as [Hx _]. apply in_map_iff. exists x. split; assumption.
Qed.

(* keys unique within the object: no more listed members than listed keys *)
Lemma filter_count_le only (l : list (bytes * doc)) :
  NoDup (map fst l) -> (length (filter (in_filter only) l) <= distinct_count only [])%nat.
Proof.
  intros H. rewrite distinct_count_dedup, <- (map_length fst).
  apply NoDup_incl_length; [apply filter_keys_NoDup; exact H|].
  intros x Hx. apply in_map_iff in Hx. destruct Hx as (kv & <- & Hkv).
  apply filter_In in Hkv. destruct Hkv as [_ Hf]. unfold in_filter in Hf.
  apply dedup_acc_incl. left. apply existsb_bytes_In. exact Hf.
Qed.

(* under the hypothesis of the property, the Go loop visits abs_foreach *)
Theorem abs_foreach_go_unique l only :
  NoDup (map fst l) -> abs_foreach_go l only (distinct_count only []) 0 = abs_foreach l only.
Proof.
  intros H. destruct only as [|k r].
  - cbn [distinct_count length]. rewrite abs_foreach_go_nofilter. reflexivity.
  - pose proof (distinct_count_pos k r) as Hp.
    rewrite abs_foreach_go_firstn by lia. rewrite Nat.sub_0_r.
    unfold abs_foreach. rewrite firstn_all2; [reflexivity|].
    apply filter_count_le. exact H.
Qed.

(* without that hypothesis: the first [number of distinct listed keys] listed
   members, so later listed members (and later duplicates) are not visited *)
Theorem abs_foreach_go_general l only : only <> [] ->
  abs_foreach_go l only (distinct_count only []) 0 =
    firstn (distinct_count only []) (filter (in_filter only) l).
Proof.
  intros H. destruct only as [|k r]; [congruence|].
  pose proof (distinct_count_pos k r) as Hp.
  rewrite abs_foreach_go_firstn by lia. now rewrite Nat.sub_0_r.
Qed.

(* ------------------------------------------------------------------ *)
(* Object.ForEach                                                       *)

Section ObjForEach.
Variables (strict adj : bool).
Notation vseg pj := (val_seg (pj_msg pj) (pj_strings pj) strict adj).
Notation mseg pj := (mitems (pj_msg pj) (pj_strings pj) strict adj).

Lemma obj_foreach_loop_S f pj tmp0 only nkeys n acc :
  obj_foreach_loop (S f) pj tmp0 only nkeys n acc =
    do r <- advance pj tmp0;
    let '(tmp, typ) := r in
    if negb (t_is typ TypeString) || (i_len tmp <=? i_off tmp + 1)%Z then
      (if t_is typ TypeNone then Ok (rev acc) else Err)
    else
      do len <- rd pj (i_len tmp) (i_off tmp);
      do name <- string_byte_at pj (i_cur tmp) len;
      if (0 <? nkeys)%nat && negb (existsb (bytes_eqb name) only) then
        do r2 <- advance pj tmp;
        let '(tmp2, t2) := r2 in
        if t_is t2 TypeNone then Ok (rev acc) else obj_foreach_loop f pj tmp2 only nkeys n acc
      else
        do r2 <- advance pj tmp;
        let '(tmp2, t2) := r2 in
        if t_is t2 TypeNone then Ok (rev acc)
        else
          let acc' := (name, tmp2) :: acc in
          if (S n =? nkeys)%nat then Ok (rev acc') else obj_foreach_loop f pj tmp2 only nkeys (S n) acc'.
Proof. reflexivity. Qed.

(* a callback (key, iterator) is made for the member (k, d) *)
Definition callback_for (pj : pjson) (cb : bytes * iter) (kd : bytes * doc) : Prop :=
  fst cb = fst kd /\ denotes strict adj pj (snd cb) (snd kd).

Lemma obj_foreach_loop_spec pj only nkeys :
  N.of_nat (length (pj_msg pj)) < two64 -> N.of_nat (length (pj_strings pj)) < two64 ->
  forall l body pre, mseg pj (nlen pre) body l ->
  forall tmp e post f n acc,
  pj_tape pj = pre ++ body ++ e :: post -> word_tag e = TagObjectEnd ->
  (i_off tmp + i_add tmp)%Z = Z.of_nat (length pre) ->
  i_len tmp = Z.of_nat (length pre + length body + 1) ->
  (length l < f)%nat ->
  exists cbs, obj_foreach_loop f pj tmp only nkeys n acc = Ok (rev acc ++ cbs) /\
              Forall2 (callback_for pj) cbs (abs_foreach_go l only nkeys n).
Proof.
  intros Bm Bs.
  induction l as [|[k d] l IH]; intros body pre Hit tmp e post f n acc Ht He Hoff Hlen Hf;
    apply mitems_front in Hit; (destruct f as [|f]; [lia|]); rewrite obj_foreach_loop_S.
  - destruct (advance_end strict pj tmp body e pre post Hit Ht (or_intror He) Hoff ltac:(lia)) as (it' & ->).
    cbn [obind]. cbv iota beta.
    change (negb (t_is TypeNone TypeString)) with true. cbn [orb].
    change (t_is TypeNone TypeNone) with true. cbv iota.
    exists []. rewrite app_nil_r. split; [reflexivity|constructor].
  - destruct Hit as (n0 & w & len & n2 & v & rest & -> & Hn & Hw & Hk & Hn2 & Hadj & Hv & Hrest).
    destruct (val_seg_head _ _ _ _ _ _ _ Hv) as (wv & rv & -> & Htag).
    assert (Ht' : pj_tape pj = pre ++ n0 ++ w :: len :: n2 ++ (wv :: rv) ++ rest ++ e :: post).
    { rewrite Ht. leq. }
    destruct (obj_member_lookup _ _ strict adj pj tmp pre n0 w len k n2 wv rv d (rest ++ e :: post)
                eq_refl eq_refl Bm Bs Ht' Hn Hw Hk Hn2 Hv Hoff)
      as (tmp1 & tmp2 & A1 & Chk & Rd & Nm & A2 & AI & Ty & Off2 & L2 & W2 & Wsub & _).
    { rewrite Hlen. lens. }
    rewrite A1. cbn [obind]. cbv iota beta.
    change (negb (t_is TypeString TypeString)) with false. cbn [orb].
    rewrite Chk, Rd. cbn [obind]. rewrite Nm. cbn [obind].
    rewrite A2. cbn [obind]. cbv iota beta zeta.
    replace (t_is (doc_type d) TypeNone) with false by (symmetry; apply N.eqb_neq; exact Ty).
    assert (Hcont : forall n' acc', exists cbs,
              obj_foreach_loop f pj tmp2 only nkeys n' acc' = Ok (rev acc' ++ cbs) /\
              Forall2 (callback_for pj) cbs (abs_foreach_go l only nkeys n')).
    { intros n' acc'.
      apply (IH rest (pre ++ n0 ++ w :: len :: n2 ++ wv :: rv)) with (e := e) (post := post).
      - eapply mitems_idx; [|exact Hrest]. lens.
      - rewrite Ht. leq.
      - exact He.
      - exact Off2.
      - rewrite L2, Hlen. lens.
      - cbn [length] in Hf. lia. }
    cbn [abs_foreach_go].
    destruct ((0 <? nkeys)%nat && negb (existsb (bytes_eqb k) only)) eqn:Efilter.
    + apply Hcont.
    + assert (Hcb : callback_for pj (k, tmp2) (k, d)).
      { split; [reflexivity|]. cbn [snd].
        exists (pre ++ n0 ++ w :: len :: n2), (wv :: rv), (rest ++ e :: post).
        split; [rewrite Ht; leq|]. split; [|exact W2].
        eapply val_seg_idx; [|exact Hv]. lens. }
      destruct (S n =? nkeys)%nat.
      * exists [(k, tmp2)]. split; [cbn [rev]; reflexivity|].
        constructor; [exact Hcb|constructor].
      * destruct (Hcont (S n) ((k, tmp2) :: acc)) as (cbs & E & HF).
        exists ((k, tmp2) :: cbs). split.
        -- rewrite E. cbn [rev]. rewrite <- app_assoc. reflexivity.
        -- constructor; assumption.
Qed.

(* Object.ForEach on the object at [pre]: the callbacks, in order, are made
   for exactly the members abs_foreach_go selects, each with its own key and
   an iterator denoting its own value *)
Theorem obj_foreach_refines pj o only pre sub post l :
  N.of_nat (length (pj_msg pj)) < two64 -> N.of_nat (length (pj_strings pj)) < two64 ->
  pj_tape pj = pre ++ sub ++ post -> vseg pj (nlen pre) sub (DObj l) -> cont_at o pre sub ->
  exists cbs, obj_foreach pj o only = Ok cbs /\
    Forall2 (callback_for pj) cbs (abs_foreach_go l only (distinct_count only []) 0).
Proof.
  intros Bm Bs Ht Hv (Hoff & Hlen).
  inversion Hv; subst.
  match goal with H : mitems _ _ _ _ _ body l |- _ => rename H into Hit end.
  unfold obj_foreach.
  apply (obj_foreach_loop_spec pj only _ Bm Bs l body (pre ++ [w])) with (e := e) (post := post) (acc := []).
  - eapply mitems_idx; [|exact Hit]. nl.
  - rewrite Ht. leq.
  - assumption.
  - cbn [cont_iter i_off i_add]. rewrite Hoff. lens.
  - cbn [cont_iter i_len]. rewrite Hlen. lens.
  - pose proof (proj2 (proj2 (seg_lengths _ _ _ _)) _ _ _ Hit) as Hll.
    unfold cont_fuel. rewrite Hlen. lens.
Qed.

(* the claim of the property: keys unique within the object *)
Corollary obj_foreach_unique pj o only pre sub post l :
  N.of_nat (length (pj_msg pj)) < two64 -> N.of_nat (length (pj_strings pj)) < two64 ->
  pj_tape pj = pre ++ sub ++ post -> vseg pj (nlen pre) sub (DObj l) -> cont_at o pre sub ->
  NoDup (map fst l) ->
  exists cbs, obj_foreach pj o only = Ok cbs /\
    Forall2 (callback_for pj) cbs (abs_foreach l only).
Proof.
  intros Bm Bs Ht Hv Hc Hnd.
  destruct (obj_foreach_refines pj o only pre sub post l Bm Bs Ht Hv Hc) as (cbs & E & HF).
  exists cbs. split; [exact E|]. rewrite <- (abs_foreach_go_unique l only Hnd). exact HF.
Qed.

(* no filter: all members in order, duplicates or not *)
Corollary obj_foreach_all pj o pre sub post l :
  N.of_nat (length (pj_msg pj)) < two64 -> N.of_nat (length (pj_strings pj)) < two64 ->
  pj_tape pj = pre ++ sub ++ post -> vseg pj (nlen pre) sub (DObj l) -> cont_at o pre sub ->
  exists cbs, obj_foreach pj o [] = Ok cbs /\ Forall2 (callback_for pj) cbs l.
Proof.
  intros Bm Bs Ht Hv Hc.
  destruct (obj_foreach_refines pj o [] pre sub post l Bm Bs Ht Hv Hc) as (cbs & E & HF).
  exists cbs. split; [exact E|].
  cbn [distinct_count length] in HF. rewrite abs_foreach_go_nofilter in HF. exact HF.
Qed.

(* keys not unique: only the first [number of distinct listed keys] listed
   members are visited *)
Corollary obj_foreach_duplicates pj o only pre sub post l :
  N.of_nat (length (pj_msg pj)) < two64 -> N.of_nat (length (pj_strings pj)) < two64 ->
  pj_tape pj = pre ++ sub ++ post -> vseg pj (nlen pre) sub (DObj l) -> cont_at o pre sub ->
  only <> [] ->
  exists cbs, obj_foreach pj o only = Ok cbs /\
    Forall2 (callback_for pj) cbs
      (firstn (distinct_count only []) (filter (in_filter only) l)).
Proof.
  intros Bm Bs Ht Hv Hc Ho.
  destruct (obj_foreach_refines pj o only pre sub post l Bm Bs Ht Hv Hc) as (cbs & E & HF).
  exists cbs. split; [exact E|]. rewrite <- (abs_foreach_go_general l only Ho). exact HF.
Qed.

End ObjForEach.

(* ------------------------------------------------------------------ *)
(* Array.ForEach                                                        *)

Section ArrForEach.
Variables (strict adj : bool).
Notation vseg pj := (val_seg (pj_msg pj) (pj_strings pj) strict adj).
Notation iseg pj := (items (pj_msg pj) (pj_strings pj) strict adj).

Lemma arr_foreach_loop_S f pj it acc :
  arr_foreach_loop (S f) pj it acc =
    do r <- advance pj it;
    let '(it', t) := r in
    if t_is t TypeNone then Ok (rev acc) else arr_foreach_loop f pj it' (it' :: acc).
Proof. reflexivity. Qed.

Lemma arr_foreach_loop_spec pj :
  forall l body pre, iseg pj (nlen pre) body l ->
  forall it e post f acc,
  pj_tape pj = pre ++ body ++ e :: post -> word_tag e = TagArrayEnd ->
  (i_off it + i_add it)%Z = Z.of_nat (length pre) ->
  i_len it = Z.of_nat (length pre + length body + 1) ->
  (length l < f)%nat ->
  exists its, arr_foreach_loop f pj it acc = Ok (rev acc ++ its) /\
              Forall2 (denotes strict adj pj) its l.
Proof.
  induction l as [|d l IH]; intros body pre Hit it e post f acc Ht He Hoff Hlen Hf;
    apply items_front in Hit; (destruct f as [|f]; [lia|]); rewrite arr_foreach_loop_S.
  - destruct (advance_end strict pj it body e pre post Hit Ht (or_introl He) Hoff ltac:(lia)) as (it' & ->).
    cbn [obind]. cbv iota beta. change (t_is TypeNone TypeNone) with true. cbv iota.
    exists []. rewrite app_nil_r. split; [reflexivity|constructor].
  - destruct Hit as (n & v & rest & -> & Hn & Hv & Hrest).
    destruct (val_seg_head _ _ _ _ _ _ _ Hv) as (w & r & -> & Htag).
    rewrite <- !app_assoc in Ht.
    destruct (advance_value _ _ strict adj pj it n w r d pre (rest ++ e :: post) Hn Ht Hv Hoff)
      as (Hadv & Hon & Hadd & Hl' & Hty).
    { rewrite Hlen. lens. }
    rewrite Hadv. cbn [obind]. cbv iota beta.
    remember (land it (Z.of_nat (length pre) + Z.of_nat (length n) + 1) w) as it' eqn:Eit'. clear Eit'.
    replace (t_is (TagToType_ref (word_tag w)) TypeNone) with false
      by (symmetry; apply N.eqb_neq; exact Hty).
    pose proof Hon as (Hoff' & Hlen' & _).
    destruct (IH rest (pre ++ n ++ w :: r)) with (it := it') (e := e) (post := post) (f := f) (acc := it' :: acc)
      as (its & E & HF).
    + eapply items_idx; [|exact Hrest]. lens.
    + rewrite Ht. leq.
    + exact He.
    + rewrite Hoff', Hadd. lens.
    + rewrite Hl', Hlen. lens.
    + cbn [length] in Hf. lia.
    + exists (it' :: its). split.
      * rewrite E. cbn [rev]. rewrite <- app_assoc. reflexivity.
      * constructor; [|exact HF].
        exists (pre ++ n), (w :: r), (rest ++ e :: post).
        split; [rewrite Ht; leq|]. split; [eapply val_seg_idx; [|exact Hv]; lens|].
        split; [|split].
        -- destruct Hon as (A & B & C). split; [rewrite A; lens|]. split; [revert B; lens|exact C].
        -- lia.
        -- rewrite Hoff', Hadd, Hl', Hlen. lens.
Qed.

(* Array.ForEach on the array at [pre]: one callback per element, in order,
   each with an iterator denoting that element *)
Theorem arr_foreach_refines pj a pre sub post l :
  pj_tape pj = pre ++ sub ++ post -> vseg pj (nlen pre) sub (DArr l) -> cont_at a pre sub ->
  exists its, arr_foreach pj a = Ok its /\ Forall2 (denotes strict adj pj) its l.
Proof.
  intros Ht Hv (Hoff & Hlen).
  inversion Hv; subst.
  match goal with H : items _ _ _ _ _ body l |- _ => rename H into Hit end.
  unfold arr_foreach.
  apply (arr_foreach_loop_spec pj l body (pre ++ [w])) with (e := e) (post := post) (acc := []).
  - eapply items_idx; [|exact Hit]. nl.
  - rewrite Ht. leq.
  - assumption.
  - cbn [cont_iter i_off i_add]. rewrite Hoff. lens.
  - cbn [cont_iter i_len]. rewrite Hlen. lens.
  - pose proof (proj1 (proj2 (seg_lengths _ _ _ _)) _ _ _ Hit) as Hll.
    unfold cont_fuel. rewrite Hlen. lens.
Qed.

End ArrForEach.
