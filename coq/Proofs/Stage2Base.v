(* Stage2Base.v — building blocks for the stage-2 simulation: tape-word
   arithmetic, the string-buffer addressing, one-step unfolding lemmas for the
   abstraction function [den_*], and the elementary facts about the machine
   operations (updateChar over pending increments, tape writes, scopeEnd). *)
From Coq Require Import ZifyBool ZifyN ZifyNat.
From SJ Require Import Model.Base Model.RefTables Spec.Json Model.Number Model.Str Model.Stage1.
From SJ Require Import Proofs.StrArith Proofs.StrProofs.
From SJ Require Import Model.Stage2 Model.Tape.
Open Scope N_scope.

(* ------------------------------------------------------------------ *)
(* tape words                                                          *)

Lemma two56_pow : two56 = 2 ^ 56. Proof. reflexivity. Qed.
Lemma two56_val : two56 = 2 * STRINGBUFBIT. Proof. reflexivity. Qed.

Lemma word_tag_mk t p : p < two56 -> word_tag (mk_word t p) = t.
Proof.
  intros H. unfold word_tag, mk_word.
  rewrite N.div_add_l by (unfold two56; lia). rewrite N.div_small by exact H. lia.
Qed.

Lemma word_val_mk t p : p < two56 -> word_val (mk_word t p) = p.
Proof.
  intros H. unfold word_val, mk_word.
  rewrite N.add_comm, N.mod_add by (unfold two56; lia). apply N.mod_small. exact H.
Qed.

Lemma lor_mk t v : v < two56 -> N.lor (mk_word t 0) v = mk_word t v.
Proof.
  intros H. unfold mk_word. rewrite N.add_0_r, N.lor_comm.
  rewrite two56_pow in *. rewrite lor_disjoint by exact H. lia.
Qed.

(* ------------------------------------------------------------------ *)
(* string addressing                                                   *)

Lemma land_bufbit_small p : p < STRINGBUFBIT -> N.land p STRINGBUFBIT = 0.
Proof.
  intros H. change STRINGBUFBIT with (1 * 2 ^ 55) in *. apply land_disjoint. lia.
Qed.

Lemma land_bufbit_big sl : sl < STRINGBUFBIT -> N.land (STRINGBUFBIT + sl) STRINGBUFBIT = STRINGBUFBIT.
Proof.
  intros H.
  assert (E : STRINGBUFBIT + sl = N.lor sl STRINGBUFBIT).
  { change STRINGBUFBIT with (1 * 2 ^ 55) in *. rewrite lor_disjoint by lia. lia. }
  rewrite E, N.land_lor_distr_l, land_bufbit_small by exact H.
  rewrite N.land_diag. reflexivity.
Qed.

Lemma land_bufmask sl : sl < STRINGBUFBIT -> N.land (STRINGBUFBIT + sl) STRINGBUFMASK = sl.
Proof.
  intros H. change STRINGBUFMASK with (N.ones 55). rewrite N.land_ones.
  change (2 ^ 55) with STRINGBUFBIT.
  rewrite N.add_comm. replace (sl + STRINGBUFBIT) with (sl + 1 * STRINGBUFBIT) by lia.
  rewrite N.mod_add by discriminate. apply N.mod_small. exact H.
Qed.

Lemma slice_mid (pre x post : bytes) :
  slice (pre ++ x ++ post) (N.of_nat (length pre)) (N.of_nat (length x)) = Some x.
Proof.
  unfold slice. rewrite !app_length.
  replace (N.of_nat (length pre) + N.of_nat (length x) <=?
           N.of_nat (length pre + (length x + length post))) with true by lia.
  rewrite !Nat2N.id. rewrite skipn_app, Nat.sub_diag, skipn_all. cbn [skipn app].
  rewrite firstn_app, Nat.sub_diag, firstn_O, app_nil_r, firstn_all. reflexivity.
Qed.

(* a string referenced in the message *)
Lemma string_at_msg (msg strs pre x post : bytes) :
  msg = pre ++ x ++ post -> N.of_nat (length pre) < STRINGBUFBIT ->
  string_at msg strs (N.of_nat (length pre)) (N.of_nat (length x)) = Some x.
Proof.
  intros -> H. unfold string_at. rewrite land_bufbit_small by exact H.
  cbn [N.eqb]. apply slice_mid.
Qed.

(* a string in the string buffer *)
Lemma string_at_buf (msg s1 x s2 : bytes) :
  N.of_nat (length s1) < STRINGBUFBIT ->
  string_at msg (s1 ++ x ++ s2) (STRINGBUFBIT + N.of_nat (length s1)) (N.of_nat (length x)) = Some x.
Proof.
  intros H. unfold string_at. rewrite land_bufbit_big by exact H.
  change (STRINGBUFBIT =? 0) with false. cbv iota.
  rewrite land_bufmask by exact H. apply slice_mid.
Qed.

(* ------------------------------------------------------------------ *)
(* one-step unfolding of the abstraction function                       *)

Section Den.
Variables (msg strs : bytes).

Definition vtag (t : N) : Prop :=
  (t =? TagNop) = false /\ (t =? TagArrayEnd) = false /\ (t =? TagObjectEnd) = false.

Lemma skip_nops_stop f i w r : (word_tag w =? TagNop) = false ->
  skip_nops (S f) i (w :: r) = Some (i, w :: r).
Proof. intros H. cbn [skip_nops]. rewrite H. reflexivity. Qed.

Lemma skip_nops_nil f i : skip_nops (S f) i [] = Some (i, []).
Proof. reflexivity. Qed.

Lemma den_value_string f i w len r s :
  word_tag w = TagString -> string_at msg strs (word_val w) len = Some s ->
  den_value msg strs (S f) i (w :: len :: r) = Some (DStr s, i + 2, r).
Proof. intros Ht Hs. cbn [den_value]. rewrite Ht. cbn [N.eqb Pos.eqb TagString]. rewrite Hs. reflexivity. Qed.

Lemma den_value_int f i w x r :
  word_tag w = TagInteger -> den_value msg strs (S f) i (w :: x :: r) = Some (DNum (NInt (s64 x)), i + 2, r).
Proof. intros Ht. cbn [den_value]. rewrite Ht. reflexivity. Qed.

Lemma den_value_uint f i w x r :
  word_tag w = TagUint -> den_value msg strs (S f) i (w :: x :: r) = Some (DNum (NUint x), i + 2, r).
Proof. intros Ht. cbn [den_value]. rewrite Ht. reflexivity. Qed.

Lemma den_value_float f i w x r :
  word_tag w = TagFloat -> den_value msg strs (S f) i (w :: x :: r) = Some (DNum (NFloat x (word_val w)), i + 2, r).
Proof. intros Ht. cbn [den_value]. rewrite Ht. reflexivity. Qed.

Lemma den_value_null f i w r :
  word_tag w = TagNull -> den_value msg strs (S f) i (w :: r) = Some (DNull, i + 1, r).
Proof. intros Ht. cbn [den_value]. rewrite Ht. reflexivity. Qed.

Lemma den_value_true f i w r :
  word_tag w = TagBoolTrue -> den_value msg strs (S f) i (w :: r) = Some (DBool true, i + 1, r).
Proof. intros Ht. cbn [den_value]. rewrite Ht. reflexivity. Qed.

Lemma den_value_false f i w r :
  word_tag w = TagBoolFalse -> den_value msg strs (S f) i (w :: r) = Some (DBool false, i + 1, r).
Proof. intros Ht. cbn [den_value]. rewrite Ht. reflexivity. Qed.

Lemma den_value_arr f i w r :
  word_tag w = TagArrayStart ->
  den_value msg strs (S f) i (w :: r) =
  match den_elems msg strs f (i + 1) r [] with
  | Some (l, j, r') => if j =? word_val w then Some (DArr l, j, r') else None
  | None => None
  end.
Proof. intros Ht. cbn [den_value]. rewrite Ht. reflexivity. Qed.

Lemma den_value_obj f i w r :
  word_tag w = TagObjectStart ->
  den_value msg strs (S f) i (w :: r) =
  match den_members msg strs f (i + 1) r [] with
  | Some (l, j, r') => if j =? word_val w then Some (DObj l, j, r') else None
  | None => None
  end.
Proof. intros Ht. cbn [den_value]. rewrite Ht. reflexivity. Qed.

Lemma den_elems_S f i rest acc :
  den_elems msg strs (S f) i rest acc =
    match skip_nops f i rest with
    | None => None
    | Some (i', rest') =>
      match rest' with
      | [] => None
      | w :: r =>
        if word_tag w =? TagArrayEnd then Some (rev acc, i' + 1, r)
        else match den_value msg strs f i' rest' with
             | Some (d, j, r') => den_elems msg strs f j r' (d :: acc)
             | None => None
             end
      end
    end.
Proof. reflexivity. Qed.

Lemma den_members_S f i rest acc :
  den_members msg strs (S f) i rest acc =
    match skip_nops f i rest with
    | None => None
    | Some (i', rest') =>
      match rest' with
      | [] => None
      | w :: r =>
        if word_tag w =? TagObjectEnd then Some (rev acc, i' + 1, r)
        else if word_tag w =? TagString then
          match r with
          | len :: r1 =>
            match string_at msg strs (word_val w) len with
            | Some k =>
              match skip_nops f (i' + 2) r1 with
              | Some (i2, r2) =>
                match den_value msg strs f i2 r2 with
                | Some (d, j, r') => den_members msg strs f j r' ((k, d) :: acc)
                | None => None
                end
              | None => None
              end
            | None => None
            end
          | [] => None
          end
        else None
      end
    end.
Proof. reflexivity. Qed.

Lemma den_elems_end f i w r acc :
  word_tag w = TagArrayEnd ->
  den_elems msg strs (S (S f)) i (w :: r) acc = Some (rev acc, i + 1, r).
Proof.
  intros Ht. rewrite den_elems_S, skip_nops_stop by (rewrite Ht; reflexivity).
  rewrite Ht. reflexivity.
Qed.

Lemma den_elems_val f i w r acc :
  vtag (word_tag w) ->
  den_elems msg strs (S (S f)) i (w :: r) acc =
  match den_value msg strs (S f) i (w :: r) with
  | Some (d, j, r') => den_elems msg strs (S f) j r' (d :: acc)
  | None => None
  end.
Proof.
  intros (H1 & H2 & H3). rewrite den_elems_S, skip_nops_stop by exact H1.
  rewrite H2. reflexivity.
Qed.

Lemma den_members_end f i w r acc :
  word_tag w = TagObjectEnd ->
  den_members msg strs (S (S f)) i (w :: r) acc = Some (rev acc, i + 1, r).
Proof.
  intros Ht. rewrite den_members_S, skip_nops_stop by (rewrite Ht; reflexivity).
  rewrite Ht. reflexivity.
Qed.

Lemma den_members_kv f i w len v r acc k :
  word_tag w = TagString -> string_at msg strs (word_val w) len = Some k ->
  (word_tag v =? TagNop) = false ->
  den_members msg strs (S (S f)) i (w :: len :: v :: r) acc =
  match den_value msg strs (S f) (i + 2) (v :: r) with
  | Some (d, j, r') => den_members msg strs (S f) j r' ((k, d) :: acc)
  | None => None
  end.
Proof.
  intros Ht Hs Hv. rewrite den_members_S, skip_nops_stop by (rewrite Ht; reflexivity).
  rewrite Ht. change (TagString =? TagObjectEnd) with false. change (TagString =? TagString) with true.
  cbv iota. rewrite Hs. rewrite skip_nops_stop by exact Hv. reflexivity.
Qed.

End Den.

(* ------------------------------------------------------------------ *)
(* increments                                                          *)

Definition incs (prev1 : nat) (ps : list nat) : list nat := fst (to_incs prev1 ps).

Lemma incs_nil prev1 : incs prev1 [] = [].
Proof. reflexivity. Qed.

Lemma incs_cons prev1 p r : incs prev1 (p :: r) = (S p - prev1)%nat :: incs (S p) r.
Proof. unfold incs. cbn [to_incs]. destruct (to_incs (S p) r). reflexivity. Qed.

Lemma incs_length : forall ps prev1, length (incs prev1 ps) = length ps.
Proof.
  induction ps as [|p r IH]; intros prev1; [reflexivity|].
  rewrite incs_cons. cbn [length]. rewrite IH. reflexivity.
Qed.

Lemma to_incs_snd : forall ps prev1, snd (to_incs prev1 ps) = match rev ps with [] => prev1 | p :: _ => S p end.
Proof.
  induction ps as [|p r IH]; intros prev1; [reflexivity|].
  cbn [to_incs]. specialize (IH (S p)). destruct (to_incs (S p) r) as [l e]. cbn [snd] in *.
  rewrite IH. cbn [rev]. destruct (rev r); reflexivity.
Qed.

Lemma incs_app : forall a b prev1,
  incs prev1 (a ++ b) = incs prev1 a ++ incs (snd (to_incs prev1 a)) b.
Proof.
  induction a as [|p a IH]; intros b prev1; [reflexivity|].
  cbn [app]. rewrite !incs_cons. rewrite IH. cbn [app to_incs].
  destruct (to_incs (S p) a) as [l e]. reflexivity.
Qed.

Lemma bufs_incs_concat : forall bufs prev1,
  concat (bufs_incs prev1 bufs) = incs prev1 (concat bufs).
Proof.
  induction bufs as [|b r IH]; intros prev1; [reflexivity|].
  cbn [bufs_incs concat]. rewrite incs_app. unfold incs at 1.
  destruct (to_incs prev1 b) as [l e]. cbn [concat fst snd]. rewrite IH. reflexivity.
Qed.

Lemma bufs_incs_noempty : forall bufs prev1,
  Forall (fun b => b <> []) bufs -> Forall (fun b => b <> []) (bufs_incs prev1 bufs).
Proof.
  induction bufs as [|b r IH]; intros prev1 H; [constructor|].
  inversion H as [|? ? Hb Hr]; subst. cbn [bufs_incs].
  destruct (to_incs prev1 b) as [l e] eqn:E. constructor; [|apply IH; exact Hr].
  destruct b as [|p b']; [congruence|]. cbn [to_incs] in E. destruct (to_incs (S p) b'). injection E as <- _. discriminate.
Qed.

(* ------------------------------------------------------------------ *)
(* machine operations                                                  *)

Definition pending (m : m2) : list nat := cbuf m ++ concat (rbufs m).
Definition noempty (l : list (list nat)) : Prop := Forall (fun b => b <> []) l.

(* the state after updateChar *)
Definition adv (m : m2) (i1 : N) (c : bytes) (cb : list nat) (rb : list (list nat)) : m2 :=
  {| tape_rev := tape_rev m; tlen := tlen m; strs_rev := strs_rev m; slen := slen m;
     stack := stack m; idx1 := i1; cur := c; whole := whole m; sfuel := sfuel m; cbuf := cb; rbufs := rb |}.

Definition set_tape (m : m2) (t : list N) : m2 :=
  {| tape_rev := t; tlen := tlen m; strs_rev := strs_rev m;
     slen := slen m; stack := stack m; idx1 := idx1 m; cur := cur m; whole := whole m; sfuel := sfuel m;
     cbuf := cbuf m; rbufs := rbufs m |}.

Definition str_state (m : m2) (r : pstr_res) : m2 :=
  let m1 := write_raw2 m (ps_word r) (ps_len r) in
  {| tape_rev := tape_rev m1; tlen := tlen m1; strs_rev := rev (ps_app r) ++ strs_rev m1;
     slen := slen m1 + N.of_nat (length (ps_app r)); stack := stack m1; idx1 := idx1 m1;
     cur := cur m1; whole := whole m1; sfuel := sfuel m1; cbuf := cbuf m1; rbufs := rbufs m1 |}.

Ltac msimpl :=
  cbn [tape_rev tlen strs_rev slen stack idx1 cur whole sfuel cbuf rbufs
       write_tape write_raw2 set_stack push_scope adv set_tape str_state].
Ltac msimpl_in H :=
  cbn [tape_rev tlen strs_rev slen stack idx1 cur whole sfuel cbuf rbufs
       write_tape write_raw2 set_stack push_scope adv set_tape str_state] in H.

Lemma annotate_ok m loc val : loc < tlen m ->
  annotate m loc val = Ok (set_tape m (upd_nth (N.to_nat (tlen m - 1 - loc)) (fun w => N.lor w val) (tape_rev m))).
Proof. intros H. unfold annotate. replace (tlen m <=? loc) with false by lia. reflexivity. Qed.

Lemma upd_nth_app {A} (f : A -> A) : forall (a : list A) x b,
  upd_nth (length a) f (a ++ x :: b) = a ++ f x :: b.
Proof. induction a as [|y a IH]; intros x b; [reflexivity|]. cbn [length app upd_nth]. rewrite IH. reflexivity. Qed.

Lemma do_string_ok copy m k r :
  parse_string_model (cur m) (idx1 m - 1) (peek_size m) copy (slen m) (sfuel m) = Ok r ->
  do_string copy m k = k (str_state m r).
Proof. intros H. unfold do_string. rewrite H. reflexivity. Qed.

(* the string model ignores the length limit *)
Lemma parse_string_model_max mem idx max max' copy sl fuel :
  parse_string_model mem idx max copy sl fuel = parse_string_model mem idx max' copy sl fuel.
Proof. reflexivity. Qed.

(* updateChar when at least one increment is pending *)
Lemma update_char_pending m d rest :
  noempty (rbufs m) -> pending m = d :: rest ->
  exists cb rb, cb ++ concat rb = rest /\ noempty rb /\
    update_char m =
    (let nidx1 := idx1 m + N.of_nat d in
     let ncur := if idx1 m =? 0 then skipn (d - 1) (whole m) else skipn d (cur m) in
     if (d =? 0)%nat && (idx1 m =? 0) then UCrash
     else match ncur with
          | [] => UCrash
          | b :: _ => UChar (adv m nidx1 ncur cb rb) (b2n b)
          end).
Proof.
  unfold pending, update_char. intros Hne Hp.
  destruct (cbuf m) as [|d' cb] eqn:Ec.
  - cbn [app] in Hp. destruct (rbufs m) as [|nb rb] eqn:Er; [discriminate|].
    inversion Hne as [|? ? Hnb Hrb]; subst.
    destruct nb as [|d' cb]; [congruence|]. cbn [concat app] in Hp. injection Hp as -> Hrest.
    exists cb, rb. split; [exact Hrest|]. split; [exact Hrb|]. reflexivity.
  - cbn [app] in Hp. injection Hp as -> Hrest.
    exists cb, (rbufs m). split; [exact Hrest|]. split; [exact Hne|]. reflexivity.
Qed.

Lemma update_char_done m : noempty (rbufs m) -> pending m = [] -> update_char m = UDone m.
Proof.
  unfold pending, update_char. intros Hne Hp.
  destruct (cbuf m); [|discriminate]. destruct (rbufs m) as [|nb rb]; [reflexivity|].
  inversion Hne as [|? ? Hnb Hrb]; subst. destruct nb; [congruence|discriminate].
Qed.

(* counted executions *)
Inductive nsteps (copy : bool) : nat -> label -> m2 -> label -> m2 -> Prop :=
| ns_refl l m : nsteps copy 0 l m l m
| ns_cons k l m l1 m1 l2 m2 :
    step copy l m = Next l1 m1 -> length (pending m) = S (length (pending m1)) ->
    nsteps copy k l1 m1 l2 m2 -> nsteps copy (S k) l m l2 m2.

Lemma nsteps_trans copy : forall k1 l m l1 m1, nsteps copy k1 l m l1 m1 ->
  forall k2 l2 m2, nsteps copy k2 l1 m1 l2 m2 -> nsteps copy (k1 + k2) l m l2 m2.
Proof.
  induction 1 as [|k l m l1 m1 l2 m2 Hs Hp Hn IH]; intros k2 l3 m3 H2; [exact H2|].
  cbn [Nat.add]. econstructor; [exact Hs|exact Hp|]. apply IH. exact H2.
Qed.

Lemma nsteps_one copy l m l1 m1 :
  step copy l m = Next l1 m1 -> length (pending m) = S (length (pending m1)) -> nsteps copy 1 l m l1 m1.
Proof. intros H Hp. econstructor; [exact H|exact Hp|constructor]. Qed.

Lemma nsteps_pending copy : forall k l m l1 m1, nsteps copy k l m l1 m1 ->
  length (pending m) = (k + length (pending m1))%nat.
Proof. induction 1 as [|k l m l1 m1 l2 m2 Hs Hp Hn IH]; [reflexivity|]. rewrite Hp, IH. reflexivity. Qed.

Lemma nsteps_run copy : forall k l m l1 m1, nsteps copy k l m l1 m1 ->
  forall f, run_labels (k + f) copy l m = run_labels f copy l1 m1.
Proof.
  induction 1 as [|k l m l1 m1 l2 m2 Hs Hp Hn IH]; intros f; [reflexivity|].
  cbn [Nat.add run_labels]. rewrite Hs. apply IH.
Qed.

Lemma step_uchar copy l m m' c : update_char m = UChar m' c ->
  step copy l m =
    match l with
    | L_start => continue_root m' c
    | L_startContinue => if c =? cLF then Next L_ndSkip m' else Fail
    | L_ndSkip =>
      if c =? cLF then Next L_ndSkip m'
      else match cycle_root m' with
           | Ok m'' => continue_root m'' c
           | _ => SCrash
           end
    | L_objBegin =>
      if c =? cQUOTE then do_string copy m' (fun m'' => Next L_objColon m'')
      else if c =? cRBRACE then scope_end m' c
      else Fail
    | L_objColon => if c =? cCOLON then Next L_objValue m' else Fail
    | L_objValue => value_switch copy m' c retObject L_objCont
    | L_objCont =>
      if c =? cCOMMA then Next L_objKey m'
      else if c =? cRBRACE then scope_end m' c
      else Fail
    | L_objKey =>
      if c =? cQUOTE then do_string copy m' (fun m'' => Next L_objColon m'') else Fail
    | L_arrBegin =>
      if c =? cRBRACK then scope_end m' c else value_switch copy m' c retArray L_arrCont
    | L_arrValue => value_switch copy m' c retArray L_arrCont
    | L_arrCont =>
      if c =? cCOMMA then Next L_arrValue m'
      else if c =? cRBRACK then scope_end m' c
      else Fail
    end.
Proof. intros H. unfold step. rewrite H. reflexivity. Qed.

(* value_switch, case by case *)
Lemma value_switch_quote copy m c ret cont : c = cQUOTE ->
  value_switch copy m c ret cont = do_string copy m (fun m' => Next cont m').
Proof. intros ->. reflexivity. Qed.

Lemma value_switch_t copy m c ret cont : c = c_t ->
  value_switch copy m c ret cont = if is_true_atom (cur m) then Next cont (write_tape m 0 c_t) else Fail.
Proof. intros ->. reflexivity. Qed.

Lemma value_switch_f copy m c ret cont : c = c_f ->
  value_switch copy m c ret cont = if is_false_atom (cur m) then Next cont (write_tape m 0 c_f) else Fail.
Proof. intros ->. reflexivity. Qed.

Lemma value_switch_n copy m c ret cont : c = c_n ->
  value_switch copy m c ret cont = if is_null_atom (cur m) then Next cont (write_tape m 0 c_n) else Fail.
Proof. intros ->. reflexivity. Qed.

Lemma value_switch_num copy m c ret cont : (c =? cMINUS) || is_digit c = true ->
  value_switch copy m c ret cont =
  match parse_number_model (cur m) with
  | Some (w1, w2) => Next cont (write_raw2 m w1 w2)
  | None => Fail
  end.
Proof.
  intros H. unfold value_switch. rewrite H.
  assert (E : (c =? cQUOTE) = false /\ (c =? c_t) = false /\ (c =? c_f) = false /\ (c =? c_n) = false).
  { unfold is_digit, cMINUS, c0, c9, cQUOTE, c_t, c_f, c_n in *. lia. }
  destruct E as (E1 & E2 & E3 & E4). rewrite E1, E2, E3, E4. reflexivity.
Qed.

Lemma value_switch_lbrace copy m c ret cont : c = cLBRACE ->
  value_switch copy m c ret cont = Next L_objBegin (write_tape (push_scope m ret) 0 cLBRACE).
Proof. intros ->. reflexivity. Qed.

Lemma value_switch_lbrack copy m c ret cont : c = cLBRACK ->
  value_switch copy m c ret cont = Next L_arrBegin (write_tape (push_scope m ret) 0 cLBRACK).
Proof. intros ->. reflexivity. Qed.
