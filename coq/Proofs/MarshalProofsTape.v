(* MarshalProofsTape.v — property C10: the numeric side conditions of the
   text theorems (integers fit int64/uint64, float patterns fit 64 bits) hold
   for every document denoted by a tape of 64-bit words; what remains to be
   assumed about an edited tape is only: strings are well-formed UTF-8 and
   floats are finite. *)
From Coq Require Import ZArith NArith List Bool Lia ZifyBool ZifyN ZifyNat.
From SJ Require Import Model.Base Model.RefTables Spec.Json Model.Tape Model.Iter Model.FloatFmt.
From SJ Require Import Proofs.TapeBase Proofs.TapeSeg Proofs.TapeDen Proofs.EscapeProofs.
From SJ Require Import Model.Marshal Proofs.MarshalProofsBase Proofs.MarshalProofsNum Proofs.MarshalProofsText.
Import ListNotations.
Local Open Scope N_scope.

Definition num_rngb (n : num) : bool :=
  match n with
  | NInt z => ((min_int64 <=? z) && (z <=? max_int64))%Z
  | NUint u => u <? two64
  | NFloat b _ => b <? two64
  end.
Fixpoint doc_rngb (d : doc) : bool :=
  match d with
  | DNum n => num_rngb n
  | DArr l => forallb doc_rngb l
  | DObj l => forallb (fun kv => doc_rngb (snd kv)) l
  | _ => true
  end.

(* strings and keys are well-formed UTF-8, floats are finite *)
Definition num_txtb (n : num) : bool :=
  match n with NFloat b _ => sf_is_finite (sf_of_bits b) | _ => true end.
Fixpoint doc_txtb (d : doc) : bool :=
  match d with
  | DNum n => num_txtb n
  | DStr s => utf8_ok s
  | DArr l => forallb doc_txtb l
  | DObj l => forallb (fun kv => utf8_ok (fst kv) && doc_txtb (snd kv)) l
  | _ => true
  end.

Theorem doc_okb_split : forall d, doc_okb d = doc_rngb d && doc_txtb d.
Proof.
  induction d as [| b | n | s | l IH | l IH] using doc_ind2; cbn [doc_okb doc_rngb doc_txtb]; try reflexivity.
  - destruct n; cbn [num_okb num_rngb num_txtb]; try rewrite andb_true_r; reflexivity.
  - induction l as [|d l IHl]; [reflexivity|]. inversion IH; subst. cbn [forallb].
    rewrite H1, (IHl H2).
    destruct (doc_rngb d), (doc_txtb d), (forallb doc_rngb l), (forallb doc_txtb l); reflexivity.
  - induction l as [|kv l IHl]; [reflexivity|]. inversion IH; subst. cbn [forallb].
    rewrite H1, (IHl H2).
    destruct (utf8_ok (fst kv)), (doc_rngb (snd kv)), (doc_txtb (snd kv)),
      (forallb (fun kv => doc_rngb (snd kv)) l),
      (forallb (fun kv => utf8_ok (fst kv) && doc_txtb (snd kv)) l); reflexivity.
Qed.

Definition words64 (t : list N) : Prop := Forall (fun w => w < two64) t.

Lemma s64_range x : x < two64 -> ((min_int64 <=? s64 x) && (s64 x <=? max_int64))%Z = true.
Proof.
  intros H. unfold s64, min_int64, max_int64, two64, two63 in *.
  destruct (N.ltb_spec x 9223372036854775808); lia.
Qed.

Section Rng.
Variables (msg strings : bytes) (strict adj : bool).

Lemma w64_app a b : words64 (a ++ b) <-> words64 a /\ words64 b.
Proof. apply Forall_app. Qed.

Ltac w64 :=
  unfold words64 in *;
  repeat match goal with
  | H : Forall _ (_ :: _) |- _ => apply Forall_cons_iff in H; destruct H
  | H : Forall _ (_ ++ _) |- _ => apply Forall_app in H; destruct H
  end;
  repeat match goal with
  | H : Forall ?P ?x -> _, H' : Forall ?P ?x |- _ => specialize (H H')
  end.

Lemma seg_rng :
  (forall i v d, val_seg msg strings strict adj i v d -> words64 v -> doc_rngb d = true) /\
  (forall i b l, items msg strings strict adj i b l -> words64 b -> forallb doc_rngb l = true) /\
  (forall i b l, mitems msg strings strict adj i b l -> words64 b ->
                 forallb (fun kv => doc_rngb (snd kv)) l = true).
Proof.
  apply seg_mutind; intros; cbn [doc_rngb num_rngb forallb snd]; try reflexivity; w64;
    try (apply s64_range; assumption); try (apply N.ltb_lt; assumption); try assumption;
    repeat match goal with H : _ = true |- _ => rewrite H end; reflexivity.
Qed.

Lemma roots_rng i rest l :
  roots_seg msg strings strict adj i rest l -> words64 rest -> forallb doc_rngb l = true.
Proof.
  induction 1 as [i|i w rest Hs Ht Hv|i w junk rest l Ht Hv Hrun Hr IH
                  |i w n1 v d n2 c rest l Htw Hn1 Hv Hn2 Htc Hvc Hvw Hr IH]; intros Hw;
    try reflexivity; w64; try assumption.
  cbn [forallb]. rewrite (proj1 seg_rng _ _ _ Hv) by assumption. rewrite IH. reflexivity.
Qed.
End Rng.

(* for a tape of 64-bit words the only hypotheses are about text *)
Theorem docs_okb_of_tape pj ds :
  denote (pj_msg pj) (pj_strings pj) (pj_tape pj) = Some ds -> words64 (pj_tape pj) ->
  forallb doc_txtb ds = true -> forallb doc_okb ds = true.
Proof.
  intros Hden Hw Ht. apply denote_roots_seg in Hden.
  pose proof (roots_rng _ _ _ _ _ _ _ Hden Hw) as Hr. clear Hden Hw.
  induction ds as [|d ds IH]; [reflexivity|].
  cbn [forallb] in *. apply andb_true_iff in Hr, Ht. destruct Hr as [R1 R2]. destruct Ht as [T1 T2].
  rewrite doc_okb_split, R1, T1, (IH T2 R2). reflexivity.
Qed.
