(* NdRejectFuel.v — the fuel of the specification's recogniser is only a
   termination device:
   (1) more fuel does not change a result other than [SFuel];
   (2) what the recogniser leaves is not longer than what it was given;
   (3) [spec_parse] (fuel 2 * length + 2) and hence [nd_spec] never answer
       [SFuel]. *)
From Coq Require Import ZifyBool ZifyN ZifyNat.
From SJ Require Import Model.Base Model.RefTables Spec.Json.
From SJ Require Import Proofs.StrArith Proofs.StrProofs Proofs.NumLex Proofs.NumberProofs Proofs.TrimProofs.
From SJ Require Import Proofs.Stage1Proofs Proofs.Stage2Proofs Proofs.NdSpec Proofs.NdRejectSpec.
Open Scope N_scope.

(* ------------------------------------------------------------------ *)
(* (1) monotonicity in the fuel                                        *)

Lemma spec_string_mono : forall f s acc f', (f <= f')%nat ->
  spec_string f s acc <> SFuel -> spec_string f' s acc = spec_string f s acc.
Proof.
  induction f as [|f IH]; intros s acc f' Hle H; [exfalso; apply H; reflexivity|].
  destruct f' as [|f'']; [lia|]. assert (Hle' : (f <= f'')%nat) by lia.
  destruct s as [|b s']; [reflexivity|].
  destruct (b2n b =? cQUOTE) eqn:Eq.
  { cbn [spec_string]. rewrite Eq. reflexivity. }
  destruct (b2n b <? 32) eqn:Ec.
  { cbn [spec_string]. rewrite Eq, Ec. reflexivity. }
  destruct (b2n b =? cBSLASH) eqn:Eb.
  { rewrite !spec_bs by assumption. rewrite spec_bs in H by assumption.
    destruct (esc_tok (b :: s')) as [n o| |]; try reflexivity. apply IH; assumption. }
  destruct (b2n b <? 128) eqn:Ea.
  { cbn [spec_string] in H |- *. rewrite Eq, Ec, Eb, Ea in H |- *. apply IH; assumption. }
  cbn [spec_string] in H |- *. rewrite Eq, Ec, Eb, Ea in H |- *.
  destruct (utf8_seq_len (b :: s')) as [n|]; [|reflexivity]. apply IH; assumption.
Qed.

Definition M_V (f : nat) : Prop := forall s f', (f <= f')%nat ->
  spec_value f s <> SFuel -> spec_value f' s = spec_value f s.
Definition M_E (f : nat) : Prop := forall s acc f', (f <= f')%nat ->
  spec_elems f s acc <> SFuel -> spec_elems f' s acc = spec_elems f s acc.
Definition M_M (f : nat) : Prop := forall s acc f', (f <= f')%nat ->
  spec_members f s acc <> SFuel -> spec_members f' s acc = spec_members f s acc.

Lemma MV_step f : M_E f -> M_M f -> M_V (S f).
Proof.
  intros HE HM s f' Hle H. destruct f' as [|f'']; [lia|]. assert (Hle' : (f <= f'')%nat) by lia.
  rewrite spec_value_S in H. rewrite !spec_value_S.
  destruct (skip_ws s) as [|b r0]; [reflexivity|]. cbv zeta in H |- *.
  destruct (b2n b =? cLBRACE).
  { destruct (skip_ws r0) as [|b' r']; [reflexivity|].
    destruct (b2n b' =? cRBRACE); [reflexivity|]. apply HM; assumption. }
  destruct (b2n b =? cLBRACK).
  { destruct (skip_ws r0) as [|b' r']; [reflexivity|].
    destruct (b2n b' =? cRBRACK); [reflexivity|]. apply HE; assumption. }
  destruct (b2n b =? cQUOTE).
  { rewrite (spec_string_mono f r0 [] f'' Hle'); [reflexivity|].
    intros E. rewrite E in H. apply H. reflexivity. }
  reflexivity.
Qed.

Lemma ME_step f : M_V f -> M_E f -> M_E (S f).
Proof.
  intros HV HE s acc f' Hle H. destruct f' as [|f'']; [lia|]. assert (Hle' : (f <= f'')%nat) by lia.
  rewrite spec_elems_S in H. rewrite !spec_elems_S.
  rewrite (HV s f'' Hle') by (intros E; rewrite E in H; apply H; reflexivity).
  destruct (spec_value f s) as [[v r1]| | |]; try reflexivity.
  destruct (skip_ws r1) as [|b r']; [reflexivity|].
  destruct (b2n b =? cCOMMA); [|reflexivity]. apply HE; assumption.
Qed.

Lemma MM_step f : M_V f -> M_M f -> M_M (S f).
Proof.
  intros HV HM s acc f' Hle H. destruct f' as [|f'']; [lia|]. assert (Hle' : (f <= f'')%nat) by lia.
  rewrite spec_members_S in H. rewrite !spec_members_S.
  destruct (skip_ws s) as [|b r0]; [reflexivity|].
  destruct (b2n b =? cQUOTE); [|reflexivity].
  rewrite (spec_string_mono f r0 [] f'' Hle') by (intros E; rewrite E in H; apply H; reflexivity).
  destruct (spec_string f r0 []) as [[key r1]| | |]; try reflexivity.
  destruct (skip_ws r1) as [|b1 r2]; [reflexivity|].
  destruct (b2n b1 =? cCOLON); [|reflexivity].
  rewrite (HV r2 f'' Hle') by (intros E; rewrite E in H; apply H; reflexivity).
  destruct (spec_value f r2) as [[v r3]| | |]; try reflexivity.
  destruct (skip_ws r3) as [|b3 r4]; [reflexivity|].
  destruct (b2n b3 =? cCOMMA); [|reflexivity]. apply HM; assumption.
Qed.

Theorem spec_mono_all : forall f, M_V f /\ M_E f /\ M_M f.
Proof.
  induction f as [|f (HV & HE & HM)].
  - split; [|split].
    + intros s f' _ H. exfalso. apply H. reflexivity.
    + intros s acc f' _ H. exfalso. apply H. reflexivity.
    + intros s acc f' _ H. exfalso. apply H. reflexivity.
  - split; [|split]; [apply MV_step|apply ME_step|apply MM_step]; assumption.
Qed.

Theorem spec_value_mono f f' s x : (f <= f')%nat -> spec_value f s = SOk x -> spec_value f' s = SOk x.
Proof.
  intros Hle H. destruct (spec_mono_all f) as (HV & _ & _).
  rewrite (HV s f' Hle); [exact H|]. rewrite H. discriminate.
Qed.

(* ------------------------------------------------------------------ *)
(* (2) what is left is not longer                                      *)

Definition L_V (f : nat) : Prop := forall s d r, spec_value f s = SOk (d, r) -> (length r < length s)%nat.
Definition L_E (f : nat) : Prop := forall s acc d r, spec_elems f s acc = SOk (d, r) -> (length r < length s)%nat.
Definition L_M (f : nat) : Prop := forall s acc d r, spec_members f s acc = SOk (d, r) -> (length r < length s)%nat.

Lemma spec_string_len f s acc d r : spec_string f s acc = SOk (d, r) -> (length r < length s)%nat.
Proof.
  intros H. apply spec_string_dec in H. destruct H as (src & dec & -> & _).
  rewrite app_length. cbn [length]. lia.
Qed.

Lemma skip_ws_cons_len s b r : skip_ws s = b :: r -> (length r < length s)%nat.
Proof. intros H. pose proof (skip_ws_length s) as L. rewrite H in L. cbn [length] in L. lia. Qed.

Lemma LV_step f : L_E f -> L_M f -> L_V (S f).
Proof.
  intros HE HM s d r H. rewrite spec_value_S in H.
  destruct (skip_ws s) as [|b r0] eqn:Esk; [discriminate|]. cbv zeta in H.
  pose proof (skip_ws_cons_len _ _ _ Esk) as L0.
  destruct (b2n b =? cLBRACE).
  { destruct (skip_ws r0) as [|b' r'] eqn:E2; [discriminate|].
    pose proof (skip_ws_length r0) as L1. rewrite E2 in L1.
    destruct (b2n b' =? cRBRACE); [injection H as _ <-; cbn [length] in L1; lia|].
    apply HM in H. lia. }
  destruct (b2n b =? cLBRACK).
  { destruct (skip_ws r0) as [|b' r'] eqn:E2; [discriminate|].
    pose proof (skip_ws_length r0) as L1. rewrite E2 in L1.
    destruct (b2n b' =? cRBRACK); [injection H as _ <-; cbn [length] in L1; lia|].
    apply HE in H. lia. }
  destruct (b2n b =? cQUOTE).
  { destruct (spec_string f r0 []) as [[str r']| | |] eqn:Es; try discriminate.
    injection H as _ <-. apply spec_string_len in Es. lia. }
  assert (Hsw : forall p r', p <> [] -> starts_with p (b :: r0) = Some r' -> (length r' < length s)%nat).
  { intros p r' Hp Hs. apply starts_with_split in Hs. apply (f_equal (@length byte)) in Hs.
    rewrite app_length in Hs. unfold of_codes in Hs. rewrite map_length in Hs. cbn [length] in Hs.
    destruct p; [congruence|cbn [length] in Hs; lia]. }
  destruct (b2n b =? c_t).
  { destruct (starts_with _ _) as [r'|] eqn:Es; [|discriminate]. injection H as _ <-. eapply Hsw; [|exact Es]. discriminate. }
  destruct (b2n b =? c_f).
  { destruct (starts_with _ _) as [r'|] eqn:Es; [|discriminate]. injection H as _ <-. eapply Hsw; [|exact Es]. discriminate. }
  destruct (b2n b =? c_n).
  { destruct (starts_with _ _) as [r'|] eqn:Es; [|discriminate]. injection H as _ <-. eapply Hsw; [|exact Es]. discriminate. }
  destruct ((b2n b =? cMINUS) || is_digit (b2n b)); [|discriminate].
  destruct (lex_number (b :: r0)) as [[lit r']|] eqn:El; [|discriminate].
  destruct (num_spec lit); [|discriminate]. injection H as _ <-.
  destruct (lex_number_shape _ _ _ El) as (p & Hwf & Hs & _).
  pose proof (render_nonempty p Hwf) as Hne.
  apply (f_equal (@length byte)) in Hs. rewrite app_length in Hs. cbn [length] in Hs. lia.
Qed.

Lemma LE_step f : L_V f -> L_E f -> L_E (S f).
Proof.
  intros HV HE s acc d r H. rewrite spec_elems_S in H.
  destruct (spec_value f s) as [[v r1]| | |] eqn:Ev; try discriminate.
  apply HV in Ev.
  destruct (skip_ws r1) as [|b r'] eqn:Esk; [discriminate|].
  pose proof (skip_ws_cons_len _ _ _ Esk) as L1.
  destruct (b2n b =? cCOMMA); [apply HE in H; lia|].
  destruct (b2n b =? cRBRACK); [|discriminate]. injection H as _ <-. lia.
Qed.

Lemma LM_step f : L_V f -> L_M f -> L_M (S f).
Proof.
  intros HV HM s acc d r H. rewrite spec_members_S in H.
  destruct (skip_ws s) as [|b r0] eqn:Esk; [discriminate|].
  pose proof (skip_ws_cons_len _ _ _ Esk) as L0.
  destruct (b2n b =? cQUOTE); [|discriminate].
  destruct (spec_string f r0 []) as [[key r1]| | |] eqn:Es; try discriminate.
  apply spec_string_len in Es.
  destruct (skip_ws r1) as [|b1 r2] eqn:Esk1; [discriminate|].
  pose proof (skip_ws_cons_len _ _ _ Esk1) as L1.
  destruct (b2n b1 =? cCOLON); [|discriminate].
  destruct (spec_value f r2) as [[v r3]| | |] eqn:Ev; try discriminate.
  apply HV in Ev.
  destruct (skip_ws r3) as [|b3 r4] eqn:Esk3; [discriminate|].
  pose proof (skip_ws_cons_len _ _ _ Esk3) as L3.
  destruct (b2n b3 =? cCOMMA); [apply HM in H; lia|].
  destruct (b2n b3 =? cRBRACE); [|discriminate]. injection H as _ <-. lia.
Qed.

Theorem spec_len_all : forall f, L_V f /\ L_E f /\ L_M f.
Proof.
  induction f as [|f (HV & HE & HM)].
  - split; [|split].
    + intros s d r H. discriminate H.
    + intros s acc d r H. discriminate H.
    + intros s acc d r H. discriminate H.
  - split; [|split]; [apply LV_step|apply LE_step|apply LM_step]; assumption.
Qed.

(* ------------------------------------------------------------------ *)
(* (3) enough fuel                                                     *)

Lemma utf8_seq_len_pos s n : utf8_seq_len s = Some n -> (2 <= n)%nat.
Proof.
  unfold utf8_seq_len.
  destruct s as [|b0 [|b1 r1]]; try discriminate.
  destruct ((194 <=? b2n b0) && (b2n b0 <=? 223)).
  { destruct (is_cont (b2n b1)); [|discriminate]. intros H; injection H as <-. lia. }
  destruct r1 as [|b2 r2]; [discriminate|].
  destruct (b2n b0 =? 224).
  { destruct ((160 <=? b2n b1) && (b2n b1 <=? 191) && is_cont (b2n b2)); [|discriminate]. intros H; injection H as <-. lia. }
  destruct ((225 <=? b2n b0) && (b2n b0 <=? 236) || (b2n b0 =? 238) || (b2n b0 =? 239)).
  { destruct (is_cont (b2n b1) && is_cont (b2n b2)); [|discriminate]. intros H; injection H as <-. lia. }
  destruct (b2n b0 =? 237).
  { destruct ((128 <=? b2n b1) && (b2n b1 <=? 159) && is_cont (b2n b2)); [|discriminate]. intros H; injection H as <-. lia. }
  destruct r2 as [|b3 r3]; [discriminate|].
  destruct (b2n b0 =? 240).
  { destruct ((144 <=? b2n b1) && (b2n b1 <=? 191) && is_cont (b2n b2) && is_cont (b2n b3)); [|discriminate].
    intros H; injection H as <-. lia. }
  destruct ((241 <=? b2n b0) && (b2n b0 <=? 243)).
  { destruct (is_cont (b2n b1) && is_cont (b2n b2) && is_cont (b2n b3)); [|discriminate]. intros H; injection H as <-. lia. }
  destruct (b2n b0 =? 244); [|discriminate].
  destruct ((128 <=? b2n b1) && (b2n b1 <=? 143) && is_cont (b2n b2) && is_cont (b2n b3)); [|discriminate].
  intros H; injection H as <-. lia.
Qed.

Lemma spec_string_fuel : forall f s acc, (length s < f)%nat -> spec_string f s acc <> SFuel.
Proof.
  induction f as [|f IH]; intros s acc Hf; [lia|].
  destruct s as [|b s']; [discriminate|]. cbn [length] in Hf.
  destruct (b2n b =? cQUOTE) eqn:Eq.
  { cbn [spec_string]. rewrite Eq. discriminate. }
  destruct (b2n b <? 32) eqn:Ec.
  { cbn [spec_string]. rewrite Eq, Ec. discriminate. }
  destruct (b2n b =? cBSLASH) eqn:Eb.
  { rewrite spec_bs by assumption.
    destruct (esc_tok (b :: s')) as [n o| |] eqn:Et; try discriminate.
    apply IH. pose proof (esc_tok_len _ _ _ Et) as (Hn2 & _). rewrite skipn_length. cbn [length]. lia. }
  destruct (b2n b <? 128) eqn:Ea.
  { cbn [spec_string]. rewrite Eq, Ec, Eb, Ea. apply IH. lia. }
  cbn [spec_string]. rewrite Eq, Ec, Eb, Ea.
  destruct (utf8_seq_len (b :: s')) as [n|] eqn:Eu; [|discriminate].
  apply IH. apply utf8_seq_len_pos in Eu. rewrite skipn_length. cbn [length]. lia.
Qed.

Definition F_V (f : nat) : Prop := forall s, (2 * length s + 1 <= f)%nat -> spec_value f s <> SFuel.
Definition F_E (f : nat) : Prop := forall s acc, (2 * length s + 2 <= f)%nat -> spec_elems f s acc <> SFuel.
Definition F_M (f : nat) : Prop := forall s acc, (2 * length s + 2 <= f)%nat -> spec_members f s acc <> SFuel.

Lemma FV_step f : F_E f -> F_M f -> F_V (S f).
Proof.
  intros HE HM s Hf. rewrite spec_value_S.
  destruct (skip_ws s) as [|b r0] eqn:Esk; [discriminate|]. cbv zeta.
  pose proof (skip_ws_cons_len _ _ _ Esk) as L0.
  destruct (b2n b =? cLBRACE).
  { destruct (skip_ws r0) as [|b' r'] eqn:E2; [discriminate|].
    pose proof (skip_ws_length r0) as L1. rewrite E2 in L1.
    destruct (b2n b' =? cRBRACE); [discriminate|]. apply HM. lia. }
  destruct (b2n b =? cLBRACK).
  { destruct (skip_ws r0) as [|b' r'] eqn:E2; [discriminate|].
    pose proof (skip_ws_length r0) as L1. rewrite E2 in L1.
    destruct (b2n b' =? cRBRACK); [discriminate|]. apply HE. lia. }
  destruct (b2n b =? cQUOTE).
  { pose proof (spec_string_fuel f r0 [] ltac:(lia)) as H.
    destruct (spec_string f r0 []) as [[str r']| | |]; try discriminate. congruence. }
  destruct (b2n b =? c_t); [destruct (starts_with _ _); discriminate|].
  destruct (b2n b =? c_f); [destruct (starts_with _ _); discriminate|].
  destruct (b2n b =? c_n); [destruct (starts_with _ _); discriminate|].
  destruct ((b2n b =? cMINUS) || is_digit (b2n b)); [|discriminate].
  destruct (lex_number (b :: r0)) as [[lit r']|]; [|discriminate].
  destruct (num_spec lit); discriminate.
Qed.

Lemma FE_step f : F_V f -> F_E f -> F_E (S f).
Proof.
  intros HV HE s acc Hf. rewrite spec_elems_S.
  pose proof (HV s ltac:(lia)) as H1.
  destruct (spec_value f s) as [[v r1]| | |] eqn:Ev; try discriminate; [|congruence].
  apply (proj1 (spec_len_all f)) in Ev.
  destruct (skip_ws r1) as [|b r'] eqn:Esk; [discriminate|].
  pose proof (skip_ws_cons_len _ _ _ Esk) as L1.
  destruct (b2n b =? cCOMMA); [apply HE; lia|].
  destruct (b2n b =? cRBRACK); discriminate.
Qed.

Lemma FM_step f : F_V f -> F_M f -> F_M (S f).
Proof.
  intros HV HM s acc Hf. rewrite spec_members_S.
  destruct (skip_ws s) as [|b r0] eqn:Esk; [discriminate|].
  pose proof (skip_ws_cons_len _ _ _ Esk) as L0.
  destruct (b2n b =? cQUOTE); [|discriminate].
  pose proof (spec_string_fuel f r0 [] ltac:(lia)) as H0.
  destruct (spec_string f r0 []) as [[key r1]| | |] eqn:Es; try discriminate; [|congruence].
  apply spec_string_len in Es.
  destruct (skip_ws r1) as [|b1 r2] eqn:Esk1; [discriminate|].
  pose proof (skip_ws_cons_len _ _ _ Esk1) as L1.
  destruct (b2n b1 =? cCOLON); [|discriminate].
  pose proof (HV r2 ltac:(lia)) as H1.
  destruct (spec_value f r2) as [[v r3]| | |] eqn:Ev; try discriminate; [|congruence].
  apply (proj1 (spec_len_all f)) in Ev.
  destruct (skip_ws r3) as [|b3 r4] eqn:Esk3; [discriminate|].
  pose proof (skip_ws_cons_len _ _ _ Esk3) as L3.
  destruct (b2n b3 =? cCOMMA); [apply HM; lia|].
  destruct (b2n b3 =? cRBRACE); discriminate.
Qed.

Theorem spec_fuel_all : forall f, F_V f /\ F_E f /\ F_M f.
Proof.
  induction f as [|f (HV & HE & HM)].
  - split; [|split].
    + intros s H. lia.
    + intros s acc H. lia.
    + intros s acc H. lia.
  - split; [|split]; [apply FV_step|apply FE_step|apply FM_step]; assumption.
Qed.

(* the specification of Parse never runs out of fuel *)
Theorem spec_parse_not_fuel bs : spec_parse bs <> SFuel.
Proof.
  unfold spec_parse. cbv zeta.
  destruct (rtrim_ws (skip_ws bs)) as [|b t0] eqn:Et; [discriminate|].
  destruct (edge_unclaimed (b2n b) || edge_unclaimed (b2n (last (b :: t0) x00))); [discriminate|].
  pose proof (proj1 (spec_fuel_all (2 * length (b :: t0) + 2)) (b :: t0) ltac:(lia)) as H.
  destruct (spec_value (2 * length (b :: t0) + 2) (b :: t0)) as [[d r]| | |]; try discriminate; [|congruence].
  destruct r; [destruct (is_container d)|]; discriminate.
Qed.

Lemma nd_lines_not_fuel : forall ls acc, nd_lines ls acc <> SFuel.
Proof.
  induction ls as [|l r IH]; intros acc; cbn [nd_lines]; [discriminate|].
  destruct (is_blank_line l); [apply IH|].
  pose proof (spec_parse_not_fuel l) as H.
  destruct (spec_parse l); try discriminate; [apply IH|congruence].
Qed.

(* nor does the specification of ParseND *)
Theorem nd_spec_not_fuel bs : nd_spec bs <> SFuel.
Proof.
  rewrite nd_spec_of. unfold nd_of. destruct (existsb outb (split_lf bs)); [discriminate|].
  pose proof (nd_lines_not_fuel (split_lf bs) []) as H.
  destruct (nd_lines (split_lf bs) []) as [[|d ds]| | |]; try discriminate. congruence.
Qed.

Print Assumptions spec_value_mono.
Print Assumptions spec_parse_not_fuel.
Print Assumptions nd_spec_not_fuel.
