(* Stage1Proofs.v — stage 1 on well-formed text.
   [s1_fold] is the plain fold of [s1_step] over a byte list (final state and
   structural positions); [s1_run]/[s1_blocks]/[s1_all] only group it by 64.
   Token lemmas: what the fold does on white space, markup, scalar tokens and
   string literals, from a state that is outside strings.
   Buffering: [s1_buffers] hands over the positions of [s1_fold] unchanged
   (strip-and-carry moves an index to the next buffer, it never duplicates or
   drops one) in non-empty buffers, and its verdict is [true], whenever the
   last byte of the message is a closing brace/bracket outside strings and no
   error flag was raised. *)
From Coq Require Import ZifyBool ZifyN ZifyNat.
From SJ Require Import Model.Base Model.RefTables Spec.Json Model.Number Model.Str Model.Stage1.
From SJ Require Import Proofs.StrArith Proofs.StrProofs Proofs.NumLex Proofs.NumberProofs Proofs.TrimProofs.
Open Scope N_scope.

(* ------------------------------------------------------------------ *)
(* the fold                                                            *)

Definition consp (q : nat) (x : s1st * list nat) : s1st * list nat := (fst x, q :: snd x).

Fixpoint s1_fold (nd : bool) (st : s1st) (p : nat) (bs : bytes) : s1st * list nat :=
  match bs with
  | [] => (st, [])
  | b :: r =>
    let x := s1_fold nd (fst (s1_step nd st (b2n b))) (S p) r in
    if snd (s1_step nd st (b2n b)) then consp p x else x
  end.

Lemma s1_fold_cons nd st p b r st' fl :
  s1_step nd st (b2n b) = (st', fl) ->
  s1_fold nd st p (b :: r) = if fl then consp p (s1_fold nd st' (S p) r) else s1_fold nd st' (S p) r.
Proof. intros H. cbn [s1_fold]. rewrite H. reflexivity. Qed.

Lemma s1_run_fold nd : forall bs st p acc,
  s1_run nd st p bs acc = (fst (s1_fold nd st p bs), rev acc ++ snd (s1_fold nd st p bs)).
Proof.
  induction bs as [|b r IH]; intros st p acc.
  - cbn [s1_run s1_fold fst snd]. rewrite app_nil_r. reflexivity.
  - cbn [s1_run s1_fold].
    destruct (s1_step nd st (b2n b)) as [st' fl] eqn:E. cbn [fst snd].
    rewrite IH. destruct fl; cbn [consp fst snd rev]; [rewrite <- app_assoc|]; reflexivity.
Qed.

(* the final state does not depend on the starting position *)
Lemma s1_fold_fst_p nd : forall bs st p q, fst (s1_fold nd st p bs) = fst (s1_fold nd st q bs).
Proof.
  induction bs as [|b r IH]; intros st p q; [reflexivity|].
  cbn [s1_fold]. destruct (snd (s1_step nd st (b2n b))); cbn [consp fst]; apply IH.
Qed.

Lemma s1_fold_app nd : forall a b st p,
  s1_fold nd st p (a ++ b) =
  (fst (s1_fold nd (fst (s1_fold nd st p a)) (p + length a) b),
   snd (s1_fold nd st p a) ++ snd (s1_fold nd (fst (s1_fold nd st p a)) (p + length a) b)).
Proof.
  induction a as [|x a IH]; intros b st p.
  - cbn [app s1_fold fst snd length]. rewrite Nat.add_0_r. destruct (s1_fold nd st p b); reflexivity.
  - cbn [app s1_fold length].
    rewrite IH. replace (p + S (length a))%nat with (S p + length a)%nat by lia.
    destruct (snd (s1_step nd st (b2n x))); cbn [consp fst snd app]; reflexivity.
Qed.

(* all positions lie in [p, p + length bs) *)
Lemma s1_fold_range nd : forall bs st p q,
  In q (snd (s1_fold nd st p bs)) -> (p <= q < p + length bs)%nat.
Proof.
  induction bs as [|b r IH]; intros st p q H; [destruct H|].
  cbn [s1_fold] in H. cbn [length].
  destruct (snd (s1_step nd st (b2n b))); cbn [consp fst snd] in H.
  - destruct H as [<-|H]; [lia|]. apply IH in H. lia.
  - apply IH in H. lia.
Qed.

(* ------------------------------------------------------------------ *)
(* states                                                              *)

Definition OutS (pr : bool) : s1st := {| s_bsodd := false; s_instr := false; s_pred := pr; s_err := false |}.
Definition InS (pr : bool) : s1st := {| s_bsodd := false; s_instr := true; s_pred := pr; s_err := false |}.
Definition InSb (pr : bool) : s1st := {| s_bsodd := true; s_instr := true; s_pred := pr; s_err := false |}.

Lemma ws_codes c : is_json_ws c = true ->
  (c =? cBSLASH) = false /\ (c =? cQUOTE) = false /\ is_markup c = false.
Proof.
  unfold is_json_ws, is_markup, cSPACE, cTAB, cLF, cCR, cBSLASH, cQUOTE,
    cLBRACE, cRBRACE, cLBRACK, cRBRACK, cCOMMA, cCOLON. lia.
Qed.

Lemma markup_codes c : is_markup c = true ->
  (c =? cBSLASH) = false /\ (c =? cQUOTE) = false /\ is_json_ws c = false /\ (c <? 32) = false.
Proof.
  unfold is_json_ws, is_markup, cSPACE, cTAB, cLF, cCR, cBSLASH, cQUOTE,
    cLBRACE, cRBRACE, cLBRACK, cRBRACK, cCOMMA, cCOLON. lia.
Qed.

Ltac fin_step :=
  cbn [negb andb orb xorb];
  repeat match goal with
         | |- context [is_markup ?c] => destruct (is_markup c)
         | |- context [is_json_ws ?c] => destruct (is_json_ws c)
         | |- context [?c <? 32] => destruct (c <? 32)
         | |- context [?c =? cLF] => destruct (c =? cLF)
         end;
  cbn [negb andb orb xorb]; try reflexivity.

Lemma step_ws pr c : is_json_ws c = true -> s1_step false (OutS pr) c = (OutS true, false).
Proof.
  intros H. destruct (ws_codes c H) as (H1 & H2 & H3).
  unfold s1_step, OutS. cbn [s_bsodd s_instr s_pred s_err]. rewrite H, H1, H2, H3.
  destruct pr; fin_step.
Qed.

Lemma step_markup pr c : is_markup c = true -> s1_step false (OutS pr) c = (OutS true, true).
Proof.
  intros H. destruct (markup_codes c H) as (H1 & H2 & H3 & H4).
  unfold s1_step, OutS. cbn [s_bsodd s_instr s_pred s_err]. rewrite H, H1, H2, H3, H4.
  destruct pr; fin_step.
Qed.

Lemma step_quote_open pr c : c = cQUOTE -> s1_step false (OutS pr) c = (InS true, true).
Proof.
  intros ->. unfold s1_step, OutS, InS. cbn [s_bsodd s_instr s_pred s_err].
  destruct pr; reflexivity.
Qed.

(* a byte that is neither blank, markup, quote nor backslash *)
Definition plainc (c : N) : bool :=
  negb (is_json_ws c) && negb (is_markup c) && negb (c =? cQUOTE) && negb (c =? cBSLASH).

Lemma step_plain_out pr c : plainc c = true -> s1_step false (OutS pr) c = (OutS false, pr).
Proof.
  unfold plainc. intros H. rewrite !andb_true_iff, !negb_true_iff in H.
  destruct H as (((H1 & H2) & H3) & H4).
  unfold s1_step, OutS. cbn [s_bsodd s_instr s_pred s_err]. rewrite H1, H2, H3, H4.
  destruct pr; fin_step.
Qed.

Lemma step_in_plain pr c : (c =? cQUOTE) = false -> (c =? cBSLASH) = false -> (c <? 32) = false ->
  s1_step false (InS pr) c = (InS (is_json_ws c), false).
Proof.
  intros H1 H2 H3. unfold s1_step, InS. cbn [s_bsodd s_instr s_pred s_err]. rewrite H1, H2, H3.
  destruct pr; fin_step.
Qed.

Lemma step_in_bs pr c : c = cBSLASH -> s1_step false (InS pr) c = (InSb false, false).
Proof. intros ->. unfold s1_step, InS, InSb. cbn [s_bsodd s_instr s_pred s_err]. destruct pr; reflexivity. Qed.

Lemma step_inb_any pr c : (c <? 32) = false -> s1_step false (InSb pr) c = (InS (is_json_ws c), false).
Proof.
  intros H3. unfold s1_step, InS, InSb. cbn [s_bsodd s_instr s_pred s_err]. rewrite H3.
  destruct (c =? cBSLASH) eqn:E.
  - apply N.eqb_eq in E. subst c. destruct pr; reflexivity.
  - destruct (c =? cQUOTE); destruct pr; fin_step.
Qed.

Lemma step_in_close pr c : c = cQUOTE -> s1_step false (InS pr) c = (OutS true, false).
Proof. intros ->. unfold s1_step, InS, OutS. cbn [s_bsodd s_instr s_pred s_err]. destruct pr; reflexivity. Qed.

(* ------------------------------------------------------------------ *)
(* token lemmas                                                        *)

(* white space *)
Lemma fold_ws pr p b r : is_json_ws (b2n b) = true ->
  s1_fold false (OutS pr) p (b :: r) = s1_fold false (OutS true) (S p) r.
Proof. intros H. rewrite (s1_fold_cons _ _ _ _ _ _ _ (step_ws pr _ H)). reflexivity. Qed.

(* skipping leading white space: positions shift, the pseudo-predecessor flag
   can only become true *)
Lemma fold_skip_ws : forall s pr p,
  exists pr', (pr = true -> pr' = true) /\
    s1_fold false (OutS pr) p s = s1_fold false (OutS pr') (p + (length s - length (skip_ws s))) (skip_ws s).
Proof.
  induction s as [|b r IH]; intros pr p.
  - exists pr. split; [auto|]. cbn [skip_ws length]. rewrite Nat.add_0_r. reflexivity.
  - cbn [skip_ws]. destruct (is_json_ws (b2n b)) eqn:E.
    + destruct (IH true (S p)) as (pr' & Hp & Hf). exists pr'. split; [auto|].
      rewrite (fold_ws _ _ _ _ E), Hf. pose proof (skip_ws_length r). cbn [length].
      f_equal. lia.
    + exists pr. split; [auto|]. rewrite Nat.sub_diag, Nat.add_0_r. reflexivity.
Qed.

(* markup outside strings *)
Lemma fold_markup pr p b r : is_markup (b2n b) = true ->
  s1_fold false (OutS pr) p (b :: r) = consp p (s1_fold false (OutS true) (S p) r).
Proof. intros H. rewrite (s1_fold_cons _ _ _ _ _ _ _ (step_markup pr _ H)). reflexivity. Qed.

(* the tail of a scalar token *)
Lemma fold_plain_tail : forall tok p r,
  forallb (fun b => plainc (b2n b)) tok = true ->
  s1_fold false (OutS false) p (tok ++ r) = s1_fold false (OutS false) (p + length tok) r.
Proof.
  induction tok as [|b t IH]; intros p r H.
  - cbn [app length]. rewrite Nat.add_0_r. reflexivity.
  - cbn [forallb] in H. apply andb_true_iff in H. destruct H as [Hb Ht].
    cbn [app]. rewrite (s1_fold_cons _ _ _ _ _ _ _ (step_plain_out false _ Hb)).
    rewrite IH by exact Ht. cbn [length]. f_equal. lia.
Qed.

(* a scalar token (number, true, false, null) after a pseudo-predecessor:
   structural at its first byte only *)
Lemma fold_scalar tok p r :
  forallb (fun b => plainc (b2n b)) tok = true -> tok <> [] ->
  s1_fold false (OutS true) p (tok ++ r) = consp p (s1_fold false (OutS false) (p + length tok) r).
Proof.
  intros H Hne. destruct tok as [|b t]; [congruence|].
  cbn [forallb] in H. apply andb_true_iff in H. destruct H as [Hb Ht].
  cbn [app]. rewrite (s1_fold_cons _ _ _ _ _ _ _ (step_plain_out true _ Hb)).
  rewrite fold_plain_tail by exact Ht. cbn [length]. do 2 f_equal. lia.
Qed.

(* --- strings ------------------------------------------------------- *)

Lemma fold_in_plain pr p b r :
  (b2n b =? cQUOTE) = false -> (b2n b =? cBSLASH) = false -> (b2n b <? 32) = false ->
  s1_fold false (InS pr) p (b :: r) = s1_fold false (InS (is_json_ws (b2n b))) (S p) r.
Proof. intros H1 H2 H3. rewrite (s1_fold_cons _ _ _ _ _ _ _ (step_in_plain pr _ H1 H2 H3)). reflexivity. Qed.

(* backslash + any byte >= 0x20 *)
Lemma fold_in_esc2 pr p b e r :
  b2n b = cBSLASH -> (b2n e <? 32) = false ->
  s1_fold false (InS pr) p (b :: e :: r) = s1_fold false (InS (is_json_ws (b2n e))) (S (S p)) r.
Proof.
  intros H1 H2. rewrite (s1_fold_cons _ _ _ _ _ _ _ (step_in_bs pr _ H1)).
  rewrite (s1_fold_cons _ _ _ _ _ _ _ (step_inb_any false _ H2)). reflexivity.
Qed.

Lemma hexval_plain c v : hexval c = Some v ->
  (c =? cQUOTE) = false /\ (c =? cBSLASH) = false /\ (c <? 32) = false.
Proof.
  unfold hexval, is_digit, c0, c9, cQUOTE, cBSLASH. intros H.
  destruct ((48 <=? c) && (c <=? 57)) eqn:E1; [lia|].
  destruct ((97 <=? c) && (c <=? 102)) eqn:E2; [lia|].
  destruct ((65 <=? c) && (c <=? 70)) eqn:E3; [lia|discriminate].
Qed.

Lemma fold_in_hex4 pr p h0 h1 h2 h3 r cu :
  hex4_spec h0 h1 h2 h3 = Some cu ->
  exists pr', s1_fold false (InS pr) p (h0 :: h1 :: h2 :: h3 :: r) = s1_fold false (InS pr') (4 + p) r.
Proof.
  unfold hex4_spec. intros H.
  destruct (hexval (b2n h0)) eqn:E0; [|discriminate].
  destruct (hexval (b2n h1)) eqn:E1; [|discriminate].
  destruct (hexval (b2n h2)) eqn:E2; [|discriminate].
  destruct (hexval (b2n h3)) eqn:E3; [|discriminate].
  apply hexval_plain in E0, E1, E2, E3.
  destruct E0 as (A0 & B0 & C0), E1 as (A1 & B1 & C1), E2 as (A2 & B2 & C2), E3 as (A3 & B3 & C3).
  eexists.
  rewrite fold_in_plain by assumption. rewrite fold_in_plain by assumption.
  rewrite fold_in_plain by assumption. rewrite fold_in_plain by assumption.
  reflexivity.
Qed.

Lemma escape_spec_ge32 c v : escape_spec c = Some v -> (c <? 32) = false.
Proof.
  unfold escape_spec. intros H.
  destruct (c =? 34) eqn:E1; [lia|]. destruct (c =? 92) eqn:E2; [lia|].
  destruct (c =? 47) eqn:E3; [lia|]. destruct (c =? 98) eqn:E4; [lia|].
  destruct (c =? 102) eqn:E5; [lia|]. destruct (c =? 110) eqn:E6; [lia|].
  destruct (c =? 114) eqn:E7; [lia|]. destruct (c =? 116) eqn:E8; [lia|discriminate].
Qed.

(* an escape token inside a string *)
Lemma fold_esc_tok s n o pr p rest :
  esc_tok s = TOk n o -> nth_b s 0 = 92 ->
  exists pr', s1_fold false (InS pr) p (firstn n s ++ rest) = s1_fold false (InS pr') (p + n) rest.
Proof.
  intros H Hb. apply esc_tok_inv in H.
  destruct H as [(b & e & r & v & -> & Hne & Hv & -> & ->)
               |[(b & e & h0 & h1 & h2 & h3 & r & cu & -> & He & Hh & _ & _ & -> & ->)
                |(b & e & h0 & h1 & h2 & h3 & s0 & s1 & l0 & l1 & l2 & l3 & r & cu & lo & -> & He & Hh & _ & Hs0 & Hs1 & Hl & _ & -> & ->)]];
    unfold nth_b in Hb; cbn [nth] in Hb; cbn [firstn app].
  - eexists. rewrite fold_in_esc2; [|exact Hb|eapply escape_spec_ge32; exact Hv].
    replace (p + 2)%nat with (S (S p)) by lia. reflexivity.
  - rewrite fold_in_esc2; [|exact Hb|rewrite He; reflexivity].
    destruct (fold_in_hex4 (is_json_ws (b2n e)) (S (S p)) h0 h1 h2 h3 rest cu Hh) as (pr' & Hf).
    exists pr'. rewrite Hf. f_equal. lia.
  - rewrite fold_in_esc2; [|exact Hb|rewrite He; reflexivity].
    destruct (fold_in_hex4 (is_json_ws (b2n e)) (S (S p)) h0 h1 h2 h3 (s0 :: s1 :: l0 :: l1 :: l2 :: l3 :: rest) cu Hh) as (pr1 & Hf1).
    rewrite Hf1.
    rewrite fold_in_esc2; [|exact Hs0|rewrite Hs1; reflexivity].
    destruct (fold_in_hex4 (is_json_ws (b2n s1)) (S (S (4 + S (S p)))) l0 l1 l2 l3 rest lo Hl) as (pr2 & Hf2).
    exists pr2. rewrite Hf2. f_equal. lia.
Qed.

Lemma Forall_skipn {A} (P : A -> Prop) n (l : list A) : Forall P l -> Forall P (skipn n l).
Proof.
  intros H. rewrite <- (firstn_skipn n l) in H. apply Forall_app in H. tauto.
Qed.

(* the body of a string literal up to and including the closing quote *)
Lemma fold_str_body src dec :
  dec_rel src dec -> Forall (fun b => (b2n b <? 32) = false) src ->
  forall pr p r,
    s1_fold false (InS pr) p (src ++ x22 :: r) = s1_fold false (OutS true) (p + length src + 1) r.
Proof.
  induction 1 as [|b s d H1 H2 Hd IH|s n o d Hb Ht Hd IH]; intros Hall pr p r.
  - cbn [app length]. rewrite (s1_fold_cons _ _ _ _ _ _ _ (step_in_close pr (b2n x22) eq_refl)).
    f_equal. lia.
  - inversion Hall as [|? ? Hb32 Hall']; subst.
    cbn [app]. rewrite fold_in_plain; [|unfold cQUOTE; lia|unfold cBSLASH; lia|exact Hb32].
    rewrite IH by exact Hall'. cbn [length]. f_equal. lia.
  - pose proof (esc_tok_len _ _ _ Ht) as (Hn2 & Hnl & _ & _).
    rewrite <- (firstn_skipn n s) at 1. rewrite <- app_assoc.
    destruct (fold_esc_tok s n o pr p (skipn n s ++ x22 :: r) Ht Hb) as (pr' & Hf).
    rewrite Hf. rewrite IH by (apply Forall_skipn; exact Hall).
    rewrite skipn_length. f_equal. lia.
Qed.

(* a complete string literal outside strings: structural at the opening
   quote only; the closing quote is a pseudo-predecessor *)
Lemma fold_string src dec pr p r :
  dec_rel src dec -> Forall (fun b => (b2n b <? 32) = false) src ->
  s1_fold false (OutS pr) p (x22 :: src ++ x22 :: r) =
  consp p (s1_fold false (OutS true) (p + length src + 2) r).
Proof.
  intros Hd Hall.
  rewrite (s1_fold_cons _ _ _ _ _ _ _ (step_quote_open pr (b2n x22) eq_refl)).
  rewrite (fold_str_body src dec Hd Hall). do 2 f_equal. lia.
Qed.

(* ------------------------------------------------------------------ *)
(* what the specification's string scanner guarantees about the body    *)

Theorem spec_string_noctl fuel : forall s acc d r,
  spec_string fuel s acc = SOk (d, r) ->
  exists src, s = src ++ x22 :: r /\ Forall (fun b => (b2n b <? 32) = false) src.
Proof.
  induction fuel as [|f IH]; intros s acc d r H; [discriminate|].
  destruct s as [|b s']; [discriminate|].
  destruct (b2n b =? cQUOTE) eqn:Eq.
  { cbn [spec_string] in H. rewrite Eq in H. injection H as <- <-.
    apply N.eqb_eq in Eq. apply b2n_quote in Eq. subst b.
    exists []. split; [reflexivity|constructor]. }
  destruct (b2n b <? 32) eqn:Ec.
  { cbn [spec_string] in H. rewrite Eq, Ec in H. discriminate. }
  destruct (b2n b =? cBSLASH) eqn:Eb.
  { rewrite spec_bs in H by assumption.
    destruct (esc_tok (b :: s')) as [n o| |] eqn:Et; try discriminate.
    apply IH in H. destruct H as (src & Hs & Hall).
    pose proof (esc_tok_len _ _ _ Et) as (Hn2 & Hn & _ & _).
    exists (firstn n (b :: s') ++ src). split.
    - rewrite <- app_assoc, <- Hs. symmetry. apply firstn_skipn.
    - apply Forall_app. split; [|exact Hall].
      apply esc_tok_inv in Et.
      destruct Et as [(b' & e & r' & v & E & Hne & Hv & -> & _)
               |[(b' & e & h0 & h1 & h2 & h3 & r' & cu & E & He & Hh & _ & _ & -> & _)
                |(b' & e & h0 & h1 & h2 & h3 & s0 & s1 & l0 & l1 & l2 & l3 & r' & cu & lo & E & He & Hh & _ & Hs0 & Hs1 & Hl & _ & -> & _)]];
        rewrite E; injection E as <- _; cbn [firstn].
      + repeat constructor; [exact Ec|eapply escape_spec_ge32; exact Hv].
      + unfold hex4_spec in Hh.
        destruct (hexval (b2n h0)) eqn:E0; [|discriminate].
        destruct (hexval (b2n h1)) eqn:E1; [|discriminate].
        destruct (hexval (b2n h2)) eqn:E2; [|discriminate].
        destruct (hexval (b2n h3)) eqn:E3; [|discriminate].
        apply hexval_plain in E0, E1, E2, E3.
        repeat constructor; try tauto. rewrite He. reflexivity.
      + unfold hex4_spec in Hh, Hl.
        destruct (hexval (b2n h0)) eqn:E0; [|discriminate].
        destruct (hexval (b2n h1)) eqn:E1; [|discriminate].
        destruct (hexval (b2n h2)) eqn:E2; [|discriminate].
        destruct (hexval (b2n h3)) eqn:E3; [|discriminate].
        destruct (hexval (b2n l0)) eqn:F0; [|discriminate].
        destruct (hexval (b2n l1)) eqn:F1; [|discriminate].
        destruct (hexval (b2n l2)) eqn:F2; [|discriminate].
        destruct (hexval (b2n l3)) eqn:F3; [|discriminate].
        apply hexval_plain in E0, E1, E2, E3, F0, F1, F2, F3.
        repeat constructor; try tauto.
        * rewrite He. reflexivity.
        * rewrite Hs0. reflexivity.
        * rewrite Hs1. reflexivity. }
  destruct (b2n b <? 128) eqn:Ea.
  { cbn [spec_string] in H. rewrite Eq, Ec, Eb, Ea in H.
    apply IH in H. destruct H as (src & -> & Hall).
    exists (b :: src). split; [reflexivity|]. constructor; assumption. }
  cbn [spec_string] in H. rewrite Eq, Ec, Eb, Ea in H.
  destruct (utf8_seq_len (b :: s')) as [n|] eqn:Eu; [|discriminate].
  apply IH in H. destruct H as (src & Hs & Hall).
  apply utf8_seq_len_lit in Eu. destruct Eu as [Hn Hge].
  exists (firstn n (b :: s') ++ src). split.
  - rewrite <- app_assoc, <- Hs. symmetry. apply firstn_skipn.
  - apply Forall_app. split; [|exact Hall].
    eapply Forall_impl; [|exact Hge]. cbn beta. intros a Ha. lia.
Qed.

(* the string literal as the specification scans it, for stage 1 *)
Theorem fold_spec_string fuel mem dec rest pr p :
  spec_string fuel mem [] = SOk (dec, rest) ->
  exists src,
    mem = src ++ x22 :: rest /\ dec_rel src dec /\
    s1_fold false (OutS pr) p (x22 :: mem) = consp p (s1_fold false (OutS true) (p + length src + 2) rest).
Proof.
  intros H.
  destruct (spec_string_dec _ _ _ _ _ H) as (src & dec' & Hs & Hd & Hrel). cbn [rev app] in Hd. subst dec'.
  destruct (spec_string_noctl _ _ _ _ _ H) as (src' & Hs' & Hall).
  assert (src' = src).
  { rewrite Hs in Hs'.
    assert (L : length src = length src').
    { apply (f_equal (@length byte)) in Hs'. rewrite !app_length in Hs'. cbn [length] in Hs'. lia. }
    apply (f_equal (firstn (length src))) in Hs'.
    rewrite firstn_app, Nat.sub_diag, firstn_O, app_nil_r, firstn_all in Hs'.
    rewrite L in Hs' at 1. rewrite firstn_app, Nat.sub_diag, firstn_O, app_nil_r, firstn_all in Hs'.
    symmetry. exact Hs'. }
  subst src'. exists src. split; [exact Hs|]. split; [exact Hrel|].
  rewrite Hs. apply (fold_string src dec); assumption.
Qed.

(* --- numbers and atoms --------------------------------------------- *)

Lemma partb_plainc b : partb b = true -> plainc (b2n b) = true.
Proof.
  intros H. apply partb_cases in H.
  destruct H as [H|[->|[->|[->|[->| ->]]]]]; try reflexivity.
  unfold isdig, is_digit, c0, c9 in H. unfold plainc, is_json_ws, is_markup, cSPACE, cTAB, cLF, cCR, cBSLASH, cQUOTE,
    cLBRACE, cRBRACE, cLBRACK, cRBRACK, cCOMMA, cCOLON. lia.
Qed.

Theorem fold_number s l rest p :
  lex_number s = Some (l, rest) ->
  exists tok, s = tok ++ rest /\ tok <> [] /\
    s1_fold false (OutS true) p s = consp p (s1_fold false (OutS false) (p + length tok) rest).
Proof.
  intros H. destruct (lex_number_shape s l rest H) as (pc & Hwf & -> & _).
  exists (render pc). split; [reflexivity|]. split.
  - intros E. apply (render_nonempty pc Hwf). rewrite E. reflexivity.
  - apply fold_scalar.
    + pose proof (partb_render pc Hwf) as Hp. rewrite forallb_forall in *.
      intros b Hb. apply partb_plainc. apply Hp. exact Hb.
    + intros E. apply (render_nonempty pc Hwf). rewrite E. reflexivity.
Qed.

Lemma bytes_eqb_eq : forall a b, bytes_eqb a b = true -> a = b.
Proof.
  unfold bytes_eqb. induction a as [|x a IH]; intros [|y b] H; try reflexivity; cbn [length] in H; try (cbn in H; discriminate).
  apply andb_true_iff in H. destruct H as [Hl Hf]. cbn [combine forallb fst snd] in Hf.
  apply andb_true_iff in Hf. destruct Hf as [Hxy Hf].
  unfold beq in Hxy. apply Byte.byte_dec_bl in Hxy. subst y. f_equal.
  apply IH. rewrite Hf, andb_true_r. apply Nat.eqb_eq in Hl. apply Nat.eqb_eq. lia.
Qed.

Lemma starts_with_split p s r : starts_with p s = Some r -> s = of_codes p ++ r.
Proof.
  unfold starts_with. intros H.
  destruct (bytes_eqb (firstn (length p) s) (of_codes p)) eqn:E; [|discriminate].
  injection H as <-. apply bytes_eqb_eq in E. rewrite <- E. symmetry. apply firstn_skipn.
Qed.

Lemma fold_atom codes rest p :
  forallb (fun b => plainc (b2n b)) (of_codes codes) = true -> codes <> [] ->
  s1_fold false (OutS true) p (of_codes codes ++ rest) =
  consp p (s1_fold false (OutS false) (p + length codes) rest).
Proof.
  intros H Hne. rewrite fold_scalar; [|exact H|destruct codes; [congruence|discriminate]].
  unfold of_codes. rewrite map_length. reflexivity.
Qed.
